/-
C01 — a query blocked by rules is answered locally and never forwarded.

Layer A theorems: they hold for EVERY pair of rule engines satisfying the
interface contract `EnginesWF` (what urlfilter's `MatchRequest` guarantees
about a positive answer), every configuration, every query and every upstream
answer.  Layer B (`C01_rules_*`, further down) instantiates the engines with the
model of urlfilter's rule semantics.

Domain: queries the server answers itself before filtering (`reserved`: AAAA
while AAAA is disabled, the Firefox canary name, the health-check name) are
outside the property; legacy rewrites, hosts-file, safe browsing / parental /
safe search are not part of the model.
-/
import AGH.Lemmas.FilterHandle
import AGH.Lemmas.FilterRules
import AGH.Lemmas.FilterPattern
import AGH.Model.FilterConfig
import AGH.Gen.C01Stages
set_option linter.unusedSimpArgs false
namespace AGH.Filter
open AGH AGH.Bytes

/-- The model satisfies the executable spec predicate the driver evaluates on
the implementation — for all engines, configurations (rewrite tables, hosts
containers, safe-browsing / parental verdicts included), upstream answers and queries. -/
theorem C01_model_meets_spec (e : Engines) (hwf : EnginesWF e) (c : Conf) (u : Upstream) (q : Query) :
    C01.specOK e c u q (handle e c u q) = true := by
  unfold C01.specOK C01.check
  cases hres : reserved c q
  · rw [handle_eq_main e c u q hres]
    simp only [Bool.false_eq_true, if_false]
    cases hpre : precededByOther e c q
    · simp only [Bool.false_eq_true, if_false]
      cases hb : blockedByRules e c q
      · simp only [Bool.false_eq_true, if_false]
        cases hs : serviceMayBlock e c q
        · cases hob : otherBlocks e c q
          · obtain ⟨h1, h2, h3⟩ := handleMain_forward e hwf c u q hpre hb hs hob
            cases happ : respFilterApplies e c q
            · obtain ⟨ql, hql, hnf, _⟩ := h1 happ
              simp [hql, Upstream.exchange, deliveredUnchanged, hnf]
            · cases hany : u.answer.any (offending e c)
              · have hclean : ∀ rr ∈ u.answer, offending e c rr = false := by
                  intro rr hrr
                  cases ho : offending e c rr
                  · rfl
                  · have : u.answer.any (offending e c) = true := List.any_eq_true.mpr ⟨rr, hrr, ho⟩
                    rw [hany] at this; cases this
                obtain ⟨ql, hql, hnf, _⟩ := h2 happ hclean
                simp only [hql, Upstream.exchange]
                cases hd : c.aaaaDisabled <;>
                  simp [hany, deliveredUnchanged, hd, hnf, stripC, eraseAll]
              · -- some record is offending: C02's business, but still forwarded exactly once
                obtain ⟨rr, hrr, ho⟩ := List.any_eq_true.mp hany
                have hfind : ∃ x, u.answer.find? (offending e c) = some x := by
                  cases hf : u.answer.find? (offending e c) with
                  | some x => exact ⟨x, rfl⟩
                  | none =>
                    have := List.find?_eq_none.mp hf rr hrr
                    simp [ho] at this
                obtain ⟨x, hx⟩ := hfind
                obtain ⟨pre, post, hsplit, hpre', hox⟩ := find_split _ _ _ hx
                rw [offending_eq] at hox
                cases hfb : firstBlocked e c x with
                | none => simp [hfb] at hox
                | some ht =>
                  obtain ⟨r, _, hr⟩ := h3 happ pre x post ht.1 ht.2 hsplit hpre' hfb
                  have hqn := genDNSFilterMessage_question c q r
                  simp [hr, hqn.1, hqn.2, hany]
          · -- safe browsing / parental: no claim, but the model does answer
            obtain ⟨res, _, hh⟩ := handleMain_otherBlocks e hwf c u q hpre hb hs hob
            simp [hh]
        · obtain ⟨res, hh, hips⟩ := handleMain_serviceOnly e hwf c u q hb hs
          have hsyn := genDNSFilterMessage_synthetic c q res (by simp [hips]) (by simp [hips])
          rw [hips] at hsyn
          simp [hh, hsyn]
      · obtain ⟨res, hh, hreason, hips⟩ := handleMain_blocked e hwf c u q hb
        have hfam := hostRuleIPs_family e hwf c (qhost q) q.qtype
        have hsyn := genDNSFilterMessage_synthetic c q res (by rw [hips]; exact hfam.1) (by rw [hips]; exact hfam.2)
        rw [hips] at hsyn
        simp only [hh, if_true, List.isEmpty_nil, Bool.not_true, Bool.false_eq_true, if_false, hsyn]
        rcases hreason with h | h <;> simp [h]
    · simp
  · simp

/-- **Blocked ⇒ answered locally, never forwarded.**  With protection and
filtering on, a name that no legacy rewrite / hosts entry answers first
(`blockedByRules` says so explicitly) and that matches a blocking rule /
hosts-style line / blocked service and no allow rule gets the blocking mode's
synthetic response, the upstream is not contacted at all, and the query-log
record says "filtered". -/
theorem C01_blocked_not_forwarded (e : Engines) (hwf : EnginesWF e) (c : Conf) (u : Upstream) (q : Query)
    (hdom : reserved c q = false) (hb : blockedByRules e c q = true) :
    ∃ m ql, handle e c u q = .done m [] (some ql) ∧
      syntheticOK c q (hostRuleIPs e c (qhost q) q.qtype q.qtype) m = true ∧
      ql.isFiltered = true ∧ (ql.reason = .blockList ∨ ql.reason = .blockedService) := by
  obtain ⟨res, hh, hreason, hips⟩ := handleMain_blocked e hwf c u q hb
  have hfam := hostRuleIPs_family e hwf c (qhost q) q.qtype
  have hsyn := genDNSFilterMessage_synthetic c q res (by rw [hips]; exact hfam.1) (by rw [hips]; exact hfam.2)
  rw [hips] at hsyn
  refine ⟨_, { reason := res.reason, isFiltered := true, svcName := res.svcName, origAnswer := none },
    ?_, hsyn, rfl, hreason⟩
  rw [handle_eq_main e c u q hdom, hh]

/-- **No upstream data.**  The whole outcome of a blocked query is the same
whatever the upstream would have answered. -/
theorem C01_blocked_independent_of_upstream (e : Engines) (hwf : EnginesWF e) (c : Conf)
    (u u' : Upstream) (q : Query) (hdom : reserved c q = false) (hb : blockedByRules e c q = true) :
    handle e c u q = handle e c u' q := by
  have hpre := notPreceded_of_blocked e c q hb
  obtain ⟨r, hr, h1, _, _, _⟩ := checkHost_spec e hwf c q hpre
  obtain ⟨hf, hreason, _⟩ := h1 hb
  rw [handle_eq_main e c u q hdom, handle_eq_main e c u' q hdom, handleMain_of_ruleBlock e c u q r hr hf hreason,
    handleMain_of_ruleBlock e c u' q r hr hf hreason]

/-- **The blocking-mode table** (5 modes × A / AAAA / HTTPS / other): the
response generated for a filtered result is the one the mode prescribes. -/
theorem C01_mode_table (c : Conf) (q : Query) (res : Result)
    (hA : q.qtype = tA → ∀ ip ∈ res.ips, ip.v6 = false)
    (hAAAA : q.qtype = tAAAA → ∀ ip ∈ res.ips, ip.v6 = true) :
    syntheticOK c q res.ips (genDNSFilterMessage c q res) = true :=
  genDNSFilterMessage_synthetic c q res hA hAAAA

/-- **Allowed ⇒ forwarded intact.**  A name (not answered first by a legacy
rewrite or the hosts container) matched by an allow rule is sent upstream
exactly once and the upstream's message is delivered as is, whatever the block
lists, services, safe browsing and parental say. -/
theorem C01_allow_forwarded (e : Engines) (hwf : EnginesWF e) (c : Conf) (u : Upstream) (q : Query)
    (hdom : reserved c q = false) (hpre : precededByOther e c q = false)
    (_hp : protectionOn c = true) (hf : filteringOn c = true)
    (ha : allowedName e c (qhost q) q.qtype = true) :
    ∃ ql, handle e c u q = .done (u.exchange q) [q] (some ql) ∧ ql.isFiltered = false := by
  have hb : blockedByRules e c q = false := by
    simp [blockedByRules, ruleBlockedName, serviceBlockedName, ha]
  have hs : serviceMayBlock e c q = false := by simp [serviceMayBlock, hf]
  have hob : otherBlocks e c q = false := by simp [otherBlocks, hf, ha]
  have happ : respFilterApplies e c q = false := by simp [respFilterApplies, ha]
  obtain ⟨ql, hql, hnf, _⟩ := (handleMain_forward e hwf c u q hpre hb hs hob).1 happ
  exact ⟨ql, by rw [handle_eq_main e c u q hdom, hql], hnf⟩

/-- **No match ⇒ forwarded intact.**  A name that nothing answers or blocks
(no rewrite / hosts entry, no rule or service block, no safe-browsing /
parental verdict) is sent upstream exactly once; if no answer record reveals a
blocked name (C02) the upstream's message is delivered with the original
question, rcode and records.  The one edit the code makes: where response
filtering runs and AAAA is disabled, HTTPS records lose their IPv6 hints. -/
theorem C01_nomatch_forwarded (e : Engines) (hwf : EnginesWF e) (c : Conf) (u : Upstream) (q : Query)
    (hdom : reserved c q = false) (hpre : precededByOther e c q = false)
    (hb : blockedByRules e c q = false) (hs : serviceMayBlock e c q = false) (hob : otherBlocks e c q = false)
    (hclean : ∀ rr ∈ u.answer, offending e c rr = false) :
    ∃ ql, ql.isFiltered = false ∧
      handle e c u q =
        .done { u.exchange q with
                answer := if respFilterApplies e c q && c.aaaaDisabled then u.answer.map stripRR else u.answer }
          [q] (some ql) := by
  obtain ⟨h1, h2, _⟩ := handleMain_forward e hwf c u q hpre hb hs hob
  cases happ : respFilterApplies e c q
  · obtain ⟨ql, hql, hnf, _⟩ := h1 happ
    refine ⟨ql, hnf, ?_⟩
    rw [handle_eq_main e c u q hdom, hql]
    simp [Upstream.exchange]
  · obtain ⟨ql, hql, hnf, _⟩ := h2 happ hclean
    refine ⟨ql, hnf, ?_⟩
    rw [handle_eq_main e c u q hdom, hql]
    cases hd : c.aaaaDisabled
    · have hid : stripC c = id := by funext rr; simp [stripC, hd]
      rw [hid, List.map_id]; simp
    · have hid : stripC c = stripRR := by funext rr; simp [stripC, hd]
      rw [hid]; simp

/-- The common case of the previous theorem: AAAA enabled ⇒ literally the upstream's message. -/
theorem C01_nomatch_forwarded_exact (e : Engines) (hwf : EnginesWF e) (c : Conf) (u : Upstream) (q : Query)
    (hdom : reserved c q = false) (hpre : precededByOther e c q = false)
    (hb : blockedByRules e c q = false) (hs : serviceMayBlock e c q = false) (hob : otherBlocks e c q = false)
    (hclean : ∀ rr ∈ u.answer, offending e c rr = false) (hd : c.aaaaDisabled = false) :
    ∃ ql, ql.isFiltered = false ∧ handle e c u q = .done (u.exchange q) [q] (some ql) := by
  obtain ⟨ql, hnf, h⟩ := C01_nomatch_forwarded e hwf c u q hdom hpre hb hs hob hclean
  refine ⟨ql, hnf, ?_⟩
  rw [h]; simp [hd, Upstream.exchange]

/-- **Protection off ⇒ nothing is blocked**: whatever the rules, services,
safe browsing and parental say, a query that no legacy rewrite / hosts entry
answers (those are not blocks and do not depend on protection) is forwarded
once and the upstream's message delivered untouched. -/
theorem C01_protection_off (e : Engines) (hwf : EnginesWF e) (c : Conf) (u : Upstream) (q : Query)
    (hdom : reserved c q = false) (hpre : precededByOther e c q = false) (hp : protectionOn c = false) :
    ∃ ql, ql.isFiltered = false ∧ handle e c u q = .done (u.exchange q) [q] (some ql) := by
  have hb : blockedByRules e c q = false := by simp [blockedByRules, hp]
  have hs : serviceMayBlock e c q = false := by simp [serviceMayBlock, hp]
  have hob : otherBlocks e c q = false := by simp [otherBlocks, hp]
  have happ : respFilterApplies e c q = false := by simp [respFilterApplies, hp]
  obtain ⟨ql, hql, hnf, _⟩ := (handleMain_forward e hwf c u q hpre hb hs hob).1 happ
  exact ⟨ql, hnf, by rw [handle_eq_main e c u q hdom, hql]⟩

/-- … and with protection off nothing is ever recorded as filtered, whatever the
rewrite table and the hosts container hold. -/
theorem C01_protection_off_never_filtered (e : Engines) (c : Conf) (q : Query)
    (hp : protectionOn c = false) (res : Result)
    (h : checkHost e c (trimDot q.name) q.qtype (settings c) = .ok res) : res.isFiltered = false := by
  have hoff : (protectionOn c && filteringOn c) = false := by simp [hp]
  unfold checkHost at h
  by_cases hh : trimDot q.name = []
  · simp [hh] at h; rw [← h]
  · simp only [hh, if_false] at h
    by_cases h1 : (if (settings c).filtering = true then rewriteResult e c (lower (trimDot q.name)) q.qtype else {}).reason = .rewritten
    · rw [if_pos h1] at h
      cases h
      split
      · exact rewriteResult_notFiltered _ _ _ _
      · rfl
    · rw [if_neg h1] at h
      by_cases h2 : (matchSysHosts e c (lower (trimDot q.name)) q.qtype (settings c)).reason ≠ .notFound
      · rw [if_pos h2] at h
        cases h
        exact matchSysHosts_notFiltered _ _ _ _ _
      · rw [if_neg h2, matchHost_off e c _ _ hoff] at h
        simp only [ne_eq, not_true_eq_false, if_false] at h
        cases h
        rw [checkAfterRules_eq]
        simp [hp]

/-- **Filtering off for the client ⇒ not subject to rule lists**: the outcome
does not depend on the block and allow engines at all, nor on the rewrite table's
sort or the hosts container's reverse lookups (only blocked services, safe
browsing and parental, which are not rule lists, can still act). -/
theorem C01_client_filtering_off (e e' : Engines) (c : Conf) (u : Upstream) (q : Query)
    (hf : filteringOn c = false) (hsvc : e.svc = e'.svc) (hsb : e.sb = e'.sb) (hpa : e.parental = e'.parental) :
    handle e c u q = handle e' c u q := by
  have hoff : (protectionOn c && filteringOn c) = false := by simp [hf]
  have hfs : (settings c).filtering = false := by rw [settings_filtering, hf]
  have hck : checkHost e c (trimDot q.name) q.qtype (settings c) =
      checkHost e' c (trimDot q.name) q.qtype (settings c) := by
    unfold checkHost
    split
    · rfl
    · dsimp only
      have hs1 : ∀ e0 : Engines, matchSysHosts e0 c (lower (trimDot q.name)) q.qtype (settings c) = {} := by
        intro e0; unfold matchSysHosts; simp [hfs]
      have hca : checkAfterRules e (lower (trimDot q.name)) (settings c) =
          checkAfterRules e' (lower (trimDot q.name)) (settings c) := by
        unfold checkAfterRules matchBlockedServices checkSafeBrowsing checkParental
        rw [hsvc, hsb, hpa]
      simp only [hfs, Bool.false_eq_true, if_false, hs1 e, hs1 e', matchHost_off e c _ _ hoff,
        matchHost_off e' c _ _ hoff, hca]
  have hmain : handleMain e c u q = handleMain e' c u q := by
    unfold handleMain
    rw [hck]
    cases checkHost e' c (trimDot q.name) q.qtype (settings c) with
    | error f => rfl
    | ok res =>
      dsimp only
      unfold forwardStage
      simp [hfs]
  unfold handle dhcpStage
  rw [hmain]

/-- … and with filtering off and neither a blocked service in force nor safe
browsing / parental matching, the query is simply forwarded. -/
theorem C01_client_filtering_off_forwarded (e : Engines) (hwf : EnginesWF e) (c : Conf) (u : Upstream) (q : Query)
    (hdom : reserved c q = false) (hf : filteringOn c = false) (hs : serviceMayBlock e c q = false)
    (hob : otherBlocks e c q = false) :
    ∃ ql, ql.isFiltered = false ∧ handle e c u q = .done (u.exchange q) [q] (some ql) := by
  have hb : blockedByRules e c q = false := by simp [blockedByRules, hf]
  have happ : respFilterApplies e c q = false := by simp [respFilterApplies, hf]
  obtain ⟨ql, hql, hnf, _⟩ :=
    (handleMain_forward e hwf c u q (notPreceded_of_filtOff e c q hf) hb hs hob).1 happ
  exact ⟨ql, hnf, by rw [handle_eq_main e c u q hdom, hql]⟩

/-- **The allow engine is consulted first**: any match there (even a
blocking-style line put into an allow list) makes the name allow-listed,
whatever the block engine says. -/
theorem C01_allow_engine_first (e : Engines) (hwf : EnginesWF e) (c : Conf) (h : Bytes) (t : Nat) (r : EngRes)
    (hp : protectionOn c = true) (hf : filteringOn c = true)
    (ha : e.allow (reqFor c h t) = some r) :
    matchHost e h t (settings c) = .ok { reason := .allowList } := by
  rw [matchHost_eq]
  simp only [hp, hf, ha, Bool.not_true, if_true]
  cases r with
  | net wl => rfl
  | hosts v4 v6 =>
    have := hwf.allow_hosts _ _ _ ha
    simp [processAllowList, this]

/-- An `@@` exception among block lists / custom rules outranks blocked
services (and safe browsing / parental). -/
theorem C01_exception_beats_service (e : Engines) (hwf : EnginesWF e) (c : Conf) (u : Upstream) (q : Query)
    (hdom : reserved c q = false) (hpre : precededByOther e c q = false)
    (hp : protectionOn c = true) (hf : filteringOn c = true)
    (hx : e.block (reqFor c (qhost q) q.qtype) = some (.net true)) :
    ∃ ql, handle e c u q = .done (u.exchange q) [q] (some ql) ∧ ql.isFiltered = false :=
  C01_allow_forwarded e hwf c u q hdom hpre hp hf (by simp [allowedName, hx])

/-- **A legacy rewrite precedes every block.**  With filtering on for the
client, a name to which a legacy rewrite applies is answered by the rewrite —
the canonical name resolved upstream and the CNAME prepended, or the rewrite's
addresses served locally — and the outcome does not depend on the allow / block
engines, the services, safe browsing, parental or the hosts container at all:
a blocking rule for the same name is never consulted, and neither the canonical
name nor the records the upstream returns for it are checked against the rules. -/
theorem C01_rewrite_precedes_block (e : Engines) (c : Conf) (u : Upstream) (q : Query)
    (hdom : reserved c q = false) (hf : filteringOn c = true) (hq : qhost q ≠ [])
    (hrw : legacyRewritten e c (qhost q) q.qtype = true) :
    handle e c u q =
      if rewriteCanon e c q ≠ [] ∧ rewriteIPs e c q = [] then
        .done { u.exchange { q with name := fqdn (rewriteCanon e c q) } with
                qname := q.name,
                answer := { name := q.name, ttl := c.ttl, data := .cname (fqdn (rewriteCanon e c q)) } ::
                  (u.exchange { q with name := fqdn (rewriteCanon e c q) }).answer }
          [{ q with name := fqdn (rewriteCanon e c q) }]
          (some { reason := .rewritten, isFiltered := false, svcName := [], origAnswer := none })
      else
        .done (cnameWithIPs c q (rewriteIPs e c q) (rewriteCanon e c q)) []
          (some { reason := .rewritten, isFiltered := false, svcName := [], origAnswer := none }) := by
  rw [handle_eq_main e c u q hdom, handleMain_rewritten e c u q hf hq hrw]

/-- Corollary: two systems that differ only in rule lists, services and
safe-browsing / parental / hosts verdicts treat a rewritten name identically. -/
theorem C01_rewrite_independent_of_rules (e e' : Engines) (c : Conf) (u : Upstream) (q : Query)
    (hdom : reserved c q = false) (hf : filteringOn c = true) (hq : qhost q ≠ [])
    (hsrt : e.srt = e'.srt) (hrw : legacyRewritten e c (qhost q) q.qtype = true) :
    handle e c u q = handle e' c u q := by
  have hrw' : legacyRewritten e' c (qhost q) q.qtype = true := by
    unfold legacyRewritten at hrw ⊢; rw [← hsrt]; exact hrw
  have h1 : rewriteCanon e c q = rewriteCanon e' c q := by simp only [rewriteCanon, hsrt]
  have h2 : rewriteIPs e c q = rewriteIPs e' c q := by simp only [rewriteIPs, hsrt]
  rw [C01_rewrite_precedes_block e c u q hdom hf hq hrw, C01_rewrite_precedes_block e' c u q hdom hf hq hrw',
    h1, h2]

/-- The hosts container answers before the rule engines as well (A / AAAA / PTR
it knows), protection on or off. -/
theorem C01_hosts_precede_block (e : Engines) (c : Conf) (u : Upstream) (q : Query)
    (hdom : reserved c q = false) (hf : filteringOn c = true) (hq : qhost q ≠ [])
    (hrw : legacyRewritten e c (qhost q) q.qtype = false)
    (hk : hostsKnows e c (qhost q) q.qtype = true) :
    ∃ vals, handle e c u q = .done (hostsResponse c q vals) []
      (some { reason := .autoHosts, isFiltered := false, svcName := [], origAnswer := none }) := by
  have hh : trimDot q.name ≠ [] := by
    intro h; apply hq; unfold qhost; rw [h]; rfl
  have hqh : lower (trimDot q.name) = qhost q := rfl
  -- the container's answer is a hit
  have hhit : (matchSysHosts e c (qhost q) q.qtype (settings c)).reason = .autoHosts ∧
      (matchSysHosts e c (qhost q) q.qtype (settings c)).isFiltered = false := by
    by_cases hs : (matchSysHosts e c (qhost q) q.qtype (settings c)).reason = .notFound
    · -- impossible: a silent container does not know the question
      exfalso
      unfold matchSysHosts at hs
      unfold hostsKnows at hk
      rw [settings_filtering, hf] at hs
      simp only [Bool.not_true, Bool.false_eq_true, if_false] at hs
      by_cases hqa : q.qtype = tA ∨ q.qtype = tAAAA
      · rw [if_pos hqa] at hs
        have hne : q.qtype ≠ tPTR := by rcases hqa with h | h <;> rw [h] <;> decide
        have hk1 : c.hosts.any (fun r => r.names.any (fun n => lower n == qhost q)) = true := by
          have : (q.qtype == tPTR) = false := by simp [hne]
          simp only [this, Bool.false_and, Bool.or_false, Bool.and_eq_true] at hk
          exact hk.2
        obtain ⟨r, hr, hrn⟩ := List.any_eq_true.mp hk1
        have hmem : r.addr ∈ (c.hosts.filter (fun r => r.names.any (fun n => lower n == qhost q))).map (·.addr) :=
          List.mem_map.mpr ⟨r, List.mem_filter.mpr ⟨hr, hrn⟩, rfl⟩
        have hemp : (hostsByName c.hosts (qhost q)).isEmpty = false := by
          unfold hostsByName
          rw [dedupIPs_isEmpty]
          cases hl : (c.hosts.filter (fun r => r.names.any (fun n => lower n == qhost q))).map (·.addr) with
          | nil => rw [hl] at hmem; cases hmem
          | cons _ _ => rfl
        simp [hemp] at hs
      · rw [if_neg hqa] at hs
        have hqa' : (q.qtype == tA || q.qtype == tAAAA) = false := by
          simp only [not_or] at hqa; simp [hqa.1, hqa.2]
        simp only [hqa', Bool.false_and, Bool.false_or, Bool.and_eq_true, beq_iff_eq] at hk
        rw [if_pos hk.1] at hs
        cases ha : e.arpa (qhost q) with
        | none => simp [ha] at hk
        | some a =>
          rw [ha] at hs
          simp only [ha] at hk
          obtain ⟨r, hr, hrn⟩ := List.any_eq_true.mp hk.2
          simp only [Bool.and_eq_true, Bool.not_eq_true'] at hrn
          have hemp : (hostsByAddr c.hosts a).isEmpty = false := by
            unfold hostsByAddr
            rw [dedupNames_isEmpty]
            cases hn : r.names with
            | nil => simp [hn] at hrn
            | cons n ns =>
              have : n ∈ (c.hosts.filter (fun r => r.addr.same a)).flatMap (·.names) :=
                List.mem_flatMap.mpr ⟨r, List.mem_filter.mpr ⟨hr, hrn.1⟩, by rw [hn]; exact List.mem_cons_self⟩
              cases hl : (c.hosts.filter (fun r => r.addr.same a)).flatMap (·.names) with
              | nil => rw [hl] at this; cases this
              | cons _ _ => rfl
          simp [hemp] at hs
    · rcases matchSysHosts_reason e c (qhost q) q.qtype (settings c) with h | h
      · exact absurd h hs
      · exact ⟨h, matchSysHosts_notFiltered _ _ _ _ _⟩
  refine ⟨(matchSysHosts e c (qhost q) q.qtype (settings c)).hostVals, ?_⟩
  rw [handle_eq_main e c u q hdom]
  unfold handleMain checkHost
  simp only [hh, if_false]
  rw [hqh, settings_filtering, hf]
  have hrr : (rewriteResult e c (qhost q) q.qtype).reason ≠ .rewritten := by
    unfold rewriteResult; unfold legacyRewritten at hrw; simp [hrw]
  simp [hrr, hhit.1, hhit.2]

/-! ## Non-vacuity -/

/-- "ads.example" -/
def nAds : Bytes := [97, 100, 115, 46, 101, 120, 97, 109, 112, 108, 101]
/-- "ok.ads.example" -/
def nOkAds : Bytes := [111, 107, 46, 97, 100, 115, 46, 101, 120, 97, 109, 112, 108, 101]

/-- a toy engine pair: `ads.example` is blocked by a network rule, `ok.ads.example` is
matched by a blocking rule too but allow-listed -/
def toyEngines : Engines where
  allow := fun r => if r.host = nOkAds then some (.net true) else none
  block := fun r => if r.host = nAds ∨ r.host = nOkAds then some (.net false) else none
  svc := fun _ _ => false

theorem toyEngines_wf : EnginesWF toyEngines where
  allow_empty := by intro r h; simp [toyEngines, h, nOkAds]
  block_empty := by intro r h; simp [toyEngines, h, nAds, nOkAds]
  allow_hosts := by intro r v4 v6 h; simp only [toyEngines] at h; split at h <;> simp at h
  block_hosts := by intro r v4 v6 h; simp only [toyEngines] at h; split at h <;> simp at h
  block_v4 := by intro r v4 v6 h; simp only [toyEngines] at h; split at h <;> simp at h
  block_v6 := by intro r v4 v6 h; simp only [toyEngines] at h; split at h <;> simp at h

def toyConf : Conf :=
  { mode := .nxdomain, bip4 := none, bip6 := none, ttl := 10, protEnabled := true, pause := .none,
    filtering := true, aaaaDisabled := false, schedNow := false, services := [], client := none,
    clientIP := { v6 := false, val := 167772161 } }

/-- "Ads.Example." A -/
def toyQ : Query := { name := [65, 100, 115, 46, 69, 120, 97, 109, 112, 108, 101, 46], qtype := tA }
/-- "ok.ads.example." A -/
def toyQ2 : Query := { name := [111, 107, 46, 97, 100, 115, 46, 101, 120, 97, 109, 112, 108, 101, 46], qtype := tA }

/-- "oK.Ads.example." A -/
def toyQ2Mixed : Query := { name := [111, 75, 46, 65, 100, 115, 46, 101, 120, 97, 109, 112, 108, 101, 46], qtype := tA }

/-- the hypotheses of `C01_blocked_not_forwarded` are satisfiable … -/
example : reserved toyConf toyQ = false ∧ blockedByRules toyEngines toyConf toyQ = true := by
  decide

/-- … and so are those of `C01_allow_forwarded`. -/
example : reserved toyConf toyQ2 = false ∧ protectionOn toyConf = true ∧ filteringOn toyConf = true ∧
    allowedName toyEngines toyConf (qhost toyQ2) tA = true := by
  decide

/-- concrete instance: NXDOMAIN with a SOA, nothing sent upstream -/
example : ∀ u, ∃ m ql, handle toyEngines toyConf u toyQ = .done m [] (some ql) ∧ m.rcode = rcNXDomain ∧ m.answer = [] := by
  intro u
  refine ⟨msgNXDOMAIN toyConf toyQ, { reason := .blockList, isFiltered := true, svcName := [], origAnswer := none }, ?_, rfl, rfl⟩
  rfl

/-! ## Layer B: theorems about the MODEL of urlfilter's rule semantics

These speak about `AGH/Model/FilterRules.lean`, a model of a library; its
agreement with the real urlfilter engines is checked by correspondence only. -/

/-- The engines computed from rule lists satisfy the interface contract Layer A assumes. -/
theorem C01_rules_engines_wf (block allow : List Rule) : EnginesWF (ruleEngines block allow) := by
  have hempty : ∀ rs (r : DNSReq), r.host = [] → engineMatch rs (reqInfo r) = none := by
    intro rs r h; simp [engineMatch, reqInfo, h]
  have hhosts : ∀ rs (q : ReqInfo) v4 v6, engineMatch rs q = some (.hosts v4 v6) →
      (v4.isEmpty && v6.isEmpty) = false ∧ (∀ ip ∈ v4, ip.v6 = false) ∧ (∀ ip ∈ v6, ip.v6 = true) := by
    intro rs q v4 v6 h
    unfold engineMatch at h
    split at h
    · cases h
    · split at h
      · cases h
      · dsimp only at h
        split at h
        · cases h
        · rename_i hne
          simp only [Option.some.injEq, EngRes.hosts.injEq] at h
          obtain ⟨h4, h6⟩ := h
          refine ⟨?_, ?_, ?_⟩
          · -- some hit exists, and it lands in one of the two lists
            cases hh : hostHits (hostRules rs) q.host with
            | nil => simp [hh] at hne
            | cons x xs =>
              rw [hh] at h4 h6
              subst h4; subst h6
              cases hx : x.v6 <;> simp [List.filter_cons, hx]
          · intro ip hip; subst h4; simpa using (List.mem_filter.mp hip).2
          · intro ip hip; subst h6; simpa using (List.mem_filter.mp hip).2
  exact {
    allow_empty := fun r h => hempty allow r h
    block_empty := fun r h => hempty block r h
    allow_hosts := fun r v4 v6 h => (hhosts allow _ v4 v6 h).1
    block_hosts := fun r v4 v6 h => (hhosts block _ v4 v6 h).1
    block_v4 := fun r v4 v6 h => (hhosts block _ v4 v6 h).2.1
    block_v6 := fun r v4 v6 h => (hhosts block _ v4 v6 h).2.2 }

/-- `@@…$important` beats everything. -/
theorem C01_rules_important_exception_wins (rs : List Rule) (q : ReqInfo) (hq : q.host ≠ [])
    (h : ∃ r ∈ matching rs q, r.whitelist = true ∧ r.important = true) :
    engineMatch rs q = some (.net true) := by
  obtain ⟨r, hr, hw, hi⟩ := h
  cases hb : bestRank (matching rs q) with
  | none => rw [(bestRank_none _).mp hb] at hr; simp at hr
  | some k =>
    have hge := bestRank_ge _ k hb r hr
    obtain ⟨x, _, hxk⟩ := bestRank_attained _ k hb
    have hr3 : r.rank = 3 := by simp [NetRule.rank, hw, hi]
    have hk : k = 3 := by
      rcases rank_cases x with h | h | h | h <;> omega
    rw [engineMatch_net rs q hq k hb, hk]; rfl

/-- `$important` beats a plain `@@` exception. -/
theorem C01_rules_important_beats_exception (rs : List Rule) (q : ReqInfo) (hq : q.host ≠ [])
    (h : ∃ r ∈ matching rs q, r.whitelist = false ∧ r.important = true)
    (hno : ∀ r ∈ matching rs q, ¬(r.whitelist = true ∧ r.important = true)) :
    engineMatch rs q = some (.net false) := by
  obtain ⟨r, hr, hw, hi⟩ := h
  cases hb : bestRank (matching rs q) with
  | none => rw [(bestRank_none _).mp hb] at hr; simp at hr
  | some k =>
    have hge := bestRank_ge _ k hb r hr
    obtain ⟨x, hx, hxk⟩ := bestRank_attained _ k hb
    have hr2 : r.rank = 2 := by simp [NetRule.rank, hw, hi]
    have hk : k = 2 := by
      rcases rank_cases x with h | h | h | h
      · exact absurd ⟨h.2.1, h.2.2⟩ (hno x hx)
      all_goals omega
    rw [engineMatch_net rs q hq k hb, hk]; rfl

/-- a plain `@@` exception beats a plain blocking rule. -/
theorem C01_rules_exception_beats_basic (rs : List Rule) (q : ReqInfo) (hq : q.host ≠ [])
    (h : ∃ r ∈ matching rs q, r.whitelist = true)
    (hno : ∀ r ∈ matching rs q, r.important = false) :
    engineMatch rs q = some (.net true) := by
  obtain ⟨r, hr, hw⟩ := h
  cases hb : bestRank (matching rs q) with
  | none => rw [(bestRank_none _).mp hb] at hr; simp at hr
  | some k =>
    have hge := bestRank_ge _ k hb r hr
    obtain ⟨x, hx, hxk⟩ := bestRank_attained _ k hb
    have hr1 : r.rank = 1 := by simp [NetRule.rank, hw, hno r hr]
    have hxi := hno x hx
    have hk : k = 1 := by
      rcases rank_cases x with h | h | h | h
      · simp [hxi] at h
      · simp [hxi] at h
      all_goals omega
    rw [engineMatch_net rs q hq k hb, hk]; rfl

/-- only blocking rules match ⇒ blocked by a network rule. -/
theorem C01_rules_basic_blocks (rs : List Rule) (q : ReqInfo) (hq : q.host ≠ [])
    (h : matching rs q ≠ []) (hno : ∀ r ∈ matching rs q, r.whitelist = false) :
    engineMatch rs q = some (.net false) := by
  cases hb : bestRank (matching rs q) with
  | none => exact absurd ((bestRank_none _).mp hb) h
  | some k =>
    obtain ⟨x, hx, hxk⟩ := bestRank_attained _ k hb
    have hxw := hno x hx
    have hk : (k == 1 || k == 3) = false := by
      rcases rank_cases x with h | h | h | h
      · simp [hxw] at h
      · simp [← hxk, h.1]
      · simp [hxw] at h
      · simp [← hxk, h.1]
    rw [engineMatch_net rs q hq k hb, hk]

/-- hosts-style lines count only when no network rule matches at all. -/
theorem C01_rules_net_over_hosts (rs : List Rule) (q : ReqInfo) (hq : q.host ≠ [])
    (h : matching rs q ≠ []) : ∃ wl, engineMatch rs q = some (.net wl) := by
  cases hb : bestRank (matching rs q) with
  | none => exact absurd ((bestRank_none _).mp hb) h
  | some k => exact ⟨_, engineMatch_net rs q hq k hb⟩

theorem C01_rules_hosts_only (rs : List Rule) (q : ReqInfo) (h : matching rs q = []) :
    engineMatch rs q = none ∨
    engineMatch rs q = some (.hosts ((hostHits (hostRules rs) q.host).filter (fun ip => !ip.v6))
                                     ((hostHits (hostRules rs) q.host).filter (fun ip => ip.v6))) := by
  unfold engineMatch
  unfold matching at h
  rw [h]
  cases hq : q.host.isEmpty
  · cases hh : (hostHits (hostRules rs) q.host).isEmpty
    · right; simp [bestRank, hh]
    · left; simp [bestRank, hh]
  · left; simp

/-- `$dnstype` filters: a rule restricted to other types, or excluding this one, does not match. -/
theorem C01_rules_dnstype_filters (r : NetRule) (q : ReqInfo)
    (h : q.dnsType ∈ r.restrTypes ∨ (r.permTypes ≠ [] ∧ q.dnsType ∉ r.permTypes)) :
    netMatch r q = false := by
  have : matchDNSType r q.dnsType = false := by
    unfold matchDNSType
    have hne : ¬(r.permTypes.isEmpty = true ∧ r.restrTypes.isEmpty = true) := by
      intro ⟨h1, h2⟩
      rcases h with h | ⟨h', _⟩
      · cases hr : r.restrTypes with
        | nil => rw [hr] at h; cases h
        | cons _ _ => rw [hr] at h2; cases h2
      · cases hp : r.permTypes with
        | nil => exact h' hp
        | cons _ _ => rw [hp] at h1; cases h1
    rw [if_neg hne]
    by_cases hr : r.restrTypes.contains q.dnsType = true
    · rw [if_pos hr]
    · rw [if_neg hr]
      rcases h with h | ⟨h1, h2⟩
      · exact absurd (List.contains_iff_mem.mpr h) hr
      · have hp : (!r.permTypes.isEmpty) = true := by cases hp : r.permTypes <;> simp_all
        rw [if_pos hp]
        cases hc : r.permTypes.contains q.dnsType
        · rfl
        · exact absurd (List.contains_iff_mem.mp hc) h2
  simp [netMatch, this]

/-- `$denyallow` excludes the listed domains and their subdomains. -/
theorem C01_rules_denyallow_excludes (r : NetRule) (q : ReqInfo)
    (h : isDomainOrSubdomainOfAny q.host r.denyallow = true) : netMatch r q = false := by
  have hne : r.denyallow.isEmpty = false := by
    cases hd : r.denyallow with
    | nil => rw [hd] at h; simp [isDomainOrSubdomainOfAny] at h
    | cons _ _ => rfl
  have : matchRequestDomain r q.host = false := by
    unfold matchRequestDomain
    simp only [hne, Bool.false_eq_true, if_false]
    split <;> simp [h]
  simp [netMatch, this]

/-- `$client` scopes a rule: an excluded client, or one outside a non-empty permitted set, is not matched. -/
theorem C01_rules_client_scopes (r : NetRule) (q : ReqInfo)
    (h : r.restrClients.containsAny q.clientName q.clientIP = true ∨
         (r.permClients.len ≠ 0 ∧ r.permClients.containsAny q.clientName q.clientIP = false)) :
    netMatch r q = false := by
  have : matchClient r q.clientName q.clientIP = false := by
    unfold matchClient
    have hne : ¬(r.restrClients.len = 0 ∧ r.permClients.len = 0) := by
      intro ⟨h0, h0'⟩
      rcases h with h | ⟨h1, _⟩
      · unfold Clients.len at h0
        have hh : r.restrClients.hosts = [] := by
          cases hx : r.restrClients.hosts with
          | nil => rfl
          | cons _ _ => rw [hx] at h0; simp at h0
        have hn : r.restrClients.nets = [] := by
          cases hx : r.restrClients.nets with
          | nil => rfl
          | cons _ _ => rw [hx] at h0; simp at h0
        unfold Clients.containsAny at h
        rw [hh, hn] at h
        cases hip : q.clientIP <;> simp [hip] at h
      · exact h1 h0'
    rw [if_neg hne]
    rcases h with h | ⟨h1, h2⟩
    · rw [if_pos h]
    · cases hr : r.restrClients.containsAny q.clientName q.clientIP
      · rw [if_neg (by simp), if_pos h1, h2]
      · rw [if_pos rfl]
  simp [netMatch, this]

/-- What `||domain^` means (model of urlfilter's pattern language): it matches the
domain itself, in any letter case of the rule … -/
theorem C01_rules_domain_pattern_self (d : Bytes) (hd : d.all plainByte = true) (hne : d ≠ []) :
    searchFrom (.startURL :: compileBody (d ++ [94])) (httpScheme ++ lower d) true = true := by
  apply search_first
  rw [compileBody_plain d hd]
  have hpre : httpScheme.isPrefixOf (httpScheme ++ lower d) = true := by simp
  have hdrop : (httpScheme ++ lower d).drop httpScheme.length = lower d := by simp
  simp only [matchHere, hpre, hdrop, Bool.true_and]
  have := matchHere_lits d [Tok.sep] [] false hne
  simp only [List.append_nil] at this
  rw [this, matchHere_sep_end]
  rfl

/-- … and every sub-domain `sub.domain` (sub made of host-name bytes). -/
theorem C01_rules_domain_pattern_sub (d sub : Bytes) (hd : d.all plainByte = true) (hne : d ≠ [])
    (hsub : sub.all plainByte = true) (hsne : sub ≠ []) :
    searchFrom (.startURL :: compileBody (d ++ [94])) (httpScheme ++ (sub ++ dot :: lower d)) true = true := by
  apply search_first
  rw [compileBody_plain d hd]
  have hpre : httpScheme.isPrefixOf (httpScheme ++ (sub ++ dot :: lower d)) = true := by simp
  have hdrop : (httpScheme ++ (sub ++ dot :: lower d)).drop httpScheme.length = sub ++ dot :: lower d := by simp
  simp only [matchHere, hpre, hdrop, Bool.true_and]
  have hmem := afterHostPrefix_mem sub (lower d) false hsub (Or.inl hsne)
  have hm : matchHere (d.map Tok.lit ++ [Tok.sep]) (lower d) false = true := by
    have := matchHere_lits d [Tok.sep] [] false hne
    simp only [List.append_nil] at this
    rw [this, matchHere_sep_end]
  have : (afterHostPrefix (sub ++ dot :: lower d) false).any
      (fun r => matchHere (d.map Tok.lit ++ [Tok.sep]) r false) = true :=
    List.any_eq_true.mpr ⟨_, hmem, hm⟩
  simp [this]

/-- … and NOTHING else among host names (letters, digits, `-`, `.`, `_`): `||d^`
matches exactly `d` and the names `sub.d`, compared case-insensitively — not
`example.organic`, `notexample.org` or `example.org.evil` for `d = example.org`. -/
theorem C01_rules_domain_pattern_only (d h : Bytes) (hd : d.all plainByte = true) (_hne : d ≠ [])
    (hh : h.all plainByte = true) :
    searchFrom (.startURL :: compileBody (d ++ [94])) (httpScheme ++ h) true = true ↔
      (lower h = lower d ∨ ∃ sub tail, sub ≠ [] ∧ h = sub ++ dot :: tail ∧ lower tail = lower d) := by
  rw [searchFrom_startURL_eq, compileBody_plain d hd]
  have hpre : httpScheme.isPrefixOf (httpScheme ++ h) = true := by simp
  have hdrop : (httpScheme ++ h).drop httpScheme.length = h := by simp
  simp only [matchHere, hpre, hdrop, Bool.true_and, Bool.or_eq_true]
  constructor
  · rintro (h1 | h2)
    · exact Or.inl ((lits_sep_plain d h false hh).mp h1)
    · obtain ⟨r, hr, hm⟩ := List.any_eq_true.mp h2
      obtain ⟨p, hp, _, hne'⟩ := (afterHostPrefix_iff h r false).mp hr
      have hpne : p ≠ [] := by
        rcases hne' with h' | h'
        · exact h'
        · cases h'
      have hrplain : r.all plainByte = true := by
        rw [hp] at hh
        have := all_append_left hh
        simp only [List.all_cons, Bool.and_eq_true] at this
        exact this.2
      exact Or.inr ⟨p, r, hpne, hp, (lits_sep_plain d r false hrplain).mp hm⟩
  · rintro (h1 | ⟨sub, tail, hsne, hsplit, hl⟩)
    · exact Or.inl ((lits_sep_plain d h false hh).mpr h1)
    · right
      have hsub : sub.all plainByte = true := by
        rw [hsplit, List.all_append] at hh
        simp only [Bool.and_eq_true] at hh
        exact hh.1
      have htail : tail.all plainByte = true := by
        rw [hsplit] at hh
        have := all_append_left hh
        simp only [List.all_cons, Bool.and_eq_true] at this
        exact this.2
      have hurl : sub.all isURLHostByte = true := by
        rw [List.all_eq_true] at hsub ⊢
        intro x hx; exact plainByte_urlHost x (hsub x hx)
      exact List.any_eq_true.mpr ⟨tail, (afterHostPrefix_iff h tail false).mpr ⟨sub, hsplit, hurl, Or.inl hsne⟩,
        (lits_sep_plain d tail false htail).mpr hl⟩

/-- the look-alikes of the property text, concretely -/
example : searchFrom (.startURL :: compileBody ([101, 120, 97, 109, 112, 108, 101, 46, 111, 114, 103] ++ [94]))
      (httpScheme ++ [101, 120, 97, 109, 112, 108, 101, 46, 111, 114, 103, 97, 110, 105, 99]) true = false ∧   -- example.organic
    searchFrom (.startURL :: compileBody ([101, 120, 97, 109, 112, 108, 101, 46, 111, 114, 103] ++ [94]))
      (httpScheme ++ [110, 111, 116, 101, 120, 97, 109, 112, 108, 101, 46, 111, 114, 103]) true = false ∧          -- notexample.org
    searchFrom (.startURL :: compileBody ([101, 120, 97, 109, 112, 108, 101, 46, 111, 114, 103] ++ [94]))
      (httpScheme ++ [101, 120, 97, 109, 112, 108, 101, 46, 111, 114, 103, 46, 101, 118, 105, 108]) true = false := by  -- example.org.evil
  decide

/-- C01 for engines built from rule lists: the Layer A theorem instantiated with Layer B. -/
theorem C01_rules_blocked_not_forwarded (block allow : List Rule) (c : Conf) (u : Upstream) (q : Query)
    (hdom : reserved c q = false) (hb : blockedByRules (ruleEngines block allow) c q = true) :
    ∃ m ql, handle (ruleEngines block allow) c u q = .done m [] (some ql) ∧
      syntheticOK c q (hostRuleIPs (ruleEngines block allow) c (qhost q) q.qtype q.qtype) m = true ∧
      ql.isFiltered = true ∧ (ql.reason = .blockList ∨ ql.reason = .blockedService) :=
  C01_blocked_not_forwarded _ (C01_rules_engines_wf block allow) c u q hdom hb

/-- … and the spec predicate holds for the model run on any rule lists. -/
theorem C01_rules_model_meets_spec (block allow : List Rule) (c : Conf) (u : Upstream) (q : Query) :
    C01.specOK (ruleEngines block allow) c u q (handle (ruleEngines block allow) c u q) = true :=
  C01_model_meets_spec _ (C01_rules_engines_wf block allow) c u q

/-! ### Non-vacuity (Layer B): a three-line list, parsed from text -/

/-- `||ads.example^`, `@@||ok.ads.example^$important`, `0.0.0.0 hosts.example`, `||tracker.example^` -/
def exLines : List Bytes :=
  [[124, 124, 97, 100, 115, 46, 101, 120, 97, 109, 112, 108, 101, 94],
   [64, 64, 124, 124, 111, 107, 46, 97, 100, 115, 46, 101, 120, 97, 109, 112, 108, 101, 94, 36, 105, 109, 112, 111, 114, 116, 97, 110, 116],
   [48, 46, 48, 46, 48, 46, 48, 32, 104, 111, 115, 116, 115, 46, 101, 120, 97, 109, 112, 108, 101],
   [124, 124, 116, 114, 97, 99, 107, 101, 114, 46, 101, 120, 97, 109, 112, 108, 101, 94]]

def exBlock : List Rule := (parseLines exLines).getD []

example : exBlock.length = 4 := by decide

/-- "X.Ads.Example." A -/
def exQ1 : Query := { name := [88, 46, 65, 100, 115, 46, 69, 120, 97, 109, 112, 108, 101, 46], qtype := tA }
/-- "ok.ads.example." A -/
def exQ2 : Query := { name := [111, 107, 46, 97, 100, 115, 46, 101, 120, 97, 109, 112, 108, 101, 46], qtype := tA }
/-- "hosts.example." AAAA -/
def exQ3 : Query := { name := [104, 111, 115, 116, 115, 46, 101, 120, 97, 109, 112, 108, 101, 46], qtype := tAAAA }

set_option maxRecDepth 8000 in
/-- a sub-domain in mixed case is blocked by `||ads.example^` (hypotheses of `C01_rules_blocked_not_forwarded`) … -/
example : reserved toyConf exQ1 = false ∧ blockedByRules (ruleEngines exBlock []) toyConf exQ1 = true := by decide

set_option maxRecDepth 8000 in
/-- … the `@@…$important` exception wins over it (hypotheses of `C01_allow_forwarded`) … -/
example : allowedName (ruleEngines exBlock []) toyConf (qhost exQ2) tA = true ∧
    blockedByRules (ruleEngines exBlock []) toyConf exQ2 = false := by decide

set_option maxRecDepth 8000 in
/-- … and a hosts-style line blocks every query type. -/
example : blockedByRules (ruleEngines exBlock []) toyConf exQ3 = true := by decide

/-! ## Translator tie: structural facts regenerated from the tree on every run
(`/verif/extract/cmd/c01` → `AGH/Gen/C01Stages.lean`).  The model's shape —
`handle` = initial short-circuits, then request-stage check, then upstream, then
response filter; `checkHost` = rewrites, then the checkers in this order — is
only right if these hold of the code; a deleted, added or reordered stage or
checker, a lost guard in front of `prx.Resolve` / `filterDNSResponse`, or a new
call of the proxy on the request path makes these theorems fail to check. -/

/-- the stage list of `handleDNSRequest` is the one `handle` transcribes, in this
order: initial, DDR, DHCP hosts, DHCP addrs, filtering-before, upstream,
filtering-after, ipset, query log + stats -/
theorem C01_tie_stage_order : Gen.stages = [0, 1, 2, 3, 4, 5, 6, 7, 8] := by decide

/-- blocked ⇒ no upstream call on that path: the `IsFiltered` case of
`filterDNSRequest` sets the response, `processUpstream` has exactly one
`prx.Resolve` and it sits behind `if pctx.Res != nil { return }`, and the only
other proxy call reachable from a request is `genBlockedHost`'s (safe browsing /
parental block host, modelled) -/
theorem C01_tie_blocked_path_has_no_resolve :
    Gen.filteredCaseSetsResponse = true ∧ Gen.upstreamGuarded = true ∧
    Gen.resolveCallsInProcessUpstream = 1 ∧
    Gen.resolveSites = [(0, 1), (1, 1), (2, 0), (3, 1)] := by decide

/-- `filterDNSRequest` dispatches in the order the model does: rewritten-CNAME,
filtered, rewritten / safe search, `$dnsrewrite` / hosts container -/
theorem C01_tie_request_cases : Gen.requestCases = [0, 1, 2, 2] := by decide

/-- `CheckHost`: legacy rewrites first, then hosts container, rule engines,
blocked services, safe browsing, parental, safe search — the order of `checkHost` -/
theorem C01_tie_checker_order :
    Gen.rewritesBeforeCheckers = true ∧ Gen.hostCheckers = [0, 1, 2, 3, 4, 5] := by decide

/-- the response filter runs only behind the protection / from-upstream guard -/
theorem C01_tie_after_response_guard : Gen.afterResponseGuarded = true := by decide

/-! ## The remaining clauses of the property text, one theorem each -/

/-- **Protection paused** (`protection_disabled_until` in the future) is protection off … -/
theorem C01_protection_paused (e : Engines) (hwf : EnginesWF e) (c : Conf) (u : Upstream) (q : Query)
    (hdom : reserved c q = false) (hpre : precededByOther e c q = false) (hp : c.pause = .future) :
    ∃ ql, ql.isFiltered = false ∧ handle e c u q = .done (u.exchange q) [q] (some ql) :=
  C01_protection_off e hwf c u q hdom hpre (by simp [protectionOn, hp])

/-- … and a pause that has run out is protection ON, whatever the stored flag says
(`UpdatedProtectionStatus` answers before the flag is rewritten). -/
theorem C01_pause_expired_is_on (c : Conf) (hp : c.pause = .past) :
    protectionOn c = true ∧ (settings c).protection = true := by
  rw [settings_protection]; simp [protectionOn, hp]

/-- **Blocked-services pause schedule**: while the schedule in force contains now,
no service blocks — the global one for clients without own services … -/
theorem C01_services_schedule_pauses (e : Engines) (c : Conf) (q : Query)
    (hcl : ∀ cl, c.client = some cl → cl.useOwnBlockedServices = false) (hs : c.schedNow = true) :
    servicesInForce c = [] ∧ serviceBlockedName e c (qhost q) q.qtype = false ∧ serviceMayBlock e c q = false := by
  have h0 : servicesInForce c = [] := by
    unfold servicesInForce
    cases hc : c.client with
    | none => simp [hs]
    | some cl => simp [hcl cl hc, hs]
  exact ⟨h0, by simp [serviceBlockedName, h0], by simp [serviceMayBlock, h0]⟩

/-- … and the client's own set and own schedule replace the global ones entirely
when the persistent client uses own blocked services. -/
theorem C01_services_client_override (c : Conf) (cl : ClientConf) (hc : c.client = some cl)
    (ho : cl.useOwnBlockedServices = true) :
    servicesInForce c = (if cl.schedNow then [] else cl.services) ∧
    (settings c).services = (if cl.schedNow then [] else cl.services) := by
  rw [settings_services]
  simp [servicesInForce, hc, ho]

/-- **Only ENABLED lists count**: a disabled list contributes no line to the engines. -/
theorem C01_rules_disabled_list_ignored (pre post : List (Bool × List Bytes)) (lines : List Bytes) :
    enabledLines (pre ++ (false, lines) :: post) = enabledLines (pre ++ post) := by
  simp [enabledLines]

/-- **Hosts-style lines block every query type**: if no network rule matches, a
hosts-style line listing the name makes the engine answer with host rules,
whatever the type asked (A, AAAA, HTTPS, MX, …). -/
theorem C01_rules_hosts_line_any_type (rs : List Rule) (hr : HostRule) (q : ReqInfo)
    (hmem : Rule.host hr ∈ rs) (hname : q.host ∈ hr.names) (hq : q.host ≠ [])
    (hnone : matching rs q = []) :
    ∃ v4 v6, engineMatch rs q = some (.hosts v4 v6) ∧ (v4.isEmpty && v6.isEmpty) = false := by
  have hhit : hr.ip ∈ hostHits (hostRules rs) q.host := by
    unfold hostHits
    apply List.mem_flatMap.mpr
    refine ⟨hr, ?_, ?_⟩
    · unfold hostRules
      exact List.mem_filterMap.mpr ⟨.host hr, hmem, rfl⟩
    · apply List.mem_map.mpr
      exact ⟨q.host, List.mem_filter.mpr ⟨hname, by simp⟩, rfl⟩
  have hne : (hostHits (hostRules rs) q.host).isEmpty = false := by
    cases hl : hostHits (hostRules rs) q.host with
    | nil => rw [hl] at hhit; cases hhit
    | cons _ _ => rfl
  refine ⟨(hostHits (hostRules rs) q.host).filter (fun ip => !ip.v6),
    (hostHits (hostRules rs) q.host).filter (fun ip => ip.v6), ?_, ?_⟩
  · unfold engineMatch
    unfold matching at hnone
    have : q.host.isEmpty = false := by cases hh : q.host <;> simp_all
    simp only [this, Bool.false_eq_true, if_false, hnone, bestRank, hne]
  · cases hv : hr.ip.v6
    · have : hr.ip ∈ (hostHits (hostRules rs) q.host).filter (fun ip => !ip.v6) :=
        List.mem_filter.mpr ⟨hhit, by simp [hv]⟩
      cases hl : (hostHits (hostRules rs) q.host).filter (fun ip => !ip.v6) with
      | nil => rw [hl] at this; cases this
      | cons _ _ => simp
    · have : hr.ip ∈ (hostHits (hostRules rs) q.host).filter (fun ip => ip.v6) :=
        List.mem_filter.mpr ⟨hhit, hv⟩
      cases hl : (hostHits (hostRules rs) q.host).filter (fun ip => ip.v6) with
      | nil => rw [hl] at this; cases this
      | cons _ _ => simp

/-- **The question is never re-spelled.**  Whatever the server answers
(blocked, forwarded, rewritten, from the hosts container), the question section
of the response carries the name and type of the request BYTE FOR BYTE (letter
case included; no hypothesis beyond the name not being a DHCP-client name under
the local domain); and when no legacy rewrite / hosts entry answers first and
neither safe browsing nor parental control blocks, the only question the
upstream is ever asked is again exactly the client's. -/
theorem C01_question_case_preserved (e : Engines) (hwf : EnginesWF e) (c : Conf) (u : Upstream) (q : Query)
    (m : Msg) (log : List Query) (ql : Option QLog) (h : handle e c u q = .done m log ql) :
    (dhcpHost c q = none → m.qname = q.name ∧ m.qtype = q.qtype) ∧
    (reserved c q = false → precededByOther e c q = false → otherBlocks e c q = false → ∀ x ∈ log, x = q) := by
  refine ⟨fun hd => handle_question e c u q hd m log ql h, ?_⟩
  intro hdom hpre hob
  rw [handle_eq_main e c u q hdom] at h
  exact handleMain_log e hwf c u q hpre hob m log ql h

/-- non-vacuity: the mixed-case `Ads.Example.` is blocked and the answer echoes that
spelling, not the lower-case one the rules were matched against -/
example : ∀ u, ∃ m ql, handle toyEngines toyConf u toyQ = .done m [] ql ∧ m.qname = toyQ.name ∧
    m.qname ≠ lower toyQ.name := by
  intro u
  refine ⟨msgNXDOMAIN toyConf toyQ, _, rfl, rfl, by decide⟩

/-- non-vacuity: a forwarded mixed-case query reaches the upstream in the client's spelling -/
example : ∀ u, ∃ m ql, handle toyEngines toyConf u toyQ2Mixed = .done m [toyQ2Mixed] ql ∧ m.qname = toyQ2Mixed.name := by
  intro u
  refine ⟨u.exchange toyQ2Mixed, _, rfl, rfl⟩

/-! ## Configuration-sequence model (`AGH/Model/FilterConfig.lean`) -/

/-- Disabling a list and enabling it again (same URL) puts it back in force with
the source's current content, whether or not that content changed meanwhile —
what the configuration-sequence mode checks the implementation against. -/
theorem C01_config_disable_enable (s : Cfg.State) (en : Cfg.Entry) (hne : s.source en.src ≠ [])
    (_hen : en.enabled = true) :
    (Cfg.setProps s (Cfg.setProps s en en.src false) en.src true).enabled = true ∧
    (Cfg.setProps s (Cfg.setProps s en en.src false) en.src true).file = s.source en.src ∧
    (Cfg.setProps s (Cfg.setProps s en en.src false) en.src true).src = en.src := by
  have hdl : ∀ e : Cfg.Entry, e.src = en.src → e.known = [] →
      (Cfg.download s e).1 = { e with file := s.source en.src, known := s.source en.src,
                                       count := (s.source en.src).length } := by
    intro e hs hk
    unfold Cfg.download
    rw [hs, hk]
    have : (s.source en.src != []) = true := by simpa using hne
    simp [this]
  cases hE : en.enabled
  · -- already disabled: the first call unloads, the second downloads
    simp [Cfg.setProps, hE, hdl]
  · simp [Cfg.setProps, hE, hdl]

/-- **Re-enabling cancels a pause.**  After an accepted `POST /control/protection`
with `enabled = true` (duration absent or 0) protection is on, whatever pause
was pending and whenever the request arrives; and an accepted switch-off
without duration is permanent (no deadline is left behind). -/
theorem C01_reenable_cancels_pause (s : Cfg.State) :
    (Cfg.setProtection s true 0).1 = 200 ∧
    protectionOn (Cfg.setProtection s true 0).2.conf = true ∧
    (∀ w, protectionOn (Cfg.wait (Cfg.setProtection s true 0).2 w).conf = true) ∧
    (∀ w, protectionOn (Cfg.wait (Cfg.setProtection s false 0).2 w).conf = false) := by
  simp [Cfg.setProtection, Cfg.wait, Cfg.State.conf, Cfg.State.pause, protectionOn]

/-- a pause is off until its deadline and on from then, without any further request -/
theorem C01_pause_runs_out (s : Cfg.State) (d w : Nat) (hd : d > 0) :
    protectionOn (Cfg.wait (Cfg.setProtection s false d).2 w).conf = decide (d ≤ w) := by
  have hd' : ¬(d > 0 ∧ false = true) := by simp
  simp only [Cfg.setProtection, hd', if_false, hd, if_true, Cfg.wait, Cfg.State.conf, Cfg.State.pause, protectionOn]
  by_cases h : s.now + w < s.now + d
  · have : ¬ d ≤ w := by omega
    simp [h, this]
  · have : d ≤ w := by omega
    simp [h, this]

/-- **Sequence version of `C01_model_meets_spec`.**  In every state of a
configuration sequence — whatever admin calls, protection switches, pauses and
waits led to it — a query answered by the model under the rules in force
satisfies the C01 monitor. -/
theorem C01_config_step_meets_spec (s : Cfg.State) (block allow : List Rule) (u : Upstream) (q : Query) :
    C01.specOK (ruleEngines block allow) s.conf u q (handle (ruleEngines block allow) s.conf u q) = true :=
  C01_rules_model_meets_spec block allow s.conf u q

end AGH.Filter
