import AGH.Spec.Filter
namespace AGH.Filter

theorem C01_placeholder : True := trivial

end AGH.Filter
