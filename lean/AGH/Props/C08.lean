import AGH.Spec.Record
namespace AGH.C08
theorem C08_placeholder : True := trivial
end AGH.C08
