/-
C08 — ignored names/clients and un-anonymised addresses never reach the query
log or the statistics.  Property theorems only; helper lemmas live in
AGH/Lemmas/Record*.lean and AGH/Lemmas/IgnoreNorm.lean.

All statements are about the executable model of AGH/Model/Record.lean (tied
to the Go code by the correspondence check) and quantify over every state,
configuration, client table, ignore list, query and operation history.
-/
import AGH.Lemmas.RecordStep
import AGH.Lemmas.IgnoreNorm
namespace AGH.C08
open AGH AGH.Bytes

/-! ## The monitor accepts every run of the model -/

/-- From any configuration the storage accepts, along any history of valid
operations (queries, flushes, live changes of both ignore lists, of the
anonymisation switch and of the clients' flags, removals, log searches,
statistics reads), every observable result passes the spec monitor. -/
theorem C08_model_meets_spec (a : ResetArgs) (s0 : State) (h0 : reset a = some s0)
    (ops : List Op) (hv : ∀ op ∈ ops, op.valid = true) : monitoredRun s0 ops = true := by
  have hi0 : Inv s0 := by
    simp only [reset, Option.map_eq_some_iff] at h0
    obtain ⟨cs, _, rfl⟩ := h0
    intro e he
    simp at he
  suffices h : ∀ (ops : List Op) (s : State), Inv s → (∀ op ∈ ops, op.valid = true) → monitoredRun s ops = true from
    h ops s0 hi0 hv
  intro ops
  induction ops with
  | nil => intro s _ _; rfl
  | cons op rest ih =>
    intro s hi hv
    have hop := hv op (List.mem_cons_self ..)
    simp only [monitoredRun, specOK, Bool.and_eq_true]
    refine ⟨?_, ih _ (Inv_step hi op hop) (fun o ho => hv o (List.mem_cons_of_mem _ ho))⟩
    rw [specStep_model hi op hop]
    rfl

/-- Every reachable state stores only valid canonical addresses (used by the
reporting theorems). -/
theorem C08_reachable_inv (a : ResetArgs) (s0 : State) (h0 : reset a = some s0)
    (ops : List Op) (hv : ∀ op ∈ ops, op.valid = true) : Inv (run s0 ops) := by
  have hi0 : Inv s0 := by
    simp only [reset, Option.map_eq_some_iff] at h0
    obtain ⟨cs, _, rfl⟩ := h0
    intro e he
    simp at he
  suffices h : ∀ (ops : List Op) (s : State), Inv s → (∀ op ∈ ops, op.valid = true) → Inv (run s ops) from
    h ops s0 hi0 hv
  intro ops
  induction ops with
  | nil => intro s hi _; exact hi
  | cons op rest ih =>
    intro s hi hv
    exact ih _ (Inv_step hi op (hv op (List.mem_cons_self ..))) (fun o ho => hv o (List.mem_cons_of_mem _ ho))

/-! ## Anonymisation -/

/-- `AnonymizeIP` zeroes the last 16 bits of an IPv4 (also IPv4-mapped) address
and the last 80 bits of an IPv6 address, keeps the length, and is idempotent. -/
theorem C08_anon_mask (a : Bytes) :
    (a.length = 4 ∨ a.length = 16 → masked (canon (anonymize a)) = true) ∧
    (anonymize a).length = a.length ∧
    anonymize (anonymize a) = anonymize a :=
  ⟨masked_canon_anonymize a, anonymize_length a, anonymize_idem a⟩

/-- With anonymisation on, whatever a query adds to the memory buffer or to the
statistics carries a masked address (a statistics key is either the ClientID
or the masked address). -/
theorem C08_anon_recorded_masked (s : State) (q : Query) (hq : q.addr.length = 4 ∨ q.addr.length = 16)
    (ha : s.conf.anon = true) :
    (∀ e ∈ (processQuery s q).mem, e ∈ s.mem ∨ masked e.ip = true) ∧
    (∀ x ∈ grown (processQuery s q).sClients s.sClients, keyMasked x = true) := by
  rw [processQuery_eq]
  constructor
  · intro e he
    simp only at he
    by_cases hc : logCond s q = true
    · rw [if_pos hc] at he
      rcases List.mem_append.mp he with he | he
      · exact Or.inl he
      · right
        simp only [List.mem_singleton] at he
        subst he
        simp only [logEntry, ha]
        exact masked_ipMut_true hq
    · rw [if_neg hc] at he; exact Or.inl he
  · intro x hx
    simp only at hx
    by_cases hc : countCond s q = true
    · rw [if_pos hc] at hx
      have := grown_bump hx
      subst this
      unfold statKey
      by_cases hcid : q.cid ≠ []
      · rw [if_pos hcid]; rfl
      · rw [if_neg hcid]
        simp only [keyMasked, ha]
        exact masked_ipMut_true hq
    · rw [if_neg hc, grown_self] at hx
      simp at hx

/-- With anonymisation on, every address the log API reports is masked — also
for records that were stored while it was off. -/
theorem C08_anon_reported_masked (a : ResetArgs) (s0 : State) (h0 : reset a = some s0)
    (ops : List Op) (hv : ∀ op ∈ ops, op.valid = true)
    (ha : (run s0 ops).conf.anon = true) :
    ∀ r ∈ search (run s0 ops), masked r.ip = true := by
  intro r hr
  obtain ⟨e, he, _, rfl⟩ := mem_search hr
  simp only [report, ha]
  exact masked_ipMut_true (C08_reachable_inv a s0 h0 ops hv e he)

/-! ## Ignored names -/

/-- A query for a name on the query-log ignore list leaves the memory buffer
and the file untouched; a query for a name on the statistics ignore list
leaves the statistics untouched. -/
theorem C08_ignored_name_never_recorded (s : State) (q : Query) :
    (Ignore.has s.conf.ignQ (Ignore.normalize q.name) = true →
      (processQuery s q).mem = s.mem ∧ (processQuery s q).file = s.file) ∧
    (Ignore.has s.conf.ignS (Ignore.normalize q.name) = true →
      (processQuery s q).sClients = s.sClients ∧ (processQuery s q).sDomains = s.sDomains) := by
  rw [processQuery_eq]
  constructor
  · intro h
    have : logCond s q = false := logCond_false_of_name (by simpa [nameIgnoredLog] using h)
    simp [this]
  · intro h
    have : countCond s q = false := countCond_false_of_name (by simpa [nameIgnoredStat] using h)
    simp [this]

/-- … for every letter case of the name and with or without the trailing dot:
the decision depends only on the lower-cased name without one final dot. -/
theorem C08_name_normalization (n variant : Bytes) (hne : n ≠ []) (hnd : n.getLast? ≠ some dot)
    (hcase : lower variant = lower n) :
    Ignore.normalize variant = Ignore.normalize n ∧
    Ignore.normalize (variant ++ [dot]) = Ignore.normalize n := by
  refine ⟨Ignore.normalize_eq_of_lower_eq hcase, ?_⟩
  have h1 : lower (variant ++ [dot]) = lower (n ++ [dot]) := by
    simp only [lower, List.map_append] at hcase ⊢
    rw [hcase]
  rw [Ignore.normalize_eq_of_lower_eq h1]
  exact Ignore.normalize_append_dot hne hnd

/-! ## Ignored clients -/

/-- A query from a client marked `ignore_querylog` — the persistent client
identified, for the REAL address of the query, by ClientID, exact address,
narrowest subnet or DHCP MAC, in that precedence — is not recorded in the
query log, whether anonymisation is on or off; likewise `ignore_statistics`. -/
theorem C08_ignored_client_never_recorded (s : State) (q : Query) :
    (fromIgnoredLog s.conf q.cid (canon q.addr) = true →
      (processQuery s q).mem = s.mem ∧ (processQuery s q).file = s.file) ∧
    (fromIgnoredStat s.conf q.cid (canon q.addr) = true →
      (processQuery s q).sClients = s.sClients ∧ (processQuery s q).sDomains = s.sDomains) := by
  rw [processQuery_eq]
  constructor
  · intro h
    simp [logCond_false_of_client h]
  · intro h
    simp [countCond_false_of_client h]

/-- The same in plain terms for the commonest case (F4's shape): a query without
ClientID whose real address is an exact-address identifier of some persistent
client, all such clients being flagged, is not logged — for every state of the
anonymisation switch. -/
theorem C08_ignored_exact_ip_client (s : State) (q : Query) (hcid : q.cid = [])
    (hex : ∃ c ∈ s.conf.clients, canon q.addr ∈ c.ips)
    (hall : ∀ c ∈ s.conf.clients, canon q.addr ∈ c.ips → c.ignLog = true) :
    (processQuery s q).mem = s.mem := by
  apply ((C08_ignored_client_never_recorded s q).1 _).1
  obtain ⟨c, hc, hip⟩ := hex
  have hl1 : s.conf.clients.filter (cidMatch · q.cid) = [] := by
    apply filter_eq_nil_of
    intro x _
    simp [cidMatch, hcid]
  have hin : c ∈ s.conf.clients.filter (·.ips.contains (canon q.addr)) :=
    mem_filter_of hc (by simpa using hip)
  have hne : (s.conf.clients.filter (·.ips.contains (canon q.addr))).isEmpty = false := by
    cases hl : s.conf.clients.filter (·.ips.contains (canon q.addr)) with
    | nil => rw [hl] at hin; simp at hin
    | cons _ _ => rfl
  simp only [fromIgnoredLog, ownersAt, ownersByAddr, hl1, List.isEmpty_nil, Bool.not_true,
    Bool.false_eq_true, if_false, hne, Bool.not_false, if_true, Bool.true_and]
  apply List.all_eq_true.mpr
  intro x hx
  obtain ⟨hxc, hxp⟩ := List.mem_filter.mp hx
  exact hall x hxc (by simpa using hxp)

/-- The code's sequential client search over `[clientID, realIP]` (both the
query log's `findMultiple`/`FindLoose` and the statistics'
`shouldCountClient`/`Find`) is sound and complete for the declarative owner
set: it finds a client iff one is identified, and the one it finds is
identified at the strongest level present. -/
theorem C08_finder_agrees_with_precedence (cs : List PClient) (ls : Leases) (cid a : Bytes) :
    (∀ c, modelOwner cs ls cid a = some c → c ∈ ownersAt cs ls cid a) ∧
    (ownersAt cs ls cid a ≠ [] → ∃ c, modelOwner cs ls cid a = some c) ∧
    findMultiple cs ls (idsOf cid a) = (modelOwner cs ls cid a).map (·.ignLog) ∧
    shouldCountClient cs ls (idsOf cid a) =
      (match modelOwner cs ls cid a with | some c => !c.ignStat | none => true) :=
  ⟨fun _ h => modelOwner_mem h, modelOwner_isSome, findMultiple_eq cs ls cid a, shouldCountClient_eq cs ls cid a⟩

/-! ## Disk, and what other operations can do -/

/-- Nothing but a query adds a record: every other operation leaves the records
held in file and memory together, and the statistics counters, exactly as they
were; a flush moves the memory records to the end of the file. -/
theorem C08_only_queries_record (s : State) (op : Op) (h : ∀ q, op ≠ .query q) :
    (step s op).1.file ++ (step s op).1.mem = s.file ++ s.mem ∧
    (step s op).1.sClients = s.sClients ∧ (step s op).1.sDomains = s.sDomains := by
  cases op with
  | query q => exact absurd rfl (h q)
  | flush => simp [step, flush]
  | qlogConf en an ign => simp [step]
  | statsConf en ign => simp [step]
  | setFlags n lg st =>
    simp only [step]
    cases setFlags s.conf.clients n lg st <;> simp
  | rmClient n =>
    simp only [step]
    cases rmClient s.conf.clients n <;> simp
  | search => simp [step]
  | stats => simp [step]

/-- History form of "never recorded, neither in memory nor on disk": after any
history, every record held in the file or in the memory buffer either was
there at the start or is the record of a query of the history which, in the
configuration in force when it was processed, was neither for an ignored name
nor from an ignored client. -/
theorem C08_every_stored_record_justified (ops : List Op) (s : State) :
    ∀ e ∈ (run s ops).file ++ (run s ops).mem,
      e ∈ s.file ++ s.mem ∨
      ∃ pre q post, ops = pre ++ Op.query q :: post ∧ RecordedBy (run s pre) q e := by
  induction ops generalizing s with
  | nil => intro e he; exact Or.inl he
  | cons op rest ih =>
    intro e he
    simp only [run] at he
    rcases ih (step s op).1 e he with h | ⟨pre, q, post, hops, hrec⟩
    · -- e is in the stores right after `op`
      by_cases hq : ∃ q, op = .query q
      · obtain ⟨q, rfl⟩ := hq
        simp only [step, processQuery_eq] at h
        by_cases hc : logCond s q = true
        · rw [if_pos hc] at h
          rcases List.mem_append.mp h with h | h
          · exact Or.inl (List.mem_append_left _ h)
          · rcases List.mem_append.mp h with h | h
            · exact Or.inl (List.mem_append_right _ h)
            · right
              simp only [List.mem_singleton] at h
              refine ⟨[], q, rest, rfl, h, ?_, ?_⟩
              · show nameIgnoredLog s.conf q.name = false
                cases hn : nameIgnoredLog s.conf q.name
                · rfl
                · rw [logCond_false_of_name hn] at hc; cases hc
              · show fromIgnoredLog s.conf q.cid (canon q.addr) = false
                cases hn : fromIgnoredLog s.conf q.cid (canon q.addr)
                · rfl
                · rw [logCond_false_of_client hn] at hc; cases hc
        · rw [if_neg hc] at h
          exact Or.inl h
      · have hq' : ∀ q, op ≠ .query q := fun q hqq => hq ⟨q, hqq⟩
        rw [(C08_only_queries_record s op hq').1] at h
        exact Or.inl h
    · right
      exact ⟨op :: pre, q, post, by rw [hops]; rfl, hrec⟩

/-! ## The log API -/

/-- Every record the log API returns — from the memory buffer or from the file —
is the report of a stored record whose name is not on the CURRENT ignore list
and whose client (by the stored ClientID and address) is not CURRENTLY marked
`ignore_querylog`. -/
theorem C08_search_refilters (s : State) :
    ∀ r ∈ search s, ∃ e ∈ s.mem ++ s.file, r = report s.conf e ∧
      Ignore.has s.conf.ignQ e.name = false ∧ fromIgnoredLog s.conf e.cid e.ip = false := by
  intro r hr
  obtain ⟨e, he, hk, rfl⟩ := mem_search hr
  obtain ⟨hn, hc⟩ := keeps_sound hk
  exact ⟨e, he, rfl, hn, hc⟩

/-! ## Non-vacuity -/

section Examples

def exClient : PClient :=
  { name := [99], ignLog := true, ignStat := true, ips := [[192, 168, 1, 5]], nets := [], macs := [], cids := [] }

/-- "||tracker.io^" -/
def exRule : Bytes := [124, 124, 116, 114, 97, 99, 107, 101, 114, 46, 105, 111, 94]
/-- "ADS.Tracker.IO." -/
def exName : Bytes := [65, 68, 83, 46, 84, 114, 97, 99, 107, 101, 114, 46, 73, 79, 46]

def exConf : Conf :=
  { anon := true, refuseAny := false, qlogOn := true, statsOn := true,
    ignQ := [exRule], ignS := [], clients := [exClient], leases := [] }

def exState : State := { conf := exConf, mem := [], file := [], sClients := [], sDomains := [] }

/-- F4's witness: with anonymisation on, client 192.168.1.5 is still found ignored. -/
example : fromIgnoredLog exConf [] (canon [192, 168, 1, 5]) = true := by decide
/-- … also when the query arrives from the IPv4-mapped form of the address. -/
example : fromIgnoredLog exConf [] (canon [0, 0, 0, 0, 0, 0, 0, 0, 0, 0, 255, 255, 192, 168, 1, 5]) = true := by decide
/-- A neighbour in the same /16 is not ignored, is recorded, and is recorded masked. -/
example : (processQuery exState { name := [97, 46], qtype := 1, addr := [192, 168, 1, 6], cid := [] }).mem =
    [{ name := [97], ip := [192, 168, 0, 0], cid := [] }] := by decide
/-- The ignore list matches a subdomain in any letter case with the trailing dot. -/
example : Ignore.has exConf.ignQ (Ignore.normalize exName) = true := by decide
/-- … and does not match a name that merely ends in the same letters. -/
example : Ignore.has exConf.ignQ (Ignore.normalize [120, 116, 114, 97, 99, 107, 101, 114, 46, 105, 111]) = false := by decide
/-- The root rule `|.^` matches the root name only. -/
example : Ignore.has [[124, 46, 94]] (Ignore.normalize [46]) = true ∧
    Ignore.has [[124, 46, 94]] (Ignore.normalize [97, 46]) = false := by decide
def exObj : ClientObj := { name := [99], ignLog := true, ignStat := true, ids := [CID.ip [192, 168, 1, 5]] }

def exArgs : ResetArgs :=
  { anon := true, refuseAny := false, qlogOn := true, statsOn := true,
    ignQ := [exRule], ignS := [], clients := [exObj], leases := [] }

/-- The hypotheses of `C08_model_meets_spec` are satisfiable by a non-trivial table. -/
example : reset exArgs = some exState := rfl

end Examples

end AGH.C08
