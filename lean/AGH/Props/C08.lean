/-
C08 — ignored names/clients and un-anonymised addresses never reach the query
log or the statistics.  Property theorems only; helper lemmas live in
AGH/Lemmas/Record*.lean and AGH/Lemmas/IgnoreNorm.lean.

All statements are about the executable model of AGH/Model/Record.lean (tied
to the Go code by the correspondence check) and quantify over every state,
configuration, client table, ignore list, query and operation history.
-/
import AGH.Lemmas.RecordStep
import AGH.Lemmas.IgnoreNorm
import AGH.Spec.RecordFacts
import AGH.Lemmas.IgnoreMatch
namespace AGH.C08
open AGH AGH.Bytes

/-! ## The monitor accepts every run of the model -/

/-- From any configuration the storage accepts, along any history of valid
operations (queries, flushes, live changes of both ignore lists, of the
anonymisation switch and of the clients' flags, removals, log searches,
statistics reads), every observable result passes the spec monitor. -/
theorem C08_model_meets_spec (a : ResetArgs) (s0 : State) (h0 : reset a = some s0)
    (hfix : a.fixZone = true)
    (ops : List Op) (hv : ∀ op ∈ ops, op.valid = true) : monitoredRun s0 ops = true := by
  have hi0 : Inv s0 := by
    simp only [reset, Option.map_eq_some_iff] at h0
    obtain ⟨cs, _, rfl⟩ := h0
    intro e he
    simp at he
  have hz0 : ZoneOK s0.conf := by
    simp only [reset, Option.map_eq_some_iff] at h0
    obtain ⟨cs, _, rfl⟩ := h0
    exact Or.inl hfix
  suffices h : ∀ (ops : List Op) (s : State), Inv s → ZoneOK s.conf → (∀ op ∈ ops, op.valid = true) →
      monitoredRun s ops = true from h ops s0 hi0 hz0 hv
  intro ops
  induction ops with
  | nil => intro s _ _ _; rfl
  | cons op rest ih =>
    intro s hi hz hv
    have hop := hv op (List.mem_cons_self ..)
    simp only [monitoredRun, specOK, Bool.and_eq_true]
    refine ⟨?_, ih _ (Inv_step hi op hop) (ZoneOK_step hz op hop) (fun o ho => hv o (List.mem_cons_of_mem _ ho))⟩
    rw [specStep_model hi hz op hop]
    rfl

/-- Every reachable state stores only valid canonical addresses (used by the
reporting theorems). -/
theorem C08_reachable_inv (a : ResetArgs) (s0 : State) (h0 : reset a = some s0)
    (ops : List Op) (hv : ∀ op ∈ ops, op.valid = true) : Inv (run s0 ops) := by
  have hi0 : Inv s0 := by
    simp only [reset, Option.map_eq_some_iff] at h0
    obtain ⟨cs, _, rfl⟩ := h0
    intro e he
    simp at he
  suffices h : ∀ (ops : List Op) (s : State), Inv s → (∀ op ∈ ops, op.valid = true) → Inv (run s ops) from
    h ops s0 hi0 hv
  intro ops
  induction ops with
  | nil => intro s hi _; exact hi
  | cons op rest ih =>
    intro s hi hv
    exact ih _ (Inv_step hi op (hv op (List.mem_cons_self ..))) (fun o ho => hv o (List.mem_cons_of_mem _ ho))

/-! ## Anonymisation -/

/-- `AnonymizeIP` zeroes the last 16 bits of an IPv4 (also IPv4-mapped) address
and the last 80 bits of an IPv6 address, keeps the length, and is idempotent. -/
theorem C08_anon_mask (a : Bytes) :
    (a.length = 4 ∨ a.length = 16 → masked (canon (anonymize a)) = true) ∧
    (anonymize a).length = a.length ∧
    anonymize (anonymize a) = anonymize a :=
  ⟨masked_canon_anonymize a, anonymize_length a, anonymize_idem a⟩

/-- Bit-exact form: `AnonymizeIP` keeps the first 16 bits of an IPv4 address
(bytes 0-1; for the IPv4-mapped 16-byte form the 12-byte prefix and the same
two bytes) resp. the first 48 bits of an IPv6 address, and every later byte is
zero — for all addresses and all byte positions. -/
theorem C08_anon_exact_bits (a : Bytes) (h : a.length = 4 ∨ a.length = 16) (i : Nat) :
    (a.length = 4 → keepBytes a = 2) ∧
    (is4in6 a = true → keepBytes a = 14) ∧
    (a.length = 16 → is4in6 a = false → keepBytes a = 6) ∧
    (i < keepBytes a → (anonymize a)[i]? = a[i]?) ∧
    (keepBytes a ≤ i → i < a.length → (anonymize a)[i]? = some 0) := by
  refine ⟨?_, ?_, ?_, (anonymize_bytes a h i).1, (anonymize_bytes a h i).2⟩
  · intro h4; simp [keepBytes, h4]
  · intro h6
    have := is4in6_length h6
    simp [keepBytes, this, h6]
  · intro h16 h6; simp [keepBytes, h16, h6]

/-- With anonymisation on, whatever a query adds to the memory buffer or to the
statistics carries a masked address (a statistics key is either the ClientID
or the masked address). -/
theorem C08_anon_recorded_masked (s : State) (q : Query) (hq : q.addr.length = 4 ∨ q.addr.length = 16)
    (ha : s.conf.anon = true) :
    (∀ e ∈ (processQuery s q).mem, e ∈ s.mem ∨ masked e.ip = true) ∧
    (∀ x ∈ grown (processQuery s q).sClients s.sClients, keyMasked x = true) := by
  rw [processQuery_eq]
  constructor
  · intro e he
    simp only at he
    by_cases hc : logCond s q = true
    · rw [if_pos hc] at he
      rcases List.mem_append.mp he with he | he
      · exact Or.inl he
      · right
        simp only [List.mem_singleton] at he
        subst he
        simp only [logEntry, ha]
        exact masked_ipMut_true hq
    · rw [if_neg hc] at he; exact Or.inl he
  · intro x hx
    simp only at hx
    by_cases hc : countCond s q = true
    · rw [if_pos hc] at hx
      have := grown_bump hx
      subst this
      unfold statKey
      by_cases hcid : q.cid ≠ []
      · rw [if_pos hcid]; rfl
      · rw [if_neg hcid]
        simp only [keyMasked, ha]
        exact masked_ipMut_true hq
    · rw [if_neg hc, grown_self] at hx
      simp at hx

/-- With anonymisation on, every address the log API reports is masked — also
for records that were stored while it was off. -/
theorem C08_anon_reported_masked (a : ResetArgs) (s0 : State) (h0 : reset a = some s0)
    (ops : List Op) (hv : ∀ op ∈ ops, op.valid = true)
    (ha : (run s0 ops).conf.anon = true) :
    ∀ r ∈ searchFull (run s0 ops),
      masked r.entry.ip = true ∧ infoUnmasked r.info = false ∧ r.leak = false := by
  intro r hr
  have hi := C08_reachable_inv a s0 h0 ops hv
  obtain ⟨e, he, _, rfl⟩ := mem_searchFull hr
  refine ⟨?_, reportFull_info_masked hi he ha, rfl⟩
  simp only [reportFull, report, ha]
  exact masked_ipMut_true (hi e he)

/-- `client_info` is part of a reported record only when anonymising changes
nothing about the stored address (`entIP.Equal(entry.IP)`), and an
address-valued field in it is the text of the stored address itself. -/
theorem C08_client_info_only_for_unchanged_address (s : State) (e : Entry) :
    ((reportFull s e).info.isSome = true → canon (ipMut s.conf.anon e.ip) = e.ip) ∧
    (∀ i a, (reportFull s e).info = some i → i.rule = .ip a → a = e.ip) := by
  unfold reportFull
  simp only
  by_cases hinc : (canon (ipMut s.conf.anon e.ip) == e.ip) = true
  · simp only [hinc, if_true]
    refine ⟨fun _ => by simpa using hinc, ?_⟩
    intro i a hi hr
    cases hf : findFull s.conf s.runtime (entryIDs e) with
    | none => rw [hf] at hi; simp at hi
    | some x =>
      rw [hf] at hi
      simp only [Option.map, Option.some.injEq] at hi
      subst hi
      exact mem_entryIDs_ip (findFull_rule_ip (i := x.1) (g := x.2) hf hr)
  · simp only [hinc]
    exact ⟨fun h => by simp at h, fun _ _ h => by simp at h⟩

/-- Runtime client records (rDNS, WHOIS, …) and the access settings never change
an ignore decision: the flag the full client finder — `clientOrArtificial` with
its runtime and artificial branches — hands to `ShouldLog` and to the search is
the one of the persistent-client search alone, for every runtime index and every
access list; and no query or stored record depends on the runtime index. -/
theorem C08_runtime_records_irrelevant (c : Conf) (rt : List RT) (cid a : Bytes) (s : State) (q : Query) :
    ((findFull c rt (idsOf cid a)).map (·.2) == some true) =
      (findMultiple c.clients c.leases (idsOf cid a) == some true) ∧
    (processQuery { s with runtime := rt } q).mem = (processQuery s q).mem ∧
    (processQuery { s with runtime := rt } q).sClients = (processQuery s q).sClients ∧
    (processQuery { s with runtime := rt } q).sDomains = (processQuery s q).sDomains ∧
    search { s with runtime := rt } = search s := by
  refine ⟨findFull_flag c rt cid a, ?_, ?_, ?_, rfl⟩ <;> (rw [processQuery_eq, processQuery_eq]; rfl)

/-! ## Ignored names -/

/-- A query for a name on the query-log ignore list leaves the memory buffer
and the file untouched; a query for a name on the statistics ignore list
leaves the statistics untouched. -/
theorem C08_ignored_name_never_recorded (s : State) (q : Query) :
    (Ignore.has s.conf.ignQ (Ignore.normalize q.name) = true →
      (processQuery s q).mem = s.mem ∧ (processQuery s q).file = s.file) ∧
    (Ignore.has s.conf.ignS (Ignore.normalize q.name) = true →
      (processQuery s q).sClients = s.sClients ∧ (processQuery s q).sDomains = s.sDomains) := by
  rw [processQuery_eq]
  constructor
  · intro h
    have : logCond s q = false := logCond_false_of_name (by simpa [nameIgnoredLog] using h)
    simp [this]
  · intro h
    have : countCond s q = false := countCond_false_of_name (by simpa [nameIgnoredStat] using h)
    simp [this]

/-- … for every letter case of the name and with or without the trailing dot:
the decision depends only on the lower-cased name without one final dot. -/
theorem C08_name_normalization (n variant : Bytes) (hne : n ≠ []) (hnd : n.getLast? ≠ some dot)
    (hcase : lower variant = lower n) :
    Ignore.normalize variant = Ignore.normalize n ∧
    Ignore.normalize (variant ++ [dot]) = Ignore.normalize n := by
  refine ⟨Ignore.normalize_eq_of_lower_eq hcase, ?_⟩
  have h1 : lower (variant ++ [dot]) = lower (n ++ [dot]) := by
    simp only [lower, List.map_append] at hcase ⊢
    rw [hcase]
  rw [Ignore.normalize_eq_of_lower_eq h1]
  exact Ignore.normalize_append_dot hne hnd

/-- What "on the ignore list" means for the commonest rule, declaratively: the
list `["||d^"]` (the rule in any letter case) ignores a name of host-name
characters iff the name is `d` or ends in `.d` with something in front — letter
case aside.  (The modelled engine is the one the correspondence check ties to
urlfilter.) -/
theorem C08_domain_rule_ignores_subdomains (d host : Bytes) (hne : d ≠ [])
    (hd : d.all Ignore.isHostCharB = true) (hh : host.all Ignore.isHostCharB = true) :
    Ignore.has [Ignore.domainRule d] host = true ↔
      host ≠ [] ∧ (lower host = lower d ∨
        ∃ p t, host = p ++ dot :: t ∧ p ≠ [] ∧ lower t = lower d) :=
  Ignore.has_domainRule d host hne hd hh

/-! ## Ignored clients -/

/-- A query from a client marked `ignore_querylog` — the persistent client
identified, for the REAL peer address of the query (zone included), by
ClientID, exact address, narrowest subnet, DHCP MAC, or as the only holder of
that zoned address — is not recorded in the query log, whether anonymisation is
on or off; likewise `ignore_statistics` (the tree as it is: `shouldCountClient`
searches like the query log's finder, `fixZone`). -/
theorem C08_ignored_client_never_recorded (s : State) (q : Query) :
    (fromIgnoredLog s.conf q.cid (canon q.addr) q.zone = true →
      (processQuery s q).mem = s.mem ∧ (processQuery s q).file = s.file) ∧
    (s.conf.fixZone = true → fromIgnoredStat s.conf q.cid (canon q.addr) q.zone = true →
      (processQuery s q).sClients = s.sClients ∧ (processQuery s q).sDomains = s.sDomains) := by
  rw [processQuery_eq]
  constructor
  · intro h
    simp [logCond_false_of_client h]
  · intro hz h
    simp [countCond_false_of_client (Or.inl hz) h]

/-- fe80::1 -/
def exLinkLocal : Bytes := [254, 128, 0, 0, 0, 0, 0, 0, 0, 0, 0, 0, 0, 0, 0, 1]
/-- a client configured as fe80::1%eth0 with both ignore flags -/
def exZoned : PClient :=
  { name := [122], ignLog := true, ignStat := true, ips := [],
    zips := [(exLinkLocal, [101, 116, 104, 48])], nets := [], macs := [], cids := [] }

/-- With the repair (`shouldCountClient` searches like the query log's finder)
both stores attribute every request to the same client, so their client
decisions can differ only by the two flags of that one client. -/
theorem C08_log_and_stats_same_owner (cs : List PClient) (ls : Leases) (cid a : Bytes) :
    findMultiple cs ls (idsOf cid a) = (modelOwnerL cs ls cid a).map (·.ignLog) ∧
    shouldCountClient true cs ls (idsOf cid a) =
      (match modelOwnerL cs ls cid a with | some c => !c.ignStat | none => true) :=
  ⟨findMultiple_eq cs ls cid a, shouldCountClient_eq true cs ls cid a⟩

/-- Before the repair (c47dc1e) they did not: that code counted the requests of a client
configured as fe80::1%eth0 with both flags set, while the query log ignores
them (witness on the model, reproduced on the real code by
fixes/c08/zoned_client_stats_test.go). -/
theorem C08_counterexample_zoned_client_counted_before_fix :
    findMultiple [exZoned] [] (idsOf [] exLinkLocal) = some true ∧
    shouldCountClient false [exZoned] [] (idsOf [] exLinkLocal) = true ∧
    shouldCountClient true [exZoned] [] (idsOf [] exLinkLocal) = false := by
  decide

/-- The same in plain terms for the commonest case (F4's shape): a query without
ClientID whose real address is an exact-address identifier of some persistent
client, all such clients being flagged, is not logged — for every state of the
anonymisation switch. -/
theorem C08_ignored_exact_ip_client (s : State) (q : Query) (hcid : q.cid = [])
    (hex : ∃ c ∈ s.conf.clients, canon q.addr ∈ c.ips)
    (hall : ∀ c ∈ s.conf.clients, canon q.addr ∈ c.ips → c.ignLog = true) :
    (processQuery s q).mem = s.mem := by
  apply ((C08_ignored_client_never_recorded s q).1 _).1
  obtain ⟨c, hc, hip⟩ := hex
  have hown : (ownersAt s.conf.clients s.conf.leases q.cid (canon q.addr)).isEmpty = false ∧
      (ownersAt s.conf.clients s.conf.leases q.cid (canon q.addr)).all (·.ignLog) = true := by
    have hl1 : s.conf.clients.filter (cidMatch · q.cid) = [] := by
      apply filter_eq_nil_of
      intro x _
      simp [cidMatch, hcid]
    have hin : c ∈ s.conf.clients.filter (·.ips.contains (canon q.addr)) :=
      mem_filter_of hc (by simpa using hip)
    have hne : (s.conf.clients.filter (·.ips.contains (canon q.addr))).isEmpty = false := by
      cases hl : s.conf.clients.filter (·.ips.contains (canon q.addr)) with
      | nil => rw [hl] at hin; simp at hin
      | cons _ _ => rfl
    simp only [ownersAt, ownersByAddr, hl1, List.isEmpty_nil, Bool.not_true,
      Bool.false_eq_true, if_false, hne, Bool.not_false, if_true, true_and]
    apply List.all_eq_true.mpr
    intro x hx
    obtain ⟨hxc, hxp⟩ := List.mem_filter.mp hx
    exact hall x hxc (by simpa using hxp)
  simp [fromIgnoredLog, ownersZ, hown.1, hown.2]

/-- The code's sequential client search over `[clientID, realIP]` (both the
query log's `findMultiple`/`FindLoose` and the statistics'
`shouldCountClient`/`Find`) is sound and complete for the declarative owner
set: it finds a client iff one is identified, and the one it finds is
identified at the strongest level present. -/
theorem C08_finder_agrees_with_precedence (cs : List PClient) (ls : Leases) (cid a : Bytes) :
    (∀ c, modelOwner cs ls cid a = some c → c ∈ ownersAt cs ls cid a) ∧
    (ownersAt cs ls cid a ≠ [] → ∃ c, modelOwner cs ls cid a = some c) ∧
    (∀ loose, shouldCountClient loose cs ls (idsOf cid a) =
      (match statOwner loose cs ls cid a with | some c => !c.ignStat | none => true)) ∧
    ((∀ p ∈ cs, p.zips = []) → ∀ loose, statOwner loose cs ls cid a = modelOwner cs ls cid a) := by
  refine ⟨fun _ h => modelOwner_mem h, modelOwner_isSome, fun l => shouldCountClient_eq l cs ls cid a, ?_⟩
  intro hz loose
  cases loose
  · rfl
  · have : byIPZoned cs a = none := by
      unfold byIPZoned
      apply List.find?_eq_none.mpr
      intro p hp
      simp [hz p hp]
    simp only [statOwner, if_true, modelOwnerL, this]
    cases modelOwner cs ls cid a <;> simp

/-! ## Disk, and what other operations can do -/

/-- Nothing but a query adds a record: every other operation — flush, restart
(shutdown flush + start on the same directory), rotation, storing a statistics
unit in stats.db, configuration changes, reads — leaves the records held in
log file and memory buffer together, and the statistics tables held in
stats.db and the memory unit together, exactly as they were. -/
theorem C08_only_queries_record (s : State) (op : Op) (h : ∀ q, op ≠ .query q) :
    (step s op).1.file ++ (step s op).1.mem = s.file ++ s.mem ∧
    (step s op).1.dClients ++ (step s op).1.sClients = s.dClients ++ s.sClients ∧
    (step s op).1.dDomains ++ (step s op).1.sDomains = s.dDomains ++ s.sDomains := by
  cases op with
  | query q => exact absurd rfl (h q)
  | flush => simp [step, flush]
  | qlogConf en an ign => simp [step]
  | statsConf en ign => simp [step]
  | setFlags n lg st =>
    simp only [step]
    cases setFlags s.conf.clients n lg st <;> simp
  | rmClient n =>
    simp only [step]
    cases rmClient s.conf.clients n <;> simp
  | search => simp [step]
  | stats => simp [step]
  | edit n id =>
    simp only [step]
    cases h1 : editClient s.conf.clients n id with
    | none => simp
    | some r => cases r <;> simp
  | runtime a h o => simp [step]
  | tick => simp [step, tick]
  | restart => simp [step, flush]
  | rotate =>
    simp only [step]
    by_cases hr : s.rotated = true
    · simp [hr]
    · by_cases hf : s.file.isEmpty = true <;> simp [hr, hf]

/-- A query itself never writes to disk: the log file and stats.db change only
through flush / restart and through storing a unit, which (previous theorem)
only move what memory already holds. -/
theorem C08_query_never_writes_disk (s : State) (q : Query) :
    (processQuery s q).file = s.file ∧ (processQuery s q).dClients = s.dClients ∧
    (processQuery s q).dDomains = s.dDomains := by
  rw [processQuery_eq]
  exact ⟨rfl, rfl, rfl⟩

/-- History form of "never recorded, neither in memory nor on disk": after any
history, every record held in the file or in the memory buffer either was
there at the start or is the record of a query of the history which, in the
configuration in force when it was processed, was neither for an ignored name
nor from an ignored client. -/
theorem C08_every_stored_record_justified (ops : List Op) (s : State) :
    ∀ e ∈ (run s ops).file ++ (run s ops).mem,
      e ∈ s.file ++ s.mem ∨
      ∃ pre q post, ops = pre ++ Op.query q :: post ∧ RecordedBy (run s pre) q e := by
  induction ops generalizing s with
  | nil => intro e he; exact Or.inl he
  | cons op rest ih =>
    intro e he
    simp only [run] at he
    rcases ih (step s op).1 e he with h | ⟨pre, q, post, hops, hrec⟩
    · -- e is in the stores right after `op`
      by_cases hq : ∃ q, op = .query q
      · obtain ⟨q, rfl⟩ := hq
        simp only [step, processQuery_eq] at h
        by_cases hc : logCond s q = true
        · rw [if_pos hc] at h
          rcases List.mem_append.mp h with h | h
          · exact Or.inl (List.mem_append_left _ h)
          · rcases List.mem_append.mp h with h | h
            · exact Or.inl (List.mem_append_right _ h)
            · right
              simp only [List.mem_singleton] at h
              refine ⟨[], q, rest, rfl, h, ?_, ?_⟩
              · show nameIgnoredLog s.conf q.name = false
                cases hn : nameIgnoredLog s.conf q.name
                · rfl
                · rw [logCond_false_of_name hn] at hc; cases hc
              · show fromIgnoredLog s.conf q.cid (canon q.addr) q.zone = false
                cases hn : fromIgnoredLog s.conf q.cid (canon q.addr) q.zone
                · rfl
                · rw [logCond_false_of_client hn] at hc; cases hc
        · rw [if_neg hc] at h
          exact Or.inl h
      · have hq' : ∀ q, op ≠ .query q := fun q hqq => hq ⟨q, hqq⟩
        rw [(C08_only_queries_record s op hq').1] at h
        exact Or.inl h
    · right
      exact ⟨op :: pre, q, post, by rw [hops]; rfl, hrec⟩

/-! ## The log API -/

/-- Every record the log API returns — from the memory buffer or from the file —
is the report of a stored record whose name is not on the CURRENT ignore list
and whose client (by the stored ClientID and address) is not CURRENTLY marked
`ignore_querylog`. -/
theorem C08_search_refilters (s : State) :
    ∀ r ∈ search s, ∃ e ∈ s.mem ++ s.file, r = report s.conf e ∧
      Ignore.has s.conf.ignQ e.name = false ∧ fromIgnoredLog s.conf e.cid e.ip = false := by
  intro r hr
  obtain ⟨e, he, hk, rfl⟩ := mem_search hr
  obtain ⟨hn, hc⟩ := keeps_sound hk
  exact ⟨e, he, rfl, hn, hc⟩

/-! ## Translator tie: the call structure of the current source -/

/-- Over the call-site tables regenerated from internal/dnsforward on every run:
every `QueryLog.Add` / `stats.Update` is reached only through `logQuery` /
`updateStats`, these only under `if s.shouldLog(…, ids)` / `if
s.shouldCountStat(…, ids)` in `processQueryLogsAndStats`; the single anonymizer
call on `ip` comes after `realIPStr` is taken and before `ipStr`, both
decisions and both records; `ids` is made of `realIPStr` and `dctx.clientID`
only. -/
theorem C08_record_calls_dominated :
    Facts.ok Gen.C08.calls Gen.C08.idsOperands Gen.C08.idsAssignments Gen.C08.realIPStrPos
      Gen.C08.ipStrPos = true := by
  decide +kernel

/-- Over the facts regenerated from internal/home on every run: the anonymizer is
constructed once and that one instance reaches both the query log (whose
config handlers switch it at run time) and the DNS server (which applies it
before anything is recorded). -/
theorem C08_gen_single_anonymizer :
    Facts.singleAnonymizer Gen.C08.anonymizerCalls Gen.C08.anonymizerToQueryLog
      Gen.C08.anonymizerToServer = true := by
  decide +kernel

/-- Over the facts regenerated from internal/home on every run: the three client
callbacks (`findMultiple`, `clientOrArtificial`, `shouldCountClient`) exist and
none of them merely TRIES a lock — under contention they wait and then look the
client up, they never guess. -/
theorem C08_gen_finders_always_look_up :
    (Gen.C08.finderFuncs == 3 && Gen.C08.finderTryLocks == 0) = true := by
  decide +kernel

/-! ## Non-vacuity -/

section Examples

def exClient : PClient :=
  { name := [99], ignLog := true, ignStat := true, ips := [[192, 168, 1, 5]], nets := [], macs := [], cids := [] }

/-- "||tracker.io^" -/
def exRule : Bytes := [124, 124, 116, 114, 97, 99, 107, 101, 114, 46, 105, 111, 94]
/-- "ADS.Tracker.IO." -/
def exName : Bytes := [65, 68, 83, 46, 84, 114, 97, 99, 107, 101, 114, 46, 73, 79, 46]

def exConf : Conf :=
  { anon := true, refuseAny := false, qlogOn := true, statsOn := true,
    ignQ := [exRule], ignS := [], clients := [exClient], leases := [] }

def exState : State := { conf := exConf, mem := [], file := [], sClients := [], sDomains := [] }

/-- F4's witness: with anonymisation on, client 192.168.1.5 is still found ignored. -/
example : fromIgnoredLog exConf [] (canon [192, 168, 1, 5]) = true := by decide
/-- … also when the query arrives from the IPv4-mapped form of the address. -/
example : fromIgnoredLog exConf [] (canon [0, 0, 0, 0, 0, 0, 0, 0, 0, 0, 255, 255, 192, 168, 1, 5]) = true := by decide
/-- A neighbour in the same /16 is not ignored, is recorded, and is recorded masked. -/
example : (processQuery exState { name := [97, 46], qtype := 1, addr := [192, 168, 1, 6], cid := [] }).mem =
    [{ name := [97], ip := [192, 168, 0, 0], cid := [] }] := by decide
/-- The ignore list matches a subdomain in any letter case with the trailing dot. -/
example : Ignore.has exConf.ignQ (Ignore.normalize exName) = true := by decide
/-- … and does not match a name that merely ends in the same letters. -/
example : Ignore.has exConf.ignQ (Ignore.normalize [120, 116, 114, 97, 99, 107, 101, 114, 46, 105, 111]) = false := by decide
/-- A plain name on the list is exact: "example.org" ignores example.org, not www.example.org. -/
example : Ignore.has [[101, 120, 97, 109, 112, 108, 101, 46, 111, 114, 103]]
      [101, 120, 97, 109, 112, 108, 101, 46, 111, 114, 103] = true ∧
    Ignore.has [[101, 120, 97, 109, 112, 108, 101, 46, 111, 114, 103]]
      [119, 119, 119, 46, 101, 120, 97, 109, 112, 108, 101, 46, 111, 114, 103] = false := by decide
/-- The root rule `|.^` matches the root name only. -/
example : Ignore.has [[124, 46, 94]] (Ignore.normalize [46]) = true ∧
    Ignore.has [[124, 46, 94]] (Ignore.normalize [97, 46]) = false := by decide
def exObj : ClientObj := { name := [99], ignLog := true, ignStat := true, ids := [CID.ip [192, 168, 1, 5]] }

def exArgs : ResetArgs :=
  { anon := true, refuseAny := false, qlogOn := true, statsOn := true,
    ignQ := [exRule], ignS := [], clients := [exObj], leases := [] }

/-- The hypotheses of `C08_model_meets_spec` are satisfiable by a non-trivial table. -/
example : reset exArgs = some exState := rfl

end Examples

end AGH.C08
