/-
C04 — Requests map to one persistent client by fixed precedence; the registry
stays consistent.

Property theorems only; the lemmas are in AGH/Lemmas/Clients*.lean.  All
quantifiers are unbounded: every history of add / update / remove / DHCP-lease
operations of every length, over clients with any number of addresses (IPv4,
IPv6 with zones, IPv4-mapped), overlapping CIDRs of every length, MACs and
ClientIDs; every lookup input.

`Inv` is the consistency of the index (every entry points at a stored client
that lists the identifier, every identifier of every stored client is indexed
to it, UIDs unique, the sorted CIDR key list sorted / duplicate-free / equal to
the domain of its value map).  `Refines s w` says the storage `s` implements
the abstract registry `w` (a plain list of clients): `Inv`, same clients, same
DHCP table.  `track`/`run` execute a history from a state.
-/
import AGH.Lemmas.ClientsHistory
import AGH.Lemmas.ClientsSetIDs
import AGH.Lemmas.ClientsPersist
import AGH.Gen.C04Lookup
namespace AGH.C04
open AGH AGH.Bytes
open AGH.C03 (IP Prefix inCIDR)

/-! ### the monitor never fires on the model -/

/-- For every history and every set of probes, after every operation, the
executable spec (`specStep`: no sharing after an accepted operation, every
name / identifier / request resolves as the abstract registry says, the listing
is the registry) accepts what the model shows.  This is the predicate the
driver evaluates on the IMPLEMENTATION's observations. -/
theorem C04_model_meets_spec (probes : List Probe) (ops : List Op) :
    monitorRun probes Storage.empty World.empty ops = true :=
  monitorRun_of_refines probes Refines.empty ops

/-! ### consistency of the index -/

/-- Every operation keeps the index consistent. -/
theorem C04_inv_preserved (s : Storage) (h : Inv s.index) (op : Op) : Inv (step s op).1.index :=
  step_inv h op

/-- The index is consistent after every history. -/
theorem C04_inv_reachable (ops : List Op) : Inv (run Storage.empty ops).index :=
  run_inv Inv.empty ops

/-- After any history every ClientID, address, MAC and name resolves to the
stored client that currently lists it, or to none; never to a removed client
(no stale entries) and never to a UID without a client. -/
theorem C04_lookup_current_owner (ops : List Op) :
    let s := run Storage.empty ops
    (∀ k c, s.index.findByClientID k = .found c ↔ (c ∈ s.index.clients ∧ k ∈ c.cids)) ∧
    (∀ k, s.index.findByClientID k = .none ↔ ∀ c ∈ s.index.clients, k ∉ c.cids) ∧
    (∀ a c, a ∈ c.ips → c ∈ s.index.clients → s.index.findByIP a = .found c) ∧
    (∀ m c, macOK m = true → (s.index.findByMAC m = some (.found c) ↔ (c ∈ s.index.clients ∧ m ∈ c.macs))) ∧
    (∀ n c, s.index.findByName n = .found c ↔ (c ∈ s.index.clients ∧ c.name = n)) := by
  intro s
  have h : Inv s.index := run_inv Inv.empty ops
  refine ⟨?_, ?_, ?_, ?_, ?_⟩
  · intro k c; exact (h.deref_map h.cids k).2.1 c
  · intro k; exact (h.deref_map h.cids k).1
  · intro a c ha hc
    have hm : s.index.ipToUID a = some c.uid := (h.ips a c.uid).mpr ⟨c, hc, rfl, ha⟩
    have := (h.deref_map h.ips a).2.1 c
    unfold Index.findByIP
    rw [hm]
    simp only
    rw [← hm]
    exact this.mpr ⟨hc, ha⟩
  · intro m c hok
    unfold Index.findByMAC
    simp only [hok, if_true, Option.some.injEq]
    exact (h.deref_map h.macs m).2.1 c
  · intro n c; exact (h.deref_name (n := n)).2.1 c

/-- The storage implements the abstract registry along every history: the
registry being the list of clients changed only by the accepted operations.
In particular no two clients ever share a name or an identifier, and every
probe inside the property's domain shows exactly what the registry says. -/
theorem C04_refines_registry (ops : List Op) :
    let sw := track Storage.empty World.empty ops
    sw.1 = run Storage.empty ops ∧ Refines sw.1 sw.2 ∧ noSharing sw.2.reg = true ∧
    ∀ p, probeInScope sw.2 p = true → modelSeen sw.1 p = expected sw.2 p := by
  intro sw
  have hr : Refines sw.1 sw.2 := track_refines Refines.empty ops
  exact ⟨track_fst _ _ _, hr, hr.noSharing, fun p hp => modelSeen_expected hr p hp⟩

/-! ### rejected operations -/

/-- An operation that is not accepted (any error, or a crash) leaves the whole
storage unchanged — index, client list and DHCP table. -/
theorem C04_reject_atomic (s : Storage) (op : Op) (h : (step s op).2 ≠ .ok) : (step s op).1 = s := by
  cases op with
  | add c => exact Storage.add_rejected s c h
  | update n c => exact Storage.update_rejected s n c h
  | remove n => exact Storage.remove_rejected s n h
  | dhcpSet ip mac => exact absurd rfl h
  | dhcpDel ip => exact absurd rfl h

/-- An `Add` that would make two clients share a name or an identifier is rejected. -/
theorem C04_clash_rejected_add (s : Storage) (h : Inv s.index) (c : Client)
    (hclash : ∃ d ∈ s.index.clients, d.uid ≠ c.uid ∧ ∃ k, k ∈ c.idents ∧ k ∈ d.idents) :
    (s.add c).2 ≠ .ok := by
  intro hok
  have : s.add c = ((s.add c).1, .ok) := by rw [← hok]
  obtain ⟨_, _, hnc, _⟩ := Storage.add_ok h this
  obtain ⟨d, hd, hne, k, hkc, hkd⟩ := hclash
  cases k with
  | name n =>
    rw [mem_idents_name] at hkc hkd
    exact hne (hnc.name c.name (by simp) d.uid ((h.names c.name d.uid).mpr ⟨d, hd, rfl, by simp [← hkd, hkc]⟩))
  | cid x =>
    rw [mem_idents_cid] at hkc hkd
    exact hne (hnc.cids x hkc d.uid ((h.cids x d.uid).mpr ⟨d, hd, rfl, hkd⟩))
  | ip x =>
    rw [mem_idents_ip] at hkc hkd
    exact hne (hnc.ips x hkc d.uid ((h.ips x d.uid).mpr ⟨d, hd, rfl, hkd⟩))
  | subnet x =>
    rw [mem_idents_subnet] at hkc hkd
    exact hne (hnc.subs x hkc d.uid ((h.subs x d.uid).mpr ⟨d, hd, rfl, hkd⟩))
  | mac x =>
    rw [mem_idents_mac] at hkc hkd
    exact hne (hnc.macs x hkc d.uid ((h.macs x d.uid).mpr ⟨d, hd, rfl, hkd⟩))

/-- An `Update` that would make the updated client share its new name or a new
identifier with ANOTHER client is rejected — for clients with any number of
identifiers of every kind and whatever the position of the shared one among
them (`k ∈ c.idents` is plain list membership), also when identifiers the
client already owns come before it. -/
theorem C04_clash_rejected_update (s : Storage) (h : Inv s.index) (n : Bytes) (c stored : Client)
    (hst : s.index.findByName n = .found stored)
    (hclash : ∃ d ∈ s.index.clients, d.uid ≠ stored.uid ∧ ∃ k, k ∈ c.idents ∧ k ∈ d.idents) :
    (s.update n c).2 ≠ .ok := by
  intro hok
  have : s.update n c = ((s.update n c).1, .ok) := by rw [← hok]
  obtain ⟨stored', hst', hname', _, hnc, _⟩ := Storage.update_ok h this
  have hs := ((h.deref_name (n := n)).2.1 stored).mp hst
  have : stored' = stored := by
    have h1 := (h.names n stored'.uid).mpr ⟨stored', hst', rfl, by simp [hname']⟩
    have h2 := (h.names n stored.uid).mpr ⟨stored, hs.1, rfl, by simp [hs.2]⟩
    rw [h1] at h2
    exact h.uids.eq_of_uid hst' hs.1 (Option.some.inj h2)
  subst this
  obtain ⟨d, hd, hne, k, hkc, hkd⟩ := hclash
  cases k with
  | name x =>
    rw [mem_idents_name] at hkc hkd
    exact hne (hnc.name c.name (by simp) d.uid ((h.names c.name d.uid).mpr ⟨d, hd, rfl, by simp [← hkd, hkc]⟩))
  | cid x =>
    rw [mem_idents_cid] at hkc hkd
    exact hne (hnc.cids x hkc d.uid ((h.cids x d.uid).mpr ⟨d, hd, rfl, hkd⟩))
  | ip x =>
    rw [mem_idents_ip] at hkc hkd
    exact hne (hnc.ips x hkc d.uid ((h.ips x d.uid).mpr ⟨d, hd, rfl, hkd⟩))
  | subnet x =>
    rw [mem_idents_subnet] at hkc hkd
    exact hne (hnc.subs x hkc d.uid ((h.subs x d.uid).mpr ⟨d, hd, rfl, hkd⟩))
  | mac x =>
    rw [mem_idents_mac] at hkc hkd
    exact hne (hnc.macs x hkc d.uid ((h.macs x d.uid).mpr ⟨d, hd, rfl, hkd⟩))

/-- Conversely a well-formed `Add` that shares nothing is accepted: rejections
are not vacuous. -/
theorem C04_add_accepted (s : Storage) (h : Inv s.index) (c : Client) (hv : c.validate = none)
    (hfresh : ∀ d ∈ s.index.clients, d.uid ≠ c.uid) (hmac : ∀ m ∈ c.macs, macOK m = true)
    (hfree : ∀ d ∈ s.index.clients, ∀ k, k ∈ c.idents → k ∉ d.idents) :
    (s.add c).2 = .ok :=
  Storage.add_accepted s h c hv hfresh hmac hfree

/-- No operation crashes unless a client carries a hardware address of an
impossible length (not 6, 8 or 20 bytes — `net.ParseMAC` never produces one). -/
theorem C04_no_panic (s : Storage) (h : Inv s.index) (op : Op) (hp : (step s op).2 = .panic) :
    ∃ c, (op = .add c ∨ ∃ n, op = .update n c) ∧ ∃ m ∈ c.macs, macOK m = false := by
  cases op with
  | add c => exact ⟨c, Or.inl rfl, Storage.add_panic h hp⟩
  | update n c => exact ⟨c, Or.inr ⟨n, rfl⟩, Storage.update_panic h hp⟩
  | remove n =>
    rcases Storage.remove_res (n := n) h with h' | h' <;> simp only [step] at hp <;> rw [h'] at hp <;> cases hp
  | dhcpSet ip mac => cases hp
  | dhcpDel ip => cases hp

/-! ### precedence -/

/-- `ApplyClientFiltering` attributes a request to the owner of its ClientID,
else of its address, else of the most specific CIDR containing it, else of the
MAC the DHCP server leased the address to — evaluated on the abstract registry. -/
theorem C04_precedence {s : Storage} {w : World} (h : Refines s w) (cid : Bytes) (a : IP)
    (hlease : ∀ m, w.lease a = some m → validMAC m = true) :
    s.resolve cid a = gotOf (attributed w.reg (w.lease a) cid a) ∧
    attributed w.reg (w.lease a) cid a =
      ((((owner w.reg (.cid cid)).orElse fun _ => owner w.reg (.ip a)).orElse fun _ =>
        (mostSpecific w.reg a).map (·.2)).orElse fun _ => (w.lease a).bind fun m => owner w.reg (.mac m)) := by
  refine ⟨resolve_attributed h cid a hlease, ?_⟩
  unfold attributed byAddress
  cases owner w.reg (.cid cid) <;> cases owner w.reg (.ip a) <;> cases (mostSpecific w.reg a) <;> rfl

/-- "Most specific": the chosen CIDR belongs to its owner and contains the
address, and no CIDR of any client containing the address is longer; among
equally long ones it has the smallest address. -/
theorem C04_most_specific {reg : Registry} {a : IP} {p : Prefix} {c : Client}
    (h : mostSpecific reg a = some (p, c)) :
    c ∈ reg ∧ p ∈ c.subnets ∧ inCIDR p a = true ∧
    ∀ d ∈ reg, ∀ q ∈ d.subnets, inCIDR q a = true →
      q.bits ≤ p.bits ∧ (q.bits = p.bits → p.addr ≤ q.addr) := by
  obtain ⟨hm, hbest⟩ := mostSpecific_some h
  obtain ⟨hc, hp, hin⟩ := mem_containing.mp hm
  refine ⟨hc, hp, hin, ?_⟩
  intro d hd q hq hqin
  have := hbest (q, d) (mem_containing.mpr ⟨hd, hq, hqin⟩)
  have hn : ¬ (q.bits > p.bits ∨ (q.bits = p.bits ∧ q.addr < p.addr)) := by
    rw [← moreSpecific_iff]; simpa using this
  omega

/-- A request that matches nothing is attributed to nobody and its settings
stay the global ones. -/
theorem C04_unmatched_untouched {s : Storage} (cid : Bytes) (a : IP) (g : Settings)
    (h : s.resolve cid a = .none) : s.applyClientFiltering cid a g = some g := by
  unfold Storage.applyClientFiltering
  rw [h]

/-! ### settings -/

/-- The client's own filtering / safe-search (switch and engine) /
safe-browsing / parental settings are applied exactly when it uses its own
settings, its own blocked services exactly when it uses its own blocked
services; otherwise the global values stay.  Name and tags always identify the
client; nothing else is written. -/
theorem C04_settings_opt_out (c : Client) (g : Settings) :
    (c.apply g).filteringEnabled = (if c.useOwnSettings then c.filteringEnabled else g.filteringEnabled) ∧
    (c.apply g).safeSearchEnabled = (if c.useOwnSettings then c.safeSearchEnabled else g.safeSearchEnabled) ∧
    (c.apply g).clientSafeSearch = (if c.useOwnSettings then c.safeSearch else g.clientSafeSearch) ∧
    (c.apply g).safeBrowsingEnabled = (if c.useOwnSettings then c.safeBrowsingEnabled else g.safeBrowsingEnabled) ∧
    (c.apply g).parentalEnabled = (if c.useOwnSettings then c.parentalEnabled else g.parentalEnabled) ∧
    (c.apply g).svc = (if c.useOwnBlockedServices then c.svc else g.svc) ∧
    (c.apply g).clientName = c.name ∧ (c.apply g).clientTags = c.tags ∧
    (c.apply g).protectionEnabled = g.protectionEnabled ∧ (c.apply g).untouched = g.untouched := by
  rw [Client.apply_eq]
  simp [effective]

/-- A client that uses the global settings leaves every one of them alone, also
when it has an own safe-search engine or own values stored. -/
theorem C04_global_settings_kept (c : Client) (g : Settings) (h : c.useOwnSettings = false) :
    (c.apply g).filteringEnabled = g.filteringEnabled ∧ (c.apply g).safeSearchEnabled = g.safeSearchEnabled ∧
    (c.apply g).clientSafeSearch = g.clientSafeSearch ∧
    (c.apply g).safeBrowsingEnabled = g.safeBrowsingEnabled ∧ (c.apply g).parentalEnabled = g.parentalEnabled := by
  rw [Client.apply_eq]
  simp [effective, h]

/-! ### the sorted CIDR map -/

/-- `subnetCompare` is a strict total order: longer prefixes first, then IPv4
before IPv6, then the smaller address; `0` exactly on equal prefixes. -/
theorem C04_subnetCompare_total_order (x y z : Prefix) :
    (subnetCompare x y = .eq ↔ x = y) ∧
    (subnetCompare x y = .lt → subnetCompare y z = .lt → subnetCompare x z = .lt) ∧
    (subnetCompare x y = .lt → subnetCompare y x ≠ .lt) ∧
    (x ≠ y → subnetCompare x y = .lt ∨ subnetCompare y x = .lt) := by
  refine ⟨subnetCompare_eq, ?_, ?_, ?_⟩
  · intro h1 h2
    exact subnetCompare_lt.mpr (plt_trans (subnetCompare_lt.mp h1) (subnetCompare_lt.mp h2))
  · intro h1 h2
    exact plt_asymm (subnetCompare_lt.mp h1) (subnetCompare_lt.mp h2)
  · intro hne
    rcases plt_trichotomy x y with h | h | h
    · exact absurd h hne
    · exact Or.inl (subnetCompare_lt.mpr h)
    · exact Or.inr (subnetCompare_lt.mpr h)

/-- Go's binary search over a sorted key list returns the number of keys
before the target, and reports "found" exactly when the target is a key. -/
theorem C04_bsearch_lower_bound (keys : List Prefix) (hs : Sorted keys) (t : Prefix) :
    (bsearch keys t).1 = (keys.takeWhile (fun k => subnetCompare k t == .lt)).length ∧
    ((bsearch keys t).2 = true ↔ t ∈ keys) :=
  ⟨bsearch_fst hs t, bsearch_snd hs t⟩

/-- After every history the key list of the CIDR map is sorted (hence
duplicate-free) and is exactly the set of CIDRs that have a value; `Del` never
hit `slices.Delete` out of range on the way (that would be `panic`, excluded by
`C04_no_panic`). -/
theorem C04_sortedmap_sound (ops : List Op) :
    let m := (run Storage.empty ops).index.subnetToUID
    Sorted m.keys ∧ m.keys.Nodup ∧ ∀ k, k ∈ m.keys ↔ (m.vals k).isSome = true := by
  intro m
  have h := (run_inv (s := Storage.empty) Inv.empty ops).sm
  exact ⟨h.sorted, h.sorted.nodup, h.dom⟩

/-! ### identifier strings -/

/-- `SetIDs` accepts a list of strings exactly when every one of them is an
address, a CIDR, a MAC or a valid ClientID label, and then the client is known
by exactly the identifiers the strings stand for (tried in that order; the
ClientID lower-cased) in addition to those it had; name and UID are untouched. -/
theorem C04_setIDs_classifies (c : Client) (ids : List IDString) :
    ((∃ c', setIDs c ids = .ok c') ↔ ∀ id ∈ ids, id.ident.isSome = true) ∧
    ∀ c', setIDs c ids = .ok c' →
      c'.name = c.name ∧ c'.uid = c.uid ∧
      ∀ x, x ∈ c'.idents ↔ (x ∈ c.idents ∨ ∃ id ∈ ids, id.ident = some x) := by
  constructor
  · constructor
    · rintro ⟨c', h⟩
      unfold setIDs at h
      cases hl : setIDsLoop c ids with
      | error e => rw [hl] at h; cases h
      | ok c1 => exact (setIDsLoop_spec hl).2.2.1
    · intro hall
      unfold setIDs
      cases hl : setIDsLoop c ids with
      | ok c1 => exact ⟨_, rfl⟩
      | error e =>
        obtain ⟨id, hid, hn⟩ := setIDsLoop_error hl
        have := hall id hid
        rw [hn] at this; cases this
  · intro c' h
    unfold setIDs at h
    cases hl : setIDsLoop c ids with
    | error e => rw [hl] at h; cases h
    | ok c1 =>
      rw [hl] at h
      simp only [Except.ok.injEq] at h
      subst h
      obtain ⟨hn, hu, _, hm⟩ := setIDsLoop_spec hl
      refine ⟨hn, hu, ?_⟩
      intro x
      rw [idents_sorted c1 x]
      exact hm x

/-- Reading note: an 8-byte hardware address written with colons is an IPv6
address for `SetIDs` (the address parser is asked first); written with dashes
it is a MAC. -/
example :
    (IDString.ident ⟨[48], some (.v6 0x0011002200330044005500660077 []), none, some [0, 17, 34, 51, 68, 85, 102, 119]⟩)
      = some (.ip (.v6 0x0011002200330044005500660077 [])) ∧
    (IDString.ident ⟨[48], none, none, some [0, 17, 34, 51, 68, 85, 102, 119]⟩)
      = some (.mac [0, 17, 34, 51, 68, 85, 102, 119]) := by decide

/-! ### the configuration file and restart

FINDING (EUI-64).  The unconditional statement "`toPersistent (forConfig c) = c`
for every stored client" is FALSE for the code as it is: `Persistent.IDs` prints
a MAC with colons, an 8-byte MAC printed that way is also the text of an IPv6
address, and `SetIDs` asks the address parser first — so after a configuration
write and a restart the client is known by an IPv6 address instead of its MAC
(`C04_counterexample_restart_eui64_before_fix`; the witness on the real code is
corpus/C04/finding-eui64-restart.txt).  The prepared repair
(fixes/c04/eui64_ids.patch) prints such a MAC with hyphens; the model carries
both variants (`fix`), `Persistable false` excludes 8-byte MACs, `Persistable
true` does not. -/

/-- The configuration record that `forConfig` writes for a persistable client is
read back by `toPersistent` as that very client: every identifier of every
kind, both "use own" switches, all own settings, blocked services and schedule,
tags, upstreams and cache settings, safe-search config and engine, ignore
flags, name, UID. -/
theorem C04_persist_roundtrip (fix : Bool) (c : Client) (h : Persistable fix c) :
    (c.forConfig fix).toPersistent = some (.ok c) :=
  roundtrip h

/-- With the repair the round trip needs no condition on the MACs at all: 6, 8
and 20-byte hardware addresses all come back as themselves. -/
theorem C04_persist_roundtrip_repaired (c : Client) (huid : c.uid ≠ 0)
    (h1 : sortBy ipLt c.ips = c.ips)
    (h2 : sortBy (fun x y => subnetCompare x y == .lt) c.subnets = c.subnets)
    (h3 : sortBy (fun x y => compare x y == .lt) c.macs = c.macs)
    (h4 : sortBy (fun x y => compare x y == .lt) c.cids = c.cids)
    (h5 : ∀ id ∈ c.cids, id ≠ [] ∧ C16.validLabel id = true ∧ Bytes.lower id = id)
    (h6 : c.safeSearch = if c.safeSearchEnabled then 1 else 0) :
    (c.forConfig true).toPersistent = some (.ok c) :=
  roundtrip (fix := true)
    { uid := huid, ips := h1, subnets := h2, macs := h3, cids := h4
      noEUI64 := fun hf => Bool.noConfusion hf, labels := h5, engine := h6 }

/-- After any history, if every stored client is persistable, a restart brings
up a storage that implements the SAME registry: same clients, consistent index,
and every probe (lookups by name and identifier, `Find`, the per-request
filtering settings) shows exactly what it showed before the restart. -/
theorem C04_restart_same_registry {fix : Bool} (src : RuntimeSources) {s : Storage} {w : World} (hr : Refines s w)
    (hp : ∀ c ∈ s.index.clients, Persistable fix c ∧ c.validate = none ∧ ∀ m ∈ c.macs, macOK m = true) :
    ∃ s', s.restart fix src = (s', .ok) ∧ Refines s' w ∧
      ∀ p, probeInScope w p = true → modelSeen s' p = modelSeen s p := by
  obtain ⟨s', h1, h2, h3, h4⟩ := restart_ok src hr.inv hp
  have hr' : Refines s' w := ⟨h2, h3.trans hr.perm, h4.trans hr.dhcp⟩
  refine ⟨s', h1, hr', ?_⟩
  intro p hsc
  rw [modelSeen_expected hr' p hsc, modelSeen_expected hr p hsc]

private def euiMAC : MAC := [0, 17, 34, 51, 68, 85, 102, 119]

private def euiClient : Client :=
  { uid := 1, name := [97], ips := [], subnets := [], macs := [euiMAC], cids := []
    invalidConf := false, useOwnSettings := false, filteringEnabled := false, safeSearchEnabled := false
    safeBrowsingEnabled := false, parentalEnabled := false, useOwnBlockedServices := false, svc := 1
    safeSearch := 0, tags := 0, ver := 1 }

/-- The finding on the model: a client known by the EUI-64 `00-11-22-33-44-55-66-77`
is found by it before the restart and by nobody after it; it is now known by
the IPv6 address `0:11:22:33:44:55:66:77`.  With the repair it keeps its MAC. -/
theorem C04_counterexample_restart_eui64_before_fix :
    let s := (Storage.empty.add euiClient).1
    (Storage.empty.add euiClient).2 = .ok ∧ s.findByMAC euiMAC = .client euiClient ∧
    (s.restart false ⟨false, false, false, false, false⟩).2 = .ok ∧ (s.restart false ⟨false, false, false, false, false⟩).1.findByMAC euiMAC = .none ∧
    ((s.restart false ⟨false, false, false, false, false⟩).1.index.findByIP (.v6 0x0011002200330044005500660077 [])).opt.map (·.uid) = some 1 ∧
    -- with the repair the client keeps its MAC
    (s.restart true ⟨false, false, false, false, false⟩).2 = .ok ∧ (s.restart true ⟨false, false, false, false, false⟩).1.findByMAC euiMAC = .client euiClient := by
  decide +kernel

/-- The `runtime_sources` switches (whois, arp, rdns, dhcp, hosts) never change
what a restart brings up, hence never the attribution of a request to a
persistent client — in particular the "MAC of the DHCP lease" step keeps
working with `runtime_sources.dhcp: false`. -/
theorem C04_runtime_sources_irrelevant (fix : Bool) (src src' : RuntimeSources) (s : Storage) (cid : Bytes) (a : IP) :
    s.restart fix src = s.restart fix src' ∧
    (s.restart fix src).1.resolve cid a = (s.restart fix src').1.resolve cid a ∧
    (s.restart fix src).1.dhcp = s.dhcp := by
  refine ⟨rfl, rfl, ?_⟩
  unfold Storage.restart
  simp only
  split
  · rfl
  · split
    · next s' h => exact addAll_dhcp (s := ⟨Index.empty, s.dhcp⟩) h
    · rfl

/-! ### at most one client -/

/-- After every history an identifier (of any kind) or a name belongs to at
most one stored client, so a request is attributed to at most one. -/
theorem C04_at_most_one_owner (ops : List Op) (a b : Client) (k : Ident)
    (ha : a ∈ (run Storage.empty ops).index.clients) (hb : b ∈ (run Storage.empty ops).index.clients)
    (hka : k ∈ a.idents) (hkb : k ∈ b.idents) : a = b :=
  owner_unique (run_inv (s := Storage.empty) Inv.empty ops).pairwise_disjoint ha hb hka hkb

/-! ### non-vacuity -/

section examples

private def mk (uid : Nat) (name : Bytes) (ips : List IP) (subs : List Prefix) (cids : List Bytes)
    (macs : List MAC) (own : Bool) : Client :=
  { uid := uid, name := name, ips := ips, subnets := subs, macs := macs, cids := cids,
    invalidConf := false, useOwnSettings := own, filteringEnabled := false, safeSearchEnabled := true,
    safeBrowsingEnabled := false, parentalEnabled := true, useOwnBlockedServices := own, svc := uid,
    safeSearch := uid, tags := 1, ver := uid }

/-- alice: 10.0.0.1 and 10.0.0.0/8; bob: 10.0.0.0/24 and ClientID "tv"; carol: a MAC. -/
private def alice := mk 1 [97] [.v4 0x0a000001] [⟨false, 0x0a000000, 8⟩] [] [] true
private def bob := mk 2 [98] [] [⟨false, 0x0a000000, 24⟩] [[116, 118]] [] false
private def carol := mk 3 [99] [] [] [] [[2, 0, 0, 0, 0, 1]] true
private def s3 := run Storage.empty [.add alice, .add bob, .add carol, .dhcpSet (.v4 0xc0a80101) [2, 0, 0, 0, 0, 1]]

/-- Precedence on a concrete registry: exact address beats CIDRs, the longer
CIDR beats the shorter, the ClientID beats the address, the DHCP lease's MAC
comes last; clashing operations are rejected with the registry unchanged; an
update that drops an identifier leaves no stale entry. -/
example :
    s3.resolve [] (.v4 0x0a000001) = .client alice ∧
    s3.resolve [] (.v4 0x0a000007) = .client bob ∧
    s3.resolve [] (.v4 0x0a010203) = .client alice ∧
    s3.resolve [116, 118] (.v4 0x0a000001) = .client bob ∧
    s3.resolve [] (.v4 0xc0a80101) = .client carol ∧
    s3.resolve [] (.v4 0x0b000001) = .none ∧
    (step s3 (.add (mk 4 [100] [] [⟨false, 0x0a000000, 24⟩] [] [] true))).2 = .err .subnetClash ∧
    (step s3 (.update [98] (mk 9 [97] [] [⟨false, 0x0a000000, 16⟩] [] [] true))).2 = .err .nameClash ∧
    (step s3 (.update [98] (mk 9 [98] [] [⟨false, 0x0a000000, 16⟩] [] [] true))).2 = .ok ∧
    (step s3 (.update [98] (mk 9 [98] [] [⟨false, 0x0a000000, 16⟩] [] [] true))).1.resolve [116, 118] (.v4 0x0b000001)
      = .none ∧
    (step s3 (.update [98] (mk 9 [98] [] [⟨false, 0x0a000000, 16⟩] [] [] true))).1.resolve [] (.v4 0x0a000007)
      = .client { mk 9 [98] [] [⟨false, 0x0a000000, 16⟩] [] [] true with uid := 2 } := by
  decide +kernel

/-- bob uses the global settings although he has an own safe-search engine and
own values stored: a request attributed to him keeps every global setting;
alice opts out and gets all of hers. -/
example :
    s3.applyClientFiltering [] (.v4 0x0a000007) globalSettings =
      some { globalSettings with clientName := [98], clientTags := 1 } ∧
    s3.applyClientFiltering [] (.v4 0x0a000001) globalSettings =
      some { clientName := [97], clientTags := 1, svc := 1, filteringEnabled := false, safeSearchEnabled := true,
             clientSafeSearch := 1, safeBrowsingEnabled := false, parentalEnabled := true,
             protectionEnabled := true, untouched := true } := by
  decide +kernel

end examples

/-! ## Translator tie: the precedence as the source states it (regenerated per run)

`extract/cmd/c04` rewrites `Gen/C04Lookup.lean` from the typed syntax of
`internal/client`: for every lookup function the lookup steps of its body in
source order.  `C04_find_first_match` says what the model's `Storage.find` is —
the FIRST identifier kind that yields a client, in the order ClientID, IP
address (exact, then narrowest subnet), MAC, DHCP lease of the address — and
`C04_T_lookup_order` says the current source walks the same steps in the same
order. -/

/-- The first result that is not "none" (a client or a crash ends the chain). -/
def firstGot : List Got → Got
  | [] => .none
  | .none :: rest => firstGot rest
  | g :: _ => g

theorem firstGot_single (g : Got) : firstGot [g] = g := by cases g <;> rfl

/-- `Storage.Find` is a first-match chain over the identifier kinds in the fixed
order ClientID → IP address → MAC → MAC leased to the address. -/
theorem C04_find_first_match (s : Storage) (id : IdStr) :
    s.find id = firstGot
      [ (s.index.findByClientID id.raw).got,
        (match id.asIP with | some ip => (s.index.findByIP ip).got | none => .none),
        (match id.asMAC with | some mac => s.findByMAC mac | none => .none),
        (match id.asIP with | some ip => s.findByLease ip | none => .none) ] := by
  unfold Storage.find
  cases h1 : s.index.findByClientID id.raw <;> simp only [Look.got, firstGot]
  cases hip : id.asIP with
  | none =>
    simp only [firstGot]
    cases hm : id.asMAC with
    | none => simp only [firstGot]
    | some mac =>
      simp only []
      cases hg : s.findByMAC mac <;> simp only [firstGot]
  | some ip =>
    simp only []
    cases h2 : s.index.findByIP ip <;> simp only [Look.got, firstGot]
    cases hm : id.asMAC with
    | none => simp only [firstGot, firstGot_single]
    | some mac =>
      simp only []
      cases hg : s.findByMAC mac <;> simp only [firstGot, firstGot_single]

/-- The current source performs the lookups in the order of the model:
`index.find` tries the ClientID map, then (if the string parses as an address)
the exact-address map followed by the subnet walk, then (if it parses as a
MAC) the MAC map; `Storage.Find` adds the DHCP fallback after it, under the
storage lock; `FindLoose` the zone-less comparison last. -/
theorem C04_T_lookup_order :
    Gen.C04.lookupSteps =
      [ ("index.find", ["findByClientID", "ParseAddr", "findByIP", "ParseMAC", "findByMAC"]),
        ("index.findByClientID", ["map:clientIDToUID", "map:uidToClient"]),
        ("index.findByIP", ["map:ipToUID", "map:uidToClient", "WithZone", "Range", "Contains", "map:uidToClient"]),
        ("index.findByMAC", ["macToKey", "map:macToUID", "map:uidToClient"]),
        ("Storage.Find", ["find", "ParseAddr", "MACByIP", "FindByMAC"]),
        ("Storage.FindLoose", ["find", "MACByIP", "FindByMAC", "findByIPWithoutZone"]),
        ("Storage.FindByMAC", ["findByMAC"]) ] ∧
      Gen.C04.findLocked = true ∧ Gen.C04.findLooseLocked = true ∧
      Gen.C04.findByMACLocksItself = false := by
  decide

/-- non-vacuity: a ClientID match wins over an address match for the same string -/
example (c : Client) : firstGot [.client c, .none] = .client c := rfl
example (c : Client) : firstGot [.none, .none, .panic, .client c] = .panic := rfl

end AGH.C04
