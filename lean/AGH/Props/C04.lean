import AGH.Spec.Clients
namespace AGH.C04

theorem C04_stub : noSharing [] = true := rfl

end AGH.C04
