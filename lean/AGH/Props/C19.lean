import AGH.Spec.HashPrefix
namespace AGH.C19
theorem C19_placeholder : True := trivial
end AGH.C19
