/-
C19 — safe-browsing / parental lookups reveal only hash prefixes; the cache
never changes the verdict.

Oracles (arbitrary parameters of every theorem): SHA-256 (`H`), the public
suffix list (`ps`, `icann`; assumption `psOK`), the map iteration order in
`storeInCache` (`ord`; any valid order), the LRU eviction policy (the concrete
golibs policy is in the model; the invariant proofs do not depend on what
`Set` evicts or rejects, so they hold for every cache size).
Environment assumptions are spelled out in `OpOK` (AGH/Lemmas/HashPrefixHistory).
-/
import AGH.Lemmas.HashPrefixConc
import AGH.Gen.C19Facts
namespace AGH.C19
open AGH AGH.Bytes

/-- **Which names are hashed.**  With a sane public-suffix oracle the strings
hashed for `host` are exactly: `host` and its parent domains, non-empty, with
at most three dots (last four labels), except the ICANN public suffix and its
parents. -/
theorem C19_hash_set (ps : Bytes) (icann : Bool) (host : Bytes) (hps : psOK ps icann host = true) (s : Bytes) :
    s ∈ hashedNames ps icann host ↔
      (s ∈ subdomains host ∧ s ≠ [] ∧ dots s ≤ 3 ∧ ¬ (icann = true ∧ isDotSuffixOrEq s ps = true)) := by
  rw [mem_hashedNames hps, mem_allowedNames]

/-- **At most four names** are hashed (hence at most four prefixes disclosed),
for every host and every oracle value. -/
theorem C19_at_most_four (H : Bytes → Hash) (ps : Bytes) (icann : Bool) (host : Bytes) :
    (hostnameToHashes H ps icann host).length ≤ 4 := by
  simp only [hostnameToHashes, List.length_map]
  exact length_hashedNames_le ps icann host

/-- **Exactly how many**: the host (non-empty, no trailing dot) is cut to its
last four labels FIRST, then the ICANN suffix with all its labels is left
out: `min(labels, 4) − suffixLabels` (so `a.b.c.d.co.uk` hashes two names,
`c.d.co.uk` and `d.co.uk`; for a private or unknown suffix nothing is left
out).  Labels = dots + 1. -/
theorem C19_hash_count (H : Bytes → Hash) (ps : Bytes) (icann : Bool) (host : Bytes)
    (hps : psOK ps icann host = true) (hne : host ≠ []) (hdot : host.getLast? ≠ some dot) :
    (hostnameToHashes H ps icann host).length =
      min (dots host + 1) 4 - (if icann then dots ps + 1 else 0) := by
  simp only [hostnameToHashes, List.length_map]
  exact length_hashedNames hps hne hdot

/-- **Every order Go may pick**: the iteration sequences of the `hashToStore`
map that the theorems quantify over (`validGroups`) are exactly the
permutations of the first-appearance order, and that order itself is one. -/
theorem C19_map_orders (recv : List Hash) (gs : List (Prefix × List Hash)) :
    validGroups recv (canonGroups recv) = true ∧
    (validGroups recv gs = true ↔ gs.Perm (canonGroups recv)) :=
  ⟨canonGroups_valid recv,
   fun h => validGroups_perm_canon h, fun h => validGroups_perm h (canonGroups_valid recv)⟩

/-- `subdomains` really is "the name and everything that follows a dot". -/
theorem C19_parents (s d : Bytes) :
    s ∈ subdomains d ↔ d ≠ [] ∧ (s = d ∨ ∃ pre, d = pre ++ dot :: s) :=
  mem_subdomains s d

/-- The question is a function of the 2-byte prefixes only. -/
theorem C19_privacy_noninterference (suffix : Bytes) (hs₁ hs₂ : List Hash)
    (h : hs₁.map prefix2 = hs₂.map prefix2) : getQuestion suffix hs₁ = getQuestion suffix hs₂ := by
  simp [getQuestion, h]

/-- **Privacy.**  Whatever the cache holds, whatever the upstream and the map
order do: if a check sends a question, the question is
`hex(p₁).hex(p₂).….<suffix>` where the `pᵢ` are the 2-byte hash prefixes of
some of the allowed names of `host` (in order) — nothing else of the name
enters it. -/
theorem C19_privacy (cf : Conf) (now : Nat) (o : CheckOp) (c : Cache) (q : Bytes)
    (hps : psOK o.ps o.icann o.host = true)
    (h : (check cf now o.hashes o.exchange o.ord c).1.question = some q) :
    ∃ names : List Bytes, names.Sublist (hashedNames o.ps o.icann o.host) ∧
      (∀ s ∈ names, s ∈ allowedNames o.ps o.icann o.host) ∧
      q = questionOfPrefixes cf.suffix (names.map (fun s => prefix2 (o.H s))) := by
  obtain ⟨toReq, hsub, hq⟩ := check_question cf now o.hashes o.exchange o.ord c q h
  simp only [CheckOp.hashes, hostnameToHashes] at hsub
  obtain ⟨names, hn, rfl⟩ := List.sublist_map_iff.mp hsub
  refine ⟨names, hn, fun s hs => (mem_hashedNames hps s).mp (hn.subset hs), ?_⟩
  rw [hq, getQuestion, List.map_map]
  rfl

/-- **Verdict of a fresh lookup** (empty cache, any cache size): every hash of
the name is asked about, and the name is blocked exactly when the answer
carries a full hash equal to the hash of one of the allowed names. -/
theorem C19_verdict (cf : Conf) (now max : Nat) (o : CheckOp) (answer : List RR)
    (hps : psOK o.ps o.icann o.host = true) (hne : o.hashes ≠ [])
    (hex : o.exchange (getQuestion cf.suffix o.hashes) = some answer) :
    ∃ b, (check cf now o.hashes o.exchange o.ord ⟨[], max⟩).1 =
        ⟨.blocked b, some (getQuestion cf.suffix o.hashes)⟩ ∧
      (b = true ↔ ∃ s ∈ allowedNames o.ps o.icann o.host, o.H s ∈ receivedHashes answer) := by
  refine ⟨findMatch o.hashes (receivedHashes answer), ?_, ?_⟩
  · rw [check_fresh cf now max o.hashes hne, hex]
  · rw [findMatch_iff]
    simp only [CheckOp.hashes, hostnameToHashes, List.mem_map]
    constructor
    · rintro ⟨y, ⟨s, hs, rfl⟩, hy⟩
      exact ⟨s, (mem_hashedNames hps s).mp hs, hy⟩
    · rintro ⟨s, hs, hy⟩
      exact ⟨_, ⟨s, (mem_hashedNames hps s).mpr hs, rfl⟩, hy⟩

/-- **After expiry a cached item has no influence**: if every item in the cache
has expired, a check sends the same question and returns the same verdict as
with an empty cache. -/
theorem C19_expired_ignored (cf : Conf) (now : Nat) (hashes : List Hash)
    (exch : Bytes → Option (List RR)) (ord : List Hash → List (Prefix × List Hash)) (c : Cache)
    (hexp : ∀ it ∈ c.lru, expired now it = true) :
    (check cf now hashes exch ord c).1 = (check cf now hashes exch ord ⟨[], c.max⟩).1 := by
  rw [check_outcome, check_outcome]
  congr 1
  unfold findInCache
  have h1 := findLoop_allExpired now hashes [] c hexp
  have h2 := findLoop_allExpired now hashes [] ⟨[], c.max⟩ (by simp)
  simp only [List.length_nil] at h1 h2
  rw [h1, h2]

/-- **Cache transparency**, for every history of checks, clock advances and
database changes sharing one cache of ANY size (so whatever is evicted or
rejected), started from any cache satisfying the invariant: every verdict
equals the verdict of a fresh lookup against the current database, and an
error is reported only when the upstream failed on a question actually sent.
Assumptions (`Valid`): the service answers the questions asked completely and
only for the prefixes asked, and the database does not change for a prefix
while an unexpired item for that prefix is cached. -/
theorem C19_cache_transparent (cf : Conf) (ops : List Op) (w : World)
    (hinv : Inv w.db w.now w.cache) (hv : Valid cf w ops) :
    ForallChecks cf (fun w o out =>
      (∀ b, out.verdict = .blocked b → b = freshVerdict o.H w.db o.ps o.icann o.host) ∧
      (out.verdict = .upstreamErr → o.err = true ∧ out.question.isSome = true)) w ops := by
  apply forallChecks_of_inv _ ops w hinv hv
  intro w o hinv hok
  obtain ⟨hps, _, henv⟩ := hok
  obtain ⟨_, h2, h3⟩ := check_sound w.db cf w.now o.hashes o.exchange o.ord w.cache hinv (by
    intro toReq answer hask hex
    simp only [CheckOp.exchange] at hex
    split at hex
    · cases hex
    · cases hex; exact henv toReq hask)
  refine ⟨?_, ?_⟩
  · intro b hb
    rw [← any_hashes_eq_fresh o w.db hps]
    exact h2 b hb
  · intro he
    obtain ⟨q, hq, hn⟩ := h3 he
    refine ⟨?_, by simp [doCheck, hq]⟩
    simp only [CheckOp.exchange] at hn
    split at hn
    · assumption
    · cases hn

/-- The same from an empty cache of any configured size. -/
theorem C19_cache_transparent_from_empty (cf : Conf) (size : Nat) (db : List Hash) (ops : List Op)
    (hv : Valid cf ⟨Cache.new size, 0, db⟩ ops) :
    ForallChecks cf (fun w o out =>
      (∀ b, out.verdict = .blocked b → b = freshVerdict o.H w.db o.ps o.icann o.host) ∧
      (out.verdict = .upstreamErr → o.err = true ∧ out.question.isSome = true)) ⟨Cache.new size, 0, db⟩ ops :=
  C19_cache_transparent cf ops _ (inv_empty db 0 size) hv

/-- **The model meets the spec**: along every valid history, after every
check, the monitor predicate `specOK` holds of what the model did. -/
theorem C19_model_meets_spec (cf : Conf) (ops : List Op) (w : World)
    (hinv : Inv w.db w.now w.cache) (hv : Valid cf w ops) :
    ForallChecks cf (fun w o out => specOK (o.input cf w) out = true) w ops := by
  apply forallChecks_of_inv _ ops w hinv hv
  intro w o hinv hok
  have hok' := hok
  obtain ⟨hps, hlen, henv⟩ := hok
  have htr := C19_cache_transparent cf [.check o] w hinv ⟨hok', trivial⟩
  obtain ⟨⟨hb, he⟩, _⟩ := htr
  simp only [specOK, CheckOp.input, hps, Bool.not_true, Bool.false_or, Bool.and_eq_true]
  constructor
  · -- privacy
    simp only [privacyOK]
    cases hq : (doCheck cf w o).1.question with
    | none => rfl
    | some q =>
      simp only
      obtain ⟨names, _, hall, rfl⟩ := C19_privacy cf w.now o w.cache q hps hq
      apply questionShape_of_prefixes
      · apply questionOfPrefixes_length
        intro p hp
        obtain ⟨s, _, rfl⟩ := List.mem_map.mp hp
        exact prefix2_length (hlen s)
      · intro p hp
        obtain ⟨s, hs, rfl⟩ := List.mem_map.mp hp
        exact ⟨prefix2_length (hlen s), List.mem_map.mpr ⟨s, hall s hs, rfl⟩⟩
  · -- verdict
    simp only [verdictOK]
    cases hvd : (doCheck cf w o).1.verdict with
    | upstreamErr =>
      obtain ⟨h1, h2⟩ := he hvd
      simp [h1, h2]
    | blocked b =>
      simp only
      rw [hb b hvd]
      simp

/-- **The bytes on the wire are a function of the prefixes only**: the TXT
question name is, byte for byte, one label of four lower-case hex digits and
a dot per requested prefix, followed by the configured service suffix — at
most four such labels, 5·n + |suffix| bytes; no other byte of the queried name
or of its hashes enters it (see `C19_privacy` for which prefixes). -/
theorem C19_wire_discloses_prefixes_only (suffix : Bytes) (H : Bytes → Hash) (ps : Bytes) (icann : Bool)
    (host : Bytes) (hlen : ∀ s, (H s).length = 32) (toReq : List Hash)
    (hsub : toReq.Sublist (hostnameToHashes H ps icann host)) :
    getQuestion suffix toReq = (toReq.flatMap (fun h => hexBytes (prefix2 h) ++ [dot])) ++ suffix ∧
    (getQuestion suffix toReq).length = 5 * toReq.length + suffix.length ∧
    toReq.length ≤ 4 ∧
    ∀ h ∈ toReq, (hexBytes (prefix2 h)).length = 4 ∧ ∀ c ∈ hexBytes (prefix2 h), isLowerHex c = true := by
  have hmem : ∀ h ∈ toReq, h.length = 32 := by
    intro h hh
    have := hsub.subset hh
    simp only [hostnameToHashes, List.mem_map] at this
    obtain ⟨s, _, rfl⟩ := this
    exact hlen s
  have h4 : ∀ h ∈ toReq, (hexBytes (prefix2 h)).length = 4 := by
    intro h hh
    rw [hexBytes_length, prefix2_length (hmem h hh)]
  refine ⟨?_, ?_, Nat.le_trans hsub.length_le (C19_at_most_four H ps icann host), ?_⟩
  · rw [getQuestion, questionOfPrefixes_eq, List.flatMap_map]
  · rw [getQuestion, questionOfPrefixes_eq, List.flatMap_map, List.length_append, List.length_flatMap]
    have : (toReq.map (fun h => (hexBytes (prefix2 h) ++ [dot]).length)) = toReq.map (fun _ => 5) := by
      apply List.map_congr_left
      intro h hh
      simp [h4 h hh]
    rw [this]
    have hs : ∀ l : List Hash, (l.map (fun _ => 5)).sum = 5 * l.length := by
      intro l
      induction l with
      | nil => rfl
      | cons a l ih => simp only [List.map_cons, List.sum_cons, List.length_cons, ih]; omega
    rw [hs]
  · intro h hh
    refine ⟨h4 h hh, ?_⟩
    have hl := prefix2_length (hmem h hh)
    generalize prefix2 h = p at hl
    match p, hl with
    | [x, y], _ =>
      intro c hc
      simp only [hexBytes_two, List.mem_cons, List.not_mem_nil, or_false] at hc
      have hn : ∀ n, n < 16 → isLowerHex (hexNib n) = true := by decide
      rcases hc with rfl | rfl | rfl | rfl <;> exact hn _ (Nat.mod_lt _ (by decide))

/-- **The cache item round-trips**: `toCacheItem (fromCacheItem i) = i` (expiry
as absolute Unix seconds below 2^64, hashes of 32 bytes). -/
theorem C19_cache_item_codec (base : Nat) (it : Item) (hexp : base + it.exp < 2 ^ 64)
    (hl : ∀ h ∈ it.hs, h.length = 32) :
    decodeItem (encodeItem base it) = (base + it.exp, it.hs) :=
  decode_encode_item base it hexp hl

/-- **Expiry boundary**: an item is still used at the very instant of its
expiry second and no longer one nanosecond later. -/
theorem C19_expiry_boundary (it : Item) :
    expired (it.exp * nsPerSec) it = false ∧ expired (it.exp * nsPerSec + 1) it = true := by
  simp [expired]

/-- the model's constants are those of hashprefix.go (fact line `C19.consts`) -/
theorem C19_constants :
    (∀ h : Hash, prefix2 h = h.take prefixLen) ∧ hexSize = 2 * hashSize ∧
    (∀ host, lastLabels host = (takeLabelsRev subDomainNum host.reverse).reverse) ∧
    (∀ t : Bytes, t.length ≠ hexSize → parseTXT t = none) := by
  refine ⟨fun _ => rfl, rfl, fun _ => rfl, fun t h => ?_⟩
  simp only [hexSize] at h
  simp [parseTXT, h]

/-! ### overlapping lookups on one Checker -/

/-- `Check` is its two steps — and a function of (the name's hashes, what the
service answers, the cache) only: it reads and writes no other shared state
(fact line `C19.checkfields`: the lookup path touches no Checker field but
`svc`, `upstream`, and the cache through findInCache/storeInCache). -/
theorem C19_check_two_steps (cf : Conf) (now : Nat) (hashes : List Hash)
    (exchange : Bytes → Option (List RR)) (ord : List Hash → List (Prefix × List Hash)) (c : Cache) :
    check cf now hashes exchange ord c =
      match findInCache now hashes c with
      | (.cached b, c1) => (⟨.blocked b, none⟩, c1)
      | (.ask toReq, c1) => checkAnswer cf now toReq exchange ord c1 :=
  check_two_steps cf now hashes exchange ord c

/-- **Overlapping lookups are serialisable.**  Any number of lookups in flight
on one Checker, each in its two steps (cache scan; exchange + store), under
EVERY schedule of steps, honest service, any cache size: the cache invariant
holds at every point, every lookup that has to ask asks about a sub-list of
its OWN hashes only, and every verdict given is the fresh verdict of its own
name — i.e. exactly what the same lookups give one after the other in any
order (`C19_cache_transparent`).  Stores of different lookups commute as far
as verdicts go: whatever order they land in, every unexpired item is complete
for its prefix. -/
theorem C19_concurrent_checks_serialisable (db : List Hash) (cf : Conf) (now : Nat) (hs : Nat → List Hash)
    (exch : Bytes → Option (List RR)) (ord : List Hash → List (Prefix × List Hash)) (c : Cache)
    (hinv : Inv db now c)
    (henv : ∀ toReq answer, exch (getQuestion cf.suffix toReq) = some answer →
      Honest db toReq (receivedHashes answer) ∧
      validGroups (receivedHashes answer) (ord (receivedHashes answer)) = true)
    (sched : List Nat) :
    let s := sched.foldl (stepC cf now hs exch ord) (ConcC.init c)
    Inv db now s.cache ∧
    (∀ i, s.pc i = 1 → ∀ y ∈ s.pend i, y ∈ hs i) ∧
    (∀ i o, s.res i = some o → ∀ b, o.verdict = .blocked b → b = (hs i).any (fun h => db.contains h)) := by
  intro s
  have h0 : ConcInv db now hs (ConcC.init c) :=
    ⟨hinv, fun i hi => by simp [ConcC.init] at hi, fun i o ho => by simp [ConcC.init] at ho⟩
  have : ∀ (sched : List Nat) (s0 : ConcC), ConcInv db now hs s0 →
      ConcInv db now hs (sched.foldl (stepC cf now hs exch ord) s0) := by
    intro sched
    induction sched with
    | nil => intro s0 h; exact h
    | cons i rest ih => intro s0 h; exact ih _ (concInv_step h henv i)
  have hfin := this sched _ h0
  exact ⟨hfin.inv, fun i hi => (hfin.pending i hi).1, hfin.done⟩

/-! ### in front of the checkers: `DNSFilter.CheckHost` -/

/-- **Letter case of the query name is irrelevant**: names that lower-case to
the same string get the same verdict and send the same questions to both
lookup services — whatever the services answer. -/
theorem C19_case_insensitive (st : HostSetts) (sufS sufP : Bytes) (H : Bytes → Hash)
    (psOf : Bytes → Bytes × Bool) (exS exP : Bytes → Option (List RR)) (h₁ h₂ : Bytes)
    (h : lower h₁ = lower h₂) :
    checkHostSB st sufS sufP H psOf exS exP h₁ = checkHostSB st sufS sufP H psOf exS exP h₂ := by
  have hn : ∀ x : Bytes, lower x = [] ↔ x = [] := fun x => by simp [lower]
  have hnil : h₁ = [] ↔ h₂ = [] :=
    ⟨fun e => (hn h₂).mp (h ▸ (hn h₁).mpr e), fun e => (hn h₁).mp (h ▸ (hn h₂).mpr e)⟩
  unfold checkHostSB
  by_cases e : h₁ = []
  · simp [e, hnil.mp e]
  · have e2 : h₂ ≠ [] := fun e' => e (hnil.mpr e')
    simp only [e, e2, if_false, h]

/-- One fresh checker behind CheckHost, against an honest service: the
question has the allowed shape and the verdict is the fresh verdict. -/
theorem checkFresh_spec (suffix : Bytes) (H : Bytes → Hash) (psOf : Bytes → Bytes × Bool)
    (db : List Hash) (ans : Bytes → List RR) (name : Bytes)
    (hps : psOK (psOf name).1 (psOf name).2 name = true) (hlen : ∀ s, (H s).length = 32)
    (hhon : ∀ toReq, Honest db toReq (receivedHashes (ans (getQuestion suffix toReq)))) :
    privacyOK H suffix (psOf name).1 (psOf name).2 name
      (checkFresh suffix H psOf (fun q => some (ans q)) name).question = true ∧
    (checkFresh suffix H psOf (fun q => some (ans q)) name).verdict =
      .blocked (freshVerdict H db (psOf name).1 (psOf name).2 name) := by
  let o : CheckOp := ⟨name, (psOf name).1, (psOf name).2, H, false, ans, canonGroups⟩
  let w : World := ⟨Cache.new 0, 0, db⟩
  have hv : Valid ⟨suffix, 0⟩ w [.check o] :=
    ⟨⟨hps, hlen, fun toReq _ => ⟨hhon toReq, canonGroups_valid _⟩⟩, trivial⟩
  have hspec : specOK (o.input ⟨suffix, 0⟩ w) (doCheck ⟨suffix, 0⟩ w o).1 = true :=
    (C19_model_meets_spec ⟨suffix, 0⟩ [.check o] w (inv_empty db 0 0) hv).1
  have htr : (∀ b, (doCheck ⟨suffix, 0⟩ w o).1.verdict = .blocked b →
        b = freshVerdict o.H w.db o.ps o.icann o.host) ∧
      ((doCheck ⟨suffix, 0⟩ w o).1.verdict = .upstreamErr → o.err = true ∧ _) :=
    (C19_cache_transparent ⟨suffix, 0⟩ [.check o] w (inv_empty db 0 0) hv).1
  have hex : o.exchange = fun q => some (ans q) := by
    funext q; simp [CheckOp.exchange, o]
  have hout : (doCheck ⟨suffix, 0⟩ w o).1 = checkFresh suffix H psOf (fun q => some (ans q)) name := by
    simp only [doCheck, checkFresh, hex]
    rfl
  rw [hout] at hspec htr
  simp only [specOK, CheckOp.input, o, hps, Bool.not_true, Bool.false_or, Bool.and_eq_true] at hspec
  refine ⟨hspec.1, ?_⟩
  cases hvd : (checkFresh suffix H psOf (fun q => some (ans q)) name).verdict with
  | upstreamErr => have := (htr.2 hvd).1; simp [o] at this
  | blocked b => rw [htr.1 b hvd]

/-- **CheckHost meets the spec on the name as queried**: with honest services,
for every letter case of the query name, only prefixes of the lower-cased name
and its allowed parents are sent, nothing is sent for a service that is off,
and the result is "safe browsing" / "parental" exactly when the respective
database holds a full hash of one of those names (safe browsing first). -/
theorem C19_host_meets_spec (i : HostIn) (ansS ansP : Bytes → List RR)
    (hps : psOK (i.psOf (lower i.host)).1 (i.psOf (lower i.host)).2 (lower i.host) = true)
    (hlen : ∀ s, (i.H s).length = 32)
    (hS : ∀ toReq, Honest i.dbS toReq (receivedHashes (ansS (getQuestion i.sufS toReq))))
    (hP : ∀ toReq, Honest i.dbP toReq (receivedHashes (ansP (getQuestion i.sufP toReq)))) :
    hostSpecOK i (checkHostSB i.setts i.sufS i.sufP i.H i.psOf (fun q => some (ansS q))
      (fun q => some (ansP q)) i.host) = true := by
  obtain ⟨s1, s2⟩ := checkFresh_spec i.sufS i.H i.psOf i.dbS ansS (lower i.host) hps hlen hS
  obtain ⟨p1, p2⟩ := checkFresh_spec i.sufP i.H i.psOf i.dbP ansP (lower i.host) hps hlen hP
  have pn : ∀ suf, privacyOK i.H suf (i.psOf (lower i.host)).1 (i.psOf (lower i.host)).2 (lower i.host) none = true :=
    fun _ => rfl
  simp only [hostSpecOK, hps, Bool.not_true, Bool.false_or, hostVerdict]
  unfold checkHostSB
  by_cases e : i.host = []
  · simp only [e, if_true]
    exact by simp; exact ⟨rfl, rfl⟩
  · simp only [e, if_false]
    generalize checkFresh i.sufS i.H i.psOf (fun q => some (ansS q)) (lower i.host) = oS at s1 s2
    generalize checkFresh i.sufP i.H i.psOf (fun q => some (ansP q)) (lower i.host) = oP at p1 p2
    obtain ⟨vS, qS⟩ := oS
    obtain ⟨vP, qP⟩ := oP
    simp only at s1 s2 p1 p2
    subst s2 p2
    cases hsb : (i.setts.protection && i.setts.safeBrowsing) <;>
    cases hpc : (i.setts.protection && i.setts.parental) <;>
    cases hfS : freshVerdict i.H i.dbS (i.psOf (lower i.host)).1 (i.psOf (lower i.host)).2 (lower i.host) <;>
    cases hfP : freshVerdict i.H i.dbP (i.psOf (lower i.host)).1 (i.psOf (lower i.host)).2 (lower i.host) <;>
    simp [pn, s1, p1, hsb, hpc]

/-! ### Non-vacuity: a concrete valid history with a fresh positive, a cached
positive, an expiry and a cached negative. -/

section Example

def exH (s : Bytes) : Hash := List.replicate 32 s.length
def exHost : Bytes := [97, 46, 98, 99]          -- "a.bc"
def exDb : List Hash := [exH exHost]
def exOp : CheckOp :=
  { host := exHost, ps := [98, 99], icann := false, H := exH, err := false,
    answer := fun _ => [some [hexBytes (exH exHost)]], ord := canonGroups }
def exCf : Conf := ⟨[120, 46], 10 * nsPerSec⟩   -- suffix "x.", ttl 10 s
def exW : World := ⟨Cache.new 200, 0, exDb⟩

/-- the first check asks about both names and blocks; the second is answered
from the cache (no question) with the same verdict -/
example : (doCheck exCf exW exOp).1 = ⟨.blocked true, some (getQuestion exCf.suffix exOp.hashes)⟩ ∧
    (doCheck exCf (step exCf exW (.check exOp)) exOp).1 = ⟨.blocked true, none⟩ := by
  decide

example : freshVerdict exOp.H exDb exOp.ps exOp.icann exOp.host = true := by decide

/-! clause by clause on public-suffix-list shapes (oracle values as the PSL gives them) -/

/-- a name that IS an ICANN public suffix (`co.uk`): nothing is hashed, nothing asked -/
example : hashedNames [99, 111, 46, 117, 107] true [99, 111, 46, 117, 107] = [] := by decide
/-- wildcard rule `*.ck`: for `a.b.ck` the suffix is `b.ck`; only `a.b.ck` is hashed -/
example : hashedNames [98, 46, 99, 107] true [97, 46, 98, 46, 99, 107] = [[97, 46, 98, 46, 99, 107]] := by decide
/-- exception rule `!www.ck`: the suffix of `www.ck` is `ck`; `www.ck` is hashed -/
example : hashedNames [99, 107] true [119, 119, 119, 46, 99, 107] = [[119, 119, 119, 46, 99, 107]] := by decide
/-- a single label that is no ICANN suffix (`localhost`): hashed as it is -/
example : hashedNames [108, 111, 99, 97, 108, 104, 111, 115, 116] false [108, 111, 99, 97, 108, 104, 111, 115, 116] = [[108, 111, 99, 97, 108, 104, 111, 115, 116]] := by decide
/-- private suffix (`github.io` is not ICANN): the whole private space down to the TLD -/
example : hashedNames [103, 105, 116, 104, 117, 98, 46, 105, 111] false [117, 115, 101, 114, 46, 103, 105, 116, 104, 117, 98, 46, 105, 111] =
    [[117, 115, 101, 114, 46, 103, 105, 116, 104, 117, 98, 46, 105, 111], [103, 105, 116, 104, 117, 98, 46, 105, 111], [105, 111]] := by decide
/-- punycode labels are plain ASCII labels -/
example : hashedNames [120, 110, 45, 45, 112, 49, 97, 105] true [120, 110, 45, 45, 101, 49, 97, 102, 109, 107, 102, 100, 46, 120, 110, 45, 45, 112, 49, 97, 105] =
    [[120, 110, 45, 45, 101, 49, 97, 102, 109, 107, 102, 100, 46, 120, 110, 45, 45, 112, 49, 97, 105]] := by decide

/-- a.b.c.d.co.uk (ICANN suffix co.uk): two names are hashed, not four -/
example : hashedNames [99, 111, 46, 117, 107] true
    [97, 46, 98, 46, 99, 46, 100, 46, 99, 111, 46, 117, 107] =
    [[99, 46, 100, 46, 99, 111, 46, 117, 107], [100, 46, 99, 111, 46, 117, 107]] := by decide

/-- the assumptions of the history theorems are satisfiable by this history
(fresh lookup, one second later a lookup answered from the cache, twenty
seconds later — the item has expired — a fresh lookup again) -/
example : Valid exCf exW [.check exOp, .advance nsPerSec, .check exOp, .advance (20 * nsPerSec), .check exOp] := by
  have hlen : ∀ s, (exOp.H s).length = 32 := fun s => by simp [exOp, exH]
  have hfresh : ∀ (w : World) (toReq : List Hash),
      (findInCache w.now exOp.hashes w.cache).1 = .ask exOp.hashes → w.db = exDb →
      (findInCache w.now exOp.hashes w.cache).1 = .ask toReq →
      Honest w.db toReq (receivedHashes (exOp.answer (getQuestion exCf.suffix toReq))) ∧
      validGroups (receivedHashes (exOp.answer (getQuestion exCf.suffix toReq)))
        (exOp.ord (receivedHashes (exOp.answer (getQuestion exCf.suffix toReq)))) = true := by
    intro w toReq h1 hdb h2
    rw [h1] at h2
    cases h2
    have hr : receivedHashes (exOp.answer (getQuestion exCf.suffix exOp.hashes)) = [exH exHost] := by decide
    rw [hr, hdb]
    refine ⟨?_, by decide⟩
    intro x
    simp only [exDb, List.mem_singleton]
    constructor
    · rintro rfl; exact ⟨rfl, by decide⟩
    · rintro ⟨h, _⟩; exact h
  refine ⟨⟨by decide, hlen, fun toReq => hfresh _ toReq (by decide) rfl⟩, trivial,
    ⟨by decide, hlen, ?_⟩, trivial, ⟨by decide, hlen, fun toReq => hfresh _ toReq (by decide) rfl⟩, trivial⟩
  intro toReq h
  have : (findInCache (step exCf (step exCf exW (.check exOp)) (.advance nsPerSec)).now exOp.hashes
      (step exCf (step exCf exW (.check exOp)) (.advance nsPerSec)).cache).1 = .cached true := by decide
  rw [this] at h
  cases h

end Example


/-! ## Translator tie: constants and the expressions the proofs are instantiated with (regenerated per run)

`extract/cmd/c19` rewrites `Gen/C19Facts.lean` from the typed syntax of
`internal/filtering/hashprefix`. -/

/-- The constants of the current source are the model's; the expiry test is
`now.After(item.expiry)` on the whole-second expiry read back from the item
(`expired`: strictly after, nanosecond clock against seconds header), a new
item expires `cacheTime` after now and its header is that instant's Unix
second; only `hash[:prefixLen]` — two bytes — is hex-encoded into the question,
and the cache is read and written under that two-byte key only. -/
theorem C19_T_constants_and_expressions :
    Gen.C19.prefixLen = prefixLen ∧ Gen.C19.hashSize = hashSize ∧ Gen.C19.hexSize = hexSize ∧
      Gen.C19.expirySize = expirySize ∧ Gen.C19.subDomainNum = subDomainNum ∧
      Gen.C19.expiryConds = ["now.After(item.expiry)"] ∧
      Gen.C19.expiryInits = ["t", "time.Now().Add(c.cacheTime)"] ∧
      Gen.C19.expirySerialised = ["item.expiry.Unix()"] ∧
      Gen.C19.wireArgs = ["hash[:prefixLen]"] ∧
      Gen.C19.cacheKeys = ["Get:hash[:prefixLen]", "Get:hash[:prefixLen]", "Set:pref[:]"] := by
  decide

end AGH.C19
