/-
C09 — statistics totals equal the queries counted inside the retention window.
Property theorems only (helper lemmas live in AGH/Lemmas/Stats*.lean).

Setting.  `State`/`step`/`getData` (AGH/Model/Stats.lean) transcribe
internal/stats; `Ghost`/`ghostStep`/`specOK` (AGH/Spec/Stats.lean) are the
property's own record of what was counted when.  A history is any list of
`Op`s (updates of any result code / validity in bursts, hour advances of any
size — with the rollover (`tick`) or with the clock moving on unnoticed
(`advance`: updates, reads, configuration changes, clears and a shutdown can all
happen before the flush sees the new hour) —, clean restarts with any accepted limit, legacy and new limit changes,
clears, reads) applied to a fresh start `new [] clock limit enabled`.  The
ghost's `dom` flag is the property's domain: Unix hours `8761 ≤ h < 2^32`,
clock never going backwards.
-/
import AGH.Lemmas.StatsFixed
import AGH.Lemmas.StatsBalance
namespace AGH.C09

/-- After EVERY history (hence after every step of it) the model's answer to
GET /control/stats satisfies the spec monitor: inside the domain, each of the
five totals lies between the counted queries that stayed inside every window
in force and the counted queries inside the current window; hourly series sum
to the totals and carry each query in the slot of its hour; daily series never
exceed the totals; the read does not fail. -/
theorem C09_model_meets_spec (clock limitMs : Nat) (enabled : Bool) (ops : List Op) (s0 s : State)
    (hnew : new [] clock limitMs enabled = some s0) (hrun : runOps s0 ops = some s) :
    specOK (ghostRun (Ghost.init clock limitMs enabled) ops) (getData s) = true := by
  cases hd : (ghostRun (Ghost.init clock limitMs enabled) ops).dom with
  | false => simp [specOK, hd]
  | true => exact inv_specOK (inv_run ops (inv_init hnew (dom_run hd)) hrun hd)

/-- Conservation.  If no counted query of the current window was ever outside
the window in force (`AllKept`), the reported total and every reported
category are EXACTLY the counted queries whose hour is inside the window —
whatever the rollovers, gaps, restarts and clears before. -/
theorem C09_conservation (clock limitMs : Nat) (enabled : Bool) (ops : List Op) (s0 s : State)
    (hnew : new [] clock limitMs enabled = some s0) (hrun : runOps s0 ops = some s)
    (hdom : (ghostRun (Ghost.init clock limitMs enabled) ops).dom = true)
    (hkept : AllKept (ghostRun (Ghost.init clock limitMs enabled) ops)) :
    ∃ r, getData s = .ok r ∧
      r.numDNSQueries = upper (ghostRun (Ghost.init clock limitMs enabled) ops) .total ∧
      r.numBlockedFiltering = upper (ghostRun (Ghost.init clock limitMs enabled) ops) (.cat 2) ∧
      r.numReplacedSafebrowsing = upper (ghostRun (Ghost.init clock limitMs enabled) ops) (.cat 3) ∧
      r.numReplacedSafesearch = upper (ghostRun (Ghost.init clock limitMs enabled) ops) (.cat 4) ∧
      r.numReplacedParental = upper (ghostRun (Ghost.init clock limitMs enabled) ops) (.cat 5) := by
  have hi := inv_run ops (inv_init hnew (dom_run hdom)) hrun hdom
  obtain ⟨r, hr, _, _, t1, t2, t3, t4, t5⟩ := inv_read hi
  exact ⟨r, hr, by rw [t1]; exact inv_exact hi hkept _, by rw [t2]; exact inv_exact hi hkept _,
    by rw [t3]; exact inv_exact hi hkept _, by rw [t4]; exact inv_exact hi hkept _,
    by rw [t5]; exact inv_exact hi hkept _⟩

/-- Conservation without a ghost hypothesis: in every history whose operations
leave the retention limit alone (`keepsLimit`: any updates, hour advances with
any gaps, restarts with the same limit, clears, reads, rejected configuration
requests) the totals are exactly the counted queries of the window. -/
theorem C09_conservation_fixed_limit (clock limitMs : Nat) (enabled : Bool) (ops : List Op) (s0 s : State)
    (hnew : new [] clock limitMs enabled = some s0) (hrun : runOps s0 ops = some s)
    (hdom : (ghostRun (Ghost.init clock limitMs enabled) ops).dom = true)
    (hfix : ∀ op ∈ ops, keepsLimit (limitMs / msPerHour) op) :
    ∃ r, getData s = .ok r ∧
      r.numDNSQueries = upper (ghostRun (Ghost.init clock limitMs enabled) ops) .total ∧
      r.numBlockedFiltering = upper (ghostRun (Ghost.init clock limitMs enabled) ops) (.cat 2) ∧
      r.numReplacedSafebrowsing = upper (ghostRun (Ghost.init clock limitMs enabled) ops) (.cat 3) ∧
      r.numReplacedSafesearch = upper (ghostRun (Ghost.init clock limitMs enabled) ops) (.cat 4) ∧
      r.numReplacedParental = upper (ghostRun (Ghost.init clock limitMs enabled) ops) (.cat 5) :=
  C09_conservation clock limitMs enabled ops s0 s hnew hrun hdom
    (ak_run ops rfl (ak_init clock limitMs enabled) hfix hdom).allKept

/-- Series, for EVERY state (reachable or not), every current hour and every
limit — including the ids where `curID - limit + 1` wraps around 2^32: the
read never panics (`loadUnits` length check, the daily slice bounds and every
series index are in range); hourly series have one slot per hour of the limit
and sum to the totals; daily series never exceed the totals. -/
theorem C09_series (s : State) (hid : s.curr.id < U32) (h1 : 1 ≤ s.limitHours) (h2 : s.limitHours < U32) :
    ∃ r, getData s = .ok r ∧
      (r.days = false →
        r.dnsQueries.sum = r.numDNSQueries ∧ r.blockedFiltering.sum = r.numBlockedFiltering ∧
        r.replacedSafebrowsing.sum = r.numReplacedSafebrowsing ∧ r.replacedParental.sum = r.numReplacedParental ∧
        r.dnsQueries.length = s.limitHours) ∧
      (r.days = true →
        r.dnsQueries.sum ≤ r.numDNSQueries ∧ r.blockedFiltering.sum ≤ r.numBlockedFiltering ∧
        r.replacedSafebrowsing.sum ≤ r.numReplacedSafebrowsing ∧ r.replacedParental.sum ≤ r.numReplacedParental ∧
        r.dnsQueries.length = s.limitHours / 24) := by
  obtain ⟨hl, hlen⟩ := loadUnits_ok s s.limitHours hid h1 h2
  obtain ⟨r, hr, t1, t2, t3, _, t5, _, hh, hd⟩ :=
    dataFromUnits_spec (storedUnits s s.limitHours ++ [s.curr.serialize]) s.curr.id
  have h0 : ¬ s.limitHours = 0 := by omega
  refine ⟨r, by simp only [getData, h0, if_false, hl]; exact hr, ?_, ?_⟩
  · intro hdays
    obtain ⟨s1, s2, s3, s4⟩ := hh hdays
    refine ⟨by rw [s1, t1]; rfl, by rw [s2, t2]; rfl, by rw [s3, t3]; rfl, by rw [s4, t5]; rfl, ?_⟩
    rw [s1, List.length_map, hlen]
  · intro hdays
    obtain ⟨d1, d2, d3, d4, d5⟩ := hd hdays
    exact ⟨d1, d2, d3, d4, by rw [d5, hlen]⟩

/-- Hourly series sum to the totals.  For EVERY state, current hour and
retention interval below 192 h (8 days; intervals are any number of
milliseconds from 1 h, `limitHours` is its whole hours): the answer is in
hours, has one slot per hour of the interval, each of the four series is the
per-hour value of the units the window consists of (oldest first, the current
unit last), and adds up exactly to its total. -/
theorem C09_hourly_sums_to_total (s : State) (hid : s.curr.id < U32) (h1 : 1 ≤ s.limitHours)
    (hh : s.limitHours < 192) :
    ∃ r, getData s = .ok r ∧ r.days = false ∧ r.dnsQueries.length = s.limitHours ∧
      r.dnsQueries = (storedUnits s s.limitHours ++ [s.curr.serialize]).map (·.nTotal) ∧
      r.dnsQueries.sum = r.numDNSQueries ∧ r.blockedFiltering.sum = r.numBlockedFiltering ∧
      r.replacedSafebrowsing.sum = r.numReplacedSafebrowsing ∧ r.replacedParental.sum = r.numReplacedParental := by
  have h2 : s.limitHours < U32 := by simp only [U32]; omega
  obtain ⟨hl, hlen⟩ := loadUnits_ok s s.limitHours hid h1 h2
  obtain ⟨r, hr, t1, t2, t3, _, t5, hdays, hhours, _⟩ :=
    dataFromUnits_spec (storedUnits s s.limitHours ++ [s.curr.serialize]) s.curr.id
  have h0 : ¬ s.limitHours = 0 := by omega
  have hd : r.days = false := by
    rw [hdays, hlen]; simp only [decide_eq_false_iff_not]; omega
  obtain ⟨s1, s2, s3, s4⟩ := hhours hd
  refine ⟨r, by simp only [getData, h0, if_false, hl]; exact hr, hd, by rw [s1, List.length_map, hlen], s1,
    by rw [s1, t1]; rfl, by rw [s2, t2]; rfl, by rw [s3, t3]; rfl, by rw [s4, t5]; rfl⟩

/-- Daily series never exceed the totals — and exactly by how much they fall
short.  For EVERY state, current hour and interval of 192 h or more: the answer
is in days with `limitHours / 24` slots; the series are filled from the
day-aligned tail of the window (its last `countHours` hours: whole days plus
the hours of the current day so far), position `p` of the tail going to day
`p / 24`; the head of `skipped` oldest hours (fewer than 48) is in the totals
but in no day.  So `sum(series) + (what was counted in the skipped head) = total`,
with equality of series and total iff nothing was counted in those hours. -/
theorem C09_daily_le_total (s : State) (hid : s.curr.id < U32) (h2 : s.limitHours < U32)
    (hd : 192 ≤ s.limitHours) :
    ∃ r, getData s = .ok r ∧ r.days = true ∧ r.dnsQueries.length = s.limitHours / 24 ∧
      (let units := storedUnits s s.limitHours ++ [s.curr.serialize]
       let skipped := s.limitHours - countHours s.curr.id (s.limitHours / 24)
       skipped < 48 ∧
       r.dnsQueries.sum + sumBy (·.nTotal) (units.take skipped) = r.numDNSQueries ∧
       r.blockedFiltering.sum + sumBy (·.nResult 2) (units.take skipped) = r.numBlockedFiltering ∧
       r.replacedSafebrowsing.sum + sumBy (·.nResult 3) (units.take skipped) = r.numReplacedSafebrowsing ∧
       r.replacedParental.sum + sumBy (·.nResult 5) (units.take skipped) = r.numReplacedParental ∧
       ∀ j, r.dnsQueries.getD j 0 = slotSum (·.nTotal) (· / 24) (units.drop skipped) 0 j) := by
  have h1 : 1 ≤ s.limitHours := by omega
  obtain ⟨hl, hlen⟩ := loadUnits_ok s s.limitHours hid h1 h2
  obtain ⟨r, hr, t1, t2, t3, _, t5, hdays, _, _⟩ :=
    dataFromUnits_spec (storedUnits s s.limitHours ++ [s.curr.serialize]) s.curr.id
  have h0 : ¬ s.limitHours = 0 := by omega
  have hgt : (storedUnits s s.limitHours ++ [s.curr.serialize]).length / 24 > 7 := by rw [hlen]; omega
  have hdy : r.days = true := by rw [hdays]; simp only [decide_eq_true_eq]; exact hgt
  obtain ⟨f1, ⟨d2, f2⟩, ⟨d3, f3⟩, ⟨d4, f4⟩⟩ := dataFromUnits_series _ _ r hr
  obtain ⟨a1, e1, l1, x1, g1⟩ := fillSeries_days_exact (·.nTotal) _ s.curr.id hgt
  obtain ⟨a2, e2, _, x2, _⟩ := fillSeries_days_exact (·.nResult 2) _ s.curr.id hgt
  obtain ⟨a3, e3, _, x3, _⟩ := fillSeries_days_exact (·.nResult 3) _ s.curr.id hgt
  obtain ⟨a4, e4, _, x4, _⟩ := fillSeries_days_exact (·.nResult 5) _ s.curr.id hgt
  rw [e1] at f1; rw [e2] at f2; rw [e3] at f3; rw [e4] at f4
  simp only [Except.ok.injEq, Prod.mk.injEq] at f1 f2 f3 f4
  obtain ⟨_, rfl⟩ := f1
  have q2 := f2.2; have q3 := f3.2; have q4 := f4.2
  rw [hlen] at l1 x1 x2 x3 x4 g1
  refine ⟨r, by simp only [getData, h0, if_false, hl]; exact hr, hdy, l1, ?_, ?_, ?_, ?_, ?_, g1⟩
  · simp only [countHours]; split <;> omega
  · rw [t1]; exact x1
  · rw [t2, ← q2]; exact x2
  · rw [t3, ← q3]; exact x3
  · rw [t5, ← q4]; exact x4

/-- The time unit of the answer depends on the interval only: days from 192 h
(8 × 24) on, hours below — so 7 days are shown as 168 hourly slots, 30 days as
30 daily ones. -/
theorem C09_time_units (s : State) (hid : s.curr.id < U32) (h1 : 1 ≤ s.limitHours) (h2 : s.limitHours < U32) :
    ∃ r, getData s = .ok r ∧ r.days = decide (192 ≤ s.limitHours) := by
  obtain ⟨hl, hlen⟩ := loadUnits_ok s s.limitHours hid h1 h2
  obtain ⟨r, hr, _, _, _, _, _, hdays, _, _⟩ :=
    dataFromUnits_spec (storedUnits s s.limitHours ++ [s.curr.serialize]) s.curr.id
  have h0 : ¬ s.limitHours = 0 := by omega
  refine ⟨r, by simp only [getData, h0, if_false, hl]; exact hr, ?_⟩
  rw [hdays, hlen]
  by_cases h : 192 ≤ s.limitHours
  · simp only [h, decide_true, decide_eq_true_eq]; omega
  · simp only [h, decide_false, decide_eq_false_iff_not]; omega

/-- A clean restart in the same hour (Close, then New on the same file) brings
back the current unit with all its counters and changes nothing that GET
/control/stats reports — for every state of the domain, reachable or not. -/
theorem C09_restart_same_hour (s s' : State) (ms : Nat) (en : Bool)
    (hlo : minHour ≤ s.curr.id) (hhi : s.curr.id < U32) (hl : ms / msPerHour = s.limitHours)
    (hr : restart s s.curr.id ms en = some s') :
    s'.curr = s.curr ∧ getData s' = getData s := by
  have hv : validIvl ms = true := by
    cases h : validIvl ms with
    | true => rfl
    | false => simp [restart, new, h] at hr
  have hrange := validIvl_range hv
  simp only [minHour] at hlo
  have hf : sub32 (sub32 s.curr.id (ms / msPerHour)) 1 = s.curr.id - ms / msPerHour - 1 := by
    rw [sub32_eq (by omega) hhi, sub32_eq (by omega) (by omega)]
  simp only [restart, new, hv, Bool.not_true, Bool.false_eq_true, if_false, Option.some.injEq, close, hf] at hr
  subst hr
  have hcur : (newUnit s.curr.id).deserialize
      ((deleteOldUnits (s.curr.id - ms / msPerHour - 1) (DB.put s.curr.id s.curr.serialize s.db)).get s.curr.id) =
      s.curr := by
    rw [get_deleteOld _ _ _ (by omega), DB.get_put]
    simp [MemUnit.deserialize, MemUnit.serialize, newUnit]
  refine ⟨hcur, ?_⟩
  apply getData_congr
  · simp only [State.limitHours] at hl ⊢; exact hl
  · apply loadUnits_congr
    · exact hcur
    · simp only [hcur]; exact hhi
    · simp only [State.limitHours]; exact hrange.1
    · simp only [State.limitHours, hcur]; omega
    · intro h hge hlt
      simp only [State.limitHours, hcur] at hge hlt ⊢
      rw [get_deleteOld _ _ _ (by omega), DB.get_put]
      have : ¬ s.curr.id = h := by omega
      simp [this]

/-- The parts of a restart.  `Close` stores the in-memory unit under THE UNIT'S
hour, whatever hour the clock shows at shutdown (the once-a-second flush may
not have rotated it yet), and touches no other bucket; a restart is `Close`,
time passing, `New` at the hour the clock shows then. -/
theorem C09_close_keeps_own_hour (s : State) (h : Nat) :
    (closeOp (advance s h)).db.get s.curr.id = some s.curr.serialize ∧
    (∀ k, k ≠ s.curr.id → (closeOp (advance s h)).db.get k = s.db.get k) ∧
    ∀ id l en, openOp (advance (closeOp (advance s h)) id) l en = restart s id l en := by
  refine ⟨?_, ?_, fun _ _ _ => rfl⟩
  · simp [closeOp, advance, close, DB.get_put]
  · intro k hk
    have : ¬ s.curr.id = k := fun x => hk x.symm
    simp [closeOp, advance, close, DB.get_put, this]

/-- `New` reads the clock once: the opened state depends on the clock only
through that one hour value (the hour it prunes by, loads the stored unit of,
and gives the current unit). -/
theorem C09_open_single_clock_read (s1 s2 : State) (l : Nat) (en : Bool)
    (hdb : s1.db = s2.db) (hclock : s1.clock = s2.clock) : openOp s1 l en = openOp s2 l en := by
  simp only [openOp, hdb, hclock]

/-- A clean restart at a later hour keeps the previous current unit
addressable under its own hour as long as that hour is not older than the new
window (and one hour of slack). -/
theorem C09_restart_later (s s' : State) (id ms : Nat) (en : Bool)
    (hlo : minHour ≤ id) (hhi : id < U32) (hlater : s.curr.id < id)
    (hwin : id ≤ s.curr.id + ms / msPerHour + 1)
    (hr : restart s id ms en = some s') :
    s'.db.get s.curr.id = some s.curr.serialize ∧ s'.curr.id = id := by
  have hv : validIvl ms = true := by
    cases h : validIvl ms with
    | true => rfl
    | false => simp [restart, new, h] at hr
  have hrange := validIvl_range hv
  simp only [minHour] at hlo
  have hf : sub32 (sub32 id (ms / msPerHour)) 1 = id - ms / msPerHour - 1 := by
    rw [sub32_eq (by omega) hhi, sub32_eq (by omega) (by omega)]
  simp only [restart, new, hv, Bool.not_true, Bool.false_eq_true, if_false, Option.some.injEq, close, hf] at hr
  subst hr
  refine ⟨?_, ?_⟩
  · simp only []
    rw [get_deleteOld _ _ _ (by omega), DB.get_put]
    simp
  · cases (deleteOldUnits (id - ms / msPerHour - 1) (DB.put s.curr.id s.curr.serialize s.db)).get id <;>
      simp [MemUnit.deserialize, newUnit]

/-- Queries older than the window are not reported: if every counted query's
hour is outside the current window, all five totals are zero. -/
theorem C09_old_not_reported (clock limitMs : Nat) (enabled : Bool) (ops : List Op) (s0 s : State)
    (hnew : new [] clock limitMs enabled = some s0) (hrun : runOps s0 ops = some s)
    (hdom : (ghostRun (Ghost.init clock limitMs enabled) ops).dom = true)
    (hold : ∀ e ∈ (ghostRun (Ghost.init clock limitMs enabled) ops).evs,
      inWindow (ghostRun (Ghost.init clock limitMs enabled) ops).now
        (ghostRun (Ghost.init clock limitMs enabled) ops).limit e.hour = false) :
    ∃ r, getData s = .ok r ∧ r.numDNSQueries = 0 ∧ r.numBlockedFiltering = 0 ∧
      r.numReplacedSafebrowsing = 0 ∧ r.numReplacedSafesearch = 0 ∧ r.numReplacedParental = 0 := by
  have hk : AllKept (ghostRun (Ghost.init clock limitMs enabled) ops) := by
    intro e he hw; rw [hold e he] at hw; cases hw
  obtain ⟨r, hr, t1, t2, t3, t4, t5⟩ := C09_conservation clock limitMs enabled ops s0 s hnew hrun hdom hk
  have hz : ∀ sel : Sel, upper (ghostRun (Ghost.init clock limitMs enabled) ops) sel = 0 := by
    intro sel
    unfold upper
    apply cnt_false
    intro e he
    simp [hold e he]
  exact ⟨r, hr, by rw [t1, hz], by rw [t2, hz], by rw [t3, hz], by rw [t4, hz], by rw [t5, hz]⟩

/-- An update the property does not count (statistics disabled, result code 0
or ≥ 6, empty domain or client, or the negative result code on which
`Update` panics) changes nothing; a counted burst of `n` adds exactly `n` to
the total and to its one category of the current unit. -/
theorem C09_update_once (s : State) (e : Entry) (n : Nat) (hl : s.limit ≠ 0) :
    ((s.enabled && decide (1 ≤ e.result) && decide (e.result ≤ 5) && !e.domainEmpty && !e.clientEmpty) = false →
      (updateN s e n).1 = s) ∧
    ((s.enabled && decide (1 ≤ e.result) && decide (e.result ≤ 5) && !e.domainEmpty && !e.clientEmpty) = true →
      (updateN s e n).2 = 0 ∧ (updateN s e n).1.curr.nTotal = s.curr.nTotal + n ∧
      (updateN s e n).1.db = s.db ∧ (updateN s e n).1.curr.id = s.curr.id ∧
      ∀ c, (updateN s e n).1.curr.nResult c = s.curr.nResult c + (if c = e.result.toNat then n else 0)) := by
  refine ⟨updateN_not_counted s e n, ?_⟩
  intro h
  have hc : counted ⟨[], 0, 0, 0, s.enabled, true⟩ e = true := h
  obtain ⟨hen, hv, h1, _⟩ := counted_valid hc
  obtain ⟨s', e1, d1, _, _, _, i1, t1, r1⟩ := updateN_acc s e n hen hl hv (by omega)
  rw [e1]
  exact ⟨rfl, t1, d1, i1, r1⟩

/-- Exactly one result category per counted query, for EVERY history (inside
the domain or not): in the current unit the total is the sum of the five
categories, and the four category totals the API reports never add up to more
than the reported total. -/
theorem C09_one_category (clock limitMs : Nat) (enabled : Bool) (ops : List Op) (s0 s : State)
    (hnew : new [] clock limitMs enabled = some s0) (hrun : runOps s0 ops = some s)
    (hid : s.curr.id < U32) (h1 : 1 ≤ s.limitHours) (h2 : s.limitHours < U32) :
    s.curr.nTotal = s.curr.nResult 1 + s.curr.nResult 2 + s.curr.nResult 3 + s.curr.nResult 4 + s.curr.nResult 5 ∧
    ∃ r, getData s = .ok r ∧
      r.numBlockedFiltering + r.numReplacedSafebrowsing + r.numReplacedSafesearch + r.numReplacedParental
        ≤ r.numDNSQueries := by
  have hb : BalState s := bal_run ops (bal_new (fun x hx => by simp at hx) hnew) hrun
  refine ⟨hb.1, ?_⟩
  obtain ⟨hl, _⟩ := loadUnits_ok s s.limitHours hid h1 h2
  obtain ⟨r, hr, t1, t2, t3, t4, t5, _⟩ :=
    dataFromUnits_spec (storedUnits s s.limitHours ++ [s.curr.serialize]) s.curr.id
  have h0 : ¬ s.limitHours = 0 := by omega
  refine ⟨r, by simp only [getData, h0, if_false, hl]; exact hr, ?_⟩
  have := sum_bal _ (bal_units hb s.limitHours)
  rw [t1, t2, t3, t4, t5, this]
  omega

/-! ### Outside the domain: why `minHour` is needed

`New` computes `id - limit - 1` on uint32.  In an hour of 1970 the result wraps,
`deleteOldUnits` deletes every bucket — including the one `Close` has just
written — and a clean restart in the same hour loses the current counters.
The model transcribes this; the property's domain excludes it. -/
theorem C09_outside_domain_restart_wipes :
    ∃ s : State, s.curr.nTotal = 3 ∧
      (restart s s.curr.id (24 * msPerHour) true).map (·.curr.nTotal) = some 0 :=
  ⟨⟨[], ⟨5, 3, fun i => if i = 1 then 3 else 0⟩, 24 * msPerHour, true, 5⟩, rfl, by decide⟩

/-- The lower end of the domain is not an artefact of the proof: 8761 is the
first hour at which EVERY accepted interval is safe.  One hour earlier, with the
longest interval (365 d), `New` computes `id - limit - 1 = 2^32 - 1`, deletes
every bucket and a clean restart in the same hour loses the current counters
(at 8761 it keeps them: `C09_restart_same_hour`). -/
theorem C09_lower_horizon_tight :
    ∃ s : State, s.curr.id = 8760 ∧ s.curr.nTotal = 3 ∧ validIvl s.limit = true ∧
      (restart s s.curr.id s.limit true).map (·.curr.nTotal) = some 0 :=
  ⟨⟨[], ⟨8760, 3, fun i => if i = 1 then 3 else 0⟩, 8760 * msPerHour, true, 8760⟩, rfl, rfl, by decide, by decide⟩

/-- Inside the domain every hour the module or the clock is at lies in
`[8761, 2^32)`, the module is never ahead of the clock, and the current unit is
the unit of the module's hour.  The upper end is the `uint32` horizon of unit
ids (hour 2^32 - 1 is in the year 491 936): up to and including it nothing
changes; the generator cannot produce a later hour, it would wrap to 0, which
is a clock going backwards (next theorem). -/
theorem C09_hour_horizon (clock limitMs : Nat) (enabled : Bool) (ops : List Op) (s0 s : State)
    (hnew : new [] clock limitMs enabled = some s0) (hrun : runOps s0 ops = some s)
    (hdom : (ghostRun (Ghost.init clock limitMs enabled) ops).dom = true) :
    let g := ghostRun (Ghost.init clock limitMs enabled) ops
    minHour ≤ g.now ∧ g.now ≤ g.clock ∧ g.clock < U32 ∧ s.curr.id = g.now ∧ s.clock = g.clock := by
  have hi := inv_run ops (inv_init hnew (dom_run hdom)) hrun hdom
  exact ⟨hi.lo, hi.nowClock, hi.chi, hi.cur, hi.clock⟩

/-- What the code does when the clock goes BACK (manual clock change; Unix hours
have no DST): the flush rotates on `ptr.id != id`, so it starts a fresh unit
for the earlier hour although a bucket of that hour is already stored; the
stored bucket is shadowed and, at the next rotation, overwritten.  Here: 3
queries in hour 500000, rollover to 500001, clock back to 500000, 1 query,
forward again — the window holds 4 counted queries, 1 is reported.  Such
histories are outside the domain (`dom = false`).  What survives for EVERY
history, whatever the clock does, is `C09_one_category` (each counted query is
in the total once and in exactly one category) and `C09_series`. -/
theorem C09_counterexample_clock_back :
    let ops : List Op := [.upd ⟨2, false, false⟩ 3, .tick 500001, .tick 500000, .upd ⟨2, false, false⟩ 1, .tick 500001]
    let g := ghostRun (Ghost.init 500000 (24 * msPerHour) true) ops
    g.dom = false ∧ upper g .total = 4 ∧
    ∃ s0 s, new [] 500000 (24 * msPerHour) true = some s0 ∧ runOps s0 ops = some s ∧
      (getData s).toOption.map (·.numDNSQueries) = some 1 := by
  refine ⟨by decide, by decide, _, _, rfl, rfl, by decide⟩

/-! ### Non-vacuity: the hypotheses are satisfiable by non-trivial histories -/

/-- A concrete in-domain history with a fixed limit of 24 h: 3 blocked + 2
plain queries at hour 500000, rollover, 4 safe-search queries, a gap of 30 h
(everything so far leaves the window), 1 parental query, restart in the same
hour.  The domain flag holds, every op keeps the limit, and the run exists. -/
def exHistory : List Op :=
  [.upd ⟨2, false, false⟩ 3, .upd ⟨1, false, false⟩ 2, .tick 500001, .upd ⟨4, false, false⟩ 4,
   .read, .tick 500031, .upd ⟨5, false, false⟩ 1, .restart 500031 (24 * msPerHour) true]

example : (ghostRun (Ghost.init 500000 (24 * msPerHour) true) exHistory).dom = true := by decide

example : ∀ op ∈ exHistory, keepsLimit (24 * msPerHour / msPerHour) op := by
  intro op hop
  simp only [exHistory, List.mem_cons, List.not_mem_nil, or_false] at hop
  rcases hop with h | h | h | h | h | h | h | h <;> subst h <;> simp [keepsLimit, msPerHour]

example : ∃ s0 s, new [] 500000 (24 * msPerHour) true = some s0 ∧ runOps s0 exHistory = some s ∧
    s.curr.nTotal = 1 ∧ s.db.length = 1 := by
  refine ⟨_, _, rfl, rfl, ?_, ?_⟩ <;> decide

/-- The missed-rollover shutdown: 3 queries in hour 500000, the clock moves 30 h
on without a flush, more queries are counted (still in the unit of hour 500000),
shutdown, start.  Inside the domain; after the restart nothing is inside the
24 h window any more. -/
def exLag : List Op :=
  [.upd ⟨2, false, false⟩ 3, .advance 500030, .upd ⟨1, false, false⟩ 2, .read, .restart 500030 (24 * msPerHour) true]

example : (ghostRun (Ghost.init 500000 (24 * msPerHour) true) exLag).dom = true ∧
    upper (ghostRun (Ghost.init 500000 (24 * msPerHour) true) (exLag.take 4)) .total = 5 ∧
    upper (ghostRun (Ghost.init 500000 (24 * msPerHour) true) exLag) .total = 0 := by decide

example : ∃ s0 s, new [] 500000 (24 * msPerHour) true = some s0 ∧ runOps s0 exLag = some s ∧
    s.curr.id = 500030 ∧ s.curr.nTotal = 0 ∧ (s.db.get 500000).map (·.nTotal) = none := by
  refine ⟨_, _, rfl, rfl, ?_, ?_, ?_⟩ <;> decide

/-- `upper` is a genuine count: after the first four ops of `exHistory` the
window holds 9 queries, 3 of them blocked; after the gap only the last one. -/
example : upper (ghostRun (Ghost.init 500000 (24 * msPerHour) true) (exHistory.take 4)) .total = 9 ∧
    upper (ghostRun (Ghost.init 500000 (24 * msPerHour) true) (exHistory.take 4)) (.cat 2) = 3 ∧
    upper (ghostRun (Ghost.init 500000 (24 * msPerHour) true) exHistory) .total = 1 := by decide

/-- `AllKept` can fail (so `C09_conservation` is not `C09_model_meets_spec` in
disguise): shrink the limit to 1 h, grow it back — the older queries are inside
the window again but were outside in between. -/
example : ¬ AllKept (ghostRun (Ghost.init 500000 (24 * msPerHour) true)
    [.upd ⟨1, false, false⟩ 2, .tick 500003, .putConf msPerHour true, .putConf (24 * msPerHour) true]) := by
  intro h
  have hev : (ghostRun (Ghost.init 500000 (24 * msPerHour) true)
      [.upd ⟨1, false, false⟩ 2, .tick 500003, .putConf msPerHour true, .putConf (24 * msPerHour) true]).evs =
      [⟨500000, 1, 2, false⟩] := by decide
  have := h ⟨500000, 1, 2, false⟩ (by rw [hev]; exact List.mem_cons_self ..) (by decide)
  cases this

end AGH.C09
