/-
C11 — every admin endpoint is behind authentication.
Property theorems only (helper lemmas: AGH/Lemmas/Http.lean).

Generic theorems quantify over ALL wrapper chains, handlers and requests.
Per-program theorems quantify over `Gen.routes` / `Gen.regFlows`, the tables
regenerated from the tree by /verif/extract/cmd/c11 on every run; they are
discharged by kernel evaluation (`decide +kernel`, no axioms).

"The handler does not run / no side effect" is stated in its strong form: the
answer does not depend on the wrapped handler at all
(`∀ h₁ h₂, run chain h₁ req = run chain h₂ req`), not merely "the answer is
not `ran`".
-/
import AGH.Lemmas.Http
import AGH.Gen.C11Routes
import AGH.Spec.HttpGate
namespace AGH.C11
open AGH AGH.Bytes

/-! ## Which paths the code treats as public -/

/-- `isPublicResource p` holds exactly for `/assets/<s>` and `/login.<s>` with
no '/' in `s`. -/
theorem C11_public_paths (p : Bytes) :
    isPublicResource p = true ↔
      (∃ s, p = pAssets ++ s ∧ slash ∉ s) ∨ (∃ s, p = pLoginDot ++ s ∧ slash ∉ s) := by
  unfold isPublicResource
  rw [Bool.or_eq_true, globLitStar_iff, globLitStar_iff]

/-- No path under `/control/` is public. -/
theorem C11_control_not_public (s : Bytes) : isPublicResource (pControl ++ s) = false := by
  simp [isPublicResource, globLitStar, pControl, pAssets, pLoginDot, List.isPrefixOf]

/-- The code's public set is inside the property's list of public paths. -/
theorem C11_public_within_property (p : Bytes) (h : isPublicResource p = true) :
    specPublicPath p = true := public_sub_spec p h

/-! ## The authentication gate, for every chain that contains it -/

/-- If `optionalAuth` is anywhere in the chain, a user exists and the path is
not public, the handler is entered only for authenticated requests. -/
theorem C11_auth_gate (chain : List Wrapper) (h : Handler) (req : Req)
    (hmem : .optionalAuth ∈ chain) (hu : authRequired req = true)
    (hp : isPublicResource req.path = false) (hr : run chain h req = .ran) :
    authenticated req = true := by
  induction chain with
  | nil => cases hmem
  | cons w c ih =>
    rcases List.mem_cons.mp hmem with he | hin
    · subst he
      cases ha : authenticated req with
      | true => rfl
      | false =>
        rw [run_cons] at hr
        have := optionalAuthW_denied (run c h) req hu hp ha
        simp only [Wrapper.apply] at hr
        rw [this] at hr
        split at hr <;> cases hr
    · exact ih hin (run_ran_tail w c h req hr)

/-- Strong form: without valid credentials the answer does not depend on the
handler — it is never applied, so nothing it would do happens. -/
theorem C11_no_side_effect (chain : List Wrapper) (req : Req)
    (hmem : .optionalAuth ∈ chain) (hu : authRequired req = true)
    (hp : isPublicResource req.path = false) (ha : authenticated req = false)
    (h₁ h₂ : Handler) : run chain h₁ req = run chain h₂ req := by
  induction chain with
  | nil => cases hmem
  | cons w c ih =>
    rw [run_cons, run_cons]
    rcases List.mem_cons.mp hmem with he | hin
    · subst he
      simp only [Wrapper.apply]
      rw [optionalAuthW_denied _ req hu hp ha, optionalAuthW_denied _ req hu hp ha]
    · exact apply_congr w _ _ req (ih hin)

/-- The exact answer when the gate is the first effective wrapper (only
`postInstall`/`gzip` before it) and the installation is complete: a redirect to
the login page for `/` and `/index.html`, 403 otherwise. -/
theorem C11_denied_response (chain : List Wrapper) (h : Handler) (req : Req)
    (hc : authFirst chain = true) (hu : authRequired req = true) (hf : req.firstRun = false)
    (hp : isPublicResource req.path = false) (ha : authenticated req = false) :
    run chain h req =
      if req.path = pRoot ∨ req.path = pIndex then .redirect (loginTarget req.glMode)
      else .forbiddenAuth :=
  authFirst_denied chain h req hc hu hf hp ha

/-! ## Basic credentials are correct only for an existing user -/

/-- No credential whose name is not the exact name of a configured user is
"correct", whatever the password and whatever `bcrypt` says. -/
theorem C11_basic_needs_existing_user (users : List (Bytes × Bytes))
    (verifies : Bytes → Bytes → Bool) (name pass : Bytes)
    (h : basicClass users verifies (some (name, pass)) = .right) :
    ∃ u ∈ users, u.1 = name ∧ verifies u.2 pass = true := by
  have hf : findUserOK users verifies name pass = true := by
    cases hq : findUserOK users verifies name pass with
    | true => rfl
    | false => simp [basicClass, hq] at h
  unfold findUserOK at hf
  obtain ⟨u, hu, hq⟩ := List.any_eq_true.mp hf
  simp only [Bool.and_eq_true, beq_iff_eq] at hq
  exact ⟨u, hu, hq.1, hq.2⟩

/-- In particular the empty name (`Authorization: Basic Og==`), as long as no
configured user has the empty name; and nothing at all when no user exists. -/
theorem C11_basic_empty_name_rejected (users : List (Bytes × Bytes))
    (verifies : Bytes → Bytes → Bool) (pass : Bytes) (hne : ∀ u ∈ users, u.1 ≠ []) :
    basicClass users verifies (some ([], pass)) = .wrong := by
  cases hc : basicClass users verifies (some ([], pass)) with
  | wrong => rfl
  | none =>
    cases hq : findUserOK users verifies [] pass <;> simp [basicClass, hq] at hc
  | right =>
    obtain ⟨u, hu, hn, _⟩ := C11_basic_needs_existing_user users verifies [] pass hc
    exact absurd hn (hne u hu)

/-- End to end for the Basic branch: a request without session cookie and without
gl-inet token that reaches a handler behind the gate on a non-public path carries
the exact name of a configured user and a password that verifies for that user. -/
theorem C11_basic_gate (chain : List Wrapper) (h : Handler) (req : Req)
    (users : List (Bytes × Bytes)) (verifies : Bytes → Bytes → Bool) (cred : Option (Bytes × Bytes))
    (hb : req.basic = basicClass users verifies cred)
    (hmem : .optionalAuth ∈ chain) (hu : authRequired req = true)
    (hp : isPublicResource req.path = false) (hc : req.cookie = .none)
    (hg : glProcessCookie req = false) (hr : run chain h req = .ran) :
    ∃ name pass, cred = some (name, pass) ∧ ∃ u ∈ users, u.1 = name ∧ verifies u.2 pass = true := by
  have ha := C11_auth_gate chain h req hmem hu hp hr
  unfold authenticated at ha
  rw [hg, hc] at ha
  simp only [Bool.false_or, sessionOrBasic, Bool.and_eq_true, beq_iff_eq] at ha
  have hright := ha.1
  rw [hb] at hright
  cases cred with
  | none => simp [basicClass] at hright
  | some c =>
    obtain ⟨name, pass⟩ := c
    exact ⟨name, pass, rfl, C11_basic_needs_existing_user users verifies name pass hright⟩

/-! ## No other header takes part in the decision -/

/-- The gate's own decision is a function of the path, the class of the session
cookie, the class of the basic credentials and "a user exists" — of nothing else
in the request (no method, no `Origin`/`Access-Control-*`, no forwarding
headers): it answers `authDecision …` or, when that is `none`, calls the
wrapped handler. -/
theorem C11_auth_decision_factors (g : Handler) (req : Req) :
    optionalAuthW g req =
      (authDecision req.path req.cookie req.basic (authRequired req) req.glMode
        (glProcessCookie req) req.addrBlocked).getD (g req) :=
  optionalAuthW_decision g req

/-- For any chain: two requests that differ only in their other headers (an
arbitrary list of name/value pairs) get the same answer, provided the innermost
handler itself answers them alike.  In particular whether the handler is entered
does not depend on those headers. -/
theorem C11_auth_ignores_other_headers (chain : List Wrapper) (h : Handler) (a b : Req)
    (hs : sameButHeaders a b) (hh : h a = h b) : run chain h a = run chain h b := by
  induction chain with
  | nil => exact hh
  | cons w c ih => rw [run_cons]; exact apply_headers w _ a b hs ih

/-- The form used against the implementation: replacing the header list changes
nothing in what the wrappers do. -/
theorem C11_headers_irrelevant (chain : List Wrapper) (req : Req) (hs : List (Bytes × Bytes)) :
    run chain (fun _ => .ran) { req with headers := hs } = run chain (fun _ => .ran) req :=
  C11_auth_ignores_other_headers chain _ _ _ ⟨rfl, rfl, rfl, rfl, rfl, rfl, rfl, rfl, rfl, rfl, rfl, rfl, rfl, rfl⟩ rfl

/-! ## Method and content type -/

/-- Behind `ensure m` the handler is entered only with method `m`, and for a
modifying method only with `application/json` (or no body and no content type). -/
theorem C11_method_ctype (m : Bytes) (chain : List Wrapper) (h : Handler) (req : Req)
    (hmem : .ensure m ∈ chain) (hr : run chain h req = .ran) :
    req.method = m ∧ (modifiesData m = true → jsonOrEmpty req = true) := by
  have := ensure_mem_ran m chain h req hmem hr
  exact ⟨this.1, fun hm => ctypeOK_json req (this.2 hm)⟩

/-- A request that announces a body — any `ContentLength` other than 0, in
particular the unknown length -1 of a chunked (or HTTP/2 length-less) request,
whatever the chunks turn out to hold — enters a handler behind `ensure m` with a
modifying `m` only with `Content-Type: application/json`. -/
theorem C11_body_needs_json (m : Bytes) (chain : List Wrapper) (h : Handler) (req : Req)
    (hmem : .ensure m ∈ chain) (hmod : modifiesData m = true)
    (hlen : req.contentLength ≠ 0) (hr : run chain h req = .ran) :
    req.ctype = sAppJSON := by
  have hc := (ensure_mem_ran m chain h req hmem hr).2 hmod
  unfold ctypeOK at hc
  rw [if_neg hlen] at hc
  exact beq_iff_eq.mp hc

/-! ## Install-wizard routes -/

/-- Behind `preInstall` the handler is entered only during the first run. -/
theorem C11_preinstall_only_first_run (chain : List Wrapper) (h : Handler) (req : Req)
    (hmem : .preInstall ∈ chain) (hr : run chain h req = .ran) : req.firstRun = true := by
  induction chain with
  | nil => cases hmem
  | cons w c ih =>
    rcases List.mem_cons.mp hmem with he | hin
    · subst he
      rw [run_cons] at hr
      simp only [Wrapper.apply, preInstallW] at hr
      cases hf : req.firstRun with
      | true => rfl
      | false => simp [hf] at hr
    · exact ih hin (run_ran_tail w c h req hr)

/-- Strong form: after the installation a `preInstall` route answers without
looking at its handler. -/
theorem C11_preinstall_closed_after_install (chain : List Wrapper) (req : Req)
    (hmem : .preInstall ∈ chain) (hf : req.firstRun = false) (h₁ h₂ : Handler) :
    run chain h₁ req = run chain h₂ req := by
  induction chain with
  | nil => cases hmem
  | cons w c ih =>
    rw [run_cons, run_cons]
    rcases List.mem_cons.mp hmem with he | hin
    · subst he
      simp [Wrapper.apply, preInstallW, hf]
    · exact apply_congr w _ _ req (ih hin)

/-- Why "an administrator account exists" must include "the first run is
over": in the (transient) state `firstRun ∧ usersExist` the wizard's configure
route enters its handler without any credentials.  `handleInstallConfigure`
can leave that state behind when `startMods`/`config.write` fail after
`addUser` succeeded (controlinstall.go:436-470). -/
theorem C11_preinstall_open_on_first_run :
    run [.preInstall, .ensure sPOST] (fun _ => .ran)
      { path := [47], method := sPOST, cookie := .none, basic := .none, ctype := [],
        contentLength := 0, firstRun := true, usersExist := true } = .ran := by
  decide

/-! ## Per-program obligations over the regenerated tables -/

/-- Every route registered on the admin mux is either one of the property's
public routes (`/control/login`, the two mobileconfig generators, `/dns-query`,
`/dns-query/`), an install-wizard route (outermost wrapper `preInstall`), or has
`optionalAuth` as its first effective wrapper; and every route declared with a
state-changing method is wrapped in `ensure` for exactly that method. -/
theorem C11_all_routes_gated : Gen.routes.all routeOK = true := by
  decide +kernel

/-- The design's formulation of the same fact. -/
theorem C11_all_routes_gated' (r : Route) (hr : r ∈ Gen.routes) :
    (allowedPattern r.pattern = true ∨ preInstallFirst r.chain = true ∨
      (.optionalAuth ∈ r.chain ∧ authFirst r.chain = true)) ∧
    (stateChanging r.declared = true → .ensure r.declared ∈ r.chain) := by
  have h := List.all_eq_true.mp C11_all_routes_gated r hr
  unfold routeOK at h
  simp only [Bool.and_eq_true, Bool.or_eq_true, Bool.not_eq_true'] at h
  refine ⟨?_, ?_⟩
  · rcases h.1 with (h1 | h1) | h1
    · exact Or.inl h1
    · exact Or.inr (Or.inl h1)
    · exact Or.inr (Or.inr ⟨authFirst_mem _ h1, h1⟩)
  · intro hs
    rcases h.2 with h2 | h2
    · rw [hs] at h2; cases h2
    · exact List.contains_iff_mem.mp h2

/-- Every value that flows into a location of type `aghhttp.RegisterFunc` is
`home.httpRegister`, `nil`, or another location of that type: no package is
handed a different registration function. -/
theorem C11_register_flows : Gen.regFlows.all flowOK = true := by
  decide +kernel

/-- Every function named on the path from the mux to a registered handler (the
wrappers, the registrar, the gl-inet token check, the session and user lookups
and everything they call, module or library) is one the model was written
against: nothing unreviewed — no extra shortcut, no rewriting of the token
name — sits on the gate path. -/
theorem C11_gate_path_reviewed :
    Gen.gateCallees.all (fun n => reviewedGateCallees.contains n) = true := by
  decide +kernel

/-- No two rows of the table have the same pattern (so "the route serving a
pattern" is well defined; the real mux would panic on a duplicate). -/
theorem C11_patterns_distinct : (Gen.routes.map (·.pattern)).Nodup := by
  decide +kernel

/-! ## End to end, for the program as it is now -/

/-- For every route of the program and every request it serves: once an
account exists and the installation is over, a request to a non-public path
without a valid session cookie or correct basic credentials gets 403 or the
login redirect, and the answer does not depend on the handler. -/
theorem C11_unauthenticated_never_runs (r : Route) (hr : r ∈ Gen.routes) (req : Req)
    (issued : GLStat) (hfs : nameResolves req issued) (hnow : glTimeout < req.now)
    (hs : servedBy r.pattern req.path = true)
    (hn : req.authNil = false)
    (hu : (req.usersExist || req.glMode) = true) (hf : req.firstRun = false)
    (hp : specPublicPath req.path = false) (ha : specAuthenticated req issued = false) :
    (∀ h₁ h₂ : Handler, run r.chain h₁ req = run r.chain h₂ req) ∧
    (∀ h : Handler, run r.chain h req = .forbiddenAuth ∨ run r.chain h req = .forbiddenPre ∨
      run r.chain h req = .redirect (loginTarget req.glMode)) := by
  have hu' : authRequired req = true := by
    unfold authRequired; rw [Bool.or_comm, hn]; simpa using hu
  have hp' : isPublicResource req.path = false := by
    cases hq : isPublicResource req.path with
    | false => rfl
    | true => rw [public_sub_spec _ hq] at hp; cases hp
  have ha' : authenticated req = false := by
    cases hq : authenticated req with
    | false => rfl
    | true => rw [auth_sub_spec _ issued hfs hnow hq] at ha; cases ha
  rcases (C11_all_routes_gated' r hr).1 with h1 | h1 | h1
  · rw [allowed_served_public _ _ h1 hs] at hp; cases hp
  · refine ⟨fun h₁ h₂ => ?_, fun h => Or.inr (Or.inl (preInstallFirst_denied _ h req h1 hf))⟩
    rw [preInstallFirst_denied _ h₁ req h1 hf, preInstallFirst_denied _ h₂ req h1 hf]
  · refine ⟨fun h₁ h₂ => C11_no_side_effect _ req h1.1 hu' hp' ha' h₁ h₂, fun h => ?_⟩
    rw [authFirst_denied _ h req h1.2 hu' hf hp' ha']
    split
    · exact Or.inr (Or.inr rfl)
    · exact Or.inl rfl

/-! ## Start-up: users in the configuration ⇒ the gate is on -/

/-- Whatever state `data/sessions.db` is in, start-up either stops or goes on with
an auth module (never with `globalContext.auth == nil`). -/
theorem C11_startup_never_without_auth (st : StoreState) (n : Bool) (h : startup st = some n) :
    n = false := by
  unfold startup at h
  split at h
  · injection h with h; exact h.symm
  · cases h

/-- No state of the session store opens the gate: after any start-up that goes
on, a configured user means authentication is required (so every theorem above
that assumes `authRequired` applies). -/
theorem C11_users_exist_gate_on (st : StoreState) (n : Bool) (req : Req)
    (hs : startup st = some n) (hn : req.authNil = n) (hu : req.usersExist = true) :
    authRequired req = true := by
  have := C11_startup_never_without_auth st n hs
  subst this
  simp [authRequired, hn, hu]

/-- Every configured user is kept by `InitAuth`, so after any start-up that goes
on (gl-inet mode off) authentication is required exactly when the configured
list is not empty — whatever the entries' password hashes look like. -/
theorem C11_configured_users_all_kept {α : Type} (cfg : List α) :
    initAuthUsers cfg = cfg ∧
    ∀ (st : StoreState) (n : Bool) (req : Req), startup st = some n → req.authNil = n →
      req.glMode = false → req.usersExist = usersExistAfter cfg →
      (authRequired req = true ↔ cfg ≠ []) := by
  refine ⟨rfl, fun st n req hs hn hg hu => ?_⟩
  have := C11_startup_never_without_auth st n hs
  subst this
  cases cfg <;> simp [authRequired, hn, hg, hu, usersExistAfter, initAuthUsers]

/-- The code as it is now: `InitAuth` puts its `users` parameter into the module
unchanged and writes the field nowhere else (regenerated def-use fact). -/
theorem C11_initauth_keeps_users :
    Gen.authFacts.any (fun f => f.kind == .usersStoredAsGiven) = true := by
  decide +kernel

/-- The start-up code as it is now (regenerated facts): every assignment to
`globalContext.auth` is the checked one from `initUsers` followed by
`fatalOnError`, or the `nil` of the shutdown path after the web server is
closed; every `return nil, …` of `initUsers` carries an error that cannot be nil,
every other return comes after the nil check.  And the checked assignment is
there. -/
theorem C11_auth_never_nil_after_startup :
    Gen.authFacts.all authFactOK = true ∧
    Gen.authFacts.any (fun f => f.kind == .assignCheckedFatal) = true ∧
    Gen.authFacts.any (fun f => f.kind == .returnNilWithError) = true := by
  decide +kernel

/-- The gate's Basic branch decides by `findUser`'s verdict: on the gate path every
call of `findUser` discards the returned user (`_, ok = …`) and the variable that
receives the verdict is assigned nowhere else (regenerated def-use facts). -/
theorem C11_gate_uses_finduser_verdict :
    Gen.gateUseFacts.all authFactOK = true ∧
    Gen.gateUseFacts.any (fun f => f.kind == .findUserVerdictOnly) = true := by
  decide +kernel

/-- Why it matters: with the auth module missing the gate requires nothing. -/
theorem C11_nil_auth_opens_gate :
    run [.postInstall, .optionalAuth, .gzip, .ensure sGET] (fun _ => .ran)
      { path := [47, 120], method := sGET, cookie := .none, basic := .none, ctype := [],
        contentLength := 0, firstRun := false, usersExist := true, authNil := true } = .ran := by
  decide

/-! ## gl-inet mode: the router's token file is the credential, by name -/

/-- In gl-inet mode authentication is always required, user or no user. -/
theorem C11_gl_always_required (req : Req) (hn : req.authNil = false) (hg : req.glMode = true) :
    authRequired req = true := by
  simp [authRequired, hg, hn]

/-- The token gate opens only in gl-inet mode, for a request whose `Admin-Token`
cookie is a non-empty value without separator, when the token of exactly that
name is fresh. -/
theorem C11_gl_token_by_name (req : Req) (issued : GLStat) (hfs : nameResolves req issued)
    (hnow : glTimeout < req.now) (h : glProcessCookie req = true) :
    req.glMode = true ∧
    ∃ v, req.glCookie = some v ∧ v ≠ [] ∧ slash ∉ v ∧ tokenFresh req.now issued = true := by
  unfold glProcessCookie at h
  simp only [Bool.and_eq_true] at h
  exact ⟨h.1.1, glCheck_by_name req issued hfs hnow h.2⟩

/-- A file system as the gate sees it, with NOTHING assumed about its content:
`dir name` is whatever entry the token directory holds under
`gl_token_<name>` (a token, any other file, a directory, nothing); `other v` is
whatever a value WITH separators resolves to (any existing file anywhere, e.g.
through a directory `gl_token_x`). -/
def osLookup (dir other : Bytes → GLStat) (v : Bytes) : GLStat :=
  if slash ∈ v then other v else dir v

/-- The repaired gate, over an arbitrary file system: whatever files and
directories exist, a request is authenticated by the gl-inet cookie only if the
value is a plain name (non-empty, no separator) and the entry of exactly that
name in the token directory is a fresh token.  No hypothesis about values with
separators is needed — the only thing asked of the file system is that a path
ending in a separator is not a readable file. -/
theorem C11_gl_authenticated_plain_fresh (dir other : Bytes → GLStat) (req : Req)
    (hos : ∀ v, req.glCookie = some v → req.glStat = osLookup dir other v)
    (hdirsep : ∀ d, other [slash] ≠ .date d)
    (hnow : glTimeout < req.now) (h : glProcessCookie req = true) :
    req.glMode = true ∧
    ∃ v, req.glCookie = some v ∧ v ≠ [] ∧ slash ∉ v ∧ tokenFresh req.now (dir v) = true := by
  unfold glProcessCookie at h
  simp only [Bool.and_eq_true] at h
  refine ⟨h.1.1, ?_⟩
  obtain ⟨v, hv, hp, hf⟩ := glCheck_sub_fresh req hnow h.2
  rcases plainName_cases v hp with ⟨hne, hns⟩ | hsl
  · refine ⟨v, hv, hne, hns, ?_⟩
    have := hos v hv
    simp only [osLookup, hns, if_false] at this
    rw [← this]; exact hf
  · subst hsl
    exfalso
    have := hos _ hv
    simp only [osLookup, List.mem_singleton, if_true] at this
    rw [this] at hf
    unfold tokenFresh at hf
    cases hs : other [slash] with
    | missing => simp [hs] at hf
    | short => simp [hs] at hf
    | date d => exact hdirsep d hs

/-- A value with a separator in it (`x/../passwd`, `dir/inner`, `/x`, `x/`),
or an empty one, never authenticates, whatever exists in the file system. -/
theorem C11_gl_path_values_rejected (req : Req) (v : Bytes) (hv : req.glCookie = some v)
    (hbad : v = [] ∨ (slash ∈ v ∧ v ≠ [slash])) : glCheckToken req = false := by
  unfold glCheckToken
  rw [hv]
  have : plainName v = false := by
    unfold plainName
    rcases hbad with rfl | ⟨hm, hne⟩
    · rfl
    · simp [hne]; exact fun _ => hm
  simp [this]

/-- Behind the gate, in gl-inet mode, a non-public path reaches its handler only
with a fresh token of exactly the cookie's name, a valid session or correct
basic credentials. -/
theorem C11_gl_gate (chain : List Wrapper) (h : Handler) (req : Req) (issued : GLStat)
    (hfs : nameResolves req issued) (hnow : glTimeout < req.now)
    (hmem : .optionalAuth ∈ chain) (hn : req.authNil = false) (hg : req.glMode = true)
    (hp : isPublicResource req.path = false) (hr : run chain h req = .ran) :
    specAuthenticated req issued = true :=
  auth_sub_spec req issued hfs hnow
    (C11_auth_gate chain h req hmem (C11_gl_always_required req hn hg) hp hr)

/-- A missing, unreadable or too short token file, and a token older than the
timeout, never authenticate (clock past 1970-01-01 01:00). -/
theorem C11_gl_stale_or_missing_denied (req : Req) (hnow : glTimeout < req.now)
    (hst : req.glStat = .missing ∨ req.glStat = .short ∨
      ∃ d, req.glStat = .date d ∧ d + glTimeout < req.now) :
    glProcessCookie req = false := by
  cases hq : glProcessCookie req with
  | false => rfl
  | true =>
    unfold glProcessCookie at hq
    simp only [Bool.and_eq_true] at hq
    obtain ⟨v, _, _, hf⟩ := glCheck_sub_fresh req hnow hq.2
    rcases hst with h | h | ⟨d, h, hd⟩ <;> rw [h] at hf <;> simp [tokenFresh] at hf
    omega

/-- For every route declared with a state-changing method, the handler is
entered only with that method and a JSON content type (or no body). -/
theorem C11_state_changing_guarded (r : Route) (hr : r ∈ Gen.routes) (req : Req) (h : Handler)
    (hsc : stateChanging r.declared = true) (hran : run r.chain h req = .ran) :
    req.method = r.declared ∧ jsonOrEmpty req = true := by
  have hmem := (C11_all_routes_gated' r hr).2 hsc
  have := C11_method_ctype r.declared r.chain h req hmem hran
  exact ⟨this.1, this.2 (by rw [← stateChanging_eq]; exact hsc)⟩

/-- The same for a request with a body of known or unknown length: only
`application/json` gets it into the handler of a state-changing route. -/
theorem C11_state_changing_body_json (r : Route) (hr : r ∈ Gen.routes) (req : Req) (h : Handler)
    (hsc : stateChanging r.declared = true) (hlen : req.contentLength ≠ 0)
    (hran : run r.chain h req = .ran) : req.ctype = sAppJSON :=
  C11_body_needs_json r.declared r.chain h req ((C11_all_routes_gated' r hr).2 hsc)
    (by rw [← stateChanging_eq]; exact hsc) hlen hran

/-- The model satisfies the spec monitor on every request, for every route of
the regenerated table that can serve it and for the mux's own answers. -/
theorem C11_model_meets_spec (s : Served) (req : Req) (issued : GLStat)
    (hfs : nameResolves req issued) (hnow : glTimeout < req.now) (hn : req.authNil = false)
    (hs : match s with
      | .route r => r ∈ Gen.routes ∧ servedBy r.pattern req.path = true
      | _ => True) :
    specOK req s.declared (serve s req) issued = true := by
  rw [specOK_iff]
  cases s with
  | muxRedirect => simp [serve, allowedDenial]
  | muxNotFound => simp [serve, allowedDenial]
  | route r =>
    obtain ⟨hr, hsv⟩ := hs
    simp only [serve, Served.declared]
    constructor
    · intro hprot
      unfold protectedReq at hprot
      simp only [Bool.and_eq_true, Bool.not_eq_true'] at hprot
      obtain ⟨⟨⟨hu, hf⟩, hp⟩, ha⟩ := hprot
      rcases (C11_unauthenticated_never_runs r hr req issued hfs hnow hsv hn hu hf hp ha).2
        (fun _ => .ran) with h | h | h
      · rw [h]; rfl
      · rw [h]; rfl
      · rw [h]; cases req.glMode <;> rfl
    · intro hran
      have hran' : run r.chain (fun _ => .ran) req = .ran := by
        injection hran
      unfold badStateChange
      simp only
      cases hsc : stateChanging r.declared with
      | false => simp
      | true =>
        have := C11_state_changing_guarded r hr req _ hsc hran'
        simp [this.1, this.2]

/-! ## Non-vacuity: the hypotheses are satisfiable and the gate does open -/

/-- "/control/status" -/
private def pStatus : Bytes := [47, 99, 111, 110, 116, 114, 111, 108, 47, 115, 116, 97, 116, 117, 115]

private def chainGET : List Wrapper := [.postInstall, .optionalAuth, .gzip, .ensure sGET]
private def chainPOST : List Wrapper := [.postInstall, .optionalAuth, .gzip, .ensure sPOST]

private def reqStatus (c : Cookie) (b : Basic) : Req :=
  { path := pStatus, method := sGET, cookie := c, basic := b, ctype := [], contentLength := 0,
    firstRun := false, usersExist := true }

-- a valid session reaches the handler; so do correct basic credentials
example : run chainGET (fun _ => .ran) (reqStatus .valid .none) = .ran := by decide
example : run chainGET (fun _ => .ran) (reqStatus .none .right) = .ran := by decide
-- no cookie / unknown / expired / wrong password: 403, handler not applied
example : run chainGET (fun _ => .ran) (reqStatus .none .none) = .forbiddenAuth := by decide
example : run chainGET (fun _ => .ran) (reqStatus .unknown .none) = .forbiddenAuth := by decide
example : run chainGET (fun _ => .ran) (reqStatus .expired .none) = .forbiddenAuth := by decide
example : run chainGET (fun _ => .ran) (reqStatus .none .wrong) = .forbiddenAuth := by decide
-- correct basic credentials from an address the login rate limiter blocks: not evaluated, 403
example : run chainGET (fun _ => .ran) { reqStatus .none .right with addrBlocked := true }
    = .forbiddenAuth := by decide
-- quirk of the code: a stale cookie hides correct basic credentials
example : run chainGET (fun _ => .ran) (reqStatus .unknown .right) = .forbiddenAuth := by decide
-- the hypotheses of C11_unauthenticated_never_runs hold for a concrete route and request
example : (Gen.routes.any fun r =>
    servedBy r.pattern (reqStatus .none .none).path && r.chain == chainGET &&
    run r.chain (fun _ => .ran) (reqStatus .valid .none) == .ran &&
    run r.chain (fun _ => .ran) (reqStatus .none .none) == .forbiddenAuth) = true := by
  decide +kernel
example : specPublicPath (reqStatus .none .none).path = false ∧
    specAuthenticated (reqStatus .none .none) .missing = false ∧
    protectedReq (reqStatus .none .none) .missing = true := by decide
-- a state-changing route: wrong method 405, form content type 415, JSON passes
example : run chainPOST (fun _ => .ran)
    { reqStatus .valid .none with method := sPOST, ctype := sAppJSON, contentLength := 2 } = .ran := by
  decide
example : run chainPOST (fun _ => .ran) (reqStatus .valid .none) = .methodNotAllowed := by decide
example : run chainPOST (fun _ => .ran)
    { reqStatus .valid .none with method := sPOST, ctype := [120], contentLength := 2 } = .unsupportedMedia := by
  decide
-- gl-inet mode: a fresh token of the cookie's name opens the gate; a stale one, a
-- missing one and no cookie at all do not; `/` goes to the router's login page
private def reqGL (c : Option Bytes) (st : GLStat) : Req :=
  { reqStatus .none .none with usersExist := false, glMode := true, glCookie := c, glStat := st,
                               now := 1800000000 }
example : run chainGET (fun _ => .ran) (reqGL (some [116]) (.date 1799999000)) = .ran := by decide
example : run chainGET (fun _ => .ran) (reqGL (some [116]) (.date 1799990000)) = .forbiddenAuth := by
  decide
example : run chainGET (fun _ => .ran) (reqGL (some [116]) .missing) = .forbiddenAuth := by decide
example : run chainGET (fun _ => .ran) (reqGL (some [116]) .short) = .forbiddenAuth := by decide
example : run chainGET (fun _ => .ran) (reqGL none (.date 1799999000)) = .forbiddenAuth := by decide
example : run [.postInstall, .optionalAuth, .gzip] (fun _ => .ran)
    { reqGL none .missing with path := pRoot } = .redirect .glRouter := by decide
-- a value with a separator is rejected even when the OS finds a fresh-looking file there
example : run chainGET (fun _ => .ran)
    (reqGL (some [120, 47, 46, 46, 47, 112]) (.date 1799999000)) = .forbiddenAuth := by decide
example : run chainGET (fun _ => .ran) (reqGL (some []) (.date 1799999000)) = .forbiddenAuth := by
  decide
-- the monitor rejects a handler run on a token the OS found under another name
example : specOK (reqGL (some [120, 47, 46, 46, 47, 112]) (.date 1799999000)) (some sGET) (.resp .ran)
    .missing = false := by decide
example : specOK (reqGL (some [116]) (.date 1799999000)) (some sGET) (.resp .ran)
    (.date 1799999000) = true := by decide
-- a CORS-preflight-looking request without credentials is denied like any other
private def reqPreflight : Req :=
  { path := pStatus, method := [79, 80, 84, 73, 79, 78, 83], cookie := .none, basic := .none,
    ctype := [], contentLength := 0, firstRun := false, usersExist := true,
    headers := [([79, 114, 105, 103, 105, 110], [120]),
                ([65, 67, 82, 77], [80, 79, 83, 84])] }
example : run chainGET (fun _ => .ran) reqPreflight = .forbiddenAuth := by decide
example : run [.postInstall, .optionalAuth] (fun _ => .ran) reqPreflight = .forbiddenAuth := by decide
-- unknown length (chunked): no content type 415, form 415, JSON passes — also when
-- nothing says the body is non-empty
example : run chainPOST (fun _ => .ran)
    { reqStatus .valid .none with method := sPOST, ctype := [], contentLength := -1 } = .unsupportedMedia := by
  decide
example : run chainPOST (fun _ => .ran)
    { reqStatus .valid .none with method := sPOST, ctype := sAppJSON, contentLength := -1 } = .ran := by
  decide
example : specOK { reqStatus .valid .none with method := sPOST, ctype := [], contentLength := -1 }
    (some sPOST) (.resp .ran) = false := by decide
-- the monitor is not trivially true: it rejects an unauthenticated handler run,
-- a 405 in place of the 403, and a state change with a form content type
example : specOK (reqStatus .none .none) (some sGET) (.resp .ran) = false := by decide
example : specOK (reqStatus .none .none) (some sGET) (.resp .methodNotAllowed) = false := by decide
example : specOK { reqStatus .valid .none with method := sPOST, ctype := [120], contentLength := 2 }
    (some sPOST) (.resp .ran) = false := by decide
example : specOK (reqStatus .valid .none) (some sGET) (.resp .ran) = true := by decide

end AGH.C11
