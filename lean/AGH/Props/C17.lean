/-
C17 — local files are read as filter lists only when matching the configured
safe patterns.  Property theorems only (helper lemmas live in AGH/Lemmas).

Proved here, for ALL pattern lists, locations and oracle values:
  * a file is opened only for an absolute location, only at its cleaned path,
    only if a configured pattern matches that path in the DECLARATIVE glob
    semantics (`C17_only_matching`, with `C17_match_sound`: Go's greedy matcher
    accepts nothing the pattern language does not);
  * never with an empty pattern list, never for a non-absolute location;
  * the same at the three entry points (`C17_entry_points`,
    `C17_accept_needs_match`, `C17_validate_agrees`);
  * the cleaned path is the kernel's resolution of the spelling and consists
    of plain components only (`C17_clean_is_resolution`);
  * `*`, `?` never cross a separator (`C17_glob_depth`).
Not proved: completeness of Go's matcher (it is NOT complete: see
`C17_observation_greedy_incomplete`), and absence of the bad-pattern panic
(it is NOT absent: see `C17_observation_lazy_pattern_validation`).
-/
import AGH.Spec.SafeFS
import AGH.Lemmas.SafeFSMatch
import AGH.Lemmas.SafeFSClean
import AGH.Lemmas.SafeFSDepth
import AGH.Lemmas.SafeFSEntry
import AGH.Gen.C17OpenSites
namespace AGH.C17
open AGH AGH.Bytes

/-! ### Matching -/

/-- Go's `filepath.Match` is sound for the documented pattern language:
if it reports a match, the pattern is well-formed and its AST matches the
whole name (`*`/`?` not crossing `/`). -/
theorem C17_match_sound (pat name : Bytes) (h : goMatch pat name = .ok true) :
    ∃ ts, parseGlob pat = some ts ∧ matchesT ts name = true :=
  matchLoop_sound _ _ _ h

/-- The server opens a local file only if the location is absolute, the path
handed to `os.Open` is its cleaned form, and that path matches one of the
configured safe patterns. -/
theorem C17_only_matching (pats : List Bytes) (loc p : Bytes) (h : opens pats loc = some p) :
    isAbs loc = true ∧ p = pathClean loc ∧ pats ≠ [] ∧ ∃ g ∈ pats, globMatches g p = true :=
  opens_spec h

/-- With no patterns configured no local file is read at all. -/
theorem C17_empty_patterns (loc : Bytes) : opens [] loc = none := by
  unfold opens reader pathMatchesAny
  by_cases h : isAbs loc <;> simp [h]

/-- Relative paths and `file:`, `ftp:` … locations (anything not starting
with `/`) are never opened as local files by `reader`: they go to the HTTP
client.  That the client itself cannot serve a local file is not an assumption
about `net/http` made here but the extracted fact `C17_T_client_http_only`
(and is observed on the client built by `home` in `TestVerifC17Home`). -/
theorem C17_nonabs_never_local (pats : List Bytes) (loc : Bytes) (h : isAbs loc = false) :
    reader pats loc = .http ∧ opens pats loc = none := by
  simp [opens, reader, h]

/-! ### Cleaning -/

/-- For an absolute spelling `p`: the cleaned path is `/` + the components the
kernel reaches by walking `p` in a symlink-free tree; all of them are plain
names (no empty, `.`, `..`, no separator inside), so walking the cleaned path
changes nothing; and cleaning is idempotent (so `pathMatchesAny`'s "not
absolute" panic is unreachable from `reader`/`validateFilterURL`). -/
theorem C17_clean_is_resolution (p : Bytes) (h : isAbs p = true) :
    pathClean p = slash :: joinWith slash (resolve p) ∧
    comps (pathClean p) = resolve p ∧
    (∀ c ∈ resolve p, plainComp c) ∧
    resolve (pathClean p) = resolve p ∧
    pathClean (pathClean p) = pathClean p := by
  have h1 := pathClean_abs h
  have h2 := resolve_plain p
  have h3 : comps (pathClean p) = resolve p := by rw [h1]; exact comps_root_join _ h2
  refine ⟨h1, h3, h2, ?_, pathClean_idem h⟩
  have : resolve (pathClean p) = walk [] (comps (pathClean p)) := by
    unfold resolve comps; rw [walk_filter_empty]
  rw [this, h3, walk_of_plain _ _ h2]; rfl

/-- `reader` and `validateFilterURL` never reach the "not absolute" panic. -/
theorem C17_no_notabs_panic (pats : List Bytes) (loc : Bytes) (kind : Kind) (urlOK : Bool) :
    reader pats loc ≠ .panic .notAbs ∧ validateFilterURL pats loc kind urlOK ≠ .panic .notAbs := by
  have key : isAbs loc = true → pathMatchesAny pats (pathClean loc) ≠ .error .notAbs := by
    intro ha
    unfold pathMatchesAny
    by_cases h0 : pats = []
    · rw [if_pos h0]; intro h; cases h
    · rw [if_neg h0]
      have hc := pathClean_abs ha
      have habs : isAbs (pathClean loc) = true := by rw [hc]; simp [isAbs]
      have hid : (pathClean (pathClean loc) != pathClean loc) = false := by
        rw [pathClean_idem ha]; simp
      rw [habs, hid]
      simp only [Bool.not_true, Bool.or_self, Bool.false_eq_true, if_false]
      generalize pathClean loc = p
      induction pats with
      | nil => simp [matchAny]
      | cons g gs ih =>
        unfold matchAny
        cases goMatch g p with
        | error e => simp
        | ok b =>
          cases b with
          | true => simp
          | false =>
            cases gs with
            | nil => simp [matchAny]
            | cons g' gs' => exact ih (by simp)
  constructor
  · unfold reader
    by_cases ha : isAbs loc = true
    · simp only [ha, Bool.not_true, Bool.false_eq_true, if_false]
      have := key ha
      cases hm : pathMatchesAny pats (pathClean loc) with
      | error e =>
        cases e with
        | notAbs => exact absurd hm this
        | badPattern => simp
      | ok b => cases b <;> simp
    · simp [ha]
  · unfold validateFilterURL
    by_cases ha : isAbs loc = true
    · simp only [ha, if_true]
      split
      · simp
      · have := key ha
        cases hm : pathMatchesAny pats (pathClean loc) with
        | error e =>
          cases e with
          | notAbs => exact absurd hm this
          | badPattern => simp
        | ok b => cases b <;> simp
    · simp only [ha, Bool.false_eq_true, if_false]
      split <;> simp

/-- **No spelling escapes**, for every byte string used as a location.  The
URL→path decision of the code is one test: does the string start with `/`
(`filepath.IsAbs` on Unix).  If it does not — relative paths (never resolved
against the working directory), `file://…`, `FILE:`, `ftp://`, `C:\…`,
`\\host\share`, a leading space — nothing is opened locally and the string goes
to the HTTP client.  If it does — including `//host/path`, `/%2e%2e/x` (no
percent-decoding takes place), `/a/../b`, `/a//b/./` — the only path that can
be opened is the lexically cleaned one, which names exactly the file the
kernel reaches from the spelling in a symlink-free tree and has plain
components only, and it must match a configured pattern.  (The property is
about the cleaned absolute PATH: symlinks inside a matching directory are
followed by the kernel and are out of scope, as the property says.) -/
theorem C17_no_spelling_escapes (pats : List Bytes) (loc : Bytes) :
    (isAbs loc = false → reader pats loc = .http ∧ opens pats loc = none) ∧
    (∀ p, opens pats loc = some p →
      isAbs loc = true ∧ p = pathClean loc ∧ comps p = resolve loc ∧
      (∀ c ∈ comps p, plainComp c) ∧ pathClean p = p ∧
      pats ≠ [] ∧ ∃ g ∈ pats, globMatches g p = true) := by
  refine ⟨fun h => C17_nonabs_never_local pats loc h, ?_⟩
  intro p hp
  obtain ⟨h1, h2, h3, h4⟩ := C17_only_matching pats loc p hp
  obtain ⟨_, c2, c3, _, c5⟩ := C17_clean_is_resolution loc h1
  subst h2
  exact ⟨h1, rfl, c2, by rw [c2]; exact c3, c5, h3, h4⟩

/-! ### Depth -/

/-- `*` and `?` cannot be used to climb into sub-directories: a path matched
by a pattern whose classes do not admit `/` has exactly as many separators as
the pattern has literal ones. -/
theorem C17_glob_depth (g p : Bytes) (ts : List Term) (hp : parseGlob g = some ts)
    (hc : noSlashClass ts = true) (hm : globMatches g p = true) :
    p.count slash = litSlashes ts := by
  unfold globMatches at hm
  rw [hp] at hm
  exact matchesT_depth ts p hc hm

/-! ### Entry points -/

/-- add / set-url validation and the refresh-time check are the same test:
what validation accepts (for an absolute location) is opened at the cleaned
path; what the reader would refuse, validation refuses. -/
theorem C17_validate_agrees (pats : List Bytes) (loc : Bytes) (kind : Kind) (urlOK : Bool)
    (ha : isAbs loc = true) :
    (validateFilterURL pats loc kind urlOK = .ok → reader pats loc = .opened (pathClean loc)) ∧
    (reader pats loc = .noMatch → validateFilterURL pats loc kind urlOK = .errNoMatch ∨
      validateFilterURL pats loc kind urlOK = .errStat) := by
  unfold validateFilterURL reader
  simp only [ha, if_true, Bool.not_true, Bool.false_eq_true, if_false]
  by_cases hk : kind = .missing
  · cases hm : pathMatchesAny pats (pathClean loc) with
    | error e => simp [hk]
    | ok b => cases b <;> simp [hk]
  · cases hm : pathMatchesAny pats (pathClean loc) with
    | error e => simp [hk]
    | ok b => cases b <;> simp [hk]

/-- At every entry point (add, set-url, refresh): if afterwards the content
of a local file `p` is in force, then `p` was opened by `reader` under the
configured patterns — hence all of `C17_only_matching` holds for it. -/
theorem C17_entry_points (op : Op) (e : Env) (st : Nat) (c : Cls) (p : Bytes) (u : Bool)
    (h : runOp op e = .done st c (.file p) u) :
    isAbs e.loc = true ∧ p = pathClean e.loc ∧ e.pats ≠ [] ∧
      (∃ g ∈ e.pats, globMatches g p = true) ∧ e.kind = .file := by
  have key : download e = .ok (some (.file p)) →
      isAbs e.loc = true ∧ p = pathClean e.loc ∧ e.pats ≠ [] ∧
      (∃ g ∈ e.pats, globMatches g p = true) ∧ e.kind = .file := by
    intro hd
    obtain ⟨ho, hk⟩ := download_file hd
    obtain ⟨h1, h2, h3, h4⟩ := opens_spec ho
    exact ⟨h1, h2, h3, h4, hk⟩
  unfold runOp at h
  cases hce : confError e.pats 0 with
  | some i => rw [hce] at h; cases h
  | none =>
    rw [hce] at h
    simp only at h
    cases op with
    | add =>
      simp only at h
      cases hv : validateFilterURL e.pats e.loc e.kind e.urlOK with
      | ok =>
        rw [hv] at h
        simp only at h
        cases hd : download e with
        | error q => rw [hd] at h; cases h
        | ok o =>
          rw [hd] at h
          cases o with
          | none => simp at h
          | some s =>
            simp only [Obs.done.injEq] at h
            rw [h.2.2.1] at hd
            exact key hd
      | errStat => rw [hv] at h; simp [vcls] at h
      | errNoMatch => rw [hv] at h; simp [vcls] at h
      | errURL => rw [hv] at h; simp [vcls] at h
      | panic q => rw [hv] at h; cases h
    | setURL =>
      simp only at h
      cases hv : validateFilterURL e.pats e.loc e.kind e.urlOK with
      | ok =>
        rw [hv] at h
        simp only at h
        by_cases hen : e.enabled = true
        · rw [if_pos hen] at h
          cases hd : download e with
          | error q => rw [hd] at h; cases h
          | ok o =>
            rw [hd] at h
            cases o with
            | none => simp at h
            | some s =>
              simp only [Obs.done.injEq] at h
              rw [h.2.2.1] at hd
              exact key hd
        · rw [if_neg hen] at h; simp at h
      | errStat => rw [hv] at h; simp [vcls] at h
      | errNoMatch => rw [hv] at h; simp [vcls] at h
      | errURL => rw [hv] at h; simp [vcls] at h
      | panic q => rw [hv] at h; cases h
    | refresh =>
      simp only at h
      cases hd : download e with
      | error q => rw [hd] at h; cases h
      | ok o =>
        rw [hd] at h
        cases o with
        | none => simp at h
        | some s =>
          simp only [Obs.done.injEq] at h
          rw [h.2.2.1] at hd
          exact key hd

/-- Enforced when a list is added and when its URL is edited: an absolute
location is accepted (status 200) only if its cleaned form matches one of the
configured patterns — also for a disabled list, where nothing is read. -/
theorem C17_accept_needs_match (op : Op) (e : Env) (c : Cls) (s : Src) (u : Bool)
    (hop : op = .add ∨ op = .setURL) (h : runOp op e = .done 200 c s u) (ha : isAbs e.loc = true) :
    matchesSome e.pats (pathClean e.loc) = true := by
  unfold runOp at h
  cases hce : confError e.pats 0 with
  | some i => rw [hce] at h; cases h
  | none =>
    rw [hce] at h
    simp only at h
    cases hv : validateFilterURL e.pats e.loc e.kind e.urlOK with
    | ok => exact validate_ok_abs hv ha
    | errStat => rcases hop with rfl | rfl <;> (rw [hv] at h; simp [vcls] at h)
    | errNoMatch => rcases hop with rfl | rfl <;> (rw [hv] at h; simp [vcls] at h)
    | errURL => rcases hop with rfl | rfl <;> (rw [hv] at h; simp [vcls] at h)
    | panic q => rcases hop with rfl | rfl <;> (rw [hv] at h; cases h)

/-- The model satisfies the monitor that the driver evaluates on the
implementation, for every entry point, configuration, location and oracle. -/
theorem C17_model_meets_spec (op : Op) (e : Env) : specOK op e (runOp op e) = true := by
  unfold specOK specWhy
  cases hr : runOp op e with
  | confErr i => rfl
  | panic p => rfl
  | done st c src u =>
    simp only
    have hsrc : srcWhy e src = none := by
      unfold srcWhy
      cases src with
      | file p =>
        obtain ⟨h1, h2, h3, ⟨g, hg, hgm⟩, _⟩ := C17_entry_points op e st c p u hr
        have hms : matchesSome e.pats p = true := by
          simp only [matchesSome, List.any_eq_true]; exact ⟨g, hg, hgm⟩
        have hne : e.pats.isEmpty = false := by
          cases hp : e.pats with
          | nil => exact absurd hp h3
          | cons a b => rfl
        subst h2
        simp [h1, hne, hms]
      | unknown =>
        -- the model never stores unknown content
        exfalso
        unfold runOp at hr
        cases hce : confError e.pats 0 with
        | some i => rw [hce] at hr; cases hr
        | none =>
          rw [hce] at hr
          have hd : ∀ s, download e = .ok (some s) → s ≠ .unknown := by
            intro s hd
            unfold download at hd
            cases hrd : reader e.pats e.loc with
            | http => rw [hrd] at hd; simp only at hd; split at hd <;> simp at hd; rw [← hd]; simp
            | noMatch => rw [hrd] at hd; simp at hd
            | panic q => rw [hrd] at hd; simp at hd
            | opened q => rw [hrd] at hd; simp only at hd; split at hd <;> simp at hd; rw [← hd]; simp
          simp only at hr
          cases op with
          | add =>
            simp only at hr
            cases hv : validateFilterURL e.pats e.loc e.kind e.urlOK with
            | ok =>
              rw [hv] at hr; simp only at hr
              cases hdl : download e with
              | error q => rw [hdl] at hr; cases hr
              | ok o =>
                rw [hdl] at hr
                cases o with
                | none => simp at hr
                | some s => simp only [Obs.done.injEq] at hr; exact hd s hdl hr.2.2.1
            | errStat => rw [hv] at hr; simp [vcls] at hr
            | errNoMatch => rw [hv] at hr; simp [vcls] at hr
            | errURL => rw [hv] at hr; simp [vcls] at hr
            | panic q => rw [hv] at hr; cases hr
          | setURL =>
            simp only at hr
            cases hv : validateFilterURL e.pats e.loc e.kind e.urlOK with
            | ok =>
              rw [hv] at hr; simp only at hr
              by_cases hen : e.enabled = true
              · rw [if_pos hen] at hr
                cases hdl : download e with
                | error q => rw [hdl] at hr; cases hr
                | ok o =>
                  rw [hdl] at hr
                  cases o with
                  | none => simp at hr
                  | some s => simp only [Obs.done.injEq] at hr; exact hd s hdl hr.2.2.1
              · rw [if_neg hen] at hr; simp at hr
            | errStat => rw [hv] at hr; simp [vcls] at hr
            | errNoMatch => rw [hv] at hr; simp [vcls] at hr
            | errURL => rw [hv] at hr; simp [vcls] at hr
            | panic q => rw [hv] at hr; cases hr
          | refresh =>
            simp only at hr
            cases hdl : download e with
            | error q => rw [hdl] at hr; cases hr
            | ok o =>
              rw [hdl] at hr
              cases o with
              | none => simp at hr
              | some s => simp only [Obs.done.injEq] at hr; exact hd s hdl hr.2.2.1
      | none => rfl
      | old => rfl
      | http => rfl
    rw [hsrc]
    simp only
    by_cases hc : (op = .add ∨ op = .setURL) ∧ st = 200 ∧ isAbs e.loc = true ∧
        (!matchesSome e.pats (pathClean e.loc)) = true
    · exfalso
      obtain ⟨hop, hst, ha, hn⟩ := hc
      subst hst
      have := C17_accept_needs_match op e c src u hop hr ha
      rw [this] at hn; cases hn
    · rw [if_neg hc]; rfl

/-! ### Translator tie: what the Go program does with a filter's URL

`AGH/Gen/C17OpenSites.lean` is regenerated from the typed AST of the current
tree on every run (extract/cmd/c17): every call in the module that hands a
path to the file system, with the provenance of the path (backward data flow
through locals, parameters over all callers, struct fields over all writes,
results of module functions; unknown calls keep the provenance of their
arguments), the structure of the safe-pattern test around the sites a filter
URL reaches, and every value stored into `FilterYAML.URL`.  The theorems below
are obligations over those tables; they are what ties the function `reader` of
the model to "every place where the program opens a file named by a list". -/

/-- The path comes from a stored filter URL or from the URL field of a
filtering API request. -/
def urlFed (s : Gen.Site) : Bool := (s.prov / 4) % 4 != 0

/-- The path comes from the URL of the rule-list implementation that is not
wired into the server (`rulelist.Filter`, which accepts `file:` URLs unchecked). -/
def nextFed (s : Gen.Site) : Bool := (s.prov / 16) % 2 != 0

/-- In the whole module a filter's URL reaches the file system at two calls
only: the `os.Open` in `DNSFilter.reader`, dominated by
`v = filepath.Clean(v); if !pathMatchesAny(d.safeFSPatterns, v) { return err }`,
and the `os.Stat` in `validateFilterURL`, which is followed by the same test
before the function can return nil.  No read, listing, library open, exec or
mutation anywhere else is fed by it. -/
theorem C17_T_url_reaches_fs_only_guarded :
    ∀ s ∈ Gen.sites, urlFed s = true →
      (s.op = 0 ∧ s.role = 1 ∧ s.guard = 1) ∨ (s.op = 1 ∧ s.role = 2 ∧ s.guard = 2) := by
  decide +kernel

/-- There is exactly one call that opens a file named by a filter URL, it is
the one in `reader`, and its path is nothing but the stored URL (cleaned). -/
theorem C17_T_single_open_site :
    (Gen.sites.filter fun s => urlFed s && s.op != 1).length = 1 ∧
    ∃ s ∈ Gen.sites, s.op = 0 ∧ s.role = 1 ∧ s.guard = 1 ∧ s.prov = 4 := by
  decide +kernel

/-- The unchecked `file:` reader of `internal/filtering/rulelist` exists but
nothing outside that package (tests aside) constructs its filters, engines or
storages: it is not reachable in the server. -/
theorem C17_T_next_impl_unwired :
    (∃ s ∈ Gen.sites, nextFed s = true ∧ s.op = 0) ∧ Gen.nextImplRefs = 0 := by
  decide +kernel

/-- Every value ever stored into a filter's URL is a copy of a stored URL, a
compiled-in constant, or the URL of an add / set-url request on which
`validateFilterURL` was called — with an error return — earlier in the same
handler. -/
theorem C17_T_url_writes_validated :
    ∀ w ∈ Gen.urlWrites, w.prov = 4 ∨ w.prov = 32 ∨
      (w.prov = 8 ∧ w.validated = true ∧ (w.role = 3 ∨ w.role = 4)) := by
  decide +kernel

/-- Both HTTP entry points are present and validate before they touch the list. -/
theorem C17_T_both_entry_points_validate :
    (∃ w ∈ Gen.urlWrites, w.role = 3 ∧ w.prov = 8 ∧ w.validated = true) ∧
    (∃ w ∈ Gen.urlWrites, w.role = 4 ∧ w.prov = 8 ∧ w.validated = true) := by
  decide +kernel

/-- The configured safe patterns are stored exactly as configured: the only
store into `DNSFilter.safeFSPatterns` in the module is the append, in
`filtering.New`, of each element of `Config.SafeFSPatterns` after
`filepath.Match` accepted it — no default, nothing added.  (So "no patterns
configured" really is the empty list of `C17_empty_patterns`.) -/
theorem C17_T_patterns_exactly_configured :
    Gen.patternWrites.length = 1 ∧ ∀ w ∈ Gen.patternWrites, w.kind = 1 := by
  decide +kernel

/-- The client that `reader` hands every non-absolute location to speaks http
and https only: the single store into `filtering.Config.HTTPClient` is the
result of a function (`home.httpClient`) that returns a literal
`&http.Client{Transport: &http.Transport{…}}`, and nothing in the module
registers another protocol on a transport (`RegisterProtocol`,
`NewFileTransport`, `NewFileTransportFS`: 0 uses).  This is the fact behind
`C17_nonabs_never_local`: "handed to the HTTP client" means "no local file". -/
theorem C17_T_client_http_only :
    Gen.protocolRegistrations = 0 ∧ Gen.clientWrites.length = 1 ∧ ∀ w ∈ Gen.clientWrites, w.kind = 1 := by
  decide +kernel

/-! ### Observations about the unchanged code (not violations of C17: a crash
or a refusal reads nothing) -/

/-- `filtering.New` validates a pattern with `filepath.Match(p, "test")`, and
`Match` stops at the first chunk that does not match: the malformed pattern
`/a*[` is accepted at start-up, and a later request for the existing path `/a`
makes `pathMatchesAny` panic ("bad pattern"). -/
theorem C17_observation_lazy_pattern_validation :
    confError [[47, 97, 42, 91]] 0 = none ∧
    goMatch [47, 97, 42, 91] [47, 97] = .error .badPattern ∧
    reader [[47, 97, 42, 91]] [47, 97] = .panic .badPattern := by
  decide

/-- Go's matcher commits to the leftmost match of a chunk, and character
classes (unlike `*`, `?`) may match `/`: the name `[]/x` matches the AST of
`*[/[]*` (star = `[]`, class = `/`, star = `x`), yet `filepath.Match` says
no.  The matcher is sound, not complete; the property needs soundness only. -/
theorem C17_observation_greedy_incomplete :
    globMatches [42, 91, 47, 91, 93, 42] [91, 93, 47, 120] = true ∧
    goMatch [42, 91, 47, 91, 93, 42] [91, 93, 47, 120] = .ok false := by
  decide

/-! ### Non-vacuity: the hypotheses above are met by concrete, non-trivial cases -/

-- "/s/*.txt" opens "/s/a.txt" when spelled "/s/x/../a.txt"
example : opens [[47, 115, 47, 42, 46, 116, 120, 116]] [47, 115, 47, 120, 47, 46, 46, 47, 97, 46, 116, 120, 116]
    = some [47, 115, 47, 97, 46, 116, 120, 116] := by decide
-- … but not "/s/../o/a.txt", nor "/s/d/a.txt" (the star does not cross "/")
example : opens [[47, 115, 47, 42, 46, 116, 120, 116]] [47, 115, 47, 46, 46, 47, 111, 47, 97, 46, 116, 120, 116] = none := by
  decide
example : opens [[47, 115, 47, 42, 46, 116, 120, 116]] [47, 115, 47, 100, 47, 97, 46, 116, 120, 116] = none := by decide
-- spellings, with the pattern "/s/*": only the last two reach the file system, at the cleaned path
example : reader [[47, 115, 47, 42]] [102, 105, 108, 101, 58, 47, 47, 47, 115, 47, 97] = .http := by decide          -- file://
example : reader [[47, 115, 47, 42]] [70, 73, 76, 69, 58, 47, 115, 47, 97] = .http := by decide             -- FILE:
example : reader [[47, 115, 47, 42]] [115, 47, 97] = .http := by decide                   -- relative
example : reader [[47, 115, 47, 42]] [46, 46, 47, 115, 47, 97] = .http := by decide
example : reader [[47, 115, 47, 42]] [67, 58, 92, 115, 92, 97] = .http := by decide               -- Windows style
example : reader [[47, 115, 47, 42]] [32, 47, 115, 47, 97] = .http := by decide                 -- leading space
example : reader [[47, 115, 47, 42]] [47, 115, 47, 37, 50, 101, 37, 50, 101, 47, 101, 116, 99] = .noMatch := by decide      -- no percent-decoding
example : reader [[47, 115, 47, 42]] [47, 47, 115, 47, 97] = .opened [47, 115, 47, 97] := by decide   -- //host/path is a path
example : reader [[47, 115, 47, 42]] [47, 120, 47, 46, 46, 47, 47, 115, 47, 46, 47, 97, 47] = .opened [47, 115, 47, 97] := by decide
example : reader [[47, 115, 47, 42]] [47, 115, 47, 46, 46, 47, 101, 116, 99, 47, 112, 97, 115, 115, 119, 100] = .noMatch := by decide

-- an add of an existing matching file succeeds and puts that file in force
example : runOp .add (⟨[[47, 115, 47, 42]], [47, 115, 47, 47, 97], .file, false, false, true⟩ : Env)
    = .done 200 .ok (.file [47, 115, 47, 97]) true := by decide
-- a pattern with a class that admits "/" really lets a name with one more separator through
example : goMatch [97, 91, 94, 120, 93, 98] [97, 47, 98] = .ok true ∧
    noSlashClass [.lit 97, .cls true [(120, 120)], .lit 98] = false := by decide
-- the depth theorem applies to "/s/*.txt"
example : parseGlob [47, 115, 47, 42, 46, 116, 120, 116] =
    some [.lit 47, .lit 115, .lit 47, .star, .lit 46, .lit 116, .lit 120, .lit 116] := by decide

end AGH.C17
