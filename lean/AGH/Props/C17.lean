import AGH.Spec.SafeFS
namespace AGH.C17
open AGH AGH.Bytes

theorem C17_empty_patterns (loc : Bytes) : opens [] loc = none := by
  unfold opens reader pathMatchesAny
  by_cases h : isAbs loc <;> simp [h]

end AGH.C17
