/-
C18 — the blocked-services pause schedule follows local wall-clock time.
Property theorems only (helper lemmas live in AGH/Lemmas/Schedule.lean).

A zone is ANY function `off : Int → Int` (UTC seconds ↦ offset in seconds): the
theorems hold for every time zone, every transition pattern (23-, 25-, 24.5-hour
days, offsets with seconds), every instant (negative Unix times included) and
every schedule.
-/
import AGH.Lemmas.Schedule
import AGH.Lemmas.ScheduleFloat
import AGH.Gen.C18Schedule
namespace AGH.C18
open AGH

/-! ## In effect ⇔ wall-clock time of day in the weekday's range -/

/-- `Weekly.Contains` is true exactly when the instant's wall-clock time of day,
on its weekday in the schedule's zone, lies in that day's `[start, end)`. -/
theorem C18_contains_spec (off : Int → Int) (w : Weekly) (t : Instant) :
    contains off w t = true ↔ InEffect off w t := by
  simp only [contains, InEffect, rangeAt, localWeekday, localDay, timeOfDay, wall, absSec, weekdayOf,
    secondsPerDay, clockOffset_eq, DayRange.contains, Bool.and_eq_true, decide_eq_true_eq]

/-- The request path applies the blocked-service rules exactly when the pause
schedule is not in effect (blocked.go:96, filter.go:645). -/
theorem C18_services_applied_iff (off : Int → Int) (w : Weekly) (now : Instant) :
    servicesApplied off w now = true ↔ ¬ InEffect off w now := by
  rw [← C18_contains_spec]
  simp [servicesApplied]

/-- A full-day range covers EVERY instant of that local day — however many
hours the day has in that zone. -/
theorem C18_full_day_covers (off : Int → Int) (w : Weekly) (D : Int) (t : Instant)
    (hns : t.nsec < 1000000000) (hday : localDay off t = D)
    (hfull : w.days.get (dayWeekday D) = ⟨0, maxDayRange⟩) :
    contains off w t = true := by
  rw [C18_contains_spec]
  subst hday
  have hr : rangeAt off w t = ⟨0, maxDayRange⟩ := hfull
  simp only [InEffect, hr, timeOfDay, maxDayRange]
  omega

/-- An empty range (`end ≤ start`, in particular the unset day `0–0`) covers no
instant of that local day. -/
theorem C18_empty_covers_none (off : Int → Int) (w : Weekly) (D : Int) (t : Instant)
    (hday : localDay off t = D)
    (hempty : (w.days.get (dayWeekday D)).stop ≤ (w.days.get (dayWeekday D)).start) :
    contains off w t = false := by
  rw [Bool.eq_false_iff, Ne, C18_contains_spec]
  subst hday
  intro h
  have h1 : (rangeAt off w t).start ≤ timeOfDay off t := h.1
  have h2 : timeOfDay off t < (rangeAt off w t).stop := h.2
  have h3 : (rangeAt off w t).stop ≤ (rangeAt off w t).start := hempty
  omega

/-- Only the wall-clock reading matters: two instants, in whatever zones, whose
clocks show the same date and time get the same answer.  (This is what finding
F8 violated: the pre-repair code also depended on how long ago local midnight was.) -/
theorem C18_wallclock_only (off off' : Int → Int) (w : Weekly) (t t' : Instant)
    (hwall : wall off t = wall off' t') (hns : t.nsec = t'.nsec) :
    contains off w t = contains off' w t' := by
  have h : ∀ o (x : Instant), contains o w x =
      (w.days.get (((wall o x / 86400 + 4) % 7).toNat)).contains ((wall o x % 86400) * 1000000000 + (x.nsec : Int)) := by
    intro o x
    simp only [contains, wall, absSec, weekdayOf, secondsPerDay, clockOffset_eq]
  rw [h, h, hwall, hns]

/-- Range edges: with `start < end`, the instant whose clock shows exactly
`start` is inside, the one showing exactly `end` (if that is still the same
local day) is outside. -/
theorem C18_range_edges (off : Int → Int) (w : Weekly) (t : Instant) :
    (timeOfDay off t = (rangeAt off w t).start → (rangeAt off w t).start < (rangeAt off w t).stop →
      contains off w t = true) ∧
    (timeOfDay off t = (rangeAt off w t).stop → contains off w t = false) := by
  constructor
  · intro h1 h2
    rw [C18_contains_spec]
    exact ⟨by omega, by omega⟩
  · intro h1
    rw [Bool.eq_false_iff, Ne, C18_contains_spec]
    intro h
    have := h.2
    omega

/-! ### Non-vacuity: Europe/Berlin in 2024 (CET +1 h, CEST +2 h from 2024-03-31
01:00 UTC to 2024-10-27 01:00 UTC) -/

/-- The zone function of Europe/Berlin around 2024. -/
def berlin2024 (s : Int) : Int :=
  if s < 1711846800 then 3600 else if s < 1729990800 then 7200 else 3600

/-- "Europe/Berlin" -/
def berlinName : Bytes := [69, 117, 114, 111, 112, 101, 47, 66, 101, 114, 108, 105, 110]

/-- Sunday 09:00–10:00, every other day unset. -/
def sundayMorning : Weekly :=
  ⟨berlinName, ⟨⟨32400000000000, 36000000000000⟩, .zero, .zero, .zero, .zero, .zero, .zero⟩⟩

/-- Sunday 00:00–24:00. -/
def sundayFull : Weekly :=
  ⟨berlinName, ⟨⟨0, maxDayRange⟩, .zero, .zero, .zero, .zero, .zero, .zero⟩⟩

-- 2024-03-31 (23-hour day): 09:30 CEST is inside 09:00–10:00, 10:30 CEST is outside.
example : contains berlin2024 sundayMorning ⟨1711870200, 0⟩ = true := by decide
example : contains berlin2024 sundayMorning ⟨1711873800, 0⟩ = false := by decide
-- 2024-10-27 (25-hour day): local day 20023 runs from 1729980000 to 1730069999 (90000 s);
-- its first and last second are both on it and both covered by the full-day range.
example : localDay berlin2024 ⟨1729980000, 0⟩ = 20023 ∧ localDay berlin2024 ⟨1730069999, 999999999⟩ = 20023 ∧
    localDay berlin2024 ⟨1729979999, 0⟩ = 20022 ∧ localDay berlin2024 ⟨1730070000, 0⟩ = 20024 := by decide
example : dayWeekday 20023 = 0 := by decide
example : contains berlin2024 sundayFull ⟨1729980000, 0⟩ = true :=
  C18_full_day_covers berlin2024 sundayFull 20023 _ (by decide) (by decide) (by decide)
example : contains berlin2024 sundayFull ⟨1730069999, 999999999⟩ = true :=
  C18_full_day_covers berlin2024 sundayFull 20023 _ (by decide) (by decide) (by decide)
-- the hypotheses of `C18_empty_covers_none` are met on the same day by Monday-less `sundayMorning` on a Monday
example : contains berlin2024 sundayMorning ⟨1730073600, 0⟩ = false :=
  C18_empty_covers_none berlin2024 sundayMorning 20024 _ (by decide) (by decide)

/-- Why the pre-repair form was wrong (finding F8): measuring the time ELAPSED
since local midnight (`mid`) instead of reading the clock misplaces every range
after a transition.  On 2024-03-31 in Berlin (midnight = 1711839600) the range
09:00–10:00 missed 09:30 and held at 10:30; on 2024-10-27 (midnight =
1729980000) the full-day range missed 23:30.  The specification says the
opposite in all three cases. -/
theorem C18_elapsed_form_differs :
    (containsElapsed berlin2024 sundayMorning 1711839600 ⟨1711870200, 0⟩ = false ∧
      InEffect berlin2024 sundayMorning ⟨1711870200, 0⟩) ∧
    (containsElapsed berlin2024 sundayMorning 1711839600 ⟨1711873800, 0⟩ = true ∧
      ¬ InEffect berlin2024 sundayMorning ⟨1711873800, 0⟩) ∧
    (containsElapsed berlin2024 sundayFull 1729980000 ⟨1730068200, 0⟩ = false ∧
      InEffect berlin2024 sundayFull ⟨1730068200, 0⟩) := by
  decide

/-! ## Validation -/

/-- `(*Weekly).validate` accepts exactly the unset range `0–0` and the
whole-minute ranges with `0 ≤ start < end ≤ 24 h`. -/
theorem C18_validate_iff (r : DayRange) :
    validate r = .ok () ↔
      r = DayRange.zero ∨
      (0 ≤ r.start ∧ r.start < r.stop ∧ r.stop ≤ 86400000000000 ∧
        r.start % 60000000000 = 0 ∧ r.stop % 60000000000 = 0) :=
  validate_ok_iff r

/-- Negative, inverted, longer-than-24h and not-whole-minute ranges are rejected. -/
theorem C18_validate_rejects (r : DayRange) (h : mustReject r = true) : validate r ≠ .ok () := by
  intro hv
  rw [validate_not_mustReject r hv] at h
  exact Bool.false_ne_true h

example : validate ⟨32400000000000, 36000000000000⟩ = .ok () := by rfl
example : validate ⟨0, maxDayRange⟩ = .ok () := by rfl
example : validate ⟨-60000000000, 0⟩ = .error .startNeg := by rfl
example : validate ⟨36000000000000, 32400000000000⟩ = .error .startGeEnd := by rfl
example : validate ⟨0, 86460000000000⟩ = .error .endGtMax := by rfl
example : validate ⟨0, 90000000000⟩ = .error .endNotMinutes := by rfl

/-! ## Decoding and the round trips -/

/-- A successful decode returns the ranges of the document unchanged, every one
of them valid, in the named zone (`""` is UTC). -/
theorem C18_decode_sound (tzOK : Bytes → Bool) (c : Conf) (w : Weekly) (h : decodeConf tzOK c = .ok w) :
    tzOK c.tz = true ∧ w.loc = locName c.tz ∧ w.days = confDays c ∧ ∀ i, validate (w.days.get i) = .ok () :=
  (decodeConf_ok_iff tzOK c w).mp h

/-- What the decoders produce is a valid schedule (so the encoders only ever see
valid schedules: `EmptyWeekly`/`FullWeekly` are valid too, below).  `hUTC`:
`time.LoadLocation("UTC")` succeeds whenever `time.LoadLocation("")` does. -/
theorem C18_decode_valid (tzOK : Bytes → Bool) (hUTC : tzOK [] = true → tzOK (utcName) = true)
    (c : Conf) (w : Weekly) (h : decodeConf tzOK c = .ok w) : Valid tzOK w := by
  obtain ⟨h1, h2, _, h4⟩ := C18_decode_sound tzOK c w h
  refine ⟨?_, ?_, h4⟩
  · rw [h2]; unfold locName; split
    · decide
    · assumption
  · rw [h2]; unfold locName; split
    · next he => exact hUTC (he ▸ h1)
    · exact h1

/-- JSON: every valid schedule encodes, and decoding the tokens gives it back. -/
theorem C18_json_roundtrip (tzOK : Bytes → Bool) (w : Weekly) (hw : Valid tzOK w) :
    ∃ d, encodeJSON w = some d ∧ decodeJSON tzOK d = some (.ok w) :=
  week_roundtrip jsonDurEncode jsonDurDecode jsonDurEncode_valid tzOK w hw

/-- YAML: every valid schedule encodes, and decoding the tokens gives it back. -/
theorem C18_yaml_roundtrip (tzOK : Bytes → Bool) (w : Weekly) (hw : Valid tzOK w) :
    ∃ d, encodeYAML w = some d ∧ decodeYAML tzOK d = some (.ok w) := by
  obtain ⟨d, h1, h2⟩ := week_roundtrip yamlDurEncode yamlDurDecode yamlDurEncode_valid tzOK w hw
  refine ⟨d, ?_, ?_⟩
  · rcases w with ⟨loc, ⟨a0, a1, a2, a3, a4, a5, a6⟩⟩
    simpa [encodeYAML, encodeConfYAML, Week.map, yamlOmitEmpty_eq] using h1
  · simp only [decodeYAML]
    cases hc : confOfDoc yamlDurDecode d with
    | none => rw [hc] at h2; simp at h2
    | some c =>
      rw [hc] at h2
      simpa [decodeConf_yamlAbsentAsZero] using h2

/-- Anything that was decoded (from either format) survives both round trips. -/
theorem C18_roundtrip_after_decode (tzOK : Bytes → Bool)
    (hUTC : tzOK [] = true → tzOK (utcName) = true)
    (c : Conf) (w : Weekly) (h : decodeConf tzOK c = .ok w) :
    (∃ d, encodeJSON w = some d ∧ decodeJSON tzOK d = some (.ok w)) ∧
    (∃ d, encodeYAML w = some d ∧ decodeYAML tzOK d = some (.ok w)) :=
  ⟨C18_json_roundtrip tzOK w (C18_decode_valid tzOK hUTC c w h),
   C18_yaml_roundtrip tzOK w (C18_decode_valid tzOK hUTC c w h)⟩

/-- Duration tokens: JSON milliseconds over the whole modelled domain (negative
values included), YAML `XhYm` strings for every non-negative whole-minute value
below 2^62 ns. -/
theorem C18_duration_tokens_roundtrip (ns : Int) (tok : Bytes) :
    (jsonDurEncode ns = some tok → jsonDurDecode tok = some ns) ∧
    (yamlDurEncode ns = some tok → ns < durModelLimit → parseDur tok = .ok ns) :=
  ⟨jsonDur_roundtrip ns tok, yamlDur_roundtrip ns tok⟩

/-- The fuel of the `time.ParseDuration` model is never exhausted. -/
theorem C18_parseDur_total (tok : Bytes) : parseDur tok ≠ .fuel := parseDur_no_fuel tok

/-- `EmptyWeekly()` and `FullWeekly()` are valid wherever "Local" loads. -/
theorem C18_constructors_valid (tzOK : Bytes → Bool) (h : tzOK (localName) = true) :
    Valid tzOK emptyWeekly ∧ Valid tzOK fullWeekly := by
  refine ⟨⟨by decide, h, ?_⟩, ⟨by decide, h, ?_⟩⟩
  · apply (Week.forall_get _ (fun r => validate r = .ok ())).mpr; decide
  · apply (Week.forall_get _ (fun r => validate r = .ok ())).mpr; decide

-- non-vacuity: a concrete valid schedule, its JSON and YAML documents byte for byte
example : Valid (fun _ => true) sundayMorning :=
  ⟨by decide, rfl, (Week.forall_get _ (fun r => validate r = .ok ())).mpr (by decide)⟩

/-! ## Serialised numbers judged by their exact value (float64 modelled exactly)

`JSONDuration.UnmarshalJSON` is `int64(ParseFloat(tok) * 1e6)`; `Model/ScheduleFloat.lean`
models binary64 rounding exactly.  The full statements "accepted ⇒ decoded = what is
written" and "not whole minutes ⇒ rejected" are FALSE of the code (finding F24, below);
they are proved under the hypothesis that the written number is a float64. -/

/-- JSON: accepted ⇒ decoded exactly.  If the number written is itself a float64
(`n·2^j` units of 2^-1074 with `n < 2^53`: every integer below 2^53 ms, and
fractions like .5 .25 .125 of them) and denotes `K < 2^53` whole nanoseconds,
then `JSONDuration.UnmarshalJSON` yields exactly `±K`. -/
theorem C18_json_decode_exact_partial (tok : Bytes) (x : Dec) (n j K : Nat) (r : Int)
    (hx : parseJSONNumber tok = some x)
    (hn : n < 2 ^ 53) (hfloat : x.frac.1 * fUnit = n * 2 ^ j * x.frac.2)
    (hK : K < 2 ^ 53) (hns : x.frac.1 * 1000000 = K * x.frac.2)
    (h : jsonDurDecodeF tok = .ok r) : r = if x.neg then -(K : Int) else (K : Int) := by
  unfold jsonDurDecodeF at h
  rw [hx] at h
  dsimp only at h
  split at h
  · cases h
  · cases hf : floatMsToNs x.neg x.frac.1 x.frac.2 with
    | ok ns =>
      rw [hf] at h
      injection h with h
      subst h
      exact floatMsToNs_exact x.neg x.frac.1 x.frac.2 n j K ns (Dec.frac_den_pos x) hn hK hfloat hns hf
    | err => rw [hf] at h; cases h
    | outOfRange => rw [hf] at h; cases h
    | giveUp => rw [hf] at h; cases h

/-- JSON: a written value that is not a whole number of minutes is rejected —
under the same representability hypotheses: whatever the other end of the range
is, validation fails. -/
theorem C18_json_fraction_rejected_partial (tok : Bytes) (x : Dec) (n j K : Nat) (r : Int)
    (hx : parseJSONNumber tok = some x)
    (hn : n < 2 ^ 53) (hfloat : x.frac.1 * fUnit = n * 2 ^ j * x.frac.2)
    (hK : K < 2 ^ 53) (hns : x.frac.1 * 1000000 = K * x.frac.2)
    (hfrac : K % 60000000000 ≠ 0)
    (h : jsonDurDecodeF tok = .ok r) (other : Int) :
    validate ⟨r, other⟩ ≠ .ok () ∧ validate ⟨other, r⟩ ≠ .ok () := by
  have hr := C18_json_decode_exact_partial tok x n j K r hx hn hfloat hK hns h
  have hr' : r % 60000000000 ≠ 0 := by
    rw [hr]; split <;> omega
  constructor
  · intro hv
    rw [validate_ok_iff] at hv
    rcases hv with hv | ⟨_, _, _, h4, _⟩
    · simp only [DayRange.zero, DayRange.mk.injEq] at hv; omega
    · exact hr' h4
  · intro hv
    rw [validate_ok_iff] at hv
    rcases hv with hv | ⟨_, _, _, _, h5⟩
    · simp only [DayRange.zero, DayRange.mk.injEq] at hv; omega
    · exact hr' h5

/-- The representability hypothesis cannot be dropped (finding F24): 35 min + 1 ns
written as `2100000.000001` ms decodes to 35 min exactly and passes validation;
`-1e-7` ms (a negative start) decodes to 0. -/
theorem C18_counterexample_json_decode_exact :
    (jsonTokVal (Bytes.ofString "2100000.000001") = .notWhole false 2100000000001000000 1000000 ∧
     jsonDurDecodeF (Bytes.ofString "2100000.000001") = .ok 2100000000000 ∧
     validate ⟨0, 2100000000000⟩ = .ok ()) ∧
    (jsonTokVal (Bytes.ofString "-1e-7") = .notWhole true 1000000 10000000 ∧
     jsonDurDecodeF (Bytes.ofString "-1e-7") = .ok 0) := by
  decide +kernel


-- non-vacuity: 3600000.25 ms = 14400001 · 2^-2 ms is a float64 and denotes 3600000250000 ns: decoded exactly, hence
-- rejected whatever the other end is (this is what seed C18-10 broke)
example (other : Int) : validate ⟨3600000250000, other⟩ ≠ .ok () :=
  (C18_json_fraction_rejected_partial (Bytes.ofString "3600000.25") ⟨false, 360000025, -2⟩ 14400001 1072 3600000250000
    3600000250000 (by decide +kernel) (by decide) (by decide +kernel) (by decide) (by decide +kernel) (by decide)
    (by decide +kernel) other).1

/-! ## Requests on a long-lived filter: no memory across instants or updates -/

/-- Every request is decided by the schedule in force and the wall clock at its
own instant: the list in force is applied exactly when its pause schedule is
not in effect, the client's own list replacing the global one. -/
theorem C18_request_meets_spec (offG offC : Int → Int) (s : ReqState) (clientSite : Bool) (now : Instant) :
    specRequestOK offG offC s clientSite now (requestApplied offG offC s clientSite now) = true := by
  have hc : ∀ (o : Int → Int) (w : Weekly), contains o w now = decide (InEffect o w now) := by
    intro o w
    by_cases h : InEffect o w now
    · simp [h, (C18_contains_spec o w now).mpr h]
    · have : contains o w now = false := by
        rw [Bool.eq_false_iff, Ne, C18_contains_spec]; exact h
      simp [h, this]
  rcases s with ⟨g, c⟩
  cases clientSite <;> cases c <;> simp [specRequestOK, requestApplied, hc]

/-- After ANY history of updates, legacy `set` calls and client changes, the
state is the last installed configuration — nothing else of the history is kept. -/
theorem C18_state_is_last_update (ops : List ReqOp) (s : ReqState) :
    ops.foldl ReqState.step s = ⟨lastGlobal ops s.global, lastClient ops s.client⟩ := by
  induction ops generalizing s with
  | nil => rfl
  | cons op rest ih =>
    rw [List.foldl_cons, ih]
    cases op <;> rfl

/-- For every operation history and every later instant: the request is decided
by the configuration installed LAST and the wall clock NOW. -/
theorem C18_request_after_history (offG offC : Int → Int) (ops : List ReqOp) (clientSite : Bool) (now : Instant) :
    specRequestOK offG offC
      ⟨lastGlobal ops ReqState.init.global, lastClient ops ReqState.init.client⟩ clientSite now
      (requestApplied offG offC (ops.foldl ReqState.step ReqState.init) clientSite now) = true := by
  rw [C18_state_is_last_update]
  exact C18_request_meets_spec offG offC _ clientSite now

-- non-vacuity: a request under a full-week pause, an update to the empty schedule, the same instant again
example :
    let full : SvcConf := ⟨⟨utcName, Week.const ⟨0, maxDayRange⟩⟩, 2⟩
    let empty : SvcConf := ⟨⟨utcName, Week.const .zero⟩, 2⟩
    requestApplied (fun _ => 0) (fun _ => 0) ([ReqOp.update full].foldl ReqState.step ReqState.init) false ⟨1730068200, 0⟩ = (0, 0) ∧
    requestApplied (fun _ => 0) (fun _ => 0) ([ReqOp.update full, ReqOp.update empty].foldl ReqState.step ReqState.init) false ⟨1730068200, 0⟩ = (2, 0) := by
  decide

/-! ## Values do not share state -/

/-- Values do not share state: whatever operation runs — in particular a decode INTO
slot `i` (the target pre-filled with that value) — every other value created before
is what it was.  (Trivial in the model, where values are immutable; the aliasing
blocks of the tie make it bite on the pointers of the Go code.) -/
theorem C18_decode_no_aliasing (slots : List Weekly) (op : AliasOp) (j : Nat) (hj : j < slots.length)
    (hne : some j ≠ op.target) : (aliasStep slots op)[j]? = slots[j]? := by
  cases op with
  | newEmpty => simp [aliasStep, List.getElem?_append_left hj]
  | newFull => simp [aliasStep, List.getElem?_append_left hj]
  | clone k =>
    simp only [aliasStep]
    split
    · simp [List.getElem?_append_left hj]
    · rfl
  | decodeInto i res =>
    cases res with
    | error e => rfl
    | ok w =>
      simp only [aliasStep]
      have : i ≠ j := by
        intro h; subst h; exact hne rfl
      exact List.getElem?_set_ne this

/-- `EmptyWeekly()` is a constant of the model and contains no instant, in any zone,
whatever was decoded before. -/
theorem C18_empty_is_empty (off : Int → Int) (t : Instant) : contains off emptyWeekly t = false := by
  have hz : ∀ k, emptyWeekly.days.get k = DayRange.zero := by
    intro k; unfold emptyWeekly Week.const Week.get; split <;> rfl
  exact C18_empty_covers_none off emptyWeekly _ t rfl (by rw [hz]; decide)

/-- The model passes the aliasing monitor after every operation of every history. -/
theorem C18_alias_meets_spec (slots : List Weekly) (op : AliasOp) (n : Nat) :
    specAlias slots op.target ⟨emptyWeekly.days, List.replicate n false, aliasStep slots op⟩ = none := by
  unfold specAlias
  have h1 : (emptyWeekly.days != Week.const DayRange.zero) = false := by decide
  have h2 : (List.replicate n false).any id = false := by
    induction n with
    | zero => rfl
    | succ k ih => simp [List.replicate_succ, ih]
  have h3 : (List.range slots.length).any
      (fun j => some j != op.target && (aliasStep slots op)[j]? != slots[j]?) = false := by
    rw [List.any_eq_false]
    intro j hj
    have hj' : j < slots.length := List.mem_range.mp hj
    by_cases ht : some j = op.target
    · simp [ht]
    · simp [C18_decode_no_aliasing slots op j hj' ht]
  simp only [h1, h2, h3, Bool.or_self, Bool.false_eq_true, if_false]

/-! ## The model satisfies the spec monitors, for all inputs -/

theorem C18_model_meets_spec :
    (∀ (off : Int → Int) (w : Weekly) (t : Instant), specContainsOK off w t (contains off w t) = true) ∧
    (∀ (off : Int → Int) (w : Weekly) (t : Instant), specAppliedOK off w t (servicesApplied off w t) = true) ∧
    (∀ r : DayRange, specValidateOK r (accepted (validate r)) = true) ∧
    (∀ (yaml parseOK : Bool) (tzOK : Bytes → Bool) (c : Conf),
      (tzOK [] = true → tzOK (utcName) = true) →
      specDecodeOK parseOK (tzOK c.tz) c (modelDecode yaml parseOK tzOK c) = true) ∧
    (∀ (offG offC : Int → Int) (ops : List ReqOp) (clientSite : Bool) (now : Instant),
      specRequestOK offG offC (ops.foldl ReqState.step ReqState.init) clientSite now
        (requestApplied offG offC (ops.foldl ReqState.step ReqState.init) clientSite now) = true) := by
  refine ⟨?_, ?_, ?_, ?_, fun offG offC ops cs now => C18_request_meets_spec offG offC _ cs now⟩
  · intro off w t
    simp only [specContainsOK, beq_iff_eq]
    by_cases h : InEffect off w t
    · simp [h, (C18_contains_spec off w t).mpr h]
    · have : contains off w t = false := by
        rw [Bool.eq_false_iff, Ne, C18_contains_spec]; exact h
      simp [h, this]
  · intro off w t
    simp only [specAppliedOK, servicesApplied, beq_iff_eq]
    by_cases h : InEffect off w t
    · simp [h, (C18_contains_spec off w t).mpr h]
    · have : contains off w t = false := by
        rw [Bool.eq_false_iff, Ne, C18_contains_spec]; exact h
      simp [h, this]
  · intro r
    unfold specValidateOK
    cases hv : validate r with
    | ok u =>
      cases u
      simp [accepted, validate_not_mustReject r hv]
    | error e =>
      simp only [accepted, Bool.false_eq_true, if_false, Bool.not_eq_true']
      cases hm : mustAccept r with
      | false => rfl
      | true => rw [mustAccept_validate r hm] at hv; cases hv
  · intro yaml parseOK tzOK c hUTC
    unfold modelDecode
    cases parseOK with
    | false => simp [specDecodeOK]
    | true =>
      simp only [Bool.not_true, Bool.false_eq_true, if_false]
      have hc : decodeConf tzOK (if yaml = true then yamlAbsentAsZero c else c) = decodeConf tzOK c := by
        cases yaml <;> simp [decodeConf_yamlAbsentAsZero]
      rw [hc]
      cases hd : decodeConf tzOK c with
      | error e =>
        simp only [specDecodeOK, Bool.true_and, Bool.not_eq_true', Bool.and_eq_false_iff]
        -- had every day been acceptable in a loadable zone, decoding would have succeeded
        by_cases htz : tzOK c.tz = true
        · right
          cases hall : (confDays c).toList.all mustAccept with
          | false => rfl
          | true =>
            exfalso
            have hw : decodeConf tzOK c = .ok ⟨locName c.tz, confDays c⟩ := by
              rw [decodeConf_ok_iff]
              refine ⟨htz, rfl, rfl, ?_⟩
              apply (Week.forall_get _ (fun r => validate r = .ok ())).mpr
              simp only [Week.toList, List.all_cons, List.all_nil, Bool.and_true, Bool.and_eq_true] at hall
              obtain ⟨a0, a1, a2, a3, a4, a5, a6⟩ := hall
              exact ⟨mustAccept_validate _ a0, mustAccept_validate _ a1, mustAccept_validate _ a2,
                mustAccept_validate _ a3, mustAccept_validate _ a4, mustAccept_validate _ a5,
                mustAccept_validate _ a6⟩
            rw [hw] at hd
            cases hd
        · left
          simpa using htz
      | ok w =>
        obtain ⟨h1, h2, h3, h4⟩ := C18_decode_sound tzOK c w hd
        have hvalid := C18_decode_valid tzOK hUTC c w hd
        have hrt : roundTripSame yaml tzOK w = true := by
          unfold roundTripSame
          cases yaml with
          | false =>
            obtain ⟨d, e1, e2⟩ := C18_json_roundtrip tzOK w hvalid
            simp [e1, e2]
          | true =>
            obtain ⟨d, e1, e2⟩ := C18_yaml_roundtrip tzOK w hvalid
            simp [e1, e2]
        have hnr : w.days.toList.all (fun r => !mustReject r) = true := by
          have h4' := (Week.forall_get _ (fun r => validate r = .ok ())).mp h4
          obtain ⟨a0, a1, a2, a3, a4, a5, a6⟩ := h4'
          simp [Week.toList, validate_not_mustReject _ a0, validate_not_mustReject _ a1,
            validate_not_mustReject _ a2, validate_not_mustReject _ a3, validate_not_mustReject _ a4,
            validate_not_mustReject _ a5, validate_not_mustReject _ a6]
        have hloc : (w.loc == c.tz || (c.tz == [] && w.loc == utcName)) = true := by
          rw [h2]; unfold locName
          by_cases he : c.tz = []
          · simp [he]
          · simp [he]
        rw [h3] at hnr
        simp only [specDecodeOK, h1, hrt, hnr, hloc, h3, Bool.and_true, beq_self_eq_true]

/-! ## Read-back of the stored schedule (the `C18.sget` observation) -/

/-- `GET /control/blocked_services/get` after an update reads back exactly the
configuration the update carried — whatever its list of IDs, the empty list
included. -/
theorem C18_update_read_back (s : ReqState) (g : SvcConf) : (s.step (.update g)).global = g := rfl

/-- The stored pause schedule survives every history of ID-list changes (also
to and from the empty list) and client edits: only an update replaces it. -/
theorem C18_schedule_kept_until_update (s : ReqState) (ops : List ReqOp)
    (h : ∀ op ∈ ops, ∀ g, op ≠ .update g) :
    (ops.foldl ReqState.step s).global.sched = s.global.sched := by
  induction ops generalizing s with
  | nil => rfl
  | cons op ops ih =>
    simp only [List.foldl_cons]
    rw [ih (s.step op) (fun o ho => h o (List.mem_cons_of_mem _ ho))]
    cases op with
    | update g => exact absurd rfl (h (.update g) (List.mem_cons_self ..) g)
    | setIDs n => rfl
    | client c => rfl

/-- non-vacuity: a schedule set while no service is blocked is still there after services are added -/
example : ((ReqState.init.step (.update ⟨fullWeekly, 0⟩)).step (.setIDs 2)).global = ⟨fullWeekly, 2⟩ := rfl

/-! ## Translator tie: the decision core as the source states it (regenerated per run)

`extract/cmd/c18` rewrites `Gen/C18Schedule.lean` from the typed syntax of
`internal/schedule/schedule.go`: `dayRange.validate` as a decision table,
`dayRange.contains` as a list of conjuncts, and the skeleton of
`(*Weekly).Contains`.  The tables are INTERPRETED here and proved equal to the
model's functions for every day range and offset, so a changed comparison,
bound or case order in the source breaks a theorem, not just a sample. -/

namespace T

/-- Operands the tables may mention; anything else does not evaluate. -/
def term (r : DayRange) (off : Int) (s : String) : Option Int :=
  if s = "r.start" then some r.start
  else if s = "r.end" then some r.stop
  else if s = "offset" then some off
  else if s = "0" then some 0
  else if s = "maxDayRange" then some Gen.C18.maxDayRange
  else none

def cmpOp (s : String) : Option (Int → Int → Bool) :=
  if s = "<" then some (fun a b => decide (a < b))
  else if s = "<=" then some (fun a b => decide (a ≤ b))
  else if s = ">" then some (fun a b => decide (a > b))
  else if s = ">=" then some (fun a b => decide (a ≥ b))
  else if s = "==" then some (fun a b => decide (a = b))
  else if s = "!=" then some (fun a b => decide (a ≠ b))
  else none

def evalCmp (r : DayRange) (off : Int) (l op rhs : String) : Option Bool :=
  match term r off l, cmpOp op, term r off rhs with
  | some a, some f, some b => some (f a b)
  | _, _, _ => none

/-- A tagless `switch` whose bodies are `return nil` / `return <error>`: the
first case whose guard holds decides; the result is "returns an error".  A
table without a `default` that falls off the end does not evaluate. -/
def evalSwitch (r : DayRange) : List (String × String × String × Bool) → Option Bool
  | [] => none
  | (l, op, rhs, e) :: rest =>
    if op = "default" then some e
    else if l = "r" ∧ op = "==" ∧ rhs = "dayRange{}" then
      (if r = DayRange.zero then some e else evalSwitch r rest)
    else
      match evalCmp r 0 l op rhs with
      | some true => some e
      | some false => evalSwitch r rest
      | none => none

/-- A conjunction of comparisons. -/
def evalConj (r : DayRange) (off : Int) : List (String × String × String) → Option Bool
  | [] => some true
  | (l, op, rhs) :: rest =>
    match evalCmp r off l op rhs, evalConj r off rest with
    | some a, some b => some (a && b)
    | _, _ => none

end T

/-- `dayRange.validate` AS WRITTEN IN THE SOURCE rejects exactly the day ranges
the model's `DayRange.validate` rejects — for every day range. -/
theorem C18_T_validate_table_is_model (r : DayRange) :
    T.evalSwitch r Gen.C18.validateCases =
      some (match r.validate with | .ok _ => false | .error _ => true) := by
  have hm : Gen.C18.maxDayRange = maxDayRange := by decide
  simp only [Gen.C18.validateCases, T.evalSwitch, T.evalCmp, T.term, T.cmpOp, hm, DayRange.validate]
  by_cases h0 : r = DayRange.zero
  · simp [h0]
  · by_cases h1 : r.start < 0
    · simp [h0, h1]
    · by_cases h2 : r.stop < 0
      · simp [h0, h1, h2]
      · by_cases h3 : r.start ≥ r.stop
        · simp [h0, h1, h2, h3]
        · by_cases h4 : r.start ≥ maxDayRange
          · simp [h0, h1, h2, h3, h4]
          · by_cases h5 : r.stop > maxDayRange
            · simp [h0, h1, h2, h3, h4, h5]
            · simp [h0, h1, h2, h3, h4, h5]

/-- `dayRange.contains` as written is the model's half-open interval test. -/
theorem C18_T_contains_table_is_model (r : DayRange) (off : Int) :
    T.evalConj r off Gen.C18.containsConj = some (r.contains off) := by
  simp [Gen.C18.containsConj, T.evalConj, T.evalCmp, T.term, T.cmpOp, DayRange.contains]

/-- The skeleton of `(*Weekly).Contains` is the model's `contains`: the time is
converted to the schedule's zone FIRST; afterwards only its weekday, clock and
nanosecond are read (no elapsed-time arithmetic, no function of package time:
what finding F8 and seed C01-9 broke); the offset sums hours, minutes and
seconds with the model's units; the day is picked by the converted weekday. -/
theorem C18_T_contains_skeleton :
    Gen.C18.containsConvertsFirst = true ∧
      Gen.C18.timeMethods = ["Weekday", "Clock", "Nanosecond"] ∧
      Gen.C18.timeFuncs = [] ∧
      Gen.C18.offsetUnits = [nsPerHour, nsPerMinute, nsPerSec] ∧
      Gen.C18.dayByLocalWeekday = true ∧
      Gen.C18.maxDayRange = maxDayRange := by
  decide

/-- non-vacuity: the interpreter distinguishes tables — with `>=` for the end
bound a full day would be rejected -/
example : T.evalSwitch ⟨0, maxDayRange⟩
    [("r.start", ">=", "r.end", true), ("r.end", ">=", "maxDayRange", true), ("", "default", "", false)] =
    some true := by decide
example : T.evalSwitch ⟨0, maxDayRange⟩ Gen.C18.validateCases = some false := by decide
example : T.evalSwitch ⟨0, 1⟩ [("r.start", "<", "nonsense", true)] = none := by decide

end AGH.C18
