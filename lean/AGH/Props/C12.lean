/-
C12 — login throttling stops guessing; sessions are valid only until expiry
or logout, also across restarts.

All theorems are about the executable model `AGH.C12` (Model/Auth.lean) that
the correspondence check ties to internal/home on every run.  Histories are
arbitrary lists of operations (login requests from any TCP peer carrying any
proxy-header address, with a right or wrong password, request with any token, logout, restart) separated by arbitrary
clock advances.  `noWrap`: times stay below the uint32 horizon of
`uint32(now.Unix()) + sessionTTL` (year 2106); beyond it the stored expiry
wraps around, which is outside these theorems.
Concurrent logins racing between `check` and `inc` are outside the model.
-/
import AGH.Lemmas.AuthCodec
import AGH.Gen.C12Limiter
namespace AGH.C12

/-- **The model meets the spec**: for every configuration and every timed
history from a fresh start, after every operation the monitor `specOK`
accepts what the model did. -/
theorem C12_model_meets_spec (ma bm ttl now : Nat) (evs : List Ev)
    (hw : noWrapAll (Spec.init ma bm ttl) now evs) :
    allOK (St.init ma bm ttl) (Spec.init ma bm ttl) now evs :=
  allOK_of_sim evs _ _ now (sim_init ma bm ttl now) hw

/-- The simulation relation between model state and monitor state holds in
every reachable state (of every history). -/
theorem C12_sim_reachable (ma bm ttl now : Nat) (evs : List Ev)
    (hw : noWrapAll (Spec.init ma bm ttl) now evs) :
    Sim (runLock (St.init ma bm ttl) (Spec.init ma bm ttl) now evs).1
      (runLock (St.init ma bm ttl) (Spec.init ma bm ttl) now evs).2.1
      (runLock (St.init ma bm ttl) (Spec.init ma bm ttl) now evs).2.2 :=
  sim_runLock evs _ _ now (sim_init ma bm ttl now) hw

/-- **Blocked until** (one step, any state): a record with `num ≥ max` whose
`until` lies in the future rejects the attempt — right or wrong password —
with 429, evaluates nothing, leaves sessions and the record itself untouched
(the only change is the cleanup of expired records). -/
theorem C12_blocked_until (st : St) (l : Limiter) (r : Rec) (now : Nat) (req : Req) (good : Bool) (user : Nat)
    (hrl : st.rl = some l) (hrec : l.recs (attemptAddr req) = some r) (hnum : r.num ≥ l.max)
    (hnow : now < r.untl) :
    handleLogin st now req good user =
      (.tooMany ((r.untl - now) / nsPerSec), { st with rl := some { l with recs := cleanup now l.recs } }) ∧
    cleanup now l.recs (attemptAddr req) = some r := by
  rw [handleLogin_eq]
  have hrec : l.recs req.peer = some r := hrec
  show login st now req.peer good user = _ ∧ cleanup now l.recs req.peer = some r
  generalize req.peer = addr at hrec ⊢
  have hc : cleanup now l.recs addr = some r := by
    have : ¬ now > r.untl := by omega
    simp [cleanup, hrec, Option.filter, this]
  have hleft : (l.check addr now).1 = r.untl - now := by
    have : ¬ r.num < l.max := by omega
    simp [Limiter.check, checkLocked, hc, this]
  have hpos : (l.check addr now).1 > 0 := by rw [hleft]; omega
  refine ⟨?_, hc⟩
  rw [login_blocked hrl hpos, hleft]
  rfl

/-- **Threshold**, in every reachable state of every history: when the failed
logins counted for an address (times kept by the declarative rules of the
spec: the minute is anchored at the first failure, a success or the end of
the minute / of the block period clears them) number at least `max` and the
block period after the last of them has not elapsed, a login attempt from
that address — correct password included — is answered 429, the password is
not evaluated (ghost counter unchanged) and no session is created; otherwise
the password IS evaluated and the answer is 200 for a right and 403 for a
wrong one. -/
theorem C12_threshold {st : St} {sp : Spec} {now : Nat} (h : Sim st sp now)
    (req : Req) (good : Bool) (user : Nat) :
    (mustReject sp (attemptAddr req) now = true →
      (∃ r, (handleLogin st now req good user).1 = .tooMany r) ∧
      (handleLogin st now req good user).2.evals = st.evals ∧
      (handleLogin st now req good user).2.mem = st.mem ∧ (handleLogin st now req good user).2.db = st.db) ∧
    (mustReject sp (attemptAddr req) now = false →
      (handleLogin st now req good user).2.evals = st.evals + 1 ∧
      (handleLogin st now req good user).1 = if good then .ok st.nextTok else .forbidden) := by
  rw [handleLogin_eq]
  show (mustReject sp req.peer now = true → _) ∧ (mustReject sp req.peer now = false → _)
  generalize req.peer = addr
  obtain ⟨hthr, _⟩ := h
  unfold SimThr at hthr
  cases hrl : st.rl with
  | none =>
    rw [hrl] at hthr
    have hrej : mustReject sp addr now = false := by simp [mustReject, hthr]
    rw [login_none hrl]
    refine ⟨fun h => (by rw [hrej] at h; cases h), fun _ => ?_⟩
    cases good <;> exact ⟨rfl, rfl⟩
  | some l =>
    rw [hrl] at hthr
    obtain ⟨hen, hmax, hbd, hrecs⟩ := hthr
    obtain ⟨_, _, _, c4⟩ := check_spec hen hmax hbd hrecs addr
    by_cases hleft : (l.check addr now).1 > 0
    · have hrej : mustReject sp addr now = true := by rw [← c4]; simp [hleft]
      rw [login_blocked hrl hleft]
      exact ⟨fun _ => ⟨⟨_, rfl⟩, rfl, rfl, rfl⟩, fun h => (by rw [hrej] at h; cases h)⟩
    · have hrej : mustReject sp addr now = false := by rw [← c4]; simp [hleft]
      rw [login_pass hrl hleft]
      refine ⟨fun h => (by rw [hrej] at h; cases h), fun _ => ?_⟩
      cases good <;> exact ⟨rfl, rfl⟩

/-- **Threshold over histories, stated without the monitor** (the property's
first sentence).  Take ANY timed history `evs0` from a fresh start after which
nothing is counted for address `a` (scanning it, the last relevant event is a
restart or a successful login from `a`, or `a` never failed), followed by ANY
history `evs1` without a restart and without a successful login from `a`, in
which exactly `max` wrong passwords from `a` were evaluated (answered 403),
all within one minute of the first of them.  Then every login attempt from `a`
— right or wrong password, any proxy headers; for HTTP Basic credentials see
`C12_threshold_run_basic` — made after `evs1` and before
the block period since the last of those failures has elapsed is answered
429, the password is not evaluated, no session is created.  Other addresses,
requests, logouts and clock advances may be interleaved arbitrarily; no time
horizon is needed. -/
theorem C12_threshold_run (ma bm ttl t0 : Nat) (evs0 evs1 : List Ev) (a : Nat) (hen : ma > 0 ∧ bm > 0)
    (hclean : cleanAfter a true (traceM (St.init ma bm ttl) t0 evs0) = true)
    (hnc : noClear a (traceM (runM (St.init ma bm ttl) t0 evs0).1 (runM (St.init ma bm ttl) t0 evs0).2 evs1) = true)
    (fs : List Nat)
    (hfs : failTimes a (traceM (runM (St.init ma bm ttl) t0 evs0).1 (runM (St.init ma bm ttl) t0 evs0).2 evs1) = fs)
    (hlen : fs.length = ma) (hwin : ∀ t ∈ fs, t ≤ fs.headD 0 + failedAuthTTL)
    (d : Nat) (req : Req) (hreq : attemptAddr req = a) (good : Bool) (user : Nat) :
    let s0 := runM (St.init ma bm ttl) t0 evs0
    let s1 := runM s0.1 s0.2 evs1
    s1.2 + d < fs.getLastD 0 + bm * 60 * nsPerSec →
    (∃ r, (handleLogin s1.1 (s1.2 + d) req good user).1 = .tooMany r) ∧
    (handleLogin s1.1 (s1.2 + d) req good user).2.evals = s1.1.evals ∧
    (handleLogin s1.1 (s1.2 + d) req good user).2.mem = s1.1.mem ∧
    (handleLogin s1.1 (s1.2 + d) req good user).2.db = s1.1.db := by
  intro s0 s1 hblk
  -- run the monitor alongside, only as a proof device
  let sp0 := Spec.init ma bm ttl
  have hthr0 : SimThr (St.init ma bm ttl) sp0 t0 := (sim_init ma bm ttl t0).1
  let rA := runLock (St.init ma bm ttl) sp0 t0 evs0
  have hmA := runLock_model evs0 (St.init ma bm ttl) sp0 t0
  have hthrA : SimThr s0.1 rA.2.1 s0.2 := by
    have := simThr_runLock evs0 _ sp0 t0 hthr0
    rw [hmA.1, hmA.2] at this; exact this
  have hconfA := runLock_conf evs0 (St.init ma bm ttl) sp0 t0
  have hcleanA : failsOf rA.2.1 a = [] :=
    failsOf_clean a evs0 _ sp0 t0 true (fun _ => rfl) hclean
  let rB := runLock s0.1 rA.2.1 s0.2 evs1
  have hmB := runLock_model evs1 s0.1 rA.2.1 s0.2
  have hconfB := runLock_conf evs1 s0.1 rA.2.1 s0.2
  have hmaxB : rB.2.1.max = ma := by rw [hconfB.2.1, hconfA.2.1]; rfl
  have hbdB : rB.2.1.blockDur = bm * 60 * nsPerSec := by rw [hconfB.2.2, hconfA.2.2]; rfl
  have henB : rB.2.1.enabled = true := by
    rw [hconfB.1, hconfA.1]; simp [sp0, Spec.init, hen]
  have hfB : failsOf rB.2.1 a = fs := by
    have := failsOf_run a evs1 s0.1 rA.2.1 s0.2 [] hcleanA hnc
      (by rw [hfs, hconfA.2.1]; simp [sp0, Spec.init, hlen])
      (by rw [hfs]; simpa using hwin)
    rw [hfs] at this; simpa using this
  have hthrB : SimThr s1.1 rB.2.1 (s1.2 + d) := by
    have := simThr_runLock evs1 s0.1 rA.2.1 s0.2 hthrA
    rw [hmB.1, hmB.2] at this
    exact simThr_advance d this
  have hne : fs ≠ [] := by
    intro e; rw [e] at hlen; simp at hlen; omega
  have hrej : mustReject rB.2.1 (attemptAddr req) (s1.2 + d) = true := by
    rw [hreq]
    have hc : counted rB.2.1 a (s1.2 + d) =
        if stillCounts rB.2.1 (failsOf rB.2.1 a) (s1.2 + d) = true then failsOf rB.2.1 a else [] := rfl
    have hun : untilOf rB.2.1 fs = fs.getLastD 0 + bm * 60 * nsPerSec := by
      simp [untilOf, hmaxB, hbdB, hlen]
    have hst : stillCounts rB.2.1 fs (s1.2 + d) = true := by
      simp only [stillCounts, Bool.and_eq_true, Bool.not_eq_true', decide_eq_true_eq, hun]
      exact ⟨by simpa using hne, by omega⟩
    simp only [mustReject, hc, hfB, hst, if_true, henB, hmaxB, hbdB, Bool.true_and, Bool.and_eq_true,
      Bool.not_eq_true', decide_eq_true_eq]
    exact ⟨⟨by simpa using hne, by omega⟩, hblk⟩
  exact threshold_thr hthrB req good user hrej

/-- **Blocked means not evaluated — for BOTH forms of login** (POST
/control/login and HTTP Basic credentials on any request, the latter with
/verif/fixes/c12/basic_auth_throttle.patch), in every reachable state: while
the spec counts ≥ max failures of the address — failures of EITHER form, the
histories are mixed — and the block period has not elapsed, neither form gets
its password evaluated, neither authenticates, right password included. -/
theorem C12_blocked_not_evaluated {st : St} {sp : Spec} {now : Nat} (h : Sim st sp now) (req : Req)
    (good : Bool) (user : Nat) (hrej : mustReject sp (attemptAddr req) now = true) :
    ((∃ r, (handleLogin st now req good user).1 = .tooMany r) ∧
      (handleLogin st now req good user).2.evals = st.evals) ∧
    ((∃ r, (basicAuthX true st now req good).1 = .tooMany r) ∧
      (basicAuthX true st now req good).2.evals = st.evals) :=
  ⟨⟨(threshold_thr h.1 req good user hrej).1, (threshold_thr h.1 req good user hrej).2.1⟩,
   threshold_thr_basic h.1 req good hrej⟩

/-- the run theorem's conclusion for a Basic-auth attempt: after `max` evaluated
failures of either form within a minute (see `C12_threshold_run`; its history
may mix both forms, `failTimes`/`noClear`/`cleanAfter` count both) a request
with Basic credentials is refused unevaluated as well -/
theorem C12_threshold_run_basic (ma bm ttl t0 : Nat) (evs0 evs1 : List Ev) (a : Nat) (hen : ma > 0 ∧ bm > 0)
    (hclean : cleanAfter a true (traceM (St.init ma bm ttl) t0 evs0) = true)
    (hnc : noClear a (traceM (runM (St.init ma bm ttl) t0 evs0).1 (runM (St.init ma bm ttl) t0 evs0).2 evs1) = true)
    (fs : List Nat)
    (hfs : failTimes a (traceM (runM (St.init ma bm ttl) t0 evs0).1 (runM (St.init ma bm ttl) t0 evs0).2 evs1) = fs)
    (hlen : fs.length = ma) (hwin : ∀ t ∈ fs, t ≤ fs.headD 0 + failedAuthTTL)
    (d : Nat) (req : Req) (hreq : attemptAddr req = a) (good : Bool) :
    let s0 := runM (St.init ma bm ttl) t0 evs0
    let s1 := runM s0.1 s0.2 evs1
    s1.2 + d < fs.getLastD 0 + bm * 60 * nsPerSec →
    (∃ r, (basicAuthX true s1.1 (s1.2 + d) req good).1 = .tooMany r) ∧
    (basicAuthX true s1.1 (s1.2 + d) req good).2.evals = s1.1.evals := by
  intro s0 s1 hblk
  let sp0 := Spec.init ma bm ttl
  have hthr0 : SimThr (St.init ma bm ttl) sp0 t0 := (sim_init ma bm ttl t0).1
  let rA := runLock (St.init ma bm ttl) sp0 t0 evs0
  have hmA := runLock_model evs0 (St.init ma bm ttl) sp0 t0
  have hthrA : SimThr s0.1 rA.2.1 s0.2 := by
    have := simThr_runLock evs0 _ sp0 t0 hthr0
    rw [hmA.1, hmA.2] at this; exact this
  have hconfA := runLock_conf evs0 (St.init ma bm ttl) sp0 t0
  have hcleanA : failsOf rA.2.1 a = [] :=
    failsOf_clean a evs0 _ sp0 t0 true (fun _ => rfl) hclean
  let rB := runLock s0.1 rA.2.1 s0.2 evs1
  have hmB := runLock_model evs1 s0.1 rA.2.1 s0.2
  have hconfB := runLock_conf evs1 s0.1 rA.2.1 s0.2
  have hmaxB : rB.2.1.max = ma := by rw [hconfB.2.1, hconfA.2.1]; rfl
  have hbdB : rB.2.1.blockDur = bm * 60 * nsPerSec := by rw [hconfB.2.2, hconfA.2.2]; rfl
  have henB : rB.2.1.enabled = true := by
    rw [hconfB.1, hconfA.1]; simp [sp0, Spec.init, hen]
  have hfB : failsOf rB.2.1 a = fs := by
    have := failsOf_run a evs1 s0.1 rA.2.1 s0.2 [] hcleanA hnc
      (by rw [hfs, hconfA.2.1]; simp [sp0, Spec.init, hlen])
      (by rw [hfs]; simpa using hwin)
    rw [hfs] at this; simpa using this
  have hthrB : SimThr s1.1 rB.2.1 (s1.2 + d) := by
    have := simThr_runLock evs1 s0.1 rA.2.1 s0.2 hthrA
    rw [hmB.1, hmB.2] at this
    exact simThr_advance d this
  have hne : fs ≠ [] := by
    intro e; rw [e] at hlen; simp at hlen; omega
  have hrej : mustReject rB.2.1 (attemptAddr req) (s1.2 + d) = true := by
    rw [hreq]
    have hc : counted rB.2.1 a (s1.2 + d) =
        if stillCounts rB.2.1 (failsOf rB.2.1 a) (s1.2 + d) = true then failsOf rB.2.1 a else [] := rfl
    have hun : untilOf rB.2.1 fs = fs.getLastD 0 + bm * 60 * nsPerSec := by
      simp [untilOf, hmaxB, hbdB, hlen]
    have hst : stillCounts rB.2.1 fs (s1.2 + d) = true := by
      simp only [stillCounts, Bool.and_eq_true, Bool.not_eq_true', decide_eq_true_eq, hun]
      exact ⟨by simpa using hne, by omega⟩
    simp only [mustReject, hc, hfB, hst, if_true, henB, hmaxB, hbdB, Bool.true_and, Bool.and_eq_true,
      Bool.not_eq_true', decide_eq_true_eq]
    exact ⟨⟨by simpa using hne, by omega⟩, hblk⟩
  exact threshold_thr_basic hthrB req good hrej

/-- **Without the Basic-auth repair** (the tree before
basic_auth_throttle.patch; `fixB = false`): limit 2, two wrong passwords at
the login form block the address — the right password gets 429 there — yet
Basic credentials are still evaluated, a wrong one is not counted and the right
one authenticates. -/
theorem C12_unpatched_basic_auth_unthrottled :
    let t := 946684800 * nsPerSec
    let r : Req := ⟨0, none, false⟩
    let st2 := (handleLogin (handleLogin (St.init 2 15 3600) t r false 0).2 t r false 0).2
    (handleLogin st2 t r true 0).1 = .tooMany 900 ∧
    (basicAuthX false st2 t r false).1 = .forbidden ∧
    (basicAuthX false st2 t r true).1 = .passed ∧
    (basicAuthX false st2 t r true).2.evals = st2.evals + 1 ∧
    -- with the repair: refused unevaluated
    (basicAuthX true st2 t r true).1 = .tooMany 900 ∧
    (basicAuthX true st2 t r true).2.evals = st2.evals := by
  decide

/-- **Every password evaluation is throttled.**  Whatever operation a request
amounts to (`authOp`: the first `agh_session` cookie if there is one —
`Authorization` is then ignored —, else parsable Basic credentials, else
nothing; or the login form): the evaluation counter moves only in a login-form
or Basic-credentials step, only by one, only when the limiter — if configured —
has just been asked about the request's address and did not block it, and the
same step counts the failure or clears the count for that address.  No path
of the model evaluates a password without check-before and inc/remove-after. -/
theorem C12_every_evaluation_is_throttled (st : St) (now : Nat) (o : Op) :
    (step st now o).2.evals = st.evals ∨
    ((step st now o).2.evals = st.evals + 1 ∧
     ∃ req, ((∃ g u, o = .login req g u) ∨ (∃ g, o = .basic req g)) ∧
       ∀ l, st.rl = some l → ¬ (l.check req.peer now).1 > 0 ∧
         ((step st now o).2.rl = some ((l.check req.peer now).2.inc req.peer now) ∨
          (step st now o).2.rl = some ((l.check req.peer now).2.remove req.peer))) := by
  cases o with
  | login req good user =>
    simp only [step, handleLogin_eq]
    cases hrl : st.rl with
    | none =>
      right
      rw [login_none hrl]
      refine ⟨by cases good <;> rfl, req, Or.inl ⟨good, user, rfl⟩, fun l hl => by cases hl⟩
    | some l =>
      by_cases hleft : (l.check req.peer now).1 > 0
      · left; rw [login_blocked hrl hleft]
      · right
        rw [login_pass hrl hleft]
        refine ⟨by cases good <;> rfl, req, Or.inl ⟨good, user, rfl⟩, fun l' hl' => ?_⟩
        cases hl'
        refine ⟨hleft, ?_⟩
        cases good
        · left; rfl
        · right; rfl
  | basic req good =>
    simp only [step]
    cases hrl : st.rl with
    | none =>
      right
      rw [basic_none hrl]
      refine ⟨rfl, req, Or.inr ⟨good, rfl⟩, fun l hl => by cases hl⟩
    | some l =>
      by_cases hleft : (l.check req.peer now).1 > 0
      · left; rw [basic_blocked hrl hleft]
      · right
        rw [basic_pass hrl hleft]
        refine ⟨by cases good <;> rfl, req, Or.inr ⟨good, rfl⟩, fun l' hl' => ?_⟩
        cases hl'
        refine ⟨hleft, ?_⟩
        cases good
        · left; rfl
        · right; rfl
  | request tok =>
    left
    simp only [step]
    unfold checkSession
    cases st.mem tok with
    | none => rfl
    | some s =>
      simp only
      split
      · rfl
      · split <;> rfl
  | logout tok => left; rfl
  | restart => left; rfl

/-- **Other addresses are irrelevant** (frame property of the limiter table, an
unbounded finite map): whatever one operation does — a login-form or Basic
attempt from ANOTHER address, right or wrong, a request, a logout, a flood of
failed logins from any number of fresh addresses — the record of address `a`
that survives the cleanup at `now`, hence the gate decision for `a` at `now`
or later, is unchanged.  Only a's own attempts and a restart touch it. -/
theorem C12_other_addresses_irrelevant (st : St) (now a : Nat) (l : Limiter) (hrl : st.rl = some l) :
    (∀ (o : Op), (∀ req g u, o = .login req g u → req.peer ≠ a) → (∀ req g, o = .basic req g → req.peer ≠ a) →
      o ≠ .restart →
      ∃ l', (step st now o).2.rl = some l' ∧ liveRec now (l'.recs a) = liveRec now (l.recs a) ∧
        l'.max = l.max ∧ l'.blockDur = l.blockDur) ∧
    (∀ base n, ¬ (base ≤ a ∧ a < base + n) →
      ∃ l', (flood st now base n).rl = some l' ∧ liveRec now (l'.recs a) = liveRec now (l.recs a) ∧
        l'.max = l.max ∧ l'.blockDur = l.blockDur) := by
  have hclean : liveRec now (cleanup now l.recs a) = liveRec now (l.recs a) := by
    rw [cleanup_eq]
    cases l.recs a with
    | none => rfl
    | some r =>
      simp only [liveRec, Option.filter]
      by_cases h : now ≤ r.untl <;> simp [h, Option.filter]
  have hchk : ∀ p, (l.check p now).2.recs a = cleanup now l.recs a ∧ (l.check p now).2.max = l.max ∧
      (l.check p now).2.blockDur = l.blockDur := fun p => ⟨rfl, rfl, rfl⟩
  constructor
  · intro o hlogin hbasic hnr
    cases o with
    | login req good user =>
      have hne : a ≠ req.peer := fun e => hlogin req good user rfl e.symm
      simp only [step, handleLogin_eq]
      by_cases hleft : (l.check req.peer now).1 > 0
      · rw [login_blocked hrl hleft]
        exact ⟨_, rfl, hclean, rfl, rfl⟩
      · rw [login_pass hrl hleft]
        cases good with
        | true =>
          rw [evalLogin_good]
          refine ⟨_, rfl, ?_, rfl, rfl⟩
          simp only [Limiter.remove, FMap.erase, hne, if_false]
          exact hclean
        | false =>
          rw [evalLogin_bad]
          refine ⟨_, rfl, ?_, ?_, ?_⟩
          · simp only [Limiter.inc, FMap.set, hne, if_false]
            exact hclean
          · simp [Limiter.inc]; rfl
          · simp [Limiter.inc]; rfl
    | basic req good =>
      have hne : a ≠ req.peer := fun e => hbasic req good rfl e.symm
      simp only [step]
      by_cases hleft : (l.check req.peer now).1 > 0
      · rw [basic_blocked hrl hleft]
        exact ⟨_, rfl, hclean, rfl, rfl⟩
      · rw [basic_pass hrl hleft]
        cases good with
        | true =>
          refine ⟨_, rfl, ?_, rfl, rfl⟩
          simp only [Limiter.remove, FMap.erase, hne, if_false]
          exact hclean
        | false =>
          refine ⟨_, rfl, ?_, ?_, ?_⟩
          · simp only [Bool.false_eq_true, if_false, Limiter.inc, FMap.set, hne]
            exact hclean
          · simp [Limiter.inc]; rfl
          · simp [Limiter.inc]; rfl
    | request tok =>
      refine ⟨l, ?_, rfl, rfl, rfl⟩
      simp only [step]; rw [checkSession_rl, hrl]
    | logout tok => exact ⟨l, hrl, rfl, rfl, rfl⟩
    | restart => exact absurd rfl hnr
  · intro base n hout
    by_cases hn : n = 0
    · exact ⟨l, by simp [flood, hrl, hn], rfl, rfl, rfl⟩
    · refine ⟨l.flood now base n, by simp [flood, hrl, hn], ?_, rfl, rfl⟩
      simp only [Limiter.flood, hout, if_false]
      exact hclean

/-- a request that carries an `agh_session` cookie never has a password
evaluated, whatever its `Authorization` header; one without cookie and without
parsable Basic credentials is refused without any effect -/
theorem C12_cookie_shadows_basic (t : Nat) (a : AuthForm) (req : Req) :
    authOp (.token t) a req = some (.request t) ∧
    authOp .absent .absent req = none ∧ authOp .absent .unparsed req = none :=
  ⟨rfl, rfl, rfl⟩

/-- **The minute is anchored, not sliding** (limit 3, block 1 min): wrong
passwords at 0 s, 50 s, 70 s and 100 s.  The count started at 0 s dies at
60 s, so the failure at 70 s starts a new one: the failures at 50 s, 70 s and
100 s are three within a minute, yet the attempt at 101 s is still evaluated
(403, not 429).  This is why `C12_threshold_run` asks that nothing be counted
for the address when the run of failures begins. -/
theorem C12_window_is_anchored :
    (traceM (St.init 3 1 3600) 0
      [.op (.login ⟨0, none, false⟩ false 0), .advance (50 * nsPerSec), .op (.login ⟨0, none, false⟩ false 0),
       .advance (20 * nsPerSec), .op (.login ⟨0, none, false⟩ false 0),
       .advance (30 * nsPerSec), .op (.login ⟨0, none, false⟩ false 0),
       .advance nsPerSec, .op (.login ⟨0, none, false⟩ false 0)]).map
      (fun e => (e.1 / nsPerSec, e.2.2)) =
    [(0, .login .forbidden), (50, .login .forbidden), (70, .login .forbidden), (100, .login .forbidden),
     (101, .login .forbidden)] := by
  decide

/-- **Success clears the count** (one step, any state): a login that is not
blocked and carries the right password succeeds and leaves no record for the
address, so the next failure starts a new count. -/
theorem C12_success_clears (st : St) (now : Nat) (req : Req) (user : Nat)
    (hnb : ∀ l, st.rl = some l → ¬ (l.check (attemptAddr req) now).1 > 0) :
    (handleLogin st now req true user).1 = .ok st.nextTok ∧
    ∀ l', (handleLogin st now req true user).2.rl = some l' → l'.recs (attemptAddr req) = none := by
  rw [handleLogin_eq]
  show (login st now req.peer true user).1 = .ok st.nextTok ∧
    ∀ l', (login st now req.peer true user).2.rl = some l' → l'.recs req.peer = none
  have hnb : ∀ l, st.rl = some l → ¬ (l.check req.peer now).1 > 0 := hnb
  generalize req.peer = addr at hnb ⊢
  cases hrl : st.rl with
  | none =>
    rw [login_none hrl, evalLogin_good]
    exact ⟨rfl, fun l' h => by simp at h⟩
  | some l =>
    rw [login_pass hrl (hnb l hrl), evalLogin_good]
    refine ⟨rfl, fun l' h => ?_⟩
    simp only [Option.map, Option.some.injEq] at h
    rw [← h]
    simp [Limiter.remove, FMap.erase]

/-- **Session window**, in every reachable state of every history: a request
with token `tok` is authenticated only if the token was created by a login,
has not been logged out, and less than `ttl` seconds have passed since its
creation or the last request it authenticated; and it IS authenticated while
less than `ttl` seconds have passed since its creation (no logout). -/
theorem C12_session_window {st : St} {sp : Spec} {now : Nat} (h : Sim st sp now)
    (hw : noWrap sp now = true) (tok : Nat) :
    ((checkSession st now tok).1 = .ok →
      ∃ i, sp.toks tok = some i ∧ i.loggedOut = false ∧ nowS now < i.lastOK + sp.ttl) ∧
    (∀ i, sp.toks tok = some i → i.loggedOut = false → nowS now < i.created + sp.ttl →
      (checkSession st now tok).1 = .ok) := by
  have h1 := (sess_request h.2 hw tok).1
  simp only [specStep] at h1
  cases hi : sp.toks tok with
  | none =>
    rw [hi] at h1
    simp only [Bool.not_eq_true', beq_eq_false_iff_ne, ne_eq] at h1
    exact ⟨fun hok => absurd hok h1, fun i h' => by cases h'⟩
  | some i =>
    rw [hi] at h1
    simp only [Bool.and_eq_true, Bool.or_eq_true, Bool.not_eq_true', beq_eq_false_iff_ne, ne_eq,
      decide_eq_true_eq, Bool.and_eq_false_iff, decide_eq_false_iff_not, beq_iff_eq] at h1
    refine ⟨fun hok => ?_, fun i' hi' hlo hlt => ?_⟩
    · rcases h1.1 with hne | ⟨hlo, hlt⟩
      · exact absurd hok hne
      · exact ⟨i, rfl, by simpa using hlo, hlt⟩
    · cases hi'
      rcases h1.2 with (hlo' | hnlt) | hok
      · rw [hlo] at hlo'; cases hlo'
      · exact absurd hlt hnlt
      · exact hok

/-- **Logout is final**: once a token known to the spec (created by a login)
has been logged out, no request with it is authenticated in any later state
of any history — restarts included. -/
theorem C12_logout_final {st : St} {sp : Spec} {now : Nat} (h : Sim st sp now) (hw : noWrap sp now = true)
    (tok : Nat) (i : TokInfo) (hknown : sp.toks tok = some i) (evs : List Ev)
    (hws : noWrapAll sp now evs) :
    let r := runLock (step st now (.logout tok)).2 (specStep sp now (.logout tok) .done).2 now evs
    noWrap r.2.1 r.2.2 = true → (checkSession r.1 r.2.2 tok).1 ≠ .ok := by
  intro r hwr hok
  have hs := sim_step h hw (.logout tok)
  have hws' : noWrapAll (specStep sp now (.logout tok) .done).2 now evs :=
    noWrapAll_congr evs now sp _ (specStep_ttl _ _ _ _) hws
  have hsim := sim_runLock evs _ _ now hs.2 hws'
  have hlo : ∃ i', (specStep sp now (.logout tok) .done).2.toks tok = some i' ∧ i'.loggedOut = true := by
    simp only [specStep, hknown]
    exact ⟨{ i with loggedOut := true }, by simp [FMap.set], rfl⟩
  obtain ⟨i', hi', hlo'⟩ := loggedOut_runLock tok evs _ _ now hs.2 hws' hlo
  obtain ⟨i'', hi'', hlo'', _⟩ := (C12_session_window hsim hwr tok).1 hok
  rw [hi'] at hi''
  cases hi''
  rw [hlo'] at hlo''
  cases hlo''

/-- **Restart changes no verdict**: in a state where the memory map mirrors
the sessions file (true in every reachable state), a request is authenticated
after a restart exactly when it would have been without it. -/
theorem C12_restart_equiv (st : St) (now tok : Nat) (hmd : ∀ t, st.mem t = st.db t) :
    ((checkSession (restart st now) now tok).1 = .ok ↔ (checkSession st now tok).1 = .ok) := by
  have hmem : (restart st now).mem tok = (st.mem tok).filter (fun s => !decide (s.expire ≤ now32 now)) := by
    simp only [restart, ← hmd tok]
  unfold checkSession
  rw [hmem]
  cases hm : st.mem tok with
  | none => simp [Option.filter]
  | some s =>
    by_cases hexp : s.expire ≤ now32 now
    · simp [Option.filter, hexp]
    · simp only [Option.filter, hexp, decide_false, Bool.not_false, if_true, if_false]
      constructor <;> intro _ <;> split <;> rfl

/-! ### simultaneous logins: handlers run under controlLock -/

/-- **Logins are serialised by controlLock.**  N login requests in flight at one
instant, each in two steps (ask the limiter; evaluate the password and count /
clear), their handlers running under one lock taken before the first and
released after the second step (the fact `C12.loginlock` of the tie): for
EVERY schedule of steps — requests that find the lock taken simply wait —
whenever no handler is between its steps the state and every answer given so
far are exactly those of the sequential history of the same requests in the
order in which their handlers started.  Hence `C12_threshold_run` and the
other history theorems apply to concurrent bursts. -/
theorem C12_logins_serialised_under_lock (st : St) (now : Nat) (job : Nat → Job) (sched : List Nat) :
    let c := sched.foldl (stepT true now job) (Conc.init st)
    c.order.Nodup ∧ (∀ i, c.pc i = 0 ↔ i ∉ c.order) ∧
    (c.holder = none →
      c.st = (seqLogins now job st c.order).1 ∧
      ∀ i ∈ c.order, c.res i = (seqLogins now job st c.order).2 i) := by
  intro c
  have hinv : LockInv now job st c := by
    have : ∀ (sched : List Nat) (c0 : Conc), LockInv now job st c0 →
        LockInv now job st (sched.foldl (stepT true now job) c0) := by
      intro sched
      induction sched with
      | nil => intro c0 h; exact h
      | cons i rest ih => intro c0 h; exact ih _ (lockInv_step h i)
    exact this sched _ (lockInv_init now job st)
  exact ⟨hinv.nodup, hinv.started, fun hf => ⟨(hinv.free hf).2.1, (hinv.free hf).2.2⟩⟩

/-- **Without the lock the limit can be overrun** (limit 2, three wrong
passwords from one address at the same instant): if all three ask the limiter
before any failure is counted, all three passwords are evaluated (3 × 403),
whereas every sequential order evaluates two and rejects the third. -/
theorem C12_logins_unserialised_without_lock :
    let job : Nat → Job := fun _ => ⟨⟨0, none, false⟩, false, 0⟩
    let t := 946684800 * nsPerSec
    let c := [0, 1, 2, 0, 1, 2].foldl (stepT false t job) (Conc.init (St.init 2 15 3600))
    let s := seqLogins t job (St.init 2 15 3600) [0, 1, 2]
    (c.res 0, c.res 1, c.res 2) = (some .forbidden, some .forbidden, some .forbidden) ∧
    (s.2 0, s.2 1, s.2 2) = (some .forbidden, some .forbidden, some (.tooMany 900)) ∧
    -- the same schedule under the lock: the requests that find it taken wait
    ([0, 1, 2, 0, 1, 2].foldl (stepT true t job) (Conc.init (St.init 2 15 3600))).order = [0, 1] := by
  decide

/-! ### logout is two steps; other goroutines run in between -/

/-- **Logout is final under every interleaving** (the order of the source: map
entry first, file entry second).  Between the two steps of `removeSession`
ANY history of other goroutines' operations may run — requests with the same
or other cookies, logins, other logouts, clock advances; everything but a
process restart — and after the second step ANY history at all, restarts
included: no request with the logged-out token is authenticated, neither in
between nor afterwards.  No time horizon, no assumption on the state except
that the token had been issued. -/
theorem C12_logout_final_interleaved (st : St) (now tok : Nat) (hissued : tok < st.nextTok)
    (mid evs : List Ev) (hmid : noRestartEv mid = true) :
    let s1 := logoutStep1 .memFirst st tok
    let s2 := runM s1 now mid
    let s3 := logoutStep2 .memFirst s2.1 tok
    (∀ e ∈ traceM s1 now mid, e.2.1 = .request tok → e.2.2 = .auth false) ∧
    (∀ e ∈ traceM s3 s2.2 evs, e.2.1 = .request tok → e.2.2 = .auth false) := by
  intro s1 s2 s3
  have h1 : MemGone s1 tok := ⟨hissued, by simp [s1, logoutStep1, logoutMem, FMap.erase]⟩
  obtain ⟨h2, hmidOK⟩ := memGone_run tok mid s1 now h1 hmid
  refine ⟨hmidOK, ?_⟩
  have h3 : Stale s3 tok 0 := by
    refine ⟨h2.1, ?_, ?_⟩
    · intro s hs
      have : s3.mem tok = none := h2.2
      rw [this] at hs; cases hs
    · intro s hs
      simp [s3, logoutStep2, logoutFile, FMap.erase] at hs
  exact stale_never_auth tok 0 evs s3 s2.2 h3 (timesGE_zero evs s2.2)

/-- **The other order is not final** (file entry first, map entry second): a
request with the same cookie that runs between the two steps on the first
authenticated request of a UTC day prolongs the session and writes it back to
the file the logout has just cleaned; after a restart the logged-out token
authenticates again.  (TTL 2 days; login; a day later logout races with one
request; restart; request.)  This is why the order of the two statements in
`removeSession` is a checked fact of the tie (`C12.logoutorder`). -/
theorem C12_file_first_logout_revives :
    let t := 946684800 * nsPerSec
    let st1 := (step (St.init 5 15 172800) t (.login ⟨0, none, false⟩ true 0)).2
    let t' := t + 86400 * nsPerSec
    (step (step (logoutRace .fileFirst st1 t' 0).2 t' .restart).2 t' (.request 0)).1 = .auth true ∧
    (step (step (logoutRace .memFirst st1 t' 0).2 t' .restart).2 t' (.request 0)).1 = .auth false := by
  decide

/-- with the order of the source a racing request changes nothing: the race
is the atomic logout, and the request is refused -/
theorem C12_logout_race_is_logout (st : St) (now tok : Nat) :
    logoutRace .memFirst st now tok = (false, logout st tok) := by
  simp [logoutRace, logoutStep1, logoutStep2, logoutMem, logoutFile, logout, checkSession, FMap.erase]

/-! ### the uint32 horizon (`expire` and the clock are `uint32` seconds) -/

/-- **A wrapped expiry fails closed.**  If at a successful login
`uint32(now) + ttl` overflows, the stored expiry is smaller than the clock, and
the new token is never authenticated — over any later history, restarts
included — as long as the uint32 clock does not read less than at the login
(i.e. until the clock itself wraps in 2106).  The user is logged in but the
cookie does not work: a loss of service, not of safety. -/
theorem C12_wrap_fails_closed (st : St) (now : Nat) (req : Req) (user tok : Nat) (httl : st.ttl < u32)
    (hok : (handleLogin st now req true user).1 = .ok tok) (hwrap : now32 now + st.ttl ≥ u32)
    (evs : List Ev) (ht : timesGE (now32 now) now evs) :
    ∀ e ∈ traceM (handleLogin st now req true user).2 now evs, e.2.1 = .request tok → e.2.2 = .auth false := by
  rw [handleLogin_eq] at hok ⊢
  obtain ⟨rfl, h1, h2, h3⟩ := login_ok_tables hok
  have h32 : now32 now < u32 := Nat.mod_lt _ (by decide)
  have hB : (now32 now + st.ttl) % u32 ≤ now32 now := by
    have : (now32 now + st.ttl) % u32 = now32 now + st.ttl - u32 := by
      rw [Nat.mod_eq_sub_mod hwrap, Nat.mod_eq_of_lt (by omega)]
    omega
  apply stale_never_auth st.nextTok ((now32 now + st.ttl) % u32) evs _ now _ (timesGE_mono hB evs now ht)
  refine ⟨by rw [h1]; omega, ?_, ?_⟩
  · intro s hs; rw [h2] at hs; simp [FMap.set] at hs; rw [← hs]; exact Nat.le_refl _
  · intro s hs; rw [h3] at hs; simp [FMap.set] at hs; rw [← hs]; exact Nat.le_refl _

/-- **FINDING — past the horizon an expired session is authenticated again**
(fails open).  TTL 1000 s; login 2000 s before the uint32 clock wraps
(2106-02-07T05:54:56Z) stores expiry 2^32 − 1000; a request 3000 s later, i.e.
2000 s AFTER the expiry, finds the clock at 1000 < expiry and is authenticated
— also after a restart in between.  Any session that expired before
2106-02-07T06:28:16Z without being swept (no request with it, no restart
since) comes back to life then.  The monitor rejects the observation. -/
theorem C12_counterexample_uint32_horizon :
    let t1 := (u32 - 2000) * nsPerSec
    let t2 := (u32 + 1000) * nsPerSec
    let st1 := (step (St.init 0 0 1000) t1 (.login ⟨0, none, false⟩ true 0)).2
    let sp1 := (specStep (Spec.init 0 0 1000) t1 (.login ⟨0, none, false⟩ true 0) (.login (.ok 0))).2
    (step (St.init 0 0 1000) t1 (.login ⟨0, none, false⟩ true 0)).1 = .login (.ok 0) ∧
    (step st1 t2 (.request 0)).1 = .auth true ∧
    (step (step st1 t2 .restart).2 t2 (.request 0)).1 = .auth true ∧
    nowS t1 + 1000 < nowS t2 ∧
    specOK sp1 t2 (.request 0) (.auth true) = false := by
  decide

/-- **An alternative comparison, NOT the tree's code** (the serial-number
comparison of the rejected session_expiry_serial_compare.patch, see
/verif/fixes/c12/README.md) would decide expiry exactly, for real, unbounded times:
a session whose real expiry `E` is at most `ttl` ahead of the clock (always
true: expiries are creation/last use + ttl) and that is looked at less than
2^32 − ttl seconds (~136 years) after `E` is found expired exactly when
`E ≤ now` — no absolute date (2106) enters any more. -/
theorem C12_fixed_expiry_exact (E nowS ttl : Nat) (httl : ttl < u32) (hE : E ≤ nowS + ttl)
    (hgap : E ≤ nowS → nowS - E < u32 - ttl) :
    expiredAt true (E % u32) (nowS % u32) ttl = decide (E ≤ nowS) :=
  expiredAt_fixed_exact E nowS ttl httl hE hgap

/-- (alternative comparison, not the tree's code) the witness of
`C12_counterexample_uint32_horizon` against the serial-number comparison: the expired session is refused after the clock has wrapped, also
after a restart; and an expiry that wraps at creation works until it is due -/
theorem C12_fixed_horizon_witness :
    let t1 := (u32 - 2000) * nsPerSec
    let t2 := (u32 + 1000) * nsPerSec
    let st1 := (step (St.init 0 0 1000) t1 (.login ⟨0, none, false⟩ true 0)).2
    (stepFX true true st1 t2 true (.request 0)).1 = .auth false ∧
    (stepFX true true (stepFX true true st1 t2 true .restart).2 t2 true (.request 0)).1 = .auth false ∧
    (let t3 := (u32 - 500) * nsPerSec
     let st3 := (step (St.init 0 0 1000) t3 (.login ⟨0, none, false⟩ true 0)).2
     (stepFX true true st3 (t3 + 999 * nsPerSec) true (.request 0)).1 = .auth true ∧
     (stepFX true true st3 (t3 + 1000 * nsPerSec) true (.request 0)).1 = .auth false) := by
  decide

/-- **The sessions.db record round-trips**: `deserialize (serialize s) = s`
for every expiry below 2^32 and every user name shorter than 65536 bytes; a
record shorter than six bytes is rejected. -/
theorem C12_session_codec (name : List Nat) (expire : Nat) (he : expire < u32) (hn : name.length < 65536) :
    decodeSess (encodeSess name expire) = some (name, expire) ∧
    ∀ d : List Nat, d.length < 6 → decodeSess d = none :=
  ⟨decode_encode name expire he hn, decode_short⟩

/-! ### failing writes to sessions.db -/

/-- without write failures the fallible model is the model -/
theorem C12_faultfree_step (st : St) (now : Nat) (o : Op) : stepF st now true o = step st now o :=
  stepF_true st now o

/-- the driver's model at code level (no horizon repair, Basic-auth repair) is `stepF` -/
theorem C12_code_level_step (st : St) (now : Nat) (dbOK : Bool) (o : Op) :
    stepFX false true st now dbOK o = stepF st now dbOK o :=
  stepFX_false st now dbOK o

/-- **A logout whose file delete fails still ends the session in memory**: the
token is not found by any check until the next restart (whatever happens to
the file). -/
theorem C12_failed_logout_memory (st : St) (now tok : Nat) (dbOK dbOK' : Bool) :
    (checkSessionF (logoutF st tok dbOK) now tok dbOK').1 = .notFound ∧
    (checkSessionF (logoutF st tok dbOK) now tok dbOK').2 = logoutF st tok dbOK := by
  simp [checkSessionF, logoutF, FMap.erase]

/-- **Observation (storage fault, outside the property's histories) — a logout
whose file delete fails is undone by a restart**: login (token 0, TTL 1 h),
logout while sessions.db cannot be written, restart on the same file: the
logged-out token authenticates again (until its expiry).  `C12_logout_final`
therefore carries the assumption that sessions.db writes succeed. -/
theorem C12_failed_logout_restart_revives :
    let t := 946684800 * nsPerSec
    let st1 := (stepF (St.init 5 15 3600) t true (.login ⟨0, none, false⟩ true 0)).2
    let st2 := (stepF st1 t false (.logout 0)).2
    let st3 := (stepF st2 (t + nsPerSec) true .restart).2
    (stepF st2 t true (.request 0)).1 = .auth false ∧
    (stepF st3 (t + nsPerSec) true (.request 0)).1 = .auth true := by
  decide

/-- **A login whose file store fails, fails closed**: the session lives in
memory only; after a restart the token is unknown. -/
theorem C12_failed_store_fails_closed (st : St) (now now' : Nat) (req : Req) (user : Nat)
    (hfresh : st.db st.nextTok = none) :
    (restart (handleLoginF st now req true user false).2 now').mem st.nextTok = none := by
  simp only [restart, handleLoginF_false_db, hfresh]
  rfl

/-- **A lazy expiry whose file delete fails stays dead**: the expired entry
left in the file is not loaded by a later restart (before the clock wraps). -/
theorem C12_failed_expiry_delete_stays_dead (st : St) (now now' tok : Nat) (s : Sess)
    (hm : st.mem tok = some s) (hdb : st.db tok = some s) (hexp : s.expire ≤ now32 now)
    (hmono : now32 now ≤ now32 now') :
    (checkSessionF st now tok false).1 = .expired ∧
    (restart (checkSessionF st now tok false).2 now').mem tok = none := by
  have h1 : checkSessionF st now tok false =
      (.expired, { st with mem := st.mem.erase tok, db := st.db }) := by
    simp [checkSessionF, hm, hexp]
  rw [h1]
  refine ⟨rfl, ?_⟩
  have : s.expire ≤ now32 now' := Nat.le_trans hexp hmono
  simp [restart, hdb, Option.filter, this]

/-- in every reachable state the memory map mirrors the sessions file -/
theorem C12_mem_mirrors_db (ma bm ttl now : Nat) (evs : List Ev)
    (hw : noWrapAll (Spec.init ma bm ttl) now evs) (t : Nat) :
    (runLock (St.init ma bm ttl) (Spec.init ma bm ttl) now evs).1.mem t =
    (runLock (St.init ma bm ttl) (Spec.init ma bm ttl) now evs).1.db t :=
  (C12_sim_reachable ma bm ttl now evs hw).2.memDb t

/-! ### Non-vacuity: a concrete history (limit 2, block 1 min, ttl 1 h). -/

section Example
def ex0 : Nat := 946684800 * nsPerSec
def exEvs : List Ev :=
  [.op (.login ⟨0, none, false⟩ false 0), .advance (30 * nsPerSec), .op (.login ⟨0, some 7, true⟩ false 0),   -- two failures in 30 s
   .advance nsPerSec, .op (.login ⟨0, some 1, false⟩ true 0),                                     -- right password: blocked
   .op (.login ⟨1, some 0, true⟩ true 0),                                                        -- another address: token 0
   .op (.request 0), .op .restart, .op (.request 0),                             -- valid before and after restart
   .advance (59 * nsPerSec), .op (.login ⟨0, none, false⟩ true 1),                              -- block elapsed: token 1
   .op (.logout 0), .op .restart, .op (.request 0), .op (.request 1),
   .advance (3600 * nsPerSec), .op (.request 1)]                                 -- expired

example : noWrapAll (Spec.init 2 1 3600) ex0 exEvs := by
  simp only [exEvs, noWrapAll]; decide

/-- the observations of the model along the example history -/
def exObs : St → Nat → List Ev → List Obs
  | _, _, [] => []
  | st, now, .advance d :: evs => exObs st (now + d) evs
  | st, now, .op o :: evs => (step st now o).1 :: exObs (step st now o).2 now evs

example : exObs (St.init 2 1 3600) ex0 exEvs =
    [.login .forbidden, .login .forbidden, .login (.tooMany 59), .login (.ok 0),
     .auth true, .done, .auth true, .login (.ok 1), .done, .done, .auth false, .auth true, .auth false] := by
  decide

/-- the hypotheses of `C12_threshold_run` are satisfiable: limit 2; a failure
and then a success of address 0 (clean), then two failures of address 0 ten
seconds apart with a failure of address 1 in between — every attempt of
address 0 during the next minute is answered 429 -/
example (d : Nat) (hd : d < 60 * nsPerSec) (good : Bool) (user : Nat) :
    let evs0 : List Ev := [.op (.login ⟨0, none, false⟩ false 0), .advance nsPerSec, .op (.login ⟨0, none, false⟩ true 0)]
    let evs1 : List Ev := [.op (.login ⟨0, none, false⟩ false 0), .advance (10 * nsPerSec),
      .op (.login ⟨1, some 0, true⟩ false 0), .op (.login ⟨0, some 3, false⟩ false 1)]
    let s0 := runM (St.init 2 1 3600) ex0 evs0
    let s1 := runM s0.1 s0.2 evs1
    ∃ r, (handleLogin s1.1 (s1.2 + d) ⟨0, some 9, true⟩ good user).1 = .tooMany r := by
  intro evs0 evs1 s0 s1
  have h := C12_threshold_run 2 1 3600 ex0 evs0 evs1 0 (by decide) (by decide) (by decide)
    [ex0 + nsPerSec, ex0 + 11 * nsPerSec] (by decide) (by decide) (by decide) d ⟨0, some 9, true⟩ rfl good user
  have ht : s1.2 = ex0 + 11 * nsPerSec := by decide
  exact (h (by
    show s1.2 + d < _
    rw [ht]
    simp only [List.getLastD_cons, List.getLastD_nil]
    omega)).1

/-- Sensitivity of the model to the two keys of handleLogin: were the failures
counted under another address than the one the gate looks at (limit 1), the
second wrong password would still be evaluated (403) instead of rejected. -/
example : (loginAt (loginAt (St.init 1 1 3600) ex0 0 0 false 0).2 ex0 0 0 false 0).1 = .tooMany 60 ∧
    (loginAt (loginAt (St.init 1 1 3600) ex0 0 5 false 0).2 ex0 0 5 false 0).1 = .forbidden := by
  decide

end Example

/-! ## Translator tie: the limiter's bodies as the source states them (regenerated per run)

`extract/cmd/c12` TRANSLATES the bodies of `checkLocked`, `incLocked` and the
deletion condition of `cleanupLocked` (internal/home/authratelimiter.go) into
programs of the small statement language `AGH.MiniGo` (`Gen/C12Limiter.lean`,
rewritten on every run).  The theorems below run those programs and prove them
equal to the hand-written model for EVERY limiter state, address and instant:
the throttling theorems of this file are thereby theorems about what the
source says now, not only about a model that a sample of runs agreed with. -/
namespace T
open AGH.MiniGo

/-- The variables the translated bodies read besides their locals. -/
def envOf (l : Limiter) (now : Nat) : Env := fun x =>
  if x = "now" then (now : Int)
  else if x = "ab.maxAttempts" then (l.max : Int)
  else if x = "ab.blockDur" then (l.blockDur : Int)
  else 0

/-- What `ab.failedAuths[usrID]` holds. -/
def slotOf (l : Limiter) (addr : Nat) : Slot := (l.recs addr).map (fun r => ((r.untl : Int), (r.num : Int)))

end T

theorem C12_T_checkLocked_is_model (l : Limiter) (addr now : Nat) :
    ∃ v, MiniGo.run (T.slotOf l addr) Gen.C12.checkLocked (T.envOf l now) = .ret v ∧
      v.toNat = checkLocked l addr now := by
  unfold checkLocked T.slotOf
  cases h : l.recs addr with
  | none =>
    refine ⟨0, ?_, rfl⟩
    simp [Gen.C12.checkLocked, MiniGo.run, MiniGo.E.eval, MiniGo.Env.set, MiniGo.b2i]
  | some a =>
    by_cases hlt : a.num < l.max
    · refine ⟨0, ?_, by simp [hlt]⟩
      simp [Gen.C12.checkLocked, MiniGo.run, MiniGo.E.eval, MiniGo.Env.set, MiniGo.b2i, T.envOf, hlt]
    · refine ⟨(a.untl : Int) - (now : Int), ?_, by simp [hlt]⟩
      simp [Gen.C12.checkLocked, MiniGo.run, MiniGo.E.eval, MiniGo.Env.set, MiniGo.b2i, T.envOf, hlt]

theorem C12_T_incLocked_is_model (l : Limiter) (addr now : Nat) :
    ∃ u n, MiniGo.run (T.slotOf l addr) Gen.C12.incLocked (T.envOf l now) = .stored u n ∧
      (l.inc addr now).recs = l.recs.set addr ⟨u.toNat, n.toNat⟩ ∧
      (l.inc addr now).blockDur = l.blockDur ∧ (l.inc addr now).max = l.max := by
  unfold Limiter.inc T.slotOf
  cases h : l.recs addr with
  | none =>
    by_cases hge : 1 ≥ l.max
    · have hge' : (l.max : Int) ≤ 1 := by omega
      refine ⟨(now : Int) + (l.blockDur : Int), 1, ?_, ?_, rfl, rfl⟩
      · simp [Gen.C12.incLocked, MiniGo.run, MiniGo.E.eval, MiniGo.Env.set, MiniGo.b2i, T.envOf, hge']
      · simp [hge] <;> congr 1
    · have hge' : ¬ (l.max : Int) ≤ 1 := by omega
      refine ⟨(now : Int) + 60000000000, 1, ?_, ?_, rfl, rfl⟩
      · simp [Gen.C12.incLocked, MiniGo.run, MiniGo.E.eval, MiniGo.Env.set, MiniGo.b2i, T.envOf, hge']
      · simp [hge, failedAuthTTL, nsPerSec] <;> congr 1
  | some a =>
    by_cases hge : a.num + 1 ≥ l.max
    · have hge' : (l.max : Int) ≤ (a.num : Int) + 1 := by omega
      refine ⟨(now : Int) + (l.blockDur : Int), (a.num : Int) + 1, ?_, ?_, rfl, rfl⟩
      · simp [Gen.C12.incLocked, MiniGo.run, MiniGo.E.eval, MiniGo.Env.set, MiniGo.b2i, T.envOf, hge']
      · simp [hge] <;> congr 1
    · have hge' : ¬ (l.max : Int) ≤ (a.num : Int) + 1 := by omega
      refine ⟨(a.untl : Int), (a.num : Int) + 1, ?_, ?_, rfl, rfl⟩
      · simp [Gen.C12.incLocked, MiniGo.run, MiniGo.E.eval, MiniGo.Env.set, MiniGo.b2i, T.envOf, hge']
      · simp [hge] <;> congr 1

/-- `cleanupLocked` as written deletes exactly the records the model's `cleanup` drops. -/
theorem C12_T_cleanup_is_model (now : Nat) (recs : FMap Rec) (k : Nat) :
    cleanup now recs k = (recs k).filter (fun r =>
      decide (Gen.C12.cleanupCond.eval
        (fun x => if x = "now" then (now : Int) else if x = "v.until" then (r.untl : Int) else 0) = 0)) := by
  unfold cleanup
  congr 1
  funext r
  by_cases h : now > r.untl
  · have h' : (r.untl : Int) < (now : Int) := by omega
    simp [Gen.C12.cleanupCond, MiniGo.E.eval, MiniGo.b2i, h, h']
  · have h' : ¬ (r.untl : Int) < (now : Int) := by omega
    simp [Gen.C12.cleanupCond, MiniGo.E.eval, MiniGo.b2i, h, h']

theorem C12_T_failedAuthTTL : Gen.C12.failedAuthTTL = (failedAuthTTL : Int) := by decide

/-- The decision skeleton of `(*Auth).checkSession` is the model's `checkSession`:
a session is expired when `expire ≤ now` (both `uint32` seconds of the UTC
clock); on that branch the memory entry goes first, then the file entry; the
refreshed expiry is `now + sessionTTL` (uint32 addition: the model's `% u32`),
written back when it falls on another day (`/ 86400` on both sides). -/
theorem C12_T_checkSession_skeleton :
    Gen.C12.sessionCmps = [("s.expire", "<=", "now"), ("s.expire", "!=", "newExpire")] ∧
      Gen.C12.sessionDivisors = [daySec, daySec] ∧
      Gen.C12.sessionNow = "uint32(time.Now().UTC().Unix())" ∧
      Gen.C12.sessionNewExpire = "now + a.sessionTTL" ∧
      Gen.C12.sessionExpiredEffects = ["delete", "a.removeSessionFromFile", "return checkSessionExpired"] := by
  decide

/-- non-vacuity: the translated `incLocked` on the third failure of an address with `max = 3` blocks it for `blockDur` -/
example : MiniGo.run (some (100, 2)) Gen.C12.incLocked (T.envOf ⟨FMap.empty, 900, 3⟩ 50) = .stored 950 3 := by
  simp [Gen.C12.incLocked, MiniGo.run, MiniGo.E.eval, MiniGo.Env.set, MiniGo.b2i, T.envOf]
example : MiniGo.run (some (950, 3)) Gen.C12.checkLocked (T.envOf ⟨FMap.empty, 900, 3⟩ 60) = .ret 890 := by
  simp [Gen.C12.checkLocked, MiniGo.run, MiniGo.E.eval, MiniGo.Env.set, MiniGo.b2i, T.envOf]

end AGH.C12
