/-
C02 — upstream answers revealing a blocked CNAME target / address / HTTPS hint
are replaced by the blocking-mode response, wherever the record sits; clean or
inapplicable answers are delivered unchanged.

Same model, same engine contract and same domain restrictions as C01 (see
`AGH/Props/C01.lean`).  Rewrites (legacy and `$dnsrewrite`) and safe search are
not modelled, so the "restores the original question" branch of
`processFilteringAfterResponse` is outside these theorems.
-/
import AGH.Props.C01
set_option linter.unusedSimpArgs false
namespace AGH.Filter
open AGH AGH.Bytes

/-- The model satisfies the executable C02 spec predicate the driver evaluates
on the implementation — for all engines, configurations, upstream answers, queries. -/
theorem C02_model_meets_spec (e : Engines) (hwf : EnginesWF e) (c : Conf) (u : Upstream) (q : Query) :
    C02.specOK e c u q (handle e c u q) = true := by
  unfold C02.specOK C02.check
  cases hres : reserved c q
  · rw [handle_eq_main e c u q hres]
    simp only [Bool.false_eq_true, if_false]
    cases hrwc : (filteringOn c && qhost q != [] && legacyRewritten e c (qhost q) q.qtype)
    case true =>
      simp only [Bool.and_eq_true, bne_iff_ne, ne_eq] at hrwc
      rw [handleMain_rewritten e c u q hrwc.1.1 hrwc.1.2 hrwc.2]
      simp only [if_true]
      by_cases hcn : rewriteCanon e c q ≠ [] ∧ rewriteIPs e c q = []
      · rw [if_pos hcn]; simp [Upstream.exchange]
      · rw [if_neg hcn]; simp [cnameWithIPs, reply]
    simp only [Bool.false_eq_true, if_false]
    cases hpre0 : precededByOther e c q
    case true => simp
    cases hob : otherBlocks e c q
    case true => simp
    cases hb : blockedByRules e c q
    · cases hs : serviceMayBlock e c q
      · simp only [Bool.or_self, Bool.false_eq_true, if_false]
        obtain ⟨h1, h2, h3⟩ := handleMain_forward e hwf c u q hpre0 hb hs hob
        cases happ : respFilterApplies e c q
        · obtain ⟨ql, hql, _, _⟩ := h1 happ
          simp [hql, Upstream.exchange, deliveredUnchanged]
        · simp only [if_true]
          cases hfind : u.answer.find? (offending e c) with
          | none =>
            have hclean : ∀ rr ∈ u.answer, offending e c rr = false := by
              intro rr hrr
              have := List.find?_eq_none.mp hfind rr hrr
              simpa using this
            obtain ⟨ql, hql, hnf, hno⟩ := h2 happ hclean
            simp only [hql, Upstream.exchange]
            cases hd : c.aaaaDisabled
            · have hid : stripC c = id := by funext rr; simp [stripC, hd]
              simp [deliveredUnchanged, hd, hnf, hno, hid]
            · have hid : stripC c = stripRR := by funext rr; simp [stripC, hd]
              simp [deliveredUnchanged, hd, hnf, hno, hid]
          | some x =>
            obtain ⟨pre, post, hsplit, hpre, hox⟩ := find_split _ _ _ hfind
            rw [offending_eq] at hox
            cases hfb : firstBlocked e c x with
            | none => simp [hfb] at hox
            | some ht =>
              obtain ⟨r, hB, hr⟩ := h3 happ pre x post ht.1 ht.2 hsplit hpre hfb
              have hcand := firstBlocked_candidate e c x ht.1 ht.2 hfb
              have hok := respBlock_ok e hwf c q ht.1 ht.2 r hB
              have hany : (respCandidates e c x).any (fun (t, ips) => respBlockOK c q t ips (genDNSFilterMessage c q r)) = true :=
                List.any_eq_true.mpr ⟨_, hcand, hok⟩
              have hsame := sameModuloStrip_stripC c pre x post
              simp [hr, hany, hsplit, hsame]
      · simp
    · simp
  · simp

/-- **Position independence.**  Where response filtering applies, the first
answer record revealing a rule-blocked name — whatever precedes and follows
it — makes the client receive the blocking-mode response instead of the
upstream answer; the query is still forwarded exactly once, the record says
"filtered" and keeps the original answer. -/
theorem C02_position_independent (e : Engines) (hwf : EnginesWF e) (c : Conf) (u : Upstream) (q : Query)
    (pre : List RR) (rr : RR) (post : List RR)
    (hdom : reserved c q = false) (hpre0 : precededByOther e c q = false)
    (hb : blockedByRules e c q = false) (hs : serviceMayBlock e c q = false) (hob : otherBlocks e c q = false)
    (happ : respFilterApplies e c q = true)
    (hsplit : u.answer = pre ++ rr :: post)
    (hpre : ∀ x ∈ pre, offending e c x = false) (hoff : offending e c rr = true) :
    ∃ m oa, handle e c u q = .done m [q]
        (some { reason := .blockList, isFiltered := true, svcName := [], origAnswer := some oa }) ∧
      (respCandidates e c rr).any (fun (t, ips) => respBlockOK c q t ips m) = true ∧
      sameModuloStrip c oa u.answer = true := by
  rw [offending_eq] at hoff
  cases hfb : firstBlocked e c rr with
  | none => simp [hfb] at hoff
  | some ht =>
    obtain ⟨r, hB, hr⟩ := (handleMain_forward e hwf c u q hpre0 hb hs hob).2.2 happ pre rr post ht.1 ht.2 hsplit hpre hfb
    refine ⟨genDNSFilterMessage c q r, pre.map (stripC c) ++ stripC c rr :: post, ?_, ?_, ?_⟩
    · rw [handle_eq_main e c u q hdom, hr]
    · exact List.any_eq_true.mpr ⟨_, firstBlocked_candidate e c rr ht.1 ht.2 hfb, respBlock_ok e hwf c q ht.1 ht.2 r hB⟩
    · rw [hsplit]; exact sameModuloStrip_stripC c pre rr post

/-- The replacement is independent of everything the upstream said except which
record is the first offending one: no record of the upstream answer is delivered. -/
theorem C02_replacement_is_local (e : Engines) (hwf : EnginesWF e) (c : Conf) (u : Upstream) (q : Query)
    (pre : List RR) (rr : RR) (post : List RR)
    (hdom : reserved c q = false) (hpre0 : precededByOther e c q = false)
    (hb : blockedByRules e c q = false) (hs : serviceMayBlock e c q = false) (hob : otherBlocks e c q = false)
    (happ : respFilterApplies e c q = true)
    (hsplit : u.answer = pre ++ rr :: post)
    (hpre : ∀ x ∈ pre, offending e c x = false) (hoff : offending e c rr = true) :
    ∃ r ql, handle e c u q = .done (genDNSFilterMessage c q r) [q] (some ql) ∧
      r.isFiltered = true ∧ r.reason = .blockList := by
  rw [offending_eq] at hoff
  cases hfb : firstBlocked e c rr with
  | none => simp [hfb] at hoff
  | some ht =>
    obtain ⟨r, hB, hr⟩ := (handleMain_forward e hwf c u q hpre0 hb hs hob).2.2 happ pre rr post ht.1 ht.2 hsplit hpre hfb
    exact ⟨r, _, by rw [handle_eq_main e c u q hdom, hr], hB.1, hB.2.1⟩

/-- **Allow override per record**: a record all of whose revealed names /
addresses are allowed (allow-list hit or winning `@@` exception for that very
name) is not offending, so the scan continues past it. -/
theorem C02_allow_override_per_record (e : Engines) (c : Conf) (rr : RR)
    (h : ∀ p ∈ revealed c rr, allowedName e c p.1 p.2 = true) :
    offending e c rr = false := by
  unfold offending
  cases hany : (revealed c rr).any (fun (h, t) => ruleBlockedName e c h t)
  · rfl
  · obtain ⟨p, hp, hb⟩ := List.any_eq_true.mp hany
    simp [ruleBlockedName, h p hp] at hb

/-- **Clean answers are delivered unchanged** (where the filter runs and AAAA
is disabled, HTTPS records lose their IPv6 hints — the code edits them in place). -/
theorem C02_clean_unchanged (e : Engines) (hwf : EnginesWF e) (c : Conf) (u : Upstream) (q : Query)
    (hdom : reserved c q = false) (hpre0 : precededByOther e c q = false)
    (hb : blockedByRules e c q = false) (hs : serviceMayBlock e c q = false) (hob : otherBlocks e c q = false)
    (happ : respFilterApplies e c q = true)
    (hclean : ∀ rr ∈ u.answer, offending e c rr = false) :
    ∃ ql, ql.isFiltered = false ∧ ql.origAnswer = none ∧
      handle e c u q =
        .done { u.exchange q with answer := if c.aaaaDisabled then u.answer.map stripRR else u.answer } [q] (some ql) := by
  obtain ⟨ql, hql, hnf, hno⟩ := (handleMain_forward e hwf c u q hpre0 hb hs hob).2.1 happ hclean
  refine ⟨ql, hnf, hno, ?_⟩
  rw [handle_eq_main e c u q hdom, hql]
  cases hd : c.aaaaDisabled
  · have hid : stripC c = id := by funext rr; simp [stripC, hd]
    rw [hid, List.map_id]; simp
  · have hid : stripC c = stripRR := by funext rr; simp [stripC, hd]
    rw [hid]; simp

/-- **Not applicable ⇒ pass-through**: protection off, filtering off for the
client, or the queried name allow-listed ⇒ the upstream's message is delivered
untouched (not even the IPv6-hint edit happens). -/
theorem C02_not_applicable_passthrough (e : Engines) (hwf : EnginesWF e) (c : Conf) (u : Upstream) (q : Query)
    (hdom : reserved c q = false) (hpre0 : precededByOther e c q = false)
    (hb : blockedByRules e c q = false) (hs : serviceMayBlock e c q = false) (hob : otherBlocks e c q = false)
    (hna : protectionOn c = false ∨ filteringOn c = false ∨ allowedName e c (qhost q) q.qtype = true) :
    ∃ ql, ql.isFiltered = false ∧ ql.origAnswer = none ∧ handle e c u q = .done (u.exchange q) [q] (some ql) := by
  have happ : respFilterApplies e c q = false := by
    unfold respFilterApplies
    rcases hna with h | h | h <;> simp [h]
  obtain ⟨ql, hql, hnf, hno⟩ := (handleMain_forward e hwf c u q hpre0 hb hs hob).1 happ
  exact ⟨ql, hnf, hno, by rw [handle_eq_main e c u q hdom, hql]⟩

/-- **A rewritten query gets its own question back.**  When a legacy rewrite maps
the name to a canonical name without addresses, the canonical name — and only
it — is resolved upstream, and the client receives the upstream's rcode and
records under the ORIGINAL question, preceded by `name CNAME canonical`.  No
response filtering takes place (the property exempts rewritten queries): the
statement holds whatever the upstream's records reveal. -/
theorem C02_rewritten_restores_question (e : Engines) (c : Conf) (u : Upstream) (q : Query)
    (hdom : reserved c q = false) (hf : filteringOn c = true) (hq : qhost q ≠ [])
    (hrw : legacyRewritten e c (qhost q) q.qtype = true)
    (hcn : rewriteCanon e c q ≠ []) (hips : rewriteIPs e c q = []) :
    ∃ m ql, handle e c u q = .done m [{ name := fqdn (rewriteCanon e c q), qtype := q.qtype }] (some ql) ∧
      m.qname = q.name ∧ m.qtype = q.qtype ∧ m.rcode = u.rcode ∧
      m.answer = { name := q.name, ttl := c.ttl, data := .cname (fqdn (rewriteCanon e c q)) } :: u.answer ∧
      ql.isFiltered = false ∧ ql.reason = .rewritten ∧ ql.origAnswer = none := by
  rw [C01_rewrite_precedes_block e c u q hdom hf hq hrw, if_pos ⟨hcn, hips⟩]
  exact ⟨_, _, rfl, rfl, rfl, rfl, rfl, rfl, rfl, rfl⟩

/-- **Only the answer section is scanned.**  Records in the authority section do
not trigger the replacement, even if they reveal blocked names: with a clean
answer section the upstream's message — authority section included — is what
the client gets. -/
theorem C02_authority_not_scanned (e : Engines) (hwf : EnginesWF e) (c : Conf) (u : Upstream) (q : Query)
    (hdom : reserved c q = false) (hpre0 : precededByOther e c q = false)
    (hb : blockedByRules e c q = false) (hs : serviceMayBlock e c q = false) (hob : otherBlocks e c q = false)
    (happ : respFilterApplies e c q = true)
    (hclean : ∀ rr ∈ u.answer, offending e c rr = false)
    (_hns : ∃ rr ∈ u.ns, offending e c rr = true) :
    ∃ m ql, handle e c u q = .done m [q] (some ql) ∧ m.ns = u.ns ∧ m.rcode = u.rcode ∧ ql.isFiltered = false := by
  obtain ⟨ql, hnf, _, h⟩ := C02_clean_unchanged e hwf c u q hdom hpre0 hb hs hob happ hclean
  exact ⟨_, ql, h, rfl, rfl, hnf⟩

/-- **Cache hits are filtered like fresh answers.**  With the dnsproxy cache in
front of the upstream, every step — hit or miss, whatever the cache holds —
satisfies the C02 spec with respect to the (stored raw or fresh) upstream
message it works on; so a stored answer revealing a blocked name is replaced
on every repetition of the query. -/
theorem C02_cached_step_meets_spec (e : Engines) (hwf : EnginesWF e) (c : Conf) (cache : Cache)
    (u : Upstream) (q : Query) :
    C02.specOK e c (usedUpstream cache u q) q (handleCached e c cache u q).1 = true := by
  unfold handleCached usedUpstream
  cases hl : cache.lookup q with
  | none => exact C02_model_meets_spec e hwf c u q
  | some stored =>
    have h := C02_model_meets_spec e hwf c stored q
    simp only
    cases ho : handle e c stored q with
    | err => simp [contacted, ho] at h ⊢; exact h
    | done m log ql =>
      rw [ho] at h
      cases hlog : log.isEmpty
      · simp only [contacted, hlog, Bool.not_false, if_true, dropLog]
        simpa [C02.specOK, C02.check] using h
      · simp only [contacted, hlog, Bool.not_true, Bool.false_eq_true, if_false]
        exact h

/-! ## Non-vacuity -/

/-- A 93.184.216.34 -/
def exA : RR := { name := [115, 105, 116, 101, 46, 101, 120, 97, 109, 112, 108, 101, 46], ttl := 60,
                  data := RData.a (some (IP.mk false 1572395042 [57, 51, 46, 49, 56, 52, 46, 50, 49, 54, 46, 51, 52])) }
/-- CNAME tracker.example. -/
def exCNAME : RR := { name := [115, 105, 116, 101, 46, 101, 120, 97, 109, 112, 108, 101, 46], ttl := 60, data := .cname [67, 68, 78, 46, 84, 114, 97, 99, 107, 101, 114, 46, 69, 120, 97, 109, 112, 108, 101, 46] }
/-- "site.example." A -/
def exQ4 : Query := { name := [115, 105, 116, 101, 46, 101, 120, 97, 109, 112, 108, 101, 46], qtype := tA }
def exConf : Conf := { toyConf with mode := .nullIP }

set_option maxRecDepth 8000 in
/-- the hypotheses of `C02_position_independent` are satisfiable: a clean A record, then a
CNAME to a sub-domain of a blocked name (mixed case), then another record -/
example : reserved exConf exQ4 = false ∧ blockedByRules (ruleEngines exBlock []) exConf exQ4 = false ∧
    serviceMayBlock (ruleEngines exBlock []) exConf exQ4 = false ∧
    respFilterApplies (ruleEngines exBlock []) exConf exQ4 = true ∧
    offending (ruleEngines exBlock []) exConf exA = false ∧
    offending (ruleEngines exBlock []) exConf exCNAME = true := by decide

/-- a legacy rewrite `ads.example → canon.example.net` in front of the rule `||ads.example^` -/
def rwConf : Conf :=
  { toyConf with rewrites := C06.prepare [{ domain := [97, 100, 115, 46, 101, 120, 97, 109, 112, 108, 101], answer := [99, 97, 110, 111, 110, 46, 101, 120, 97, 109, 112, 108, 101, 46, 110, 101, 116], parsed := none }] }
/-- "Ads.Example." A -/
def rwQ : Query := { name := [65, 100, 115, 46, 69, 120, 97, 109, 112, 108, 101, 46], qtype := tA }

/-- the hypotheses of `C01_rewrite_precedes_block` and `C02_rewritten_restores_question` are
satisfiable for a name the rules block: the rewrite applies (canonical name, no addresses) and
`||ads.example^` matches the same name -/
example : reserved rwConf rwQ = false ∧ filteringOn rwConf = true ∧ qhost rwQ ≠ [] ∧
    legacyRewritten (ruleEngines exBlock []) rwConf (qhost rwQ) tA = true ∧
    rewriteCanon (ruleEngines exBlock []) rwConf rwQ ≠ [] ∧ rewriteIPs (ruleEngines exBlock []) rwConf rwQ = [] ∧
    ruleBlockedName (ruleEngines exBlock []) rwConf (qhost rwQ) tA = true := by
  decide +kernel

end AGH.Filter
