import AGH.Spec.QLogFile
namespace AGH.C20
theorem C20_placeholder : True := trivial
end AGH.C20
