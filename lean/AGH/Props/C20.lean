/-
C20 — query-log files read backwards completely; timestamp seeks land on the entry.
Property theorems only (helper lemmas live in AGH/Lemmas/QLog*.lean).

All theorems are about the executable model `AGH/Model/QLogFile.lean` (the very
definitions the driver runs against the Go code), for EVERY parameter pair with
`16 KiB ≤ maxEntry ≤ bufSize` (the Go constants 16 KiB / 1.6 MB are one
instance, `C20_goParams_ok`), every line file, every reader state.
-/
import AGH.Lemmas.QLogSim
namespace AGH.C20
open AGH

/-- The constants of the unchanged tree satisfy the hypotheses on `P`. -/
theorem C20_goParams_ok : entryLimit ≤ goParams.maxEntry ∧ goParams.maxEntry ≤ goParams.bufSize := by
  decide

/-- **Reverse reading.**  For any file whose lines are non-empty, newline-free and
shorter than the 16 KiB limit — whatever its size, wherever the 1.6 MB windows
fall — `SeekStart` followed by `n` calls of `ReadNext` returns the last `n`
lines in reverse order, each exactly once, and reports `io.EOF` exactly when
`n` exceeds the number of lines.  (`n = lines.length + 1`: the whole file,
then EOF.) -/
theorem C20_readall (P : Params) (hP1 : entryLimit ≤ P.maxEntry) (hP2 : P.maxEntry ≤ P.bufSize)
    (lines : List Bytes) (hok : ∀ l ∈ lines, lineOK l = true) (q : QState) (n : Nat) :
    ∃ q' rs, fReadMany P (fileOfLines lines) n (seekStart (fileOfLines lines) q) [] =
        (q', rs, if n > lines.length then some Err.eof else none) ∧
      rs.map (fun r => (fileOfLines lines).slice r.1 r.2) = lines.reverse.take n := by
  obtain ⟨q', rs, h1, h2, _⟩ :=
    fReadMany_filePos P lines hP1 hP2 hok n lines.length _ [] (filePos_seekStart P lines q)
  exact ⟨q', rs, by simpa using h1, by simpa using h2⟩

/-- **Seek to a stored timestamp.**  In a line file with strictly increasing
non-zero timestamps (below 2⁶³ bytes, as every Go file is), seeking the
timestamp of entry `i` succeeds — the depth guard, the same-line guard and the
end-of-file guard never fire — and the following `n` reads return entries
`i, i-1, …` (then `io.EOF`). -/
theorem C20_seek_found (P : Params) (hP1 : entryLimit ≤ P.maxEntry) (hP2 : P.maxEntry ≤ P.bufSize)
    (tsOf : Bytes → Int) (lines : List Bytes) (ctx : SeekCtx tsOf lines)
    (hsize : (render lines).length < 2 ^ 63) (i : Nat) (hi : i < lines.length) (q : QState) (n : Nat) :
    ∃ q1 pos d, seekTS P (fileOfLines lines) tsOf q (tsOf lines[i]) = (q1, .ok (pos, d)) ∧
      ∃ q' rs, fReadMany P (fileOfLines lines) n q1 [] =
          (q', rs, if n > i + 1 then some Err.eof else none) ∧
        rs.map (fun r => (fileOfLines lines).slice r.1 r.2) = ((lines.take (i + 1)).reverse).take n := by
  obtain ⟨d, hseek⟩ := seekTS_found P tsOf _ lines hP1 ctx hsize i hi rfl q
  refine ⟨_, _, d, hseek, ?_⟩
  have hpos : FilePos P lines (i + 1)
      { q with hasBuf := false, position := (render (lines.take (i + 1))).length - 1 } :=
    ⟨by omega, rfl, by intro h; simp at h⟩
  obtain ⟨q', rs, h1, h2, _⟩ := fReadMany_filePos P lines hP1 hP2 ctx.ok n (i + 1) _ [] hpos
  exact ⟨q', rs, by simpa using h1, h2⟩

/-- **Seek to an absent timestamp.**  It terminates (the model is total) with
`tooEarly` when the timestamp precedes every entry (also for the empty file),
`tooLate` when it follows every entry, `notFound` otherwise — never by the
depth guard — and the position is untouched, so subsequent reads continue
exactly where they were. -/
theorem C20_seek_absent (P : Params) (hP1 : entryLimit ≤ P.maxEntry)
    (tsOf : Bytes → Int) (lines : List Bytes) (ctx : SeekCtx tsOf lines)
    (hsize : (render lines).length < 2 ^ 63) (target : Int)
    (habs : ∀ l ∈ lines, tsOf l ≠ target) (q : QState) :
    seekTS P (fileOfLines lines) tsOf q target =
      ({ q with hasBuf := false },
       .error (if ∀ l ∈ lines, target < tsOf l then Err.tooEarly
               else if ∀ l ∈ lines, tsOf l < target then Err.tooLate else Err.notFound)) :=
  seekTS_absent P tsOf target lines hP1 ctx hsize habs q

/-- …and reads after a failed seek continue where they were: with `c` lines left
before, the next `n` reads return lines `c-1, c-2, …`. -/
theorem C20_seek_absent_then_read (P : Params) (hP1 : entryLimit ≤ P.maxEntry) (hP2 : P.maxEntry ≤ P.bufSize)
    (tsOf : Bytes → Int) (lines : List Bytes) (ctx : SeekCtx tsOf lines)
    (hsize : (render lines).length < 2 ^ 63) (target : Int)
    (habs : ∀ l ∈ lines, tsOf l ≠ target) (q : QState) (c : Nat) (hq : FilePos P lines c q) (n : Nat) :
    ∃ q' rs, fReadMany P (fileOfLines lines) n (seekTS P (fileOfLines lines) tsOf q target).1 [] =
        (q', rs, if n > c then some Err.eof else none) ∧
      rs.map (fun r => (fileOfLines lines).slice r.1 r.2) = ((lines.take c).reverse).take n := by
  rw [seekTS_absent P tsOf target lines hP1 ctx hsize habs q]
  have hq' : FilePos P lines c { q with hasBuf := false } := ⟨hq.1, hq.2.1, by intro h; simp at h⟩
  obtain ⟨q', rs, h1, h2, _⟩ := fReadMany_filePos P lines hP1 hP2 ctx.ok n c _ [] hq'
  exact ⟨q', rs, by simpa using h1, h2⟩

/-- **The model meets the spec, for every operation history.**  For one or more
files (rotated … current), each below 2⁶³ bytes, WHATEVER their content
(files outside the property's domain carry no promise), and every finite
history of `SeekStart` / `n × ReadNext` / `seekTS` at reader level and at file
level in any interleaving: the monitor that the driver runs on the
implementation's observations accepts every step of the model.  Proved by a
simulation (`Sim`) between the monitor's promise — the exact sequence of
lines still to be returned — and the reader's byte position and buffer. -/
theorem C20_model_meets_spec (P : Params) (hP1 : entryLimit ≤ P.maxEntry) (hP2 : P.maxEntry ≤ P.bufSize)
    (tsOf : Bytes → Int) (ds : List FileDesc) (hne : ds ≠ [])
    (hsmall : ∀ d ∈ ds, (render d.lines).length < 2 ^ 63) (ops : List Op) :
    monitorRun P (ds.map fileOfDesc) tsOf (mkCtx tsOf ds) (rInit ds.length) (specInit ds.length) ops = true := by
  suffices h : ∀ (ops : List Op) (r : RState) (sp : SpecState), Sim P ds sp r →
      monitorRun P (ds.map fileOfDesc) tsOf (mkCtx tsOf ds) r sp ops = true from
    h ops _ _ (sim_init P ds)
  intro ops
  induction ops with
  | nil => intro r sp _; rfl
  | cons op ops ih =>
    intro r sp hsim
    obtain ⟨h1, h2⟩ := step_sim P tsOf ds hP1 hP2 hne hsmall sp r hsim op
    simp only [monitorRun, fsOf] at *
    rw [h1, ih _ _ h2]
    rfl

/-- **Rotated + current, reading.**  After `SeekStart`, `n` reads of the multi-file
reader return the newest file's lines last-to-first, then the older file's
(crossing the boundary, also through empty files), each exactly once, and
`io.EOF` exactly when `n` exceeds the total. -/
theorem C20_two_files_readall (P : Params) (hP1 : entryLimit ≤ P.maxEntry) (hP2 : P.maxEntry ≤ P.bufSize)
    (ds : List FileDesc) (hne : ds ≠ []) (hrd : ∀ d ∈ ds, readable d = true)
    (r : RState) (hlen : r.files.length = ds.length) (n : Nat) :
    ∃ r' xs, rReadMany P (ds.map fileOfDesc) n (rSeekStart (ds.map fileOfDesc) r) [] =
        (r', xs, if n > (allRev ds).length then some Err.eof else none) ∧
      xs.map (fun x => ((ds.map fileOfDesc).getD x.1 noFile).slice x.2.1 x.2.2) = (allRev ds).take n := by
  obtain ⟨hp, hl⟩ := rSeekStart_rpos P ds hne r hlen hrd
  obtain ⟨r', xs, h1, h2, _, _⟩ := rReadMany_spec P ds hP1 hP2 hrd n _ _ [] hl hp
  exact ⟨r', xs, by simpa using h1, h2⟩

/-- **Rotated + current, seeking.**  With timestamps strictly increasing across the
files, seeking the timestamp of entry `k` of file `j` makes every newer file
report too-early (also an empty one), finds the entry in file `j`, and the
following `n` reads return that entry, the older entries of file `j`, then the
older files — `fromEntry ds j k`. -/
theorem C20_two_files (P : Params) (hP1 : entryLimit ≤ P.maxEntry) (hP2 : P.maxEntry ≤ P.bufSize)
    (tsOf : Bytes → Int) (ds : List FileDesc) (g : GlobalCtx tsOf ds)
    (j k : Nat) (d : FileDesc) (hd : ds[j]? = some d) (hk : k < d.lines.length)
    (r : RState) (hlen : r.files.length = ds.length) (n : Nat) :
    ∃ r1, rSeekTS P (ds.map fileOfDesc) tsOf r (tsOf d.lines[k]) = (r1, .ok ()) ∧
      ∃ r' xs, rReadMany P (ds.map fileOfDesc) n r1 [] =
          (r', xs, if n > (fromEntry ds j k).length then some Err.eof else none) ∧
        xs.map (fun x => ((ds.map fileOfDesc).getD x.1 noFile).slice x.2.1 x.2.2) =
          (fromEntry ds j k).take n := by
  have hj : j < ds.length := (List.getElem?_eq_some_iff.1 hd).1
  obtain ⟨r1, h1, h2, h3, h4⟩ :=
    rSeekLoop_found P tsOf _ ds hP1 g j k d hd hk rfl ds.length r hj (Nat.le_refl _) hlen
  refine ⟨r1, by unfold rSeekTS; rw [List.length_map]; exact h1, ?_⟩
  have hpos : RPos P ds r1 (fromEntry ds j k) := by
    right
    refine ⟨j, d, k + 1, h2, hd, h4, ?_⟩
    unfold fromEntry
    rw [getD_ds ds j d hd]
  obtain ⟨r', xs, h5, h6, _, _⟩ := rReadMany_spec P ds hP1 hP2 g.rd n r1 _ [] h3 hpos
  exact ⟨r', xs, by simpa using h5, h6⟩

/-- **Rotated + current, absent timestamp.**  Either `not found` is reported and no
position moved (only buffers were dropped), or some non-empty file lies wholly
before the timestamp and the reader starts over at the newest entry — it
never stops anywhere else. -/
theorem C20_two_files_absent (P : Params) (hP1 : entryLimit ≤ P.maxEntry)
    (tsOf : Bytes → Int) (ds : List FileDesc) (g : GlobalCtx tsOf ds) (hne : ds ≠ [])
    (target : Int) (habs : ∀ d ∈ ds, ∀ l ∈ d.lines, tsOf l ≠ target)
    (r : RState) (hlen : r.files.length = ds.length) :
    (∃ r', rSeekTS P (ds.map fileOfDesc) tsOf r target = (r', .error .notFound) ∧ SameUpToBuf r r') ∨
    (∃ r', rSeekTS P (ds.map fileOfDesc) tsOf r target = (r', .ok ()) ∧ RPos P ds r' (allRev ds) ∧
      ∃ d ∈ ds, d.lines ≠ [] ∧ ∀ l ∈ d.lines, tsOf l < target) := by
  unfold rSeekTS
  rw [List.length_map]
  rcases rSeekLoop_absent P tsOf target ds hP1 g hne habs ds.length r (Nat.le_refl _) hlen with
    ⟨r', h1, h2⟩ | ⟨r', h1, h2, _, h4⟩
  · exact Or.inl ⟨r', h1, h2⟩
  · exact Or.inr ⟨r', h1, h2, h4⟩

/-! ### Non-vacuity: the hypotheses are satisfiable and the conclusions say something -/

/-- Three entries with timestamps 1 < 2 < 3 (`tsOf` = length). -/
example : SeekCtx (fun l => (l.length : Int)) [[65], [66, 67], [68, 69, 70]] :=
  ⟨by decide, by decide, by decide⟩

/-- Rotated (one entry) + empty current file: a `GlobalCtx`. -/
example : GlobalCtx (fun l => (l.length : Int)) [{ lines := [[65], [66, 67]] }, { lines := [] }] :=
  ⟨by decide, by decide, by decide, by decide⟩

/-- A reader in the middle of a file satisfies `FilePos` (one of two lines left). -/
example : FilePos goParams [[65], [66, 67]] 1 { position := 1 } :=
  ⟨by decide, by decide, by intro h; cases h⟩

/-- The monitor really holds a promise after `SeekStart` (it is not vacuously true). -/
example : (specStep (mkCtx (fun l => (l.length : Int)) [{ lines := [[65], [66, 67]] }])
    (specInit 1) .start (.start true)).2.rcur = some [[66, 67], [65]] := by decide

/-- …and rejects a reader that skips a line. -/
example : (checkNext [[66, 67], [65]] 1 1 none (hashLines [[65]])).isSome = true := by decide

end AGH.C20
