/-
C20 — query-log files read backwards completely; timestamp seeks land on the entry.
Property theorems only (helper lemmas live in AGH/Lemmas/QLog*.lean).

All theorems are about the executable model `AGH/Model/QLogFile.lean` (the very
definitions the driver runs against the Go code), for EVERY parameter pair with
`16 KiB ≤ maxEntry ≤ bufSize` (the Go constants 16 KiB / 1.6 MB are one
instance, `C20_goParams_ok`), every line file, every reader state.
-/
import AGH.Lemmas.QLogFileBridge
import AGH.Lemmas.QLogAny
import AGH.Lemmas.QLogTS
import AGH.Gen.C20Consts
namespace AGH.C20
open AGH

/-- The constants of the unchanged tree satisfy the hypotheses on `P`. -/
theorem C20_goParams_ok : entryLimit ≤ goParams.maxEntry ∧ goParams.maxEntry ≤ goParams.bufSize := by
  decide

/-- **Reverse reading.**  For any file whose lines are non-empty, newline-free and
shorter than the 16 KiB limit — whatever its size, wherever the 1.6 MB windows
fall — `SeekStart` followed by `n` calls of `ReadNext` returns the last `n`
lines in reverse order, each exactly once, and reports `io.EOF` exactly when
`n` exceeds the number of lines.  (`n = lines.length + 1`: the whole file,
then EOF.) -/
theorem C20_readall (P : Params) (hP1 : entryLimit ≤ P.maxEntry) (hP2 : P.maxEntry ≤ P.bufSize)
    (lines : List Bytes) (hok : ∀ l ∈ lines, lineOK l = true) (q : QState) (n : Nat) :
    ∃ q' rs, fReadMany P (fileOfLines lines) n (seekStart (fileOfLines lines) q) [] =
        (q', rs, if n > lines.length then some Err.eof else none) ∧
      rs.map (fun r => (fileOfLines lines).slice r.1 r.2) = lines.reverse.take n := by
  obtain ⟨q', rs, h1, h2, _⟩ :=
    fReadMany_filePos P lines hP1 hP2 hok n lines.length _ [] (filePos_seekStart P lines q)
  exact ⟨q', rs, by simpa using h1, by simpa using h2⟩

/-- **Seek to a stored timestamp.**  In a line file with strictly increasing
non-zero timestamps (below 2⁶³ bytes, as every Go file is), seeking the
timestamp of entry `i` succeeds — the depth guard, the same-line guard and the
end-of-file guard never fire; it takes `d+1` probes with `2^d ≤ size` (at most
⌊log₂ size⌋+1 ≤ 63) — and the following `n` reads return entries `i, i-1, …`
(then `io.EOF`). -/
theorem C20_seek_found (P : Params) (hP1 : entryLimit ≤ P.maxEntry) (hP2 : P.maxEntry ≤ P.bufSize)
    (tsOf : Bytes → Int) (lines : List Bytes) (ctx : SeekCtx tsOf lines)
    (hsize : (render lines).length < 2 ^ 63) (i : Nat) (hi : i < lines.length) (q : QState) (n : Nat) :
    ∃ q1 pos d, seekTS P (fileOfLines lines) tsOf q (tsOf lines[i]) = (q1, .ok (pos, d)) ∧
      2 ^ d ≤ (render lines).length ∧
      ∃ q' rs, fReadMany P (fileOfLines lines) n q1 [] =
          (q', rs, if n > i + 1 then some Err.eof else none) ∧
        rs.map (fun r => (fileOfLines lines).slice r.1 r.2) = ((lines.take (i + 1)).reverse).take n := by
  obtain ⟨d, hd, hseek⟩ := seekTS_found P tsOf _ lines hP1 ctx hsize i hi rfl q
  refine ⟨_, _, d, hseek, hd, ?_⟩
  have hpos : FilePos P lines (i + 1)
      { q with hasBuf := false, position := (render (lines.take (i + 1))).length - 1 } :=
    ⟨by omega, rfl, by intro h; simp at h⟩
  obtain ⟨q', rs, h1, h2, _⟩ := fReadMany_filePos P lines hP1 hP2 ctx.ok n (i + 1) _ [] hpos
  exact ⟨q', rs, by simpa using h1, h2⟩

/-- **Seek to an absent timestamp.**  It terminates (the model is total) with
`tooEarly` when the timestamp precedes every entry (also for the empty file),
`tooLate` when it follows every entry, `notFound` otherwise — never by the
depth guard — and the position is untouched, so subsequent reads continue
exactly where they were. -/
theorem C20_seek_absent (P : Params) (hP1 : entryLimit ≤ P.maxEntry)
    (tsOf : Bytes → Int) (lines : List Bytes) (ctx : SeekCtx tsOf lines)
    (hsize : (render lines).length < 2 ^ 63) (target : Int)
    (habs : ∀ l ∈ lines, tsOf l ≠ target) (q : QState) :
    seekTS P (fileOfLines lines) tsOf q target =
      ({ q with hasBuf := false },
       .error (if ∀ l ∈ lines, target < tsOf l then Err.tooEarly
               else if ∀ l ∈ lines, tsOf l < target then Err.tooLate else Err.notFound)) :=
  seekTS_absent P tsOf target lines hP1 ctx hsize habs q

/-- …and reads after a failed seek continue where they were: with `c` lines left
before, the next `n` reads return lines `c-1, c-2, …`. -/
theorem C20_seek_absent_then_read (P : Params) (hP1 : entryLimit ≤ P.maxEntry) (hP2 : P.maxEntry ≤ P.bufSize)
    (tsOf : Bytes → Int) (lines : List Bytes) (ctx : SeekCtx tsOf lines)
    (hsize : (render lines).length < 2 ^ 63) (target : Int)
    (habs : ∀ l ∈ lines, tsOf l ≠ target) (q : QState) (c : Nat) (hq : FilePos P lines c q) (n : Nat) :
    ∃ q' rs, fReadMany P (fileOfLines lines) n (seekTS P (fileOfLines lines) tsOf q target).1 [] =
        (q', rs, if n > c then some Err.eof else none) ∧
      rs.map (fun r => (fileOfLines lines).slice r.1 r.2) = ((lines.take c).reverse).take n := by
  rw [seekTS_absent P tsOf target lines hP1 ctx hsize habs q]
  have hq' : FilePos P lines c { q with hasBuf := false } := ⟨hq.1, hq.2.1, by intro h; simp at h⟩
  obtain ⟨q', rs, h1, h2, _⟩ := fReadMany_filePos P lines hP1 hP2 ctx.ok n c _ [] hq'
  exact ⟨q', rs, by simpa using h1, h2⟩

/-- **The model meets the spec, for every operation history.**  For any number of
files (none, rotated, current, …), each below 2⁶³ bytes, WHATEVER their
content (files outside the property's domain carry no promise), and every
finite history of `SeekStart` / `n × ReadNext` / `seekTS` at reader level and
at file level in any interleaving: the monitor that the driver runs on the
implementation's observations accepts every step of the model.  Proved by a
simulation (`Sim`) between the monitor's promise — the exact sequence of
lines still to be returned — and the reader's byte position and buffer.
(No file at all: `SeekStart`/`seekTS` succeed, every read is `io.EOF`.) -/
theorem C20_model_meets_spec (P : Params) (hP1 : entryLimit ≤ P.maxEntry) (hP2 : P.maxEntry ≤ P.bufSize)
    (tsOf : Bytes → Int) (ds : List FileDesc)
    (hsmall : ∀ d ∈ ds, (render d.lines).length < 2 ^ 63) (ops : List Op) :
    monitorRun P (ds.map fileOfDesc) tsOf (mkCtx tsOf ds) (rInit ds.length) (specInit ds.length) ops = true := by
  by_cases hne : ds = []
  · subst hne
    suffices h : ∀ (ops : List Op) (sp : SpecState), sp.fcur = [] ∧ (sp.rcur = none ∨ sp.rcur = some []) →
        monitorRun P [] tsOf (mkCtx tsOf []) ⟨[], 0⟩ sp ops = true from
      h ops _ ⟨rfl, Or.inl rfl⟩
    intro ops
    induction ops with
    | nil => intro sp _; rfl
    | cons op ops ih =>
      intro sp hsp
      obtain ⟨h1, h2, h3, h4⟩ := step_nofiles P tsOf sp hsp op
      simp only [monitorRun]
      rw [h1, h2, ih _ ⟨h3, h4⟩]
      rfl
  suffices h : ∀ (ops : List Op) (r : RState) (sp : SpecState), Sim P ds sp r →
      monitorRun P (ds.map fileOfDesc) tsOf (mkCtx tsOf ds) r sp ops = true from
    h ops _ _ (sim_init P ds)
  intro ops
  induction ops with
  | nil => intro r sp _; rfl
  | cons op ops ih =>
    intro r sp hsim
    obtain ⟨h1, h2⟩ := step_sim P tsOf ds hP1 hP2 hne hsmall sp r hsim op
    simp only [monitorRun, fsOf] at *
    rw [h1, ih _ _ h2]
    rfl

/-- **Rotated + current, reading.**  After `SeekStart`, `n` reads of the multi-file
reader return the newest file's lines last-to-first, then the older file's
(crossing the boundary, also through empty files), each exactly once, and
`io.EOF` exactly when `n` exceeds the total. -/
theorem C20_two_files_readall (P : Params) (hP1 : entryLimit ≤ P.maxEntry) (hP2 : P.maxEntry ≤ P.bufSize)
    (ds : List FileDesc) (hne : ds ≠ []) (hrd : ∀ d ∈ ds, readable d = true)
    (r : RState) (hlen : r.files.length = ds.length) (n : Nat) :
    ∃ r' xs, rReadMany P (ds.map fileOfDesc) n (rSeekStart (ds.map fileOfDesc) r) [] =
        (r', xs, if n > (allRev ds).length then some Err.eof else none) ∧
      xs.map (fun x => ((ds.map fileOfDesc).getD x.1 noFile).slice x.2.1 x.2.2) = (allRev ds).take n := by
  obtain ⟨hp, hl⟩ := rSeekStart_rpos P ds hne r hlen hrd
  obtain ⟨r', xs, h1, h2, _, _⟩ := rReadMany_spec P ds hP1 hP2 hrd n _ _ [] hl hp
  exact ⟨r', xs, by simpa using h1, h2⟩

/-- **Rotated + current, seeking.**  With timestamps strictly increasing across the
files, seeking the timestamp of entry `k` of file `j` makes every newer file
report too-early (also an empty one), finds the entry in file `j`, and the
following `n` reads return that entry, the older entries of file `j`, then the
older files — `fromEntry ds j k`. -/
theorem C20_two_files (P : Params) (hP1 : entryLimit ≤ P.maxEntry) (hP2 : P.maxEntry ≤ P.bufSize)
    (tsOf : Bytes → Int) (ds : List FileDesc) (g : GlobalCtx tsOf ds)
    (j k : Nat) (d : FileDesc) (hd : ds[j]? = some d) (hk : k < d.lines.length)
    (r : RState) (hlen : r.files.length = ds.length) (n : Nat) :
    ∃ r1, rSeekTS P (ds.map fileOfDesc) tsOf r (tsOf d.lines[k]) = (r1, .ok ()) ∧
      ∃ r' xs, rReadMany P (ds.map fileOfDesc) n r1 [] =
          (r', xs, if n > (fromEntry ds j k).length then some Err.eof else none) ∧
        xs.map (fun x => ((ds.map fileOfDesc).getD x.1 noFile).slice x.2.1 x.2.2) =
          (fromEntry ds j k).take n := by
  have hj : j < ds.length := (List.getElem?_eq_some_iff.1 hd).1
  obtain ⟨r1, h1, h2, h3, h4⟩ :=
    rSeekLoop_found P tsOf _ ds hP1 g j k d hd hk rfl ds.length r hj (Nat.le_refl _) hlen
  refine ⟨r1, by unfold rSeekTS; rw [List.length_map]; exact h1, ?_⟩
  have hpos : RPos P ds r1 (fromEntry ds j k) := by
    right
    refine ⟨j, d, k + 1, h2, hd, h4, ?_⟩
    unfold fromEntry
    rw [getD_ds ds j d hd]
  obtain ⟨r', xs, h5, h6, _, _⟩ := rReadMany_spec P ds hP1 hP2 g.rd n r1 _ [] h3 hpos
  exact ⟨r', xs, by simpa using h5, h6⟩

/-- **Rotated + current, absent timestamp.**  Either `not found` is reported and no
position moved (only buffers were dropped), or some non-empty file lies wholly
before the timestamp and the reader starts over at the newest entry — it
never stops anywhere else. -/
theorem C20_two_files_absent (P : Params) (hP1 : entryLimit ≤ P.maxEntry)
    (tsOf : Bytes → Int) (ds : List FileDesc) (g : GlobalCtx tsOf ds) (hne : ds ≠ [])
    (target : Int) (habs : ∀ d ∈ ds, ∀ l ∈ d.lines, tsOf l ≠ target)
    (r : RState) (hlen : r.files.length = ds.length) :
    (∃ r', rSeekTS P (ds.map fileOfDesc) tsOf r target = (r', .error .notFound) ∧ SameUpToBuf r r') ∨
    (∃ r', rSeekTS P (ds.map fileOfDesc) tsOf r target = (r', .ok ()) ∧ RPos P ds r' (allRev ds) ∧
      ∃ d ∈ ds, d.lines ≠ [] ∧ ∀ l ∈ d.lines, tsOf l < target) := by
  unfold rSeekTS
  rw [List.length_map]
  rcases rSeekLoop_absent P tsOf target ds hP1 g hne habs ds.length r (Nat.le_refl _) hlen with
    ⟨r', h1, h2⟩ | ⟨r', h1, h2, _, h4⟩
  · exact Or.inl ⟨r', h1, h2⟩
  · exact Or.inr ⟨r', h1, h2, h4⟩


/-! ### C20 implements the abstract reader the C07 model assumes -/

/-- **Refinement, reading (`older_than` absent).**  For every pair of files whose
entries `e` are stored as lines `enc e` of the property's kind, C07's
`seekRecord … none` (= `filesRev rot cur`, i.e. `rot ++ cur` reversed) is
exactly what `SeekStart` followed by `ReadNext`s of the byte-level reader
returns: `n` reads give the first `n` of those lines, `io.EOF` exactly after
the last.  An empty file may or may not exist (`exR`, `exC`). -/
theorem C20_refines_line_reader_readall (P : Params) (hP1 : entryLimit ≤ P.maxEntry)
    (hP2 : P.maxEntry ≤ P.bufSize) (enc : C07.Entry → Bytes) (tsOf : Bytes → Int)
    (exR exC : Bool) (rot cur : List C07.Entry)
    (hR : rot ≠ [] → exR = true) (hC : cur ≠ [] → exC = true)
    (eR : Enc enc tsOf rot) (eC : Enc enc tsOf cur) (r : RState)
    (hlen : r.files.length = (descsOf enc exR exC rot cur).length)
    (h0 : descsOf enc exR exC rot cur = [] → r.curN = 0) (n : Nat) :
    ∃ r' xs, rReadMany P ((descsOf enc exR exC rot cur).map fileOfDesc) n
        (rSeekStart ((descsOf enc exR exC rot cur).map fileOfDesc) r) [] =
        (r', xs, if n > (rot ++ cur).length then some Err.eof else none) ∧
      xs.map (fun x => (((descsOf enc exR exC rot cur).map fileOfDesc).getD x.1 noFile).slice x.2.1 x.2.2) =
        (((rot ++ cur).reverse).map enc).take n := by
  have g := filesCtx_descsOf enc tsOf exR exC rot cur eR eC
  obtain ⟨hp, hl⟩ := rSeekStart_rpos' P _ r hlen g.rd h0
  rw [allRev_descsOf enc exR exC rot cur hR hC] at hp
  obtain ⟨r', xs, h1, h2, _, _⟩ := rReadMany_spec P _ hP1 hP2 g.rd n _ _ [] hl hp
  refine ⟨r', xs, ?_, ?_⟩
  · simpa [C07.filesRev, Nat.add_comm] using h1
  · simpa [C07.filesRev] using h2

/-- **Refinement, seeking (`older_than = t`).**  Whenever C07's `seekRecord` says the
following reads return `rem` (found: that entry and everything older, across
the file boundary; too late for a file: everything from the newest entry —
the F12-repaired `seekRecord` skips nothing), the byte-level `seekTS` succeeds
and `n` reads return exactly the first `n` lines of `rem`, `io.EOF` after the
last; whenever C07 says "error", the byte-level reader reports `not found` and
no position has moved.  Excluded: both files empty while an empty file exists
(`C20_refines_line_reader_mismatch_empty`). -/
theorem C20_refines_line_reader_seek (P : Params) (hP1 : entryLimit ≤ P.maxEntry)
    (hP2 : P.maxEntry ≤ P.bufSize) (enc : C07.Entry → Bytes) (tsOf : Bytes → Int)
    (exR exC : Bool) (rot cur : List C07.Entry)
    (hR : rot ≠ [] → exR = true) (hC : cur ≠ [] → exC = true)
    (eR : Enc enc tsOf rot) (eC : Enc enc tsOf cur)
    (hex : ¬ (rot = [] ∧ cur = [] ∧ (exR || exC) = true))
    (o : Option Int) (r : RState)
    (hlen : r.files.length = (descsOf enc exR exC rot cur).length)
    (h0 : descsOf enc exR exC rot cur = [] → r.curN = 0) :
    (∀ rem, C07.seekRecord rot cur o = some rem →
      ∃ r1, rSeekRecord P ((descsOf enc exR exC rot cur).map fileOfDesc) tsOf r o = (r1, .ok ()) ∧
        ∀ n, ∃ r' xs, rReadMany P ((descsOf enc exR exC rot cur).map fileOfDesc) n r1 [] =
            (r', xs, if n > rem.length then some Err.eof else none) ∧
          xs.map (fun x => (((descsOf enc exR exC rot cur).map fileOfDesc).getD x.1 noFile).slice
            x.2.1 x.2.2) = (rem.map enc).take n) ∧
    (C07.seekRecord rot cur o = none →
      ∃ r', rSeekRecord P ((descsOf enc exR exC rot cur).map fileOfDesc) tsOf r o =
          (r', .error .notFound) ∧ SameUpToBuf r r') := by
  have g := filesCtx_descsOf enc tsOf exR exC rot cur eR eC
  obtain ⟨h1, h2⟩ := rSeekRecord_refines enc tsOf P hP1 exR exC rot cur hR hC eR eC hex o r hlen h0
  refine ⟨?_, h2⟩
  intro rem hrem
  obtain ⟨r1, h3, h4, h5⟩ := h1 rem hrem
  refine ⟨r1, h3, fun n => ?_⟩
  obtain ⟨r', xs, h6, h7, _, _⟩ := rReadMany_spec P _ hP1 hP2 g.rd n r1 _ [] h5 h4
  exact ⟨r', xs, by simpa using h6, h7⟩

/-- **Refinement, `searchFiles`.**  C07's `searchFiles` (its list-level `seekRecord` +
`readEntries`) is `readEntries` run over the decoded lines that the byte-level
reader returns when read until `io.EOF` after the byte-level `seekRecord` —
and `([], none)` when the byte-level `seekRecord` fails.  `dec` is a left
inverse of `enc` (`decodeLogEntry` after `json.Encode`). -/
theorem C20_refines_line_reader_search (P : Params) (hP1 : entryLimit ≤ P.maxEntry)
    (hP2 : P.maxEntry ≤ P.bufSize) (enc : C07.Entry → Bytes) (dec : Bytes → C07.Entry)
    (tsOf : Bytes → Int) (exR exC : Bool) (s : C07.State) (p : C07.Params)
    (hR : s.rot ≠ [] → exR = true) (hC : s.cur ≠ [] → exC = true)
    (eR : Enc enc tsOf s.rot) (eC : Enc enc tsOf s.cur)
    (hdec : ∀ e, dec (enc e) = e)
    (hex : ¬ (s.rot = [] ∧ s.cur = [] ∧ (exR || exC) = true)) (r : RState)
    (hlen : r.files.length = (descsOf enc exR exC s.rot s.cur).length)
    (h0 : descsOf enc exR exC s.rot s.cur = [] → r.curN = 0) :
    match rSeekRecord P ((descsOf enc exR exC s.rot s.cur).map fileOfDesc) tsOf r p.olderThan with
    | (_, .error _) => C07.searchFiles s p = ([], none)
    | (r1, .ok _) =>
      ∀ n r' xs, rReadMany P ((descsOf enc exR exC s.rot s.cur).map fileOfDesc) n r1 [] =
          (r', xs, some Err.eof) →
        C07.searchFiles s p =
          C07.readEntries (C07.keepE s.conf p) p.scan (C07.wrap64 (p.offset + p.limit))
            (xs.map (fun x => dec ((((descsOf enc exR exC s.rot s.cur).map fileOfDesc).getD x.1
              noFile).slice x.2.1 x.2.2))) [] 0 none := by
  obtain ⟨h1, h2⟩ := C20_refines_line_reader_seek P hP1 hP2 enc tsOf exR exC s.rot s.cur hR hC eR eC hex
    p.olderThan r hlen h0
  cases hs : C07.seekRecord s.rot s.cur p.olderThan with
  | none =>
    obtain ⟨r', h3, _⟩ := h2 hs
    rw [h3]
    simp [C07.searchFiles, hs]
  | some rem =>
    obtain ⟨r1, h3, h4⟩ := h1 rem hs
    rw [h3]
    intro n r' xs hread
    obtain ⟨r'', xs', h5, h6⟩ := h4 n
    rw [h5] at hread
    simp only [Prod.mk.injEq] at hread
    obtain ⟨_, hxs, hflag⟩ := hread
    subst hxs
    have hn : n > rem.length := by
      by_cases h : n > rem.length
      · exact h
      · rw [if_neg h] at hflag; cases hflag
    have hall : (rem.map enc).take n = rem.map enc := List.take_of_length_le (by simp; omega)
    rw [hall] at h6
    have hdecl : xs'.map (fun x => dec ((((descsOf enc exR exC s.rot s.cur).map fileOfDesc).getD x.1
        noFile).slice x.2.1 x.2.2)) = rem := by
      have := congrArg (List.map dec) h6
      rw [List.map_map, List.map_map] at this
      rw [show (fun x : Nat × Nat × Nat => dec ((((descsOf enc exR exC s.rot s.cur).map fileOfDesc).getD x.1
        noFile).slice x.2.1 x.2.2)) = dec ∘ (fun x => (((descsOf enc exR exC s.rot s.cur).map
        fileOfDesc).getD x.1 noFile).slice x.2.1 x.2.2) from rfl, this]
      conv => rhs; rw [← List.map_id rem]
      apply List.map_congr_left
      intro e _; exact hdec e
    rw [hdecl]
    simp [C07.searchFiles, hs]

/-- **The one mismatch between the two abstractions.**  Both files hold no entry, yet
an (empty) file exists — C07's model has no such state ("a file exists iff it
is non-empty").  C07: `seekFiles [] [] t = some []` (positioned, nothing to
read).  Byte level: every file reports too-early, the reader reports
`not found`.  `searchFiles` returns no file entries either way. -/
theorem C20_refines_line_reader_mismatch_empty (P : Params) (enc : C07.Entry → Bytes)
    (tsOf : Bytes → Int) (exR exC : Bool) (hex : (exR || exC) = true) (t : Int) (r : RState) :
    C07.seekFiles [] [] t = some [] ∧
    (rSeekTS P ((descsOf enc exR exC [] []).map fileOfDesc) tsOf r t).2 = .error .notFound :=
  rSeekTS_empty_existing enc tsOf P exR exC hex t r

/-- **A stored timestamp of exactly 0 ns.**  The code cannot tell it from a missing
timestamp: when the first probe (the middle of the file) falls into such a
record, `seekTS` fails with "record … has empty timestamp" for every target
(the target 0 included) and leaves the position untouched; reverse reading
(`C20_readall`) is unaffected.  The spec therefore promises nothing about seeks
in such a file. -/
theorem C20_zero_stamp_seek_fails (P : Params) (hP1 : entryLimit ≤ P.maxEntry)
    (tsOf : Bytes → Int) (target : Int) (A B : List Bytes) (x : Bytes)
    (hx : lineOK x = true) (hz : tsOf x = 0)
    (h1 : (render A).length ≤ (render (A ++ x :: B)).length / 2)
    (h2 : (render (A ++ x :: B)).length / 2 ≤ (render A).length + x.length) (q : QState) :
    seekTS P (fileOfLines (A ++ x :: B)) tsOf q target = ({ q with hasBuf := false }, .error .emptyTS) :=
  seekTS_zero_stamp P tsOf target (A ++ x :: B) hP1 A B x rfl hx hz h1 h2 q


/-! ### C20 is the byte level of C07's list-level FILE -/

/-- **Refinement at file level.**  For any list `es` of entries stored as lines
`enc e` (each a line of the property's kind, C07's order `Asc`), the byte-level
`qLogFile` over `concat (map encodeLine es)` is C07's list-level file:
* `SeekStart` + `n × ReadNext` = the last `n` elements, newest first ("ReadNext =
  previous element"), `io.EOF` exactly after the oldest;
* `seekTS t` = C07's `fileSeek es t`: `found k` ⇒ success within ⌊log₂ size⌋+1
  probes and the following reads return `es[k], es[k-1], …`; `tooEarly` /
  `tooLate` / `notFound` ⇒ exactly that error and the position is untouched. -/
theorem C20_refines_c07_file_level (P : Params) (hP1 : entryLimit ≤ P.maxEntry)
    (hP2 : P.maxEntry ≤ P.bufSize) (enc : C07.Entry → Bytes) (tsOf : Bytes → Int)
    (es : List C07.Entry) (h : Enc enc tsOf es) (q : QState) :
    (∀ n, ∃ q' rs, fReadMany P (fileOfLines (es.map enc)) n
          (seekStart (fileOfLines (es.map enc)) q) [] =
          (q', rs, if n > es.length then some Err.eof else none) ∧
        rs.map (fun r => (fileOfLines (es.map enc)).slice r.1 r.2) = (es.reverse.map enc).take n) ∧
    (∀ t k, C07.fileSeek es t = .found k →
        ∃ q1 pos d, seekTS P (fileOfLines (es.map enc)) tsOf q t = (q1, .ok (pos, d)) ∧
          2 ^ d ≤ (render (es.map enc)).length ∧
          ∀ n, ∃ q' rs, fReadMany P (fileOfLines (es.map enc)) n q1 [] =
              (q', rs, if n > k + 1 then some Err.eof else none) ∧
            rs.map (fun r => (fileOfLines (es.map enc)).slice r.1 r.2) =
              (((es.take (k + 1)).reverse).map enc).take n) ∧
    (∀ t, (∀ k, C07.fileSeek es t ≠ .found k) →
        seekTS P (fileOfLines (es.map enc)) tsOf q t =
          ({ q with hasBuf := false }, .error (classErr (C07.fileSeek es t)))) := by
  have ctx := h.seekCtx enc tsOf es
  refine ⟨?_, ?_, ?_⟩
  · intro n
    obtain ⟨q', rs, h1, h2⟩ := C20_readall P hP1 hP2 (es.map enc) ctx.ok q n
    exact ⟨q', rs, by simpa using h1, by simpa [List.map_reverse] using h2⟩
  · intro t k hfs
    have hidx := fileSeek_found enc tsOf es t k h.ts hfs
    obtain ⟨hk, hts⟩ := findStampIdx_some tsOf (es.map enc) t k hidx
    obtain ⟨d, hd, hseek⟩ := seekTS_found P tsOf t (es.map enc) hP1 ctx h.small k hk hts q
    refine ⟨_, _, d, hseek, hd, fun n => ?_⟩
    have hpos : FilePos P (es.map enc) (k + 1)
        { q with hasBuf := false, position := (render ((es.map enc).take (k + 1))).length - 1 } :=
      ⟨by omega, rfl, by intro h; simp at h⟩
    obtain ⟨q', rs, h1, h2, _⟩ := fReadMany_filePos P (es.map enc) hP1 hP2 ctx.ok n (k + 1) _ [] hpos
    exact ⟨q', rs, by simpa using h1, by simpa [List.map_take, List.map_reverse] using h2⟩
  · intro t hnf
    obtain ⟨hnone, hcls⟩ := fileSeek_absent enc tsOf es t h.ts hnf
    have habs := findStampIdx_none tsOf (es.map enc) t hnone
    rw [seekTS_absent P tsOf t (es.map enc) hP1 ctx h.small habs q, hcls]

/-! ### Outside the property's domain: what the code does, and that it never harms later reads -/

/-- **Equal timestamps in neighbouring lines.**  With weakly increasing timestamps a
seek to a stored timestamp still succeeds (no guard fires) and lands on SOME
entry `i` carrying it — the one the binary search probes first, not necessarily
the first or the last of the run (see the `example` below) — and the reads that
follow return `i, i-1, …`.  "Positions the reader on that entry" therefore holds
up to the choice among equal timestamps. -/
theorem C20_seek_duplicates (P : Params) (hP1 : entryLimit ≤ P.maxEntry) (hP2 : P.maxEntry ≤ P.bufSize)
    (tsOf : Bytes → Int) (lines : List Bytes) (ctx : SeekCtxLe tsOf lines)
    (hsize : (render lines).length < 2 ^ 63) (target : Int) (hex : ∃ l ∈ lines, tsOf l = target)
    (q : QState) (n : Nat) :
    ∃ (i : Nat) (hi : i < lines.length) (q1 : QState) (pos d : Nat), tsOf lines[i] = target ∧
      seekTS P (fileOfLines lines) tsOf q target = (q1, .ok (pos, d)) ∧
      ∃ q' rs, fReadMany P (fileOfLines lines) n q1 [] =
          (q', rs, if n > i + 1 then some Err.eof else none) ∧
        rs.map (fun r => (fileOfLines lines).slice r.1 r.2) = ((lines.take (i + 1)).reverse).take n := by
  obtain ⟨i, hi, d, hti, _, hseek⟩ := seekTS_found_le P tsOf target lines hP1 ctx hsize hex q
  refine ⟨i, hi, _, _, d, hti, hseek, ?_⟩
  have hpos : FilePos P lines (i + 1)
      { q with hasBuf := false, position := (render (lines.take (i + 1))).length - 1 } :=
    ⟨by omega, rfl, by intro h; simp at h⟩
  obtain ⟨q', rs, h1, h2, _⟩ := fReadMany_filePos P lines hP1 hP2 ctx.ok n (i + 1) _ [] hpos
  exact ⟨q', rs, by simpa using h1, h2⟩

/-- …and an absent timestamp is reported by position exactly as with distinct ones. -/
theorem C20_seek_duplicates_absent (P : Params) (hP1 : entryLimit ≤ P.maxEntry)
    (tsOf : Bytes → Int) (lines : List Bytes) (ctx : SeekCtxLe tsOf lines)
    (hsize : (render lines).length < 2 ^ 63) (target : Int)
    (habs : ∀ l ∈ lines, tsOf l ≠ target) (q : QState) :
    seekTS P (fileOfLines lines) tsOf q target =
      ({ q with hasBuf := false }, .error (absentErr tsOf target lines)) :=
  seekTS_absent_le P tsOf target lines hP1 ctx hsize habs q

/-- **"Without ever looping", on ANY byte content** (garbage, overlong lines,
non-monotone or unreadable timestamps, any `tsOf`): `seekTS` ends by one of
its own `return`s after at most `maxDepth = 100` probes of ≤ 2·`maxEntry` bytes —
the model's recursion budget (`Err.fuel`) is never what stops it; and when it
reports success, the reader stands at the end of a stretch `file[a, pos)` whose
timestamp IS the target, found at depth `< 100`. -/
theorem C20_seek_terminates (P : Params) (f : File) (tsOf : Bytes → Int) (q : QState) (target : Int) :
    (seekTS P f tsOf q target).2 ≠ .error .fuel ∧
    ∀ pos d, (seekTS P f tsOf q target).2 = .ok (pos, d) →
      (seekTS P f tsOf q target).1.position = pos ∧ d < maxDepth ∧
      ∃ a, tsOf (f.slice a pos) = target := by
  unfold seekTS
  by_cases h0 : f.size = 0
  · simp [h0]
  · simp only [h0, if_false]
    have hnf := seekLoop_ne_fuel P tsOf target f maxDepth 0 f.size ((f.size - 0) / 2) none 0 rfl (by decide)
    cases hl : seekLoop P f tsOf target maxDepth 0 f.size ((f.size - 0) / 2) none 0 with
    | error e =>
      refine ⟨?_, (by intro pos d h; cases h)⟩
      intro h; simp only [Except.error.injEq] at h; subst h; exact hnf hl
    | ok r =>
      obtain ⟨a, b, d'⟩ := r
      obtain ⟨h1, _, h3⟩ := seekLoop_ok_sound P tsOf target f _ _ _ _ _ _ _ _ _ hl
      refine ⟨(by intro h; cases h), ?_⟩
      intro pos d h
      simp only [Except.ok.injEq, Prod.mk.injEq] at h
      obtain ⟨rfl, rfl⟩ := h
      exact ⟨rfl, h3 (by decide), a, h1⟩

/-- **Reads on ANY byte content** (a line of `maxEntry` bytes or more, no final
newline, empty lines, CRLF, binary data): from a sound buffer state `ReadNext`
never panics, keeps the buffer sound, returns `file[a, position)` for some
`a ≤ position` and moves STRICTLY left — so whatever was returned for a
malformed stretch, the state reached is again one from which well-formed lines
are read correctly (`C20_read_local`). -/
theorem C20_read_any_content (P : Params) (f : File) (q : QState) (hinv : Inv P f q) :
    ∃ q' res, readNext P f q = (q', res) ∧ Inv P f q' ∧ q'.position ≤ q.position ∧
      res ≠ .error .panic ∧ (q.position = 0 → res = .error .eof) ∧
      ∀ a b, res = .ok (a, b) → a ≤ b ∧ b = q.position ∧ q'.position < q.position :=
  readNext_any P f q hinv

/-- …hence reading never loops: more than `position` calls end with an error that is
not a panic (it is `io.EOF`), on any content. -/
theorem C20_read_terminates (P : Params) (f : File) (n : Nat) (q : QState) (hinv : Inv P f q)
    (h : q.position < n) : ∃ e, (fReadMany P f n q []).2.2 = some e ∧ e ≠ .panic :=
  fReadMany_terminates P f n q [] hinv h

/-- **Local correctness in ANY file.**  Wherever the reader stands on the newline of a
line `file[s, e)` shorter than `maxEntry` — whatever surrounds it (overlong
neighbours, garbage, a file that does not end in a newline) — `ReadNext`
returns exactly that line and steps to the newline before it. -/
theorem C20_read_local (P : Params) (hP2 : P.maxEntry ≤ P.bufSize) (f : File) (q : QState) (s e : Nat)
    (hl : LineAt f s e) (hlen : e - s < P.maxEntry) (hpos : q.position = e) (he : 0 < e)
    (hinv : Inv P f q) :
    ∃ q', readNext P f q = (q', .ok (s, e)) ∧ q'.position = s - 1 ∧ Inv P f q' :=
  readNext_line P f q s e hP2 hl hlen hpos he hinv

/-- **The clamped first chunk.**  A (re)fill at a position not beyond `bufSize` — the
last refill of a backward read, whose chunk start is clamped to 0 — makes the
buffer hold exactly `file[0, min bufSize size)`: cell `i` is file byte `i`, for
every file size and whatever the previous window was; in particular all of
`file[0, position)` is there (`C20_readall` / `C20_read_local` then give the
lines, also the one straddling the end of that chunk). -/
theorem C20_clamped_first_chunk (P : Params) (f : File) (q : QState) (e : Nat) (he : e ≤ P.bufSize) :
    (initBuffer P f q e).1.bufStart = 0 ∧ (initBuffer P f q e).1.bufLen = min P.bufSize f.size ∧
    (∀ i, i < min P.bufSize f.size → bufByte f (initBuffer P f q e).1 i = f.byte i) ∧
    (e ≤ f.size → e ≤ (initBuffer P f q e).1.bufLen) := by
  have h : ¬ (e > P.bufSize) := by omega
  refine ⟨by simp [initBuffer, h], by simp [initBuffer, h], ?_, ?_⟩
  · intro i hi
    simp [bufByte, initBuffer, h, hi]
  · intro hs
    simp only [initBuffer, h, if_false, Nat.sub_zero]
    omega

/-- **`readQLogTimestamp` at byte level.**  The timestamp is the value of the FIRST
occurrence of `"T":"` in the line, up to the next `"` — wherever the field
stands (first or not); a line without it (or with an empty value) falls back
to `"Time":"`; neither, or a value `time.Parse` rejects, reads as 0. -/
theorem C20_timestamp_scan (parseTime : Bytes → Option Int) (pre v post : Bytes) (hv0 : v ≠ [])
    (hno : ∀ j, j < pre.length → keyT.isPrefixOf ((pre ++ keyT ++ (v ++ 34 :: post)).drop j) = false)
    (hv : ¬ (34 ∈ v)) :
    readTimestamp parseTime (pre ++ keyT ++ (v ++ 34 :: post)) = (parseTime v).getD 0 := by
  unfold readTimestamp
  rw [readJSONValue_first keyT pre v post (by decide) hno hv]
  have : ¬ (v.length = 0) := by
    intro h; exact hv0 (List.eq_nil_of_length_eq_zero h)
  simp only [this, if_false]
  cases parseTime v <;> rfl

/-- **Constants tied to the source** (regenerated from `qlogfile.go` on every run by
`extract/cmd/c20`): the model's `goParams`, depth guard, probe-buffer factor,
refill bound, timestamp keys and time layout are the source's, and they
satisfy the hypotheses of all theorems above. -/
theorem C20_gen_consts :
    goParams = ⟨Gen.C20.maxEntrySize, Gen.C20.bufferSize⟩ ∧
    entryLimit ≤ Gen.C20.maxEntrySize ∧ Gen.C20.maxEntrySize ≤ Gen.C20.bufferSize ∧
    Gen.C20.depthGuard = maxDepth ∧
    Gen.C20.refillBound = Gen.C20.maxEntrySize ∧
    Gen.C20.initPositionBound = Gen.C20.bufferSize ∧ Gen.C20.initBufferLen = Gen.C20.bufferSize ∧
    Gen.C20.probePositionBound = Gen.C20.maxEntrySize ∧
    Gen.C20.probeBufferLen = 2 * Gen.C20.maxEntrySize ∧
    Gen.C20.tsKeys = [keyT, keyTime] ∧ Gen.C20.timeLayout = rfc3339NanoLayout := by
  decide

/-! ### Non-vacuity: the hypotheses are satisfiable and the conclusions say something -/

/-- Three entries with timestamps 1 < 2 < 3 (`tsOf` = length). -/
example : SeekCtx (fun l => (l.length : Int)) [[65], [66, 67], [68, 69, 70]] :=
  ⟨by decide, by decide, by decide⟩

/-- Rotated (one entry) + empty current file: a `GlobalCtx`. -/
example : GlobalCtx (fun l => (l.length : Int)) [{ lines := [[65], [66, 67]] }, { lines := [] }] :=
  ⟨by decide, by decide, by decide, by decide⟩

/-- A reader in the middle of a file satisfies `FilePos` (one of two lines left). -/
example : FilePos goParams [[65], [66, 67]] 1 { position := 1 } :=
  ⟨by decide, by decide, by intro h; cases h⟩

/-- The monitor really holds a promise after `SeekStart` (it is not vacuously true). -/
example : (specStep (mkCtx (fun l => (l.length : Int)) [{ lines := [[65], [66, 67]] }])
    (specInit 1) .start (.start true)).2.rcur = some [[66, 67], [65]] := by decide

/-- …and rejects a reader that skips a line. -/
example : (checkNext [[66, 67], [65]] 1 1 none (hashLines [[65]])).isSome = true := by decide

/-- The encoding hypothesis is satisfiable (entries told apart by their timestamp). -/
example : Enc (fun e => List.replicate e.ts.toNat 65) (fun l => (l.length : Int))
    [{ (default : C07.Entry) with ts := 1 }, { (default : C07.Entry) with ts := 3 }] :=
  ⟨by decide, by decide, by decide, by decide, by decide⟩

/-- …and C07's abstraction is not trivial on it: the timestamp 3 is found at line 1. -/
example : C07.seekFiles [] [{ (default : C07.Entry) with ts := 1 }, { (default : C07.Entry) with ts := 3 }] 3 =
    some [{ (default : C07.Entry) with ts := 3 }, { (default : C07.Entry) with ts := 1 }] := by decide

/-- A one-record file whose record has timestamp 0 satisfies the hypotheses of
`C20_zero_stamp_seek_fails`. -/
example : seekTS goParams (fileOfLines ([] ++ [65] :: [])) (fun _ => 0) {} 0 =
    ({ hasBuf := false }, .error .emptyTS) :=
  C20_zero_stamp_seek_fails goParams (by decide) _ 0 [] [] [65] (by decide) rfl (by decide) (by decide) {}

/-- Duplicate timestamps: three entries stamped 2, 2, 2 after one stamped 1 — the seek
lands on index 2 (the probe hits the middle of the file first), neither the
first nor the last of the run. -/
example : (seekTS goParams (fileOfLines [[65], [66, 67], [68, 69], [70, 71]])
    (fun l => (l.length : Int)) {} 2).1.position = 7 := by decide

/-- No final newline: the last byte of the last line is not returned ("cd" → "c"),
the earlier line is intact. -/
example : (fReadMany goParams (File.ofBytes [97, 98, 10, 99, 100]) 3
    (seekStart (File.ofBytes [97, 98, 10, 99, 100]) {}) []).2 = ([(3, 4), (0, 2)], some .eof) := by decide

/-- An empty line in the middle is returned as an empty line; a leading empty line is not
returned at all (position 0 is EOF). -/
example : (fReadMany goParams (File.ofBytes [10, 97, 10, 10, 98, 10]) 5
    (seekStart (File.ofBytes [10, 97, 10, 10, 98, 10]) {}) []).2 =
    ([(4, 5), (3, 3), (1, 2)], some .eof) := by decide

/-- CRLF: the carriage return stays part of the returned line. -/
example : (fReadMany goParams (File.ofBytes [97, 13, 10, 98, 13, 10]) 3
    (seekStart (File.ofBytes [97, 13, 10, 98, 13, 10]) {}) []).2 = ([(3, 5), (0, 2)], some .eof) := by decide

/-- A line longer than `maxEntry` (here maxEntry = 4, bufSize = 8; line "bcdefghijkl", 11
bytes, between "a" and "m"): it comes back as "ghijkl" and "bcde" — the byte "f"
at the window edge is lost — and the line BEFORE it ("a") is intact again. -/
example : (fReadMany ⟨4, 8⟩ (File.ofBytes [97, 10, 98, 99, 100, 101, 102, 103, 104, 105, 106, 107, 108, 10, 109, 10]) 6
    (seekStart (File.ofBytes [97, 10, 98, 99, 100, 101, 102, 103, 104, 105, 106, 107, 108, 10, 109, 10]) {}) []).2 =
    ([(14, 15), (7, 13), (2, 6), (0, 1)], some .eof) := by decide

/-- A file of one line. -/
example : (fReadMany goParams (fileOfLines [[120, 121]]) 2 (seekStart (fileOfLines [[120, 121]]) {}) []).2 =
    ([(0, 2)], some .eof) := by decide

/-- Timestamp field not first: `{"QH":"h","T":"xy"}` → "xy". -/
example : readJSONValue [123, 34, 81, 72, 34, 58, 34, 104, 34, 44, 34, 84, 34, 58, 34, 120, 121, 34, 125] keyT = [120, 121] := by decide
/-- No timestamp field: `{"QH":"h"}` → 0. -/
example : readTimestamp (fun v => some v.length) [123, 34, 81, 72, 34, 58, 34, 104, 34, 125] = 0 := by decide
/-- `Time` fallback: `{"Time":"abc"}`. -/
example : readTimestamp (fun v => some v.length) [123, 34, 84, 105, 109, 101, 34, 58, 34, 97, 98, 99, 34, 125] = 3 := by decide
/-- Escaped quotes in an earlier value do not match the key: `{"QH":"a\"T\":\"b","T":"xy"}` → "xy". -/
example : readJSONValue [123, 34, 81, 72, 34, 58, 34, 97, 92, 34, 84, 92, 34, 58, 92, 34, 98, 34, 44, 34, 84, 34, 58, 34, 120, 121, 34, 125] keyT = [120, 121] := by decide


/-! ## Translator tie: `validateQLogLineIdx` as the source states it (regenerated per run)

`extract/cmd/c20` also flattens the nested `if` / `else if` of
`validateQLogLineIdx` into a first-match decision list
(`Gen.C20.validateRows`).  The list is interpreted here and proved equal to the
model's `validateIdx` for every line index, previous probe and file size: which
of "too early", "not found", "too late" a probe position means is thereby read
off the current source (seed C20-19 moved an empty file from the first class to
the third). -/

namespace T
/-- Operands of the decision list; `last = none` is `lastProbeLineIdx = -1`. -/
def term (lineIdx : Nat) (last : Option Nat) (fSize : Nat) (s : String) : Option Int :=
  if s = "lineIdx" then some (lineIdx : Int)
  else if s = "lastProbeLineIdx" then some (match last with | some l => (l : Int) | none => -1)
  else if s = "fSize" then some (fSize : Int)
  else if s = "0" then some 0
  else none

def evalCond (lineIdx : Nat) (last : Option Nat) (fSize : Nat) (c : String × String × String) : Option Bool :=
  if c.2.1 = "==" then
    match term lineIdx last fSize c.1, term lineIdx last fSize c.2.2 with
    | some a, some b => some (decide (a = b))
    | _, _ => none
  else none

def evalConds (lineIdx : Nat) (last : Option Nat) (fSize : Nat) : List (String × String × String) → Option Bool
  | [] => some true
  | c :: rest =>
    match evalCond lineIdx last fSize c, evalConds lineIdx last fSize rest with
    | some a, some b => some (a && b)
    | _, _ => none

/-- first row whose conjunction holds -/
def evalRows (lineIdx : Nat) (last : Option Nat) (fSize : Nat) :
    List (List (String × String × String) × String) → Option String
  | [] => none
  | (cs, r) :: rest =>
    match evalConds lineIdx last fSize cs with
    | some true => some r
    | some false => evalRows lineIdx last fSize rest
    | none => none

def errName : Option Err → String
  | none => "nil"
  | some .tooEarly => "errTSTooEarly"
  | some .notFound => "errTSNotFound"
  | some .tooLate => "errTSTooLate"
  | some _ => "?"
end T

/-- The decision list of the source decides exactly as the model's `validateIdx`. -/
theorem C20_T_validate_rows_are_model (lineIdx : Nat) (last : Option Nat) (fSize : Nat) :
    T.evalRows lineIdx last fSize Gen.C20.validateRows = some (T.errName (validateIdx lineIdx last fSize)) := by
  unfold validateIdx
  cases last with
  | none =>
    by_cases h2 : lineIdx = fSize
    · subst h2
      simp [Gen.C20.validateRows, T.evalRows, T.evalConds, T.evalCond, T.term, T.errName]
    · have h2' : ¬ ((lineIdx : Int) = (fSize : Int)) := by omega
      have hm : ¬ ((lineIdx : Int) = -1) := by omega
      simp [Gen.C20.validateRows, T.evalRows, T.evalConds, T.evalCond, T.term, T.errName, h2, h2', hm]
  | some l =>
    by_cases h1 : l = lineIdx
    · subst h1
      by_cases h0 : l = 0
      · subst h0
        simp [Gen.C20.validateRows, T.evalRows, T.evalConds, T.evalCond, T.term, T.errName]
      · have h0' : ¬ ((l : Int) = 0) := by omega
        simp [Gen.C20.validateRows, T.evalRows, T.evalConds, T.evalCond, T.term, T.errName, h0, h0']
    · by_cases h2 : lineIdx = fSize
      · subst h2
        have h1' : ¬ ((lineIdx : Int) = (l : Int)) := by omega
        simp [Gen.C20.validateRows, T.evalRows, T.evalConds, T.evalCond, T.term, T.errName, h1, h1']
      · have h1' : ¬ ((lineIdx : Int) = (l : Int)) := by omega
        have h2' : ¬ ((lineIdx : Int) = (fSize : Int)) := by omega
        simp [Gen.C20.validateRows, T.evalRows, T.evalConds, T.evalCond, T.term, T.errName, h1, h1', h2, h2']
end AGH.C20
