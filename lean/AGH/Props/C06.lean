/-
C06 — custom DNS rewrites follow the documented precedence and always terminate.
Property theorems only (helper lemmas live in AGH/Lemmas/Rewrites*.lean).

Every theorem quantifies over ALL tables, names and query types and — because
`slices.SortFunc` is unstable above 12 elements — over every `Sorter` (any
function returning a sorted permutation; `Bytes → Sorter` lets the tie-breaking
differ from one looked-up name to the next).
-/
import AGH.Lemmas.RewritesRun
import AGH.Lemmas.RewritesOrder
import AGH.Lemmas.RewritesDns
import AGH.Lemmas.RewritesMonitor
import AGH.Lemmas.RewritesTable
import AGH.Lemmas.RewritesChoice
import AGH.Lemmas.RewritesLock
import AGH.Gen.C06Sites
namespace AGH.C06
open AGH AGH.Bytes

/-! ## The model satisfies the spec monitor -/

/-- Byte-exact reading, any table at all: whatever sorted permutation the
runtime's sort produces at each name, the result of `processRewrites` is
acceptable to the spec. -/
theorem C06_meets_spec_exact_any_sort (srt : Bytes → Sorter) (tbl : List Entry) (h : Bytes) (q : Nat) :
    Spec.specExact tbl h q (processRewritesWith srt tbl h q) = true :=
  meets_spec_exact srt tbl h q

/-! ### The monitor proper (names case-insensitive)

Until the repair 3bb3ec2 (finding C06-F1) `normalize` lower-cased `Domain` but
not a CNAME `Answer`, and these statements held only under the hypothesis that
the configured answers were in lower case.  Now the hypothesis is DERIVED:
every table that went through `prepareRewrites` has lower-case names
(`C06_prepared_names_lower`), `CheckHost` lower-cases the queried name, and the
theorems hold for every configured table `rs`, every name and type and every
tie-breaking of the sort.  The old witnesses are regression cases in
`corpus/C06` and `example`s below. -/

/-- What `normalize` guarantees: patterns and CNAME answers of a prepared table
are in lower case. -/
theorem C06_prepared_names_lower (rs : List Raw) : Spec.LowerNames (prepare rs) :=
  prepare_lowerNames rs

/-- `∀ i, specOK i (model i)`: for every configured table, `processRewrites` on
the prepared table and the lower-cased name (what `CheckHost` passes) is
acceptable to the case-insensitive monitor. -/
theorem C06_model_meets_spec (srt : Bytes → Sorter) (rs : List Raw) (h : Bytes) (q : Nat) :
    Spec.specOK (prepare rs) (lower h) q
      (processRewritesWith srt (prepare rs) (lower h) q) = true :=
  monitor_process srt (prepare rs) (lower h) q (prepare_lowerNames rs) (lower_idem h)

/-- The same for the rewrite part of `CheckHost`, any spelling of the name. -/
theorem C06_checkhost_meets_spec (srt : Bytes → Sorter) (rs : List Raw) (h : Bytes) (q : Nat)
    (hne : h ≠ []) :
    Spec.specOK (prepare rs) h q (checkHostWith srt (prepare rs) h q) = true :=
  monitor_checkhost srt (prepare rs) h q hne (prepare_lowerNames rs)

/-- More generally, for any table (prepared or not) whose names are in lower
case. -/
theorem C06_meets_spec_lower_names (srt : Bytes → Sorter) (tbl : List Entry) (h : Bytes) (q : Nat)
    (hl : Spec.LowerNames tbl) (hh : lower h = h) :
    Spec.specOK tbl h q (processRewritesWith srt tbl h q) = true :=
  monitor_process srt tbl h q hl hh

/-! ## Termination -/

/-- The CNAME loop follows at most `tbl.length` CNAMEs, whatever the table
(cycles of any length, starting anywhere) and the sort: the followed names are
pairwise distinct answers of CNAME entries of the table.  (`chase` itself is
accepted by Lean's termination checker with the measure `unvisited`, the number
of table entries whose answer has not been visited.) -/
theorem C06_terminates (srt : Bytes → Sorter) (tbl : List Entry) (h : Bytes) (q : Nat) :
    (processRun srt tbl h q).visited.length ≤ tbl.length ∧
    (processRun srt tbl h q).visited.Nodup ∧
    (∀ v ∈ (processRun srt tbl h q).visited, ∃ e ∈ tbl, e.typ = .CNAME ∧ e.answer = v) := by
  unfold processRun
  split
  · simp
  · have hg := chase_ghost srt tbl q h h [] []
    simp only at hg
    obtain ⟨h1, h2, h3⟩ := hg
    refine ⟨?_, h2 List.nodup_nil, ?_⟩
    · have := unvisited_le tbl []
      simp only [List.length_nil] at h1
      omega
    · intro v hv
      rcases h3 v hv with h | h
      · cases h
      · exact h

/-- The bound, sharpened: the number of CNAMEs followed is at most the number of
CNAME entries in the table — a table with `k` CNAME entries costs at most `k + 1`
calls of `findRewrites`, whatever cycles it contains. -/
theorem C06_terminates_cname_bound (srt : Bytes → Sorter) (tbl : List Entry) (h : Bytes) (q : Nat) :
    (processRun srt tbl h q).visited.length ≤ (tbl.filter (fun e => e.typ == .CNAME)).length := by
  obtain ⟨_, hnd, hsrc⟩ := C06_terminates srt tbl h q
  have := nodup_length_le (m := (tbl.filter (fun e => e.typ == .CNAME)).map (·.answer)) hnd (by
    intro v hv
    obtain ⟨e, he, hc, ha⟩ := hsrc v hv
    exact List.mem_map.mpr ⟨e, List.mem_filter.mpr ⟨he, by simp [hc]⟩, ha⟩)
  simpa using this

/-! ## No address from outside the table -/

/-- Every address in the result belongs to a table entry of the requested
family whose pattern covers the finally resolved name. -/
theorem C06_ips_from_table (srt : Bytes → Sorter) (tbl : List Entry) (h : Bytes) (q : Nat)
    (ip : Bytes) (hip : ip ∈ (processRewritesWith srt tbl h q).ips) :
    ∃ e ∈ tbl, e.ip = some ip ∧ e.typ.code = q ∧ (q = qA ∨ q = qAAAA) ∧
      matchesHost e (processRun srt tbl h q).final = true := by
  unfold processRewritesWith processRun at hip
  unfold processRun
  split
  · next hm => rw [if_pos hm] at hip; cases hip
  · next hm =>
    rw [if_neg hm] at hip
    exact chase_ips srt tbl q h h [] [] ip hip

/-- … and more precisely of one of the MOST SPECIFIC address-kind entries that
bear on the query there (exact ones if any, else the longest wildcards) — for
every table and tie-breaking, no tie-freeness assumed. -/
theorem C06_ips_from_most_specific (srt : Bytes → Sorter) (tbl : List Entry) (h : Bytes) (q : Nat)
    (ip : Bytes) (hip : ip ∈ (processRewritesWith srt tbl h q).ips) :
    ∃ e ∈ Spec.mostSpecific (specAddrs tbl (processRun srt tbl h q).final q),
      Spec.value e q = some ip := by
  unfold processRewritesWith processRun at hip
  unfold processRun
  split
  · next hm => rw [if_pos hm] at hip; cases hip
  · next hm =>
    rw [if_neg hm] at hip
    exact chase_ips_most_specific srt tbl q h h [] [] ip hip

/-! ## Wildcards and other query types -/

/-- `*.s` does not cover the apex `s` itself … -/
theorem C06_wildcard_not_apex (s : Bytes) : matchDomainWildcard s (42 :: 46 :: s) = false := by
  unfold matchDomainWildcard hasSuffix
  simp only [isWildcard, List.drop_succ_cons, List.drop_zero, Bool.true_and]
  rw [Bool.eq_false_iff]
  intro h
  have := (List.isSuffixOf_iff_suffix.mp h).length_le
  simp at this
  omega

/-- … and covers every name under it, at any depth. -/
theorem C06_wildcard_covers_subdomains (p s : Bytes) :
    matchDomainWildcard (p ++ 46 :: s) (42 :: 46 :: s) = true := by
  unfold matchDomainWildcard hasSuffix
  simp only [isWildcard, List.drop_succ_cons, List.drop_zero, Bool.true_and]
  exact List.isSuffixOf_iff_suffix.mpr (List.suffix_append p (46 :: s))

/-! ## Precedence (match + sort + cut), for every sorted permutation -/

/-- CNAME over address: whenever some CNAME entry covers the name, the entry
the loop looks at (`rewrites[0]`) is a CNAME entry covering it — whatever
address entries exist, exact or not — and it is a most specific one: exact if
an exact CNAME entry exists, otherwise a wildcard of maximal length. -/
theorem C06_cname_over_address (s : Sorter) (tbl : List Entry) (host : Bytes) (q : Nat)
    (h : ∃ e ∈ tbl, e.typ = .CNAME ∧ matchesHost e host = true) :
    ∃ c tl, (findRewritesWith s tbl host q).1 = c :: tl ∧ c.typ = .CNAME ∧ c ∈ tbl ∧
      matchesHost c host = true ∧
      (∀ e ∈ tbl, e.typ = .CNAME → matchesHost e host = true →
        (isWildcard e.domain = false → isWildcard c.domain = false) ∧
        (isWildcard c.domain = true → e.domain.length ≤ c.domain.length)) :=
  find_cname_first s tbl host q h

/-- Exact shadows wildcard: without a covering CNAME, if some exact entry
bears on the query then exactly the exact applicable entries are kept (all of
them, in some order) and no wildcard entry. -/
theorem C06_exact_shadows_wildcard (s : Sorter) (tbl : List Entry) (host : Bytes) (q : Nat)
    (hno : ∀ e ∈ tbl, matchesHost e host = true → e.typ ≠ .CNAME)
    (hex : ∃ e ∈ candidates tbl host q, isWildcard e.domain = false) :
    (findRewritesWith s tbl host q).1.Perm
        ((candidates tbl host q).filter (fun e => !isWildcard e.domain)) ∧
    (∀ e ∈ (findRewritesWith s tbl host q).1, isWildcard e.domain = false ∧ e.domain = host) := by
  have hp := find_exact_perm s tbl host q hno hex
  refine ⟨hp, ?_⟩
  intro e he
  have := hp.subset he
  rw [List.mem_filter] at this
  have hw : isWildcard e.domain = false := by simpa using this.2
  exact ⟨hw, domain_eq_of_matches_not_wild (mem_candidates.mp this.1).2.1 hw⟩

/-- Most specific wildcard wins: without a covering CNAME and without an exact
applicable entry, a single wildcard entry is kept and no applicable entry has a
longer pattern. -/
theorem C06_most_specific_wildcard (s : Sorter) (tbl : List Entry) (host : Bytes) (q : Nat)
    (hno : ∀ e ∈ tbl, matchesHost e host = true → e.typ ≠ .CNAME)
    (hall : ∀ e ∈ candidates tbl host q, isWildcard e.domain = true)
    (hne : candidates tbl host q ≠ []) :
    ∃ w, (findRewritesWith s tbl host q).1 = [w] ∧ w ∈ candidates tbl host q ∧
      ∀ e ∈ candidates tbl host q, e.domain.length ≤ w.domain.length :=
  find_wild_single s tbl host q hno hall hne

/-! ## Pass-through, exceptions, no-data, CNAME to upstream -/

/-- A name the table does not cover is left alone. -/
theorem C06_unmatched_untouched (srt : Bytes → Sorter) (tbl : List Entry) (h : Bytes) (q : Nat)
    (hun : ∀ e ∈ tbl, matchesHost e h = false) :
    processRewritesWith srt tbl h q = Out.empty ∧
    dispatch (processRewritesWith srt tbl h q) = .pass := by
  have : processRewritesWith srt tbl h q = Out.empty := by
    unfold processRewritesWith processRun
    have hm : (findRewritesWith (srt h) tbl h q).2 = false := by
      rw [(find_view (srt h) tbl h q).1, List.any_eq_false]
      intro e he
      simp [hun e he]
    rw [if_pos hm]
  rw [this]
  exact ⟨rfl, rfl⟩

/-- `name → itself` / `pattern → itself` / "back to the queried name": if every
most specific CNAME entry for the queried name is such an exception, the query
passes through untouched, for every query type. -/
theorem C06_cname_exception_passes (srt : Bytes → Sorter) (tbl : List Entry) (h : Bytes) (q : Nat)
    (hsome : ∃ e ∈ tbl, e.typ = .CNAME ∧ matchesHost e h = true)
    (hexc : ∀ e ∈ Spec.mostSpecific (specCnames tbl h), e.answer = h ∨ e.answer = e.domain) :
    processRewritesWith srt tbl h q = Out.empty := by
  obtain ⟨e0, he0, hc0, hm0⟩ := hsome
  have hcand0 : e0 ∈ candidates tbl h q := mem_candidates.mpr ⟨he0, hm0, matchesQType_cname hc0 q⟩
  have hview := find_view (srt h) tbl h q
  have hmatched : (findRewritesWith (srt h) tbl h q).2 = true := by
    rw [hview.1]; exact List.any_eq_true.mpr ⟨e0, he0, hm0⟩
  unfold processRewritesWith processRun
  rw [if_neg (by simp [hmatched])]
  rcases hview.2 with ⟨hnil, _⟩ | ⟨a, rest, hsort, hfr, hamem, hmin⟩
  · rw [hnil] at hcand0; cases hcand0
  · obtain ⟨tl, htl⟩ := cut_cons_head a rest
    have heq : (findRewritesWith (srt h) tbl h q).1 = a :: tl := by rw [hfr, htl]
    have hac : a.typ = .CNAME := cname_of_le_cname (hmin e0 hcand0) hc0
    have hex := hexc a (head_cname_mostSpecific hamem hac hmin)
    have hex' : h = a.answer ∨ a.domain = a.answer := by
      rcases hex with h' | h'
      · exact Or.inl h'.symm
      · exact Or.inr h'.symm
    rw [chase_cons _ _ _ _ _ _ _ a tl heq, if_pos ⟨hmatched, hac⟩, if_pos hex']

/-- `A` / `AAAA` exception: without a covering CNAME, an exact exception entry
of the requested family makes the query pass through (not rewritten), whatever
other entries say. -/
theorem C06_family_exception_passes (srt : Bytes → Sorter) (tbl : List Entry) (h : Bytes) (q : Nat)
    (hno : ∀ e ∈ tbl, matchesHost e h = true → e.typ ≠ .CNAME)
    (hx : ∃ x ∈ tbl, x.domain = h ∧ isWildcard x.domain = false ∧ x.typ.code = q ∧ x.ip = none) :
    (processRewritesWith srt tbl h q).rewritten = false ∧
    dispatch (processRewritesWith srt tbl h q) = .pass := by
  obtain ⟨x, hxt, hxd, hxw, hxc, hxip⟩ := hx
  have hxm : matchesHost x h = true := by simp [matchesHost, hxd]
  have hxn : x.typ ≠ .CNAME := hno x hxt hxm
  have hfam := code_eq_iff_family hxn q hxc
  have hxq : matchesQType x q = true := by
    unfold matchesQType
    rw [if_neg hxn]
    have : ¬ (q ≠ qA ∧ q ≠ qAAAA) := by
      rintro ⟨h1, h2⟩
      rcases hfam with h' | h'
      · exact h1 h'
      · exact h2 h'
    rw [if_neg this]
    simp [hxc]
  have hxcand : x ∈ candidates tbl h q := mem_candidates.mpr ⟨hxt, hxm, hxq⟩
  have hp := find_exact_perm (srt h) tbl h q hno ⟨x, hxcand, hxw⟩
  have hxin : x ∈ (findRewritesWith (srt h) tbl h q).1 :=
    hp.symm.subset (List.mem_filter.mpr ⟨hxcand, by simp [hxw]⟩)
  have hview := find_view (srt h) tbl h q
  have hmatched : (findRewritesWith (srt h) tbl h q).2 = true := by
    rw [hview.1]; exact List.any_eq_true.mpr ⟨x, hxt, hxm⟩
  have hr : (processRewritesWith srt tbl h q).rewritten = false := by
    unfold processRewritesWith processRun
    rw [if_neg (by simp [hmatched])]
    cases hl : (findRewritesWith (srt h) tbl h q).1 with
    | nil => rw [hl] at hxin; cases hxin
    | cons rw tl =>
      have hrwn : rw.typ ≠ .CNAME := by
        have : rw ∈ candidates tbl h q := find_mem_candidates _ _ _ _ rw (by rw [hl]; simp)
        obtain ⟨m1, m2, _⟩ := mem_candidates.mp this
        exact hno rw m1 m2
      rw [chase_cons _ _ _ _ _ _ _ rw tl hl, if_neg (fun hc => hrwn hc.2)]
      have hall : ∀ e ∈ rw :: tl, e.typ ≠ .CNAME := by
        intro e he
        have : e ∈ candidates tbl h q := find_mem_candidates _ _ _ _ e (by rw [hl]; exact he)
        obtain ⟨m1, m2, _⟩ := mem_candidates.mp this
        exact hno e m1 m2
      apply (setRewriteResult_view _ (rw :: tl) q hall).1
      rw [List.any_eq_true]
      refine ⟨x, by rw [← hl]; exact hxin, ?_⟩
      simp [Spec.passesFamily, hxip, hxc]
  refine ⟨hr, ?_⟩
  unfold dispatch
  simp [hr]

/-- No data: a name the table covers, without a covering CNAME and without a
value or exception for the requested type (other family only, or a query type
other than A/AAAA), gets an empty successful answer produced locally — it is
neither passed through nor sent upstream. -/
theorem C06_nodata (srt : Bytes → Sorter) (tbl : List Entry) (h : Bytes) (q : Nat)
    (hcov : ∃ e ∈ tbl, matchesHost e h = true)
    (hnoval : ∀ e ∈ tbl, matchesHost e h = true →
      e.typ ≠ .CNAME ∧ Spec.value e q = none ∧ Spec.passesFamily e q = false) :
    processRewritesWith srt tbl h q = ⟨true, [], []⟩ ∧
    dispatch (processRewritesWith srt tbl h q) = .answer [] [] := by
  obtain ⟨e0, he0, hm0⟩ := hcov
  have hview := find_view (srt h) tbl h q
  have hmatched : (findRewritesWith (srt h) tbl h q).2 = true := by
    rw [hview.1]; exact List.any_eq_true.mpr ⟨e0, he0, hm0⟩
  have hres : processRewritesWith srt tbl h q = ⟨true, [], []⟩ := by
    unfold processRewritesWith processRun
    rw [if_neg (by simp [hmatched])]
    cases hl : (findRewritesWith (srt h) tbl h q).1 with
    | nil => rw [chase_nil _ _ _ _ _ _ _ hl]
    | cons rw tl =>
      have hfacts : ∀ e ∈ rw :: tl,
          e.typ ≠ .CNAME ∧ Spec.value e q = none ∧ Spec.passesFamily e q = false := by
        intro e he
        have : e ∈ candidates tbl h q := find_mem_candidates _ _ _ _ e (by rw [hl]; exact he)
        obtain ⟨m1, m2, _⟩ := mem_candidates.mp this
        exact hnoval e m1 m2
      rw [chase_cons _ _ _ _ _ _ _ rw tl hl, if_neg (fun hc => (hfacts rw (by simp)).1 hc.2)]
      have hany : (rw :: tl).any (Spec.passesFamily · q) = false := by
        rw [List.any_eq_false]
        intro e he
        simp [(hfacts e he).2.2]
      rw [(setRewriteResult_view _ (rw :: tl) q (fun e he => (hfacts e he).1)).2 hany]
      have : (rw :: tl).filterMap (Spec.value · q) = [] := by
        rw [List.filterMap_eq_nil_iff]
        intro e he
        exact (hfacts e he).2.1
      rw [this]
      rfl
  rw [hres]
  exact ⟨rfl, rfl⟩

/-- Query types other than A and AAAA (HTTPS, MX, TXT, ANY, …): a covered name
without a covering CNAME gets the empty successful answer, locally. -/
theorem C06_other_qtype_empty (srt : Bytes → Sorter) (tbl : List Entry) (h : Bytes) (q : Nat)
    (hq : q ≠ qA ∧ q ≠ qAAAA)
    (hcov : ∃ e ∈ tbl, matchesHost e h = true)
    (hno : ∀ e ∈ tbl, matchesHost e h = true → e.typ ≠ .CNAME) :
    processRewritesWith srt tbl h q = ⟨true, [], []⟩ ∧
    dispatch (processRewritesWith srt tbl h q) = .answer [] [] := by
  apply C06_nodata srt tbl h q hcov
  intro e he hm
  have hne := hno e he hm
  have hcode : e.typ.code ≠ q := by
    intro hc
    rcases code_eq_iff_family hne q hc with h' | h'
    · exact hq.1 h'
    · exact hq.2 h'
  refine ⟨hne, ?_, ?_⟩
  · simp [Spec.value, hcode]
  · simp [Spec.passesFamily, hcode]

/-- CNAME to upstream: when every most specific CNAME entry for the queried
name points at the same name `t` (no exception) and the table does not cover
`t`, the result carries the canonical name `t` and no address; dnsforward then
asks the upstream for `t` (and restores the original question afterwards). -/
theorem C06_cname_upstream (srt : Bytes → Sorter) (tbl : List Entry) (h t : Bytes) (q : Nat)
    (hsome : ∃ e ∈ tbl, e.typ = .CNAME ∧ matchesHost e h = true)
    (hall : ∀ e ∈ Spec.mostSpecific (specCnames tbl h), e.answer = t ∧ e.domain ≠ t)
    (hth : t ≠ h) (htne : t ≠ [])
    (hun : ∀ e ∈ tbl, matchesHost e t = false) :
    processRewritesWith srt tbl h q = ⟨true, t, []⟩ ∧
    dispatch (processRewritesWith srt tbl h q) = .upstream t := by
  obtain ⟨e0, he0, hc0, hm0⟩ := hsome
  have hcand0 : e0 ∈ candidates tbl h q := mem_candidates.mpr ⟨he0, hm0, matchesQType_cname hc0 q⟩
  have hview := find_view (srt h) tbl h q
  have hmatched : (findRewritesWith (srt h) tbl h q).2 = true := by
    rw [hview.1]; exact List.any_eq_true.mpr ⟨e0, he0, hm0⟩
  have hres : processRewritesWith srt tbl h q = ⟨true, t, []⟩ := by
    unfold processRewritesWith processRun
    rw [if_neg (by simp [hmatched])]
    rcases hview.2 with ⟨hnil, _⟩ | ⟨a, rest, hsort, hfr, hamem, hmin⟩
    · rw [hnil] at hcand0; cases hcand0
    · obtain ⟨tl, htl⟩ := cut_cons_head a rest
      have heq : (findRewritesWith (srt h) tbl h q).1 = a :: tl := by rw [hfr, htl]
      have hac : a.typ = .CNAME := cname_of_le_cname (hmin e0 hcand0) hc0
      obtain ⟨hat, hadt⟩ := hall a (head_cname_mostSpecific hamem hac hmin)
      have h1 : ¬ (h = a.answer ∨ a.domain = a.answer) := by
        rw [hat]
        rintro (h' | h')
        · exact hth h'.symm
        · exact hadt h'
      have h2 : ¬ (h = a.answer ∧ isWildcard a.domain = true) := by
        rw [hat]; exact fun h' => hth h'.1.symm
      have h3 : ¬ (([] : List Bytes).contains a.answer = true) := by simp
      rw [chase_cons _ _ _ _ _ _ _ a tl heq, if_pos ⟨hmatched, hac⟩, if_neg h1, if_neg h2, if_neg h3, hat]
      -- at `t` the table has nothing
      have hnil : (findRewritesWith (srt t) tbl t q).1 = [] := by
        rcases (find_view (srt t) tbl t q).2 with ⟨_, hfr'⟩ | ⟨b, _, _, _, hb, _⟩
        · exact hfr'
        · obtain ⟨m1, m2, _⟩ := mem_candidates.mp hb
          rw [hun b m1] at m2; cases m2
      rw [chase_nil _ _ _ _ _ _ _ hnil]
  rw [hres]
  refine ⟨rfl, ?_⟩
  unfold dispatch
  simp [htne]

/-! ## DNS level -/

/-- What the client and the upstream see is acceptable to the DNS-level monitor,
for every configured table, question and upstream rcode: the upstream is asked
only for a pass-through (under the name itself) or an unfinished CNAME (under
the canonical name; the reply then carries the ORIGINAL question and the CNAME
record first, whatever the upstream's rcode); everything else is answered
locally with NOERROR, possibly empty. -/
theorem C06_dns_meets_spec (srt : Bytes → Sorter) (rs : List Raw) (h : Bytes) (q rc : Nat)
    (hne : h ≠ []) :
    Spec.dnsSpecOK (prepare rs) h q rc (respondWith srt (prepare rs) h q rc) = true :=
  monitor_dns srt (prepare rs) h q rc hne (prepare_lowerNames rs)

/-! ## The live table over a history of configuration operations -/

/-- Saving the configuration does not change the table the server answers from.
(Trivially true of the model, where `cloneRewrites` is a faithful copy; the point
is that the sequence harness now checks it on the code, where home hands
`WriteDiskConfig` the very `*Config` the filter runs on.) -/
theorem C06_config_write_preserves_table (tbl : List Entry) :
    (stepTable tbl .write).1 = tbl := rfl

/-- Add / delete / update through the HTTP handlers (and a config write) turn the
prepared form of a configured list into the prepared form of the edited list. -/
theorem C06_edits_yield_prepared (rs : List Raw) (op : TableOp) :
    (stepTable (prepare rs) op).1 = prepare (Spec.editRaws rs op) :=
  stepTable_prepare rs op

/-- Stateful form of `C06_model_meets_spec`: after EVERY history of operations
on a filter created from ANY configured list, the live table is the prepared
form of the edited list, satisfies the spec's table check, and every lookup is
acceptable to the monitor. -/
theorem C06_history_meets_spec (srt : Bytes → Sorter) (rs : List Raw) (ops : List TableOp)
    (h : Bytes) (q : Nat) :
    runTable (prepare rs) ops = prepare (ops.foldl Spec.editRaws rs) ∧
    Spec.tableOK (ops.foldl Spec.editRaws rs) ((runTable (prepare rs) ops).map Spec.rowOf) = true ∧
    Spec.specOK (prepare (ops.foldl Spec.editRaws rs)) (lower h) q
      (processRewritesWith srt (runTable (prepare rs) ops) (lower h) q) = true := by
  have ht := runTable_prepare rs ops
  refine ⟨ht, ?_, ?_⟩
  · simp [Spec.tableOK, ht]
  · rw [ht]
    exact C06_model_meets_spec srt _ h q

/-! ## The rewrite HTTP API as a state machine over the table -/

/-- add: the normalized entry is appended; nothing is validated or de-duplicated
(adding the same pair twice keeps both). -/
theorem C06_api_add_appends (tbl : List Entry) (r : Raw) :
    stepTable tbl (.add r) = (tbl ++ [normalize r], true) := rfl

/-- delete: exactly the entries whose stored pair is the given one go — all
duplicates of it, nothing else — and the others keep their order. -/
theorem C06_api_delete_exact (tbl : List Entry) (d a : Bytes) :
    (∀ e, e ∈ (stepTable tbl (.del d a)).1 ↔ e ∈ tbl ∧ sameKey d a e = false) ∧
    (stepTable tbl (.del d a)).1.Sublist tbl ∧
    ((stepTable tbl (.del d a)).1 ++ tbl.filter (sameKey d a)).Perm tbl := by
  refine ⟨?_, ?_, ?_⟩
  · intro e
    simp [stepTable, List.mem_filter]
  · exact List.filter_sublist
  · simp only [stepTable]
    have := List.filter_append_perm (sameKey d a) tbl
    exact (List.perm_append_comm).trans this

/-- update: the FIRST entry with the target pair is replaced in place by the
normalized new entry (position kept, further duplicates of the target stay);
without such an entry the request fails and the table is untouched. -/
theorem C06_api_update_replaces_first (tbl : List Entry) (td ta : Bytes) (u : Raw) :
    (∃ pre e post, tbl = pre ++ e :: post ∧ sameKey td ta e = true ∧
        (∀ x ∈ pre, sameKey td ta x = false) ∧
        stepTable tbl (.upd td ta u) = (pre ++ normalize u :: post, true)) ∨
    ((∀ x ∈ tbl, sameKey td ta x = false) ∧ stepTable tbl (.upd td ta u) = (tbl, false)) := by
  rcases replaceFirst_spec (sameKey td ta) (normalize u) tbl with
    ⟨pre, e, post, h1, h2, h3, h4⟩ | ⟨h1, h2⟩
  · left; exact ⟨pre, e, post, h1, h2, h3, by simp [stepTable, h4]⟩
  · right; exact ⟨h1, by simp [stepTable, h2]⟩

/-- update = delete + add, atomically, when the target occurs once: the same
entries (as a multiset) as deleting the target and adding the new entry — but
in one step and at the old position. -/
theorem C06_api_update_is_delete_add (tbl : List Entry) (td ta : Bytes) (u : Raw)
    (pre post : List Entry) (e : Entry) (htbl : tbl = pre ++ e :: post)
    (he : sameKey td ta e = true)
    (hpre : ∀ x ∈ pre, sameKey td ta x = false) (hpost : ∀ x ∈ post, sameKey td ta x = false) :
    stepTable tbl (.upd td ta u) = (pre ++ normalize u :: post, true) ∧
    (stepTable tbl (.upd td ta u)).1.Perm
      (stepTable (stepTable tbl (.del td ta)).1 (.add u)).1 := by
  have hupd : stepTable tbl (.upd td ta u) = (pre ++ normalize u :: post, true) := by
    rcases C06_api_update_replaces_first tbl td ta u with ⟨pre', e', post', h1, h2, h3, h4⟩ | ⟨h1, _⟩
    · -- the first match is `e`
      have : pre' = pre ∧ e' = e ∧ post' = post := by
        have hh := htbl.symm.trans h1
        clear h4 h1 htbl
        induction pre generalizing pre' with
        | nil =>
          cases pre' with
          | nil => simp at hh; exact ⟨rfl, hh.1.symm, hh.2.symm⟩
          | cons y ys =>
            simp at hh
            have := h3 y (by simp)
            rw [← hh.1, he] at this; cases this
        | cons x xs ih =>
          cases pre' with
          | nil =>
            simp at hh
            have := hpre x (by simp)
            rw [hh.1, h2] at this; cases this
          | cons y ys =>
            simp at hh
            have := ih (fun z hz => hpre z (List.mem_cons_of_mem _ hz)) ys
              (fun z hz => h3 z (List.mem_cons_of_mem _ hz)) (by simp [hh.2])
            exact ⟨by rw [hh.1, this.1], this.2⟩
      obtain ⟨rfl, rfl, rfl⟩ := this
      exact h4
    · have := h1 e (by rw [htbl]; simp)
      rw [he] at this; cases this
  refine ⟨hupd, ?_⟩
  rw [hupd]
  have hdel : (stepTable tbl (.del td ta)).1 = pre ++ post := by
    simp only [stepTable, htbl, List.filter_append, List.filter_cons, he, Bool.not_true,
      Bool.false_eq_true, if_false]
    have f1 : pre.filter (fun e => !sameKey td ta e) = pre :=
      List.filter_eq_self.mpr (fun x hx => by simp [hpre x hx])
    have f2 : post.filter (fun e => !sameKey td ta e) = post :=
      List.filter_eq_self.mpr (fun x hx => by simp [hpost x hx])
    rw [f1, f2]
  rw [hdel]
  simp only [stepTable]
  have : (pre ++ normalize u :: post).Perm (normalize u :: (pre ++ post)) := List.perm_middle
  exact this.trans ((List.perm_append_comm (l₁ := [normalize u]) (l₂ := pre ++ post)))

/-- A rejected request (malformed JSON) changes nothing. -/
theorem C06_api_rejected_changes_nothing (tbl : List Entry) : stepTable tbl .bad = (tbl, false) := rfl

/-- Persistence: after any history on a filter created from any configured
list, saving the configuration and creating a new filter from what was saved
(`domain`/`answer` only) gives the same table, derived fields included. -/
theorem C06_api_reload_same_table (rs : List Raw) (ops : List TableOp) :
    stepTable (runTable (prepare rs) ops) .reload = (runTable (prepare rs) ops, true) := by
  rw [runTable_prepare]
  simp only [stepTable]
  rw [reload_prepare]

/-- `GET /control/rewrite/list` shows the configured list after any history. -/
theorem C06_api_list_shows_configured (rs : List Raw) (ops : List TableOp) :
    Spec.listOK (ops.foldl Spec.editRaws rs) (listTable (runTable (prepare rs) ops)) = true := by
  rw [runTable_prepare]
  simp [Spec.listOK, listTable]

/-- Evaluation is atomic with respect to table updates: the result of a lookup
that runs concurrently with a history of table states is the result for the
table at ONE instant — never a mixture of two states (trivial in the model,
where the read lock spans the whole evaluation; the concurrent mode of the
sequence harness checks it on the code: every answer seen while the update
handler flips an entry must be an answer of the table before or after). -/
theorem C06_evaluation_atomic (srt : Bytes → Sorter) (states : List (List Entry)) (i : Nat)
    (h : Bytes) (q : Nat) (o : Out) (ho : evalDuring srt states i h q = some o) :
    ∃ t ∈ states, o = processRewritesWith srt t h q ∧
      (Spec.LowerNames t → lower h = h → Spec.specOK t h q o = true) := by
  unfold evalDuring at ho
  cases ht : states[i]? with
  | none => rw [ht] at ho; cases ho
  | some t =>
    rw [ht] at ho
    simp only [Option.map_some, Option.some.injEq] at ho
    refine ⟨t, List.mem_of_getElem? ht, ho.symm, ?_⟩
    intro hl hh
    rw [← ho]
    exact C06_meets_spec_lower_names srt t h q hl hh

/-! ## Translator tie: which lock each access of the table holds (regenerated per run)

`evalDuring` (one table state per evaluation) is not a fact about the rewrite
logic but about `confMu`.  The lock-machine theorems of `Lemmas/RewritesLock`
say what the discipline buys; the three theorems below say that the CURRENT
source follows it.  `Gen.C06.*` is rewritten from the typed syntax of
`internal/filtering` on every run (`extract/cmd/c06`). -/

/-- Rows `(function, read/write, guard)` follow the discipline: a write holds
the write lock, a read holds either; functions in `ctor` run before the filter
is published (construction) and are exempt. -/
def Disciplined (ctor : List String) (rows : List (String × String × String)) : Bool :=
  rows.all fun r => ctor.contains r.1 ||
    (if r.2.1 == "write" then r.2.2 == "W" else r.2.2 == "W" || r.2.2 == "R")

/-- Every access to `Config.Rewrites` in the package is under `confMu` (writes
under the write lock); the one exemption, `prepareRewrites`, is called from the
constructor `New` only. -/
theorem C06_T_table_access_disciplined :
    Disciplined ["DNSFilter.prepareRewrites"] Gen.C06.tableSites = true ∧
      Gen.C06.prepareCallers = ["New"] ∧
      ("DNSFilter.processRewrites", "read", "R") ∈ Gen.C06.tableSites := by
  decide

/-- The evaluation takes the read lock first, releases it only by the deferred
unlock, and both table lookups (before and inside the CNAME loop) read the
field itself — not a snapshot taken under an earlier hold. -/
theorem C06_T_evaluation_one_hold :
    Gen.C06.evalHeadLocked = true ∧ Gen.C06.evalOtherLockOps = 0 ∧
      Gen.C06.lookupSites = [("DNSFilter.processRewrites", true), ("DNSFilter.processRewrites", true)] := by
  decide

/-- The CNAME loop does its steps in the order of `chase`: the two exits (name
onto itself / wildcard self-match), then `host = answer`, the visited test with
its exit, the insertion, the next lookup.  `C06_terminates` rests on the visited
test preceding the lookup. -/
theorem C06_T_loop_order :
    Gen.C06.loopEvents = ["return", "break", "assign-host", "has", "return", "add", "lookup"] := by
  decide

/-- What the discipline buys, for every schedule the readers–writer lock
accepts: all reads made under one read hold see the table version current when
the hold began, and no write is accepted while a reader holds. -/
theorem C06_lock_discipline_gives_one_state (es : List Lock.Ev) (s : Lock.LS)
    (h : Lock.run {} es = some s) :
    (∀ r ∈ s.seen, r.2.1 = r.2.2) ∧ (s.held ≠ [] → ∀ t, Lock.step s (.write t) = none) :=
  ⟨Lock.reads_of_one_hold_one_version es s h,
   fun hh t => Lock.no_write_inside_read_hold es s t h hh⟩

/-! ## The rewrite stage in front of the rule engines -/

/-- A rewritten query never reaches the rule engines: the verdict does not
depend on the loaded rules. -/
theorem C06_rewrite_short_circuits (srt : Bytes → Sorter) (tbl : List Entry) (rules : List Bytes)
    (h : Bytes) (q : Nat) (hr : (checkHostWith srt tbl h q).rewritten = true) :
    checkHostFull srt tbl rules h q = .rewritten (checkHostWith srt tbl h q) := by
  simp [checkHostFull, hr]

/-- A query the rewrites pass through (exception, or name not in the table) is
judged by the rule engines. -/
theorem C06_pass_through_reaches_filters (srt : Bytes → Sorter) (tbl : List Entry)
    (rules : List Bytes) (h : Bytes) (q : Nat) (hne : h ≠ [])
    (hr : (checkHostWith srt tbl h q).rewritten = false) :
    checkHostFull srt tbl rules h q =
      if blockedBy rules (lower h) = true then .blocked else .notFound := by
  simp [checkHostFull, hr, hne]

/-- The full `CheckHost` verdict is acceptable for every configured table. -/
theorem C06_verdict_meets_spec (srt : Bytes → Sorter) (rs : List Raw) (rules : List Bytes)
    (h : Bytes) (q : Nat) :
    Spec.verdictOK (prepare rs) rules h q (checkHostFull srt (prepare rs) rules h q) = true := by
  by_cases hne : h = []
  · subst hne
    simp [checkHostFull, checkHostWith, Out.empty, Spec.verdictOK]
  · have hspec := C06_checkhost_meets_spec srt rs h q hne
    have hsame : ∀ o, Spec.specOK (prepare rs) (lower h) q o = Spec.specOK (prepare rs) h q o := by
      intro o; simp [Spec.specOK, lower_idem]
    cases hr : (checkHostWith srt (prepare rs) h q).rewritten
    · have hemp := checkHost_not_rewritten srt (prepare rs) h q hr
      rw [hemp] at hspec
      unfold checkHostFull
      simp only [hr, Bool.false_eq_true, if_false]
      by_cases hb : blockedBy rules (lower h) = true
      · simp [hne, hb, Spec.verdictOK, hsame, hspec]
      · simp [hne, hb, Spec.verdictOK, hsame, hspec]
    · unfold checkHostFull
      simp [hr, Spec.verdictOK, hsame, hspec]

/-! ## Order of entries and tie-breaking of the sort

Full statement (DESIGN: `C06_order_independent`, `C06_sort_agnostic`):

    ∀ t₁ t₂ h q srt₁ srt₂, t₁.Perm t₂ →
      OutEquiv (processRewritesWith srt₁ t₁ h q) (processRewritesWith srt₂ t₂ h q)

It is FALSE for the code: `findRewrites` keeps ONE of several equally specific
wildcard entries and follows ONE of several equally specific CNAME entries —
the first in table order (stable sort, ≤ 12 candidates) or whichever the
unstable sort leaves first.  `C06_counterexample_*` exhibit this on concrete
tables; `C06_order_independent_partial` proves the statement for tables without
such ties. -/

/-- Swapping `*.x.com → AAAA` and `*.x.com → 1.1.1.1` changes the answer to
`a.x.com A` from "empty" to `1.1.1.1`. -/
theorem C06_counterexample_wildcard_tie :
    ∃ t₁ t₂ : List Entry, ∃ h : Bytes, ∃ q : Nat, t₁.Perm t₂ ∧
      ¬ Spec.OutEquiv (processRewrites t₁ h q) (processRewrites t₂ h q) := by
  refine ⟨[ent "*.x.com" "AAAA", ent "*.x.com" "1.1.1.1" (some true)],
          [ent "*.x.com" "1.1.1.1" (some true), ent "*.x.com" "AAAA"],
          asc "a.x.com", 1, List.Perm.swap _ _ _, ?_⟩
  have e₁ : processRewrites [ent "*.x.com" "AAAA", ent "*.x.com" "1.1.1.1" (some true)]
      (asc "a.x.com") 1 = ⟨true, [], []⟩ := by decide +kernel
  have e₂ : processRewrites [ent "*.x.com" "1.1.1.1" (some true), ent "*.x.com" "AAAA"]
      (asc "a.x.com") 1 = ⟨true, [], [asc "1.1.1.1"]⟩ := by decide +kernel
  rw [e₁, e₂]
  rintro ⟨_, h2⟩
  have := (h2 rfl).2.length_eq
  simp at this

/-- Two CNAME entries for one name: the first in table order is followed. -/
theorem C06_counterexample_cname_tie :
    ∃ t₁ t₂ : List Entry, ∃ h : Bytes, ∃ q : Nat, t₁.Perm t₂ ∧
      ¬ Spec.OutEquiv (processRewrites t₁ h q) (processRewrites t₂ h q) := by
  refine ⟨[ent "a.x.com" "b.x.com", ent "a.x.com" "c.x.com"],
          [ent "a.x.com" "c.x.com", ent "a.x.com" "b.x.com"],
          asc "a.x.com", 1, List.Perm.swap _ _ _, ?_⟩
  have e₁ : processRewrites [ent "a.x.com" "b.x.com", ent "a.x.com" "c.x.com"]
      (asc "a.x.com") 1 = ⟨true, asc "b.x.com", []⟩ := by decide +kernel
  have e₂ : processRewrites [ent "a.x.com" "c.x.com", ent "a.x.com" "b.x.com"]
      (asc "a.x.com") 1 = ⟨true, asc "c.x.com", []⟩ := by decide +kernel
  rw [e₁, e₂]
  rintro ⟨_, h2⟩
  have := (h2 rfl).1
  revert this
  decide +kernel

/-- Unconditionally: the SET of results the code can produce (over all
tie-breakings of the sort) does not depend on the order of the entries — for
whatever the sort does on one order, some sort yields exactly the same run
(result, finally resolved name, followed names) on any other order.  What is
unspecified is exactly the choice among equally specific CNAME entries / equally
specific wildcard address entries, and the order of the exact addresses. -/
theorem C06_outcome_set_order_independent (s₁ : Bytes → Sorter) (t₁ t₂ : List Entry) (h : Bytes)
    (q : Nat) (hp : t₁.Perm t₂) :
    ∃ s₂ : Bytes → Sorter, processRun s₂ t₂ h q = processRun s₁ t₁ h q ∧
      processRewritesWith s₂ t₂ h q = processRewritesWith s₁ t₁ h q := by
  obtain ⟨s₂, hs⟩ := outcome_set_perm s₁ t₁ t₂ h q hp
  exact ⟨s₂, hs, by unfold processRewritesWith; rw [hs]⟩

/-- On a tie-free table the result (decision, canonical name, addresses up to
order) depends neither on the order of the entries nor on how the sort breaks
ties. -/
theorem C06_order_independent_partial (srt₁ srt₂ : Bytes → Sorter) (t₁ t₂ : List Entry)
    (h : Bytes) (q : Nat) (hp : t₁.Perm t₂) (htf : Spec.TieFree t₁ q) :
    Spec.OutEquiv (processRewritesWith srt₁ t₁ h q) (processRewritesWith srt₂ t₂ h q) :=
  process_order srt₁ srt₂ t₁ t₂ h q hp htf

/-- In particular the unstable sort cannot show on a tie-free table. -/
theorem C06_sort_agnostic_partial (srt : Bytes → Sorter) (tbl : List Entry) (h : Bytes) (q : Nat)
    (htf : Spec.TieFree tbl q) :
    Spec.OutEquiv (processRewritesWith srt tbl h q) (processRewrites tbl h q) :=
  process_order srt _ tbl tbl h q (List.Perm.refl _) htf

/-! ## Non-vacuity: the AGHTechDoc examples and instances of the hypotheses -/

section Examples

/-- doc "A record" -/
example : processRewrites [ent "host.com" "1.2.3.4" (some true)] (asc "host.com") 1 =
    ⟨true, [], [asc "1.2.3.4"]⟩ := by decide +kernel
example : dispatch (processRewrites [ent "host.com" "1.2.3.4" (some true)] (asc "host.com") 28) =
    .answer [] [] := by decide +kernel

/-- doc "CNAME record": resolved upstream under the canonical name -/
example : dispatch (processRewrites [ent "sub.host.com" "host.com"] (asc "sub.host.com") 1) =
    .upstream (asc "host.com") := by decide +kernel

/-- doc "CNAME+A records" -/
example : processRewrites [ent "sub.host.com" "host.com", ent "host.com" "1.2.3.4" (some true)]
    (asc "sub.host.com") 1 = ⟨true, asc "host.com", [asc "1.2.3.4"]⟩ := by decide +kernel
example : dispatch (processRewrites
    [ent "sub.host.com" "host.com", ent "host.com" "1.2.3.4" (some true)] (asc "sub.host.com") 28) =
    .upstream (asc "host.com") := by decide +kernel

/-- doc "Wildcard CNAME+A record with CNAME exception" -/
example : processRewrites
    [ent "*.host.com" "1.2.3.4" (some true), ent "pass.host.com" "pass.host.com"]
    (asc "my.host.com") 1 = ⟨true, [], [asc "1.2.3.4"]⟩ := by decide +kernel
example : processRewrites
    [ent "*.host.com" "1.2.3.4" (some true), ent "pass.host.com" "pass.host.com"]
    (asc "pass.host.com") 1 = Out.empty := by decide +kernel

/-- doc "A record with AAAA exception" -/
example : processRewrites [ent "host.com" "1.2.3.4" (some true), ent "host.com" "AAAA"]
    (asc "host.com") 1 = ⟨true, [], [asc "1.2.3.4"]⟩ := by decide +kernel
example : (processRewrites [ent "host.com" "1.2.3.4" (some true), ent "host.com" "AAAA"]
    (asc "host.com") 28).rewritten = false := by decide +kernel

/-- doc "pass A only" -/
example : (processRewrites [ent "host.com" "A"] (asc "host.com") 1).rewritten = false := by
  decide +kernel
example : processRewrites [ent "host.com" "A"] (asc "host.com") 28 = ⟨true, [], []⟩ := by
  decide +kernel

/-- a cycle that does not start at the queried name: a → b → c → b -/
example : processRun (fun _ => stable)
    [ent "a.x.com" "b.x.com", ent "b.x.com" "c.x.com", ent "c.x.com" "b.x.com"] (asc "a.x.com") 1 =
    ⟨⟨true, asc "c.x.com", []⟩, asc "b.x.com", [asc "c.x.com", asc "b.x.com"]⟩ := by decide +kernel

/-- a cycle through the queried name is the "name to itself" exception -/
example : processRewrites [ent "a.x.com" "b.x.com", ent "b.x.com" "a.x.com"] (asc "a.x.com") 1 =
    Out.empty := by decide +kernel

/-- exact CNAME beats wildcard CNAME beats exact address; most specific wildcard wins -/
example : processRewrites
    [ent "a.b.x.com" "1.1.1.1" (some true), ent "*.x.com" "t.net", ent "*.b.x.com" "u.net"]
    (asc "a.b.x.com") 1 = ⟨true, asc "u.net", []⟩ := by decide +kernel

/-- the hypotheses of `C06_order_independent_partial` hold for a table with
wildcards, a CNAME chain and both families -/
example : Spec.TieFree
    [ent "*.x.com" "1.1.1.1" (some true), ent "*.x.com" "::1" (some false),
     ent "a.x.com" "b.x.com", ent "b.x.com" "1.1.1.2" (some true)] 1 := by
  constructor <;> decide +kernel

/-- … and fail for the counterexample table -/
example : ¬ Spec.TieFree [ent "*.x.com" "AAAA", ent "*.x.com" "1.1.1.1" (some true)] 1 := by
  intro h
  have := h.2 (ent "*.x.com" "AAAA") (by simp) (ent "*.x.com" "1.1.1.1" (some true)) (by simp)
    (by decide +kernel) (by decide +kernel) (by decide +kernel) (by decide +kernel)
    (by decide +kernel) (by decide +kernel)
  revert this
  decide +kernel

/-- the hypotheses of `C06_nodata` (only an AAAA value, A asked) -/
example : ∀ e ∈ [ent "host.com" "::1" (some false)], matchesHost e (asc "host.com") = true →
    e.typ ≠ .CNAME ∧ Spec.value e 1 = none ∧ Spec.passesFamily e 1 = false := by decide +kernel

/-- the hypotheses of `C06_cname_upstream` -/
example : ∀ e ∈ Spec.mostSpecific (specCnames [ent "sub.host.com" "host.com"] (asc "sub.host.com")),
    e.answer = asc "host.com" ∧ e.domain ≠ asc "host.com" := by decide +kernel

/-- DNS level, `TestRewrite`'s third case: upstream asked for the canonical
name only, original question restored, CNAME record first -/
example : respond [ent "my.alias.example.org" "example.org"] (asc "my.alias.example.org") 1 0 =
    ⟨[asc "example.org"], 0, asc "my.alias.example.org",
     [⟨5, asc "my.alias.example.org", asc "example.org"⟩, ⟨1, asc "example.org", ups4⟩]⟩ := by
  decide +kernel

/-- DNS level, no data: empty NOERROR, the upstream is not asked -/
example : respond [ent "host.com" "1.2.3.4" (some true)] (asc "Host.com") 28 3 =
    ⟨[], 0, asc "Host.com", []⟩ := by decide +kernel

/-- DNS level, the upstream says NXDOMAIN for the canonical name: the reply keeps
the rcode, the original question and the CNAME record -/
example : respond [ent "my.alias.example.org" "example.org"] (asc "my.alias.example.org") 1 3 =
    ⟨[asc "example.org"], 3, asc "my.alias.example.org",
     [⟨5, asc "my.alias.example.org", asc "example.org"⟩]⟩ := by decide +kernel

/-- DNS level, CNAME + address from the table -/
example : respond [ent "sub.host.com" "host.com", ent "host.com" "1.2.3.4" (some true)]
    (asc "sub.host.com") 1 0 =
    ⟨[], 0, asc "sub.host.com",
     [⟨5, asc "sub.host.com", asc "host.com"⟩, ⟨1, asc "host.com", asc "1.2.3.4"⟩]⟩ := by
  decide +kernel

/-- the hypothesis `LowerNames` holds for an ordinary table … -/
example : Spec.LowerNames
    [ent "Host.com" "1.2.3.4" (some true), ent "*.x.com" "b.x.com", ent "b.x.com" "AAAA"] := by
  unfold Spec.LowerNames
  decide +kernel

/-- … and fails for a table that did not go through `normalize` -/
example : ¬ Spec.LowerNames [⟨asc "example.com", asc "Example.com", .CNAME, none⟩] := by
  unfold Spec.LowerNames
  decide +kernel

/-- regression, finding C06-F1: "name to itself" written with capitals passes through -/
example : processRewrites [ent "Example.com" "Example.com"] (asc "example.com") 1 = Out.empty := by
  decide +kernel

/-- regression, C06-F1: a CNAME target written with capitals is followed into the table -/
example : processRewrites [ent "a.x.com" "B.x.com", ent "b.x.com" "1.1.1.1" (some true)]
    (asc "a.x.com") 1 = ⟨true, asc "b.x.com", [asc "1.1.1.1"]⟩ := by decide +kernel

/-- a history: add, save, update, delete, save -/
example : runTable (prepare [])
    [.add ⟨asc "A.x.com", asc "B.x.com", none⟩, .write,
     .upd (asc "a.x.com") (asc "b.x.com") ⟨asc "a.x.com", asc "1.1.1.1", some (true, asc "1.1.1.1")⟩,
     .add ⟨asc "c.x.com", asc "AAAA", none⟩, .del (asc "c.x.com") (asc "AAAA"), .write] =
    [ent "a.x.com" "1.1.1.1" (some true)] := by decide +kernel

/-- deleting with a spelling that is not the stored one removes nothing; an
update of a missing target fails -/
example : stepTable [ent "A.x.com" "1.1.1.1" (some true)] (.del (asc "A.x.com") (asc "1.1.1.1")) =
    ([ent "a.x.com" "1.1.1.1" (some true)], true) := by decide +kernel
example : (stepTable [ent "a.x.com" "1.1.1.1" (some true)]
    (.upd (asc "b.x.com") (asc "1.1.1.1") ⟨asc "b.x.com", asc "A", none⟩)).2 = false := by
  decide +kernel

end Examples

end AGH.C06
