import AGH.Spec.Rewrites
namespace AGH.C06
theorem C06_stub : True := trivial
end AGH.C06
