/-
C09 — top-N lists (outside the property's totals, covered here as far as the
counters are concerned).  Property theorems only.
-/
import AGH.Lemmas.StatsTop
import AGH.Spec.StatsTop
namespace AGH.C09

/-- Any slice `convertMapToSlice(m, max)` may return: the first `max` pairs of
SOME ordering of the map's pairs with descending counts (the Go sort is
unstable, ties fall either way). -/
def IsTop (m : CountMap) (max : Nat) (s : List (Nat × Nat)) : Prop :=
  ∃ sorted, sorted.Perm m ∧ Desc sorted ∧ s = sorted.take max

/-- Before truncation the maps account for every counted query: after any
burst of accepted entries (category 1 … 5) the per-client counts add up to
`nTotal`, the per-domain counts of not-filtered queries to `nResult[1]`, of
blocked ones to `nResult[2..5]`, and the total is the sum of the categories. -/
theorem C09_top_maps_sum (es : List TopEntry) (hes : ∀ e ∈ es, 1 ≤ e.result ∧ e.result ≤ 5) :
    let u := es.foldl TopUnit.add TopUnit.new
    u.clients.total = u.nTotal ∧ u.domains.total = u.nResult 1 ∧
    u.blocked.total = u.nResult 2 + u.nResult 3 + u.nResult 4 + u.nResult 5 ∧
    u.domains.total + u.blocked.total = u.nTotal := by
  have h := topBal_adds es hes topBal_new
  refine ⟨h.clients, h.domains, h.blocked, ?_⟩
  have := h.total
  have := h.domains
  have := h.blocked
  omega

/-- What truncation to `max` names loses, whichever way ties are broken: the
kept slice has `min max (size of the map)` entries; kept and dropped pairs
together are exactly the map; the dropped counts are the difference of the
sums; no dropped count exceeds a kept one; nothing is dropped when the map has
at most `max` names. -/
theorem C09_top_truncation (m : CountMap) (max : Nat) (s : List (Nat × Nat)) (h : IsTop m max s) :
    s.length = min max m.length ∧
    ∃ dropped, (s ++ dropped).Perm m ∧ pairsTotal s + pairsTotal dropped = m.total ∧
      (∀ x ∈ s, ∀ y ∈ dropped, y.2 ≤ x.2) ∧ (m.length ≤ max → dropped = []) := by
  obtain ⟨sorted, hp, hd, rfl⟩ := h
  refine ⟨by rw [List.length_take, hp.length_eq], sorted.drop max, ?_, ?_, desc_take_drop hd max, ?_⟩
  · rw [List.take_append_drop]; exact hp
  · rw [total_take_drop]; exact perm_total hp
  · intro hle
    apply List.drop_eq_nil_of_le
    rw [hp.length_eq]; exact hle

/-- The executable `topOf` (what the driver computes) is one of the allowed outcomes. -/
theorem C09_top_model_is_top (m : CountMap) (max : Nat) : IsTop m max (topOf m max) :=
  ⟨sortDesc m, sortDesc_perm m, sortDesc_desc m, rfl⟩

/-- Consequence for a restart inside the hour (serialize, then deserialize):
the reloaded clients map accounts for at most `nTotal` queries, and for all of
them iff … at most `max` clients were seen; with more, exactly the counts of
the dropped clients are missing from the per-client view (the totals
`nTotal`/`nResult` are stored separately and are not affected). -/
theorem C09_top_restart_loses_tail (es : List TopEntry) (hes : ∀ e ∈ es, 1 ≤ e.result ∧ e.result ≤ 5)
    (max : Nat) (s : List (Nat × Nat)) (h : IsTop (es.foldl TopUnit.add TopUnit.new).clients max s) :
    pairsTotal s ≤ (es.foldl TopUnit.add TopUnit.new).nTotal ∧
    ((es.foldl TopUnit.add TopUnit.new).clients.length ≤ max →
      pairsTotal s = (es.foldl TopUnit.add TopUnit.new).nTotal) := by
  obtain ⟨_, dropped, _, hsum, _, hnil⟩ := C09_top_truncation _ max s h
  have hb := (topBal_adds es hes topBal_new).clients
  constructor
  · omega
  · intro hle
    have := hnil hle
    subst this
    simp only [pairsTotal, List.map_nil, List.sum_nil] at hsum
    simp only [pairsTotal]
    omega

/-- The top lists of the API answer.  `topsCollector` adds the per-unit lists
of the window into one map; its counts add up to the sum of the lists' counts,
whatever names repeat across hours.  Hence, for units whose lists are complete
(`IsTop` with at most `max` names, so nothing was cut when they were stored):
the collected clients add up to the sum of the units' `nTotal` — the reported
`num_dns_queries` —, the collected queried domains to the not-filtered queries
and the collected blocked domains to the four blocked categories. -/
theorem C09_top_lists_sum (bursts : List (List TopEntry))
    (hes : ∀ es ∈ bursts, ∀ e ∈ es, 1 ≤ e.result ∧ e.result ≤ 5) :
    let us := bursts.map fun es => es.foldl TopUnit.add TopUnit.new
    (collectTops (us.map (·.clients))).total = (us.map (·.nTotal)).sum ∧
    (collectTops (us.map (·.domains))).total = (us.map (·.nResult 1)).sum ∧
    (collectTops (us.map (·.blocked))).total =
      (us.map fun u => u.nResult 2 + u.nResult 3 + u.nResult 4 + u.nResult 5).sum := by
  have hbal : ∀ u ∈ bursts.map (fun es => es.foldl TopUnit.add TopUnit.new), TopBal u := by
    intro u hu
    obtain ⟨es, hes', rfl⟩ := List.mem_map.mp hu
    exact topBal_adds es (hes es hes') topBal_new
  have key : ∀ (us : List TopUnit) (f : TopUnit → CountMap) (g : TopUnit → Nat),
      (∀ u ∈ us, (f u).total = g u) → (collectTops (us.map f)).total = (us.map g).sum := by
    intro us f g h
    have h0 : CountMap.total [] = 0 := rfl
    rw [collectTops, total_collect_aux, h0, Nat.zero_add, List.map_map]
    congr 1
    apply List.map_congr_left
    intro u hu
    exact h u hu
  exact ⟨key _ _ _ (fun u hu => (hbal u hu).clients), key _ _ _ (fun u hu => (hbal u hu).domains),
    key _ _ _ (fun u hu => (hbal u hu).blocked)⟩

/-- Truncation per hour can hide a heavy name from the window's top list: with
`max = 1`, client 9 is second in two hours (2 queries each, behind clients 1 and
2 with 3 each); per hour only the first is stored, so the merged list knows
clients 1 and 2 with 3 queries and not client 9 with 4.  (With `max = 100` the
same happens to the 101st client of each hour.) -/
theorem C09_top_truncation_hides_heavy_name :
    let h1 : CountMap := [(1, 3), (9, 2)]
    let h2 : CountMap := [(2, 3), (9, 2)]
    topOf h1 1 = [(1, 3)] ∧ topOf h2 1 = [(2, 3)] ∧ (9, 2) ∉ topOf h1 1 ++ topOf h2 1 := by
  decide

/-! ### non-vacuity -/

example : ∃ es : List TopEntry, (∀ e ∈ es, 1 ≤ e.result ∧ e.result ≤ 5) ∧
    (es.foldl TopUnit.add TopUnit.new).clients.length = 3 ∧ (es.foldl TopUnit.add TopUnit.new).nTotal = 4 :=
  ⟨[⟨1, 7, 1⟩, ⟨2, 7, 2⟩, ⟨5, 8, 3⟩, ⟨1, 7, 1⟩], by decide, by decide, by decide⟩

example : IsTop [(1, 3), (9, 2), (4, 2)] 2 [(1, 3), (4, 2)] :=
  ⟨[(1, 3), (4, 2), (9, 2)], by decide, by simp [Desc], rfl⟩

end AGH.C09
