/-
C13 — config upgrade: never panics, an error leaves the file alone, a produced
document is stamped with the requested version, a current file is left alone,
the result does not depend on partial runs, settings a step does not concern
are preserved at every depth.

Property theorems only; helper lemmas are in AGH/Lemmas/Migrate*.lean.  All
statements quantify over every document, every oracle (library result), every
current and target version.  `DocLike` is the type guarantee of
`yaml.Unmarshal(body, &yobj{})`: no document (parse error), a nil map (null
document) or a map.

Independence from partial runs (`C13_path_independent`) is proved for every
document that is `ReencodeStable` — a decidable predicate over the shipped
round-trip oracle that excludes exactly what the known finding is made of (a
scalar whose re-encoding changes its type, e.g. an integral float; see
`C13_counterexample_path_float`).  The Go-typed values that steps 12, 20, 28, 29
leave in the map are handled in the proof (`inv`, `step_inv`, `step_sim`), not
assumed away.  Preservation (`C13_frame_step`, `C13_frame`, `C13_frame_paths`)
is unconditional and reaches every depth the steps touch, elements of
sequences included.  `C13_model_meets_spec` states that the model satisfies the
whole monitor `specWhy` on `ReencodeStable` cases.  The loader-acceptance clause
is not formalised.  The last block holds the obligations over the facts
regenerated from the Go source on every run.
-/
import AGH.Lemmas.MigrateFrameRun
import AGH.Model.MigrateSig
import AGH.Gen.C13Facts
namespace AGH.C13
open AGH

/-- `Migrate` before the encoding does not panic. -/
theorem C13_total_mem (o : Oracles) (parsed : Option YVal) (target : Nat) (h : DocLike parsed) :
    ∀ p s, migrateMem o parsed target ≠ .panic p s := by
  have key : ∀ es p s, migrateMem o (some (.obj es)) target ≠ .panic p s := by
    intro es p s
    rcases migrateMem_obj o es target with ⟨⟨k, hk⟩, _⟩ | ⟨hs, _, _⟩ | ⟨cur, _, hlt, h29, hu⟩
    · rw [hk]; simp
    · rw [hs]; simp
    · rw [hu]
      have := upgrade_ok o (target - cur) cur (by omega) es
      cases hup : upgrade o (target - cur) cur (.obj es) with
      | error fs =>
        obtain ⟨f, s'⟩ := fs
        rw [hup] at this
        cases f <;> simp [upgradeOutcome]
        exact this.elim
      | ok d => simp [upgradeOutcome]
  intro p s
  cases parsed with
  | none => simp [migrateMem]
  | some d =>
    cases d <;> simp [DocLike] at h
    · rw [migrateMem_null]; exact key [] p s
    · exact key _ p s

/-- **No panic.**  For every document `yaml.Unmarshal` can produce, every target
and every library result, `Migrate` does not panic. -/
theorem C13_total (o : Oracles) (parsed : Option YVal) (target : Nat) (h : DocLike parsed) :
    ∀ p s, migrate o parsed target ≠ .panic p s := by
  intro p s
  unfold migrate
  cases hm : migrateMem o parsed target with
  | up d => dsimp only; split <;> simp
  | panic p' s' => exact absurd hm (C13_total_mem o parsed target h p' s')
  | err k s' => simp
  | same => simp
  | oracle => simp

/-- **Stamped.**  A document `Migrate` produces carries the requested version. -/
theorem C13_stamped (o : Oracles) (parsed : Option YVal) (target : Nat) (d : YVal) (hd : DocLike parsed)
    (h : migrate o parsed target = .up d) : getK d kSchemaVersion = some (.int target) :=
  migrate_stamped o parsed target d hd h

/-- **Settings a step does not concern are preserved** (top level): every
top-level key outside the keys named by the steps that ran has, in the produced
document, the value it had (as YAML writes it back). -/
theorem C13_frame_top (o : Oracles) (es : List (Key × YVal)) (target cur : Nat) (d : YVal)
    (hv : versionOf (.obj es) = some cur) (h : migrate o (some (.obj es)) target = .up d) :
    ∀ k, k ∉ topKeys (touchedRange (target - cur) cur) → getK d k = (lookup k es).bind (reparse o) := by
  intro k hk
  unfold migrate at h
  cases hm : migrateMem o (some (.obj es)) target with
  | up d0 =>
    rw [hm] at h; dsimp only at h
    obtain ⟨cur', hv', _, _, ho, _, hf⟩ := migrateMem_up o es target d0 hm
    have : cur' = cur := by rw [hv] at hv'; simpa using hv'.symm
    subst this
    obtain ⟨es0, rfl⟩ := ho.elim
    cases hr : reparse o (.obj es0) with
    | none => rw [hr] at h; simp at h
    | some d1 =>
      rw [hr] at h; simp at h; subst h
      obtain ⟨es1, rfl, he⟩ := reparse_obj o es0 d1 hr
      have := hf k hk
      simp only [getK] at this ⊢
      rw [reparseEntries_lookup o _ es0 es1 he, this]
  | err k s => rw [hm] at h; simp at h
  | same => rw [hm] at h; simp at h
  | panic p s => rw [hm] at h; simp at h
  | oracle => rw [hm] at h; simp at h

/-- **Upgrading an already current file changes nothing.** -/
theorem C13_current_noop (o : Oracles) (es : List (Key × YVal)) (target : Nat)
    (hv : versionOf (.obj es) = some target) (h29 : target ≤ 29) :
    migrate o (some (.obj es)) target = .same := by
  rcases migrateMem_obj o es target with ⟨_, hn | ⟨cur, hc, hgt⟩⟩ | ⟨hs, _, _⟩ | ⟨cur, hc, hlt, _, _⟩
  · rw [hv] at hn; simp at hn
  · rw [hv] at hc; simp at hc; subst hc; omega
  · simp [migrate, hs]
  · rw [hv] at hc; simp at hc; subst hc; omega

/-- **It either fails with an error or produces a document**: a real upgrade
(`cur < target ≤ 29`) never reports "nothing to do". -/
theorem C13_error_or_upgraded (o : Oracles) (es : List (Key × YVal)) (target cur : Nat)
    (hv : versionOf (.obj es) = some cur) (hlt : cur < target) :
    migrate o (some (.obj es)) target ≠ .same := by
  intro h
  unfold migrate at h
  rcases migrateMem_obj o es target with ⟨⟨k, hk⟩, _⟩ | ⟨hs, hv', _⟩ | ⟨cur', _, _, _, hu⟩
  · rw [hk] at h; simp at h
  · rw [hv] at hv'; simp at hv'; omega
  · rw [hu] at h
    cases hr : upgrade o (target - cur') cur' (.obj es) with
    | error fs => obtain ⟨f, s⟩ := fs; rw [hr] at h; cases f <;> simp [upgradeOutcome] at h
    | ok d => rw [hr] at h; simp [upgradeOutcome] at h; split at h <;> simp at h

/-- **An error leaves the file content unchanged** (and `upgraded = false` means
the returned body is the input), for any YAML codec. -/
theorem C13_wrapper {β : Type} (o : Oracles) (decode : β → Option YVal) (encode : YVal → β)
    (body : β) (target : Nat) (r : Ret β) (h : migrateBody o decode encode body target = some r) :
    (r.err.isSome → r.body = body ∧ r.upgraded = false) ∧ (r.upgraded = false → r.body = body) := by
  unfold migrateBody at h
  cases hm : migrateMem o (decode body) target <;> rw [hm] at h <;> simp at h <;> subst h <;> simp

/-- The step an error is attributed to is one of the steps that were to run. -/
theorem C13_error_step (o : Oracles) (es : List (Key × YVal)) (target : Nat) (k : ErrK) (s : Nat)
    (h : migrate o (some (.obj es)) target = .err k s) :
    s = 0 ∨ ∃ cur, versionOf (.obj es) = some cur ∧ cur < s ∧ s ≤ target := by
  unfold migrate at h
  rcases migrateMem_obj o es target with ⟨⟨k', hk⟩, _⟩ | ⟨hs, _, _⟩ | ⟨cur, hv, hlt, h29, hu⟩
  · rw [hk] at h; simp at h; exact Or.inl h.2.symm
  · rw [hs] at h; simp at h
  · right
    rw [hu] at h
    have hup := upgrade_ok o (target - cur) cur (by omega) es
    cases hr : upgrade o (target - cur) cur (.obj es) with
    | error fs =>
      obtain ⟨f, s'⟩ := fs
      rw [hr] at h hup
      cases f with
      | err k' =>
        simp [upgradeOutcome] at h
        simp only [UpgradeOK] at hup
        exact ⟨cur, hv, by omega, by omega⟩
      | panic p => simp [upgradeOutcome] at h
      | oracle => simp [upgradeOutcome] at h
    | ok d => rw [hr] at h; simp [upgradeOutcome] at h; split at h <;> simp at h

/-- **No panic in partial runs either**: upgrading to `k` and then, from the
re-read file, to `target` does not panic at any stage. -/
theorem C13_total_split (o : Oracles) (parsed : Option YVal) (target k : Nat) (h : DocLike parsed) :
    ∀ p s, (splitRun o parsed target k).2 ≠ .panic p s := by
  intro p s
  unfold splitRun
  cases h1 : migrate o parsed k with
  | same => exact C13_total o parsed target h p s
  | up d1 =>
    obtain ⟨es1, rfl, _⟩ := migrate_up_obj o parsed k d1 h h1
    have h2 := C13_total o (some (.obj es1)) target trivial p s
    dsimp only
    cases h2' : migrate o (some (.obj es1)) target <;> simp_all
  | err k' s' => simp
  | panic p' s' => exact absurd h1 (C13_total o parsed k h p' s')
  | oracle => simp

/-! ### The model meets the spec (core clauses) -/

/-- **The model satisfies the spec's core clauses on every case**: in the model's
own observation of one run, the single-step run and every partial-run pair, nothing
panics, errors leave the file unchanged, every produced document carries the
requested stamp, a current file is left alone and a real upgrade fails or produces
a document.  (The partial-run and the nested preservation clauses of `specWhy` are
not covered, see the header.) -/
theorem C13_model_meets_spec_core (o : Oracles) (c : Case) (hd : DocLike c.parsed) :
    coreWhy c (modelObs o c) = none := by
  have hpan : firstSome Res.panicWhy (allRes (modelObs o c)) = none := by
    apply firstSome_none
    intro x hx
    simp only [allRes, modelObs, modelOutcomes, List.mem_cons, List.mem_append, List.mem_map] at hx
    rcases hx with rfl | hx | ⟨a, ⟨b, ⟨k, _, rfl⟩, rfl⟩, rfl⟩
    · exact toRes_panicWhy _ (C13_total o c.parsed c.target hd)
    · cases hst : c.stepTarget with
      | none => simp [hst] at hx
      | some t =>
        simp [hst] at hx; subst hx
        exact toRes_panicWhy _ (C13_total o c.parsed t hd)
    · exact toRes_panicWhy _ (C13_total_split o c.parsed c.target k hd)
  have hwrap : (allRes (modelObs o c)).all Res.wrapperOK = true := by
    rw [List.all_eq_true]
    intro x hx
    simp only [allRes, modelObs, modelOutcomes, List.mem_cons, List.mem_append, List.mem_map] at hx
    rcases hx with rfl | hx | ⟨a, ⟨b, _, rfl⟩, rfl⟩
    · exact toRes_wrapperOK _
    · cases hst : c.stepTarget with
      | none => simp [hst] at hx
      | some t => simp [hst] at hx; subst hx; exact toRes_wrapperOK _
    · exact toRes_wrapperOK _
  have hstamp1 : (modelObs o c).one.stampOK c.target = true := migrate_stampOK o c.parsed c.target hd
  have hstamp2 : (modelObs o c).splits.all (fun s => s.2.stampOK c.target) = true := by
    rw [List.all_eq_true]
    intro x hx
    simp only [modelObs, modelOutcomes, List.mem_map] at hx
    obtain ⟨b, ⟨k, _, rfl⟩, rfl⟩ := hx
    exact splitRun_stampOK o c.parsed c.target k hd
  have hstamp : stampsOK c (modelObs o c) = true := by
    unfold stampsOK
    rw [hstamp1, hstamp2]
    cases hst : c.stepTarget with
    | none => simp
    | some t => simp [modelObs, modelOutcomes, hst]; exact migrate_stampOK o c.parsed t hd
  unfold coreWhy
  simp only [hpan, hwrap, hstamp, Bool.not_true, Bool.false_eq_true, if_false]
  cases hcv : caseVersion c with
  | none => rfl
  | some dc =>
    obtain ⟨din0, cur⟩ := dc
    unfold caseVersion at hcv
    cases hp : c.parsed with
    | none => simp [hp] at hcv
    | some d0 =>
      simp only [hp] at hcv hd
      cases hv : versionOf d0 with
      | none => simp [hv] at hcv
      | some cur' =>
        simp only [hv] at hcv
        split at hcv
        · simp at hcv
        · rename_i hrange
          simp at hcv hrange
          obtain ⟨rfl, rfl⟩ := hcv
          -- the decoded document is a map (a null document is the empty map)
          have hobj : ∃ es, versionOf (.obj es) = some cur' ∧
              ∀ t, migrate o (some d0) t = migrate o (some (.obj es)) t := by
            cases d0 <;> simp [DocLike] at hd
            · exact ⟨[], by simpa [versionOf, lookupE] using hv, fun t => migrate_null o t⟩
            · exact ⟨_, hv, fun _ => rfl⟩
          obtain ⟨es, hves, hmig⟩ := hobj
          dsimp only
          by_cases heq : cur' = c.target
          · have := C13_current_noop o es c.target (heq ▸ hves) (by omega)
            simp [heq, modelObs, modelOutcomes, hp, hmig, this, Outcome.toRes]
          · have hne := C13_error_or_upgraded o es c.target cur' hves (by omega)
            have hbeq : (cur' == c.target) = false := by simp [heq]
            simp only [hbeq, Bool.false_eq_true, if_false]
            simp only [modelObs, modelOutcomes, hp, hmig]
            cases hm : migrate o (some (.obj es)) c.target <;> simp [Outcome.toRes]
            exact hne hm

/-! ### One run or several partial runs -/

/-- **Independence from partial runs, under an explicit hypothesis.**  If the
document in memory after the steps up to `k` is read back unchanged after being
written (`reparse o dk = some dk`: no step so far left a Go-typed value in the
map and no scalar changes its type when re-encoded), then upgrading to `k`,
re-reading the file and upgrading to `target` gives exactly the result of the
single run — same document, same error, same failing step.  So the result can
depend on partial runs only through a value that re-encoding changes; the
unconditional statement is false (`C13_counterexample_path_float`) and, for the
Go-typed values of steps 12, 20, 28 and 29, is checked on the implementation by
the spec monitor and the correspondence only. -/
theorem C13_path_independent_partial (o : Oracles) (es : List (Key × YVal)) (cur k target : Nat) (dk : YVal)
    (hv : versionOf (.obj es) = some cur) (hck : cur < k) (hkt : k < target) (h29 : target ≤ 29)
    (hk : upgrade o (k - cur) cur (.obj es) = .ok dk) (hgen : reparse o dk = some dk) :
    splitRun o (some (.obj es)) target k = (2, migrate o (some (.obj es)) target) := by
  -- the first partial run produces `dk`, stamped `k`
  have hup := upgrade_ok o (k - cur) cur (by omega) es
  rw [hk] at hup
  obtain ⟨ho, hs, _⟩ := hup
  obtain ⟨esk, rfl⟩ := ho.elim
  have hsk : lookup kSchemaVersion esk = some (.int k) := by
    have := hs (by omega)
    simp only [getK] at this
    rw [this]; congr 2; omega
  have hvk : versionOf (.obj esk) = some k := by
    simp [versionOf, lookupE_eq_lookup, stampKey, hsk]
  have h1 : migrate o (some (.obj es)) k = .up (.obj esk) := by
    simp only [migrate, migrateMem_run o es cur k hv hck (by omega), hk, upgradeOutcome, hgen]
  -- the second partial run continues where the single run is after step `k`
  have hone : migrateMem o (some (.obj es)) target = migrateMem o (some (.obj esk)) target := by
    rw [migrateMem_run o es cur target hv (by omega) h29, migrateMem_run o esk k target hvk hkt h29]
    have hsum : target - cur = (k - cur) + (target - k) := by omega
    rw [hsum, upgrade_append, hk]
    have : cur + (k - cur) = k := by omega
    rw [this]
  have h2 : migrate o (some (.obj esk)) target = migrate o (some (.obj es)) target := by
    simp only [migrate, hone]
  have hne := C13_error_or_upgraded o esk target k hvk hkt
  simp only [splitRun, h1, h2] at hne ⊢
  cases hm : migrate o (some (.obj es)) target with
  | same => exact absurd hm hne
  | up d => rfl
  | err k' s' => rfl
  | panic p s => rfl
  | oracle => rfl

/-- **Independence from partial runs.**  For every document that holds no scalar whose
re-encoding changes its type (`ReencodeStable`, decidable over the shipped round-trip
oracle: it excludes exactly what the known finding is made of, e.g. an integral
float) and every split point `cur ≤ k ≤ target ≤ 29`: upgrading to `k`, writing the
file, reading it back and upgrading to `target` gives exactly the result of the single
run — the same document, or the same error at the same step.  The Go-typed values that
steps 12, 20, 28 and 29 leave in the map (`timeutil.Duration`, `UpstreamMode`,
`[]string`) are part of the proof: `inv` states where they may sit, every step keeps
it (`step_inv`), and no step asks for a string or a sequence there (`step_sim`). -/
theorem C13_path_independent (o : Oracles) (es : List (Key × YVal)) (cur k target : Nat)
    (hv : versionOf (.obj es) = some cur) (hck : cur ≤ k) (hkt : k ≤ target) (h29 : target ≤ 29)
    (hst : ReencodeStable o (.obj es) = true) (hf : FmtTotal o) :
    (splitRun o (some (.obj es)) target k).2 = migrate o (some (.obj es)) target := by
  have hinv : inv o (.obj es) = true := inv_of_clean o es hst
  by_cases hk0 : cur = k
  · -- nothing to do in the first run
    subst hk0
    simp [splitRun, C13_current_noop o es cur hv (by omega)]
  have hck' : cur < k := by omega
  -- the first partial run
  have hm1 : migrateMem o (some (.obj es)) k = upgradeOutcome (upgrade o (k - cur) cur (.obj es)) :=
    migrateMem_run o es cur k hv hck' (by omega)
  cases hup : upgrade o (k - cur) cur (.obj es) with
  | error fs =>
    -- it fails: so does the single run, at the same step
    obtain ⟨f, s⟩ := fs
    have hone : migrateMem o (some (.obj es)) target = upgradeOutcome (.error (f, s)) := by
      rw [migrateMem_run o es cur target hv (by omega) h29]
      have : target - cur = (k - cur) + (target - k) := by omega
      rw [this, upgrade_append, hup]
    have h1 : migrate o (some (.obj es)) k = upgradeOutcome (.error (f, s)) := by
      simp only [migrate, hm1, hup]; cases f <;> simp [upgradeOutcome]
    have h2 : migrate o (some (.obj es)) target = upgradeOutcome (.error (f, s)) := by
      simp only [migrate, hone]; cases f <;> simp [upgradeOutcome]
    rw [h2]
    simp only [splitRun, h1]
    cases f <;> simp [upgradeOutcome]
  | ok dk =>
    have hupok := upgrade_ok o (k - cur) cur (by omega) es
    rw [hup] at hupok
    obtain ⟨ho, hs, _⟩ := hupok
    obtain ⟨esk, rfl⟩ := ho.elim
    have hik : inv o (.obj esk) = true := upgrade_inv o (k - cur) cur (by omega) es hinv _ hup
    have hsk : lookup kSchemaVersion esk = some (.int k) := by
      have := hs (by omega); simp only [getK] at this; rw [this]; congr 2; omega
    have hrp : reparse o (.obj esk) = some (er o (.obj esk)) := reparse_inv o hf _ hik
    have h1 : migrate o (some (.obj es)) k = .up (er o (.obj esk)) := by
      simp only [migrate, hm1, hup, upgradeOutcome, hrp]
    have hvk : versionOf (.obj esk) = some k := by simp [versionOf, lookupE_eq_lookup, stampKey, hsk]
    have hvk' : versionOf (er o (.obj esk)) = some k := versionOf_er o esk k hsk
    by_cases hkt0 : k = target
    · -- nothing to do in the second run
      subst hkt0
      have hs2 : migrate o (some (er o (.obj esk))) k = .same := by
        rw [er_obj] at hvk' ⊢
        exact C13_current_noop o _ k hvk' h29
      simp only [splitRun, h1, hs2]
    · have hkt' : k < target := by omega
      have hce : clean o (er o (.obj esk)) = true := clean_er_inv o _ hik
      rw [er_obj] at hce hvk'
      have hie : inv o (.obj (erEnts o esk)) = true := inv_of_clean o _ hce
      -- the single run continues from `esk`, the second partial run from what is read back
      have hone : migrateMem o (some (.obj es)) target = upgradeOutcome (upgrade o (target - k) k (.obj esk)) := by
        rw [migrateMem_run o es cur target hv (by omega) h29]
        have : target - cur = (k - cur) + (target - k) := by omega
        rw [this, upgrade_append, hup]
        have : cur + (k - cur) = k := by omega
        rw [this]
      have htwo : migrateMem o (some (.obj (erEnts o esk))) target =
          upgradeOutcome (upgrade o (target - k) k (.obj (erEnts o esk))) :=
        migrateMem_run o _ k target hvk' hkt' h29
      have hsim := upgrade_sim o (target - k) k (by omega) esk (erEnts o esk) hik hie
        (by simp [erEnts_idem])
      have hne := C13_error_or_upgraded o (erEnts o esk) target k hvk' hkt'
      have h2eq : migrate o (some (.obj (erEnts o esk))) target = migrate o (some (.obj es)) target := by
        simp only [migrate, hone, htwo]
        cases ha : upgrade o (target - k) k (.obj esk) with
        | error fa =>
          cases hb : upgrade o (target - k) k (.obj (erEnts o esk)) with
          | error fb =>
            rw [ha, hb] at hsim; simp only [USim] at hsim; subst hsim
            rfl
          | ok b => rw [ha, hb] at hsim; exact hsim.elim
        | ok a =>
          cases hb : upgrade o (target - k) k (.obj (erEnts o esk)) with
          | error fb => rw [ha, hb] at hsim; exact hsim.elim
          | ok b =>
            rw [ha, hb] at hsim
            obtain ⟨he, hia, hib⟩ := hsim
            simp only [upgradeOutcome, reparse_inv o hf a hia, reparse_inv o hf b hib, he]
      simp only [splitRun, h1, er_obj]
      rw [h2eq] at hne
      cases hm : migrate o (some (.obj es)) target <;> simp_all


/-- **The model never raises the monitor's `path-dependent` alarm** outside the known class:
on every case whose document is `ReencodeStable`, the partial-run clause of the spec holds
of the model's own observation, for every list of split points. -/
theorem C13_model_meets_spec_path (o : Oracles) (c : Case) (hd : DocLike c.parsed) (hf : FmtTotal o)
    (hst : ∀ d, c.parsed = some d → ReencodeStable o d = true) :
    pathWhy o c (modelObs o c) = none := by
  unfold pathWhy
  cases hcv : caseVersion c with
  | none => rfl
  | some dc =>
    obtain ⟨din0, cur⟩ := dc
    unfold caseVersion at hcv
    cases hp : c.parsed with
    | none => simp [hp] at hcv
    | some d0 =>
      simp only [hp] at hcv hd
      cases hv : versionOf d0 with
      | none => simp [hv] at hcv
      | some cur' =>
        simp only [hv] at hcv
        split at hcv
        · simp at hcv
        · rename_i hrange
          simp at hcv hrange
          obtain ⟨rfl, rfl⟩ := hcv
          have hst0 := hst d0 hp
          -- the decoded document is a map (a null document is the empty map)
          have hobj : ∃ es, versionOf (.obj es) = some cur' ∧ ReencodeStable o (.obj es) = true ∧
              ∀ t, migrate o (some d0) t = migrate o (some (.obj es)) t := by
            cases d0 <;> simp [DocLike] at hd
            · exact ⟨[], by simpa [versionOf, lookupE] using hv, rfl, fun t => migrate_null o t⟩
            · exact ⟨_, hv, hst0, fun _ => rfl⟩
          obtain ⟨es, hves, hstes, hmig⟩ := hobj
          dsimp only
          by_cases heq : (cur' == c.target) = true
          · simp [heq]
          · simp only [heq, Bool.false_eq_true, if_false]
            have hall : ((c.ks.zip (modelObs o c).splits).all fun ks =>
                decide (ks.1 < cur') || decide (ks.1 > c.target) || splitOK (modelObs o c).one ks.2) = true := by
              simp only [modelObs, modelOutcomes, List.map_map]
              rw [zip_map_all]
              rw [List.all_eq_true]
              intro k _
              by_cases h1 : k < cur'
              · simp [h1]
              · by_cases h2 : k > c.target
                · simp [h2]
                · have hpi := C13_path_independent o es cur' k c.target hves (by omega) (by omega) hrange.2
                    hstes hf
                  have hsplit : splitRun o (some d0) c.target k = splitRun o (some (.obj es)) c.target k := by
                    simp only [splitRun, hmig]
                  have hnp := C13_total o (some (.obj es)) c.target trivial
                  simp only [Function.comp, hp, hsplit, hpi, hmig, h1, h2, decide_false, Bool.false_or]
                  cases hm : migrate o (some (.obj es)) c.target with
                  | up d => simp [Outcome.toRes, splitOK, YVal.eq_self_beq]
                  | err k' s' => simp [Outcome.toRes, splitOK]
                  | same => simp [Outcome.toRes, splitOK]
                  | oracle => simp [Outcome.toRes, splitOK]
                  | panic p s => exact absurd hm (hnp p s)
            simp [hall]

/-! ### Settings a step does not concern are preserved, at every depth -/

/-- **Frame of one step**, unconditionally (every document, every oracle): what is read back of
the result of `migrateTo<n>` differs from what is read back of its input only on the paths
`touched n` — below the top level too (fields of `dns`, `dhcp`, `querylog`, …, of every element
of `clients` / `clients.persistent`), and no key appears that the step does not concern. -/
theorem C13_frame_step (o : Oracles) (n : Nat) (h1 : 1 ≤ n) (h29 : n ≤ 29) (es : List (Key × YVal)) (d : YVal)
    (h : step o n (.obj es) = .ok d) :
    frameOK (touched n) (er o (.obj es)) (some (er o d)) = true := by
  have := step_frame o n h1 h29 es
  rw [h] at this
  exact this

/-- **Frame of `upgradeConfigSchema`**: the steps `cur+1 … cur+cnt` together change only what
one of them concerns. -/
theorem C13_frame (o : Oracles) (cnt cur : Nat) (h29 : cur + cnt ≤ 29) (es : List (Key × YVal)) (d : YVal)
    (h : upgrade o cnt cur (.obj es) = .ok d) :
    frameOK (touchedRange cnt cur) (er o (.obj es)) (some (er o d)) = true :=
  upgrade_frame o cnt cur h29 es d h

/-- **`path ∉ touched ⇒ get path (step d) = get path d`**: every path of keys that is not on a
branch with a path the step concerns reads the same before and after the step. -/
theorem C13_frame_paths (o : Oracles) (n : Nat) (h1 : 1 ≤ n) (h29 : n ≤ 29) (es : List (Key × YVal)) (d : YVal)
    (h : step o n (.obj es) = .ok d) (ks : List Key)
    (hd : ∀ q ∈ touched n, onBranch q (ks.map pk) = false) :
    getKeys (er o d) ks = getKeys (er o (.obj es)) ks :=
  frameV_getKeys (touched n) _ _ (C13_frame_step o n h1 h29 es d h) ks hd

/-- **Frame as the monitor sees it**: for a `ReencodeStable` file, the document `Migrate`
produces differs from the decoded input only on the paths the executed steps concern. -/
theorem C13_frame_observed (o : Oracles) (es : List (Key × YVal)) (target : Nat) (d : YVal)
    (hst : ReencodeStable o (.obj es) = true) (hf : FmtTotal o) (h : migrate o (some (.obj es)) target = .up d) :
    ∃ cur, versionOf (.obj es) = some cur ∧
      frameOK (touchedRange (target - cur) cur) (.obj es) (some d) = true := by
  obtain ⟨cur, hv, _, _, hfr⟩ := migrate_frame o es target d hst hf h
  exact ⟨cur, hv, hfr⟩

/-- **The model never raises the monitor's `setting-lost` alarms** outside the known class. -/
theorem C13_model_meets_spec_frame (o : Oracles) (c : Case) (hd : DocLike c.parsed) (hf : FmtTotal o)
    (hst : ∀ d, c.parsed = some d → ReencodeStable o d = true) :
    frameWhy o c (modelObs o c) = none := by
  unfold frameWhy
  cases hcv : caseVersion c with
  | none => rfl
  | some dc =>
    obtain ⟨din0, cur⟩ := dc
    unfold caseVersion at hcv
    cases hp : c.parsed with
    | none => simp [hp] at hcv
    | some d0 =>
      simp only [hp] at hcv hd
      cases hv : versionOf d0 with
      | none => simp [hv] at hcv
      | some cur' =>
        simp only [hv] at hcv
        split at hcv
        · simp at hcv
        · rename_i hrange
          simp at hcv hrange
          obtain ⟨rfl, rfl⟩ := hcv
          have hst0 := hst d0 hp
          have hobj : ∃ es, versionOf (.obj es) = some cur' ∧ ReencodeStable o (.obj es) = true ∧
              frameInput o d0 = .obj es ∧ ∀ t, migrate o (some d0) t = migrate o (some (.obj es)) t := by
            cases d0 <;> simp [DocLike] at hd
            · refine ⟨[], by simpa [versionOf, lookupE] using hv, rfl, ?_, fun t => migrate_null o t⟩
              simp [frameInput, reparse, reparseEntries]
            · rename_i es
              exact ⟨es, hv, hst0, by simp [frameInput, reparse_clean o _ hst0], fun _ => rfl⟩
          obtain ⟨es, hves, hstes, hin, hmig⟩ := hobj
          dsimp only
          by_cases heq : (cur' == c.target) = true
          · simp [heq]
          · simp only [heq, Bool.false_eq_true, if_false, hin]
            have hstep : stepFrameBad c (modelObs o c) cur' (.obj es) = false := by
              unfold stepFrameBad
              cases hst' : c.stepTarget with
              | none => simp [modelObs, modelOutcomes, hst']
              | some t =>
                simp only [modelObs, modelOutcomes, hst', hp, hmig, Option.map]
                cases hm : migrate o (some (.obj es)) t with
                | up d =>
                  simp only [Outcome.toRes]
                  by_cases ht : t = cur' + 1
                  · obtain ⟨cur, hv2, hlt, h29, hfr⟩ := migrate_frame o es t d hstes hf hm
                    have : cur = cur' := by rw [hves] at hv2; simpa using hv2.symm
                    subst this
                    have h1 : t - cur = 1 := by omega
                    rw [h1] at hfr
                    simp only [touchedRange, List.append_nil] at hfr
                    subst ht
                    simp [frameOK, hfr]
                  · simp [ht]
                | err k s => simp [Outcome.toRes]
                | same => simp [Outcome.toRes]
                | panic p s => simp [Outcome.toRes]
                | oracle => simp [Outcome.toRes]
            have hone : oneFrameBad c (modelObs o c) cur' (.obj es) = false := by
              unfold oneFrameBad
              simp only [modelObs, modelOutcomes, hp, hmig]
              cases hm : migrate o (some (.obj es)) c.target with
              | up d =>
                obtain ⟨cur, hv2, _, _, hfr⟩ := migrate_frame o es c.target d hstes hf hm
                have : cur = cur' := by rw [hves] at hv2; simpa using hv2.symm
                subst this
                simp [Outcome.toRes, frameOK, hfr]
              | err k s => simp [Outcome.toRes]
              | same => simp [Outcome.toRes]
              | panic p s => simp [Outcome.toRes]
              | oracle => simp [Outcome.toRes]
            simp [hstep, hone]

/-- **The model satisfies the whole spec**: on every case whose document `yaml.Unmarshal` can
produce and that is `ReencodeStable` (the known finding excluded), every clause of the monitor
`specWhy` — no panic, error leaves the file, stamp, no-op, error-or-document, one run or
partial runs, settings preserved at every depth — holds of the model's own observation.  So an
alarm of the monitor on behaviour that agrees with the model is impossible outside that class. -/
theorem C13_model_meets_spec (o : Oracles) (c : Case) (hd : DocLike c.parsed) (hf : FmtTotal o)
    (hst : ∀ d, c.parsed = some d → ReencodeStable o d = true) :
    specOK o c (modelObs o c) = true := by
  simp [specOK, specWhy, C13_model_meets_spec_core o c hd, C13_model_meets_spec_path o c hd hf hst,
    C13_model_meets_spec_frame o c hd hf hst]

/-! ### The partial-run clause fails on an integral float -/

/-- Oracles of the witness: `86400.0` is written back as `86400`. -/
def floatOracles : Oracles :=
  { fmtDays := fun _ => some [], fmtHours := fun _ => some [], addrOK := fun _ => none,
    addrPort := fun _ _ => none, quic := fun _ => none, ufPattern := [],
    rt := fun _ _ => some (.int 86400) }

/-- `schema_version: 5`, `dhcp: {lease_duration: 86400.0}` -/
def floatDoc : YVal :=
  .obj [(kSchemaVersion, .int 5), (kDhcp, .obj [(kLeaseDuration, .opaque 1 [])])]

/-- **Counterexample to independence from partial runs** (model and code agree on
it): in one run the upgrade to 29 fails at step 7 ("unexpected type float64"),
after a partial run to 6 it succeeds. -/
theorem C13_counterexample_path_float :
    migrate floatOracles (some floatDoc) 29 = .err .type 7 ∧
    ∃ d, splitRun floatOracles (some floatDoc) 29 6 = (2, .up d) := by
  refine ⟨rfl, _, rfl⟩

/-! ### Obligations over the facts regenerated from the Go source (translator tie)

`AGH/Gen/C13Facts.lean` is rewritten from `internal/configmigrate` on every run;
the statements below are re-checked against what the code says now. -/

/-- The step table of `upgradeConfigSchema` is complete and in order:
`upgrades[i]` is `migrateTo<i+1>` for `i = 0 … LastSchemaVersion-1`, and
`LastSchemaVersion` is the model's. -/
theorem C13_gen_step_table :
    Gen.C13.lastSchemaVersion = lastSchemaVersion ∧
    Gen.C13.stepTable = (List.range Gen.C13.lastSchemaVersion).map (fun i => (i, i + 1)) := by
  decide +kernel

/-- Every `migrateTo<N>` writes the stamp exactly once, as its first statement,
with the value `N`; no other function assigns it; and no `moveVal`, `moveSameVal`
or `delete` names that key. -/
theorem C13_gen_stamps :
    Gen.C13.stamps = (List.range Gen.C13.lastSchemaVersion).map (fun i => (i + 1, 0, i + 1)) ∧
    (∀ a ∈ Gen.C13.accesses, a.2.1 ≠ 0 → a.2.2.2.1 ≠ kSchemaVersion ∧ a.2.2.2.2 ≠ kSchemaVersion) ∧
    (∀ d ∈ Gen.C13.deletes, d.2 ≠ kSchemaVersion) := by
  decide +kernel

/-- Every typed read uses a type a decoded YAML value can have (`int`, `string`,
`bool`, `yobj`, `yarr`, `any`, or the helper's own type parameter): no step
depends on a Go-typed value left in the map by an earlier step. -/
theorem C13_gen_reads_generic : ∀ a ∈ Gen.C13.accesses, a.2.2.1 ≤ 5 ∨ a.2.2.1 = 7 := by
  decide +kernel

/-- The reads, moves, deletes and key lists of the Go source are exactly the
ones the model was written against. -/
theorem C13_gen_accesses :
    Gen.C13.accesses = accessSig ∧ Gen.C13.deletes = deleteSig ∧ Gen.C13.strLists = strListSig := by
  decide +kernel

/-- The signature's `errors.Join(moveVal…)` rows are the move lists the model executes. -/
theorem C13_sig_moves :
    (accessSig.filter (fun a => a.1 == 7 && a.2.1 == 2)).map (fun a => (a.2.2.1, a.2.2.2.1)) =
      v7Moves.map (fun m => ((match m.1 with | .int => 0 | .str => 1 | .bool => 2 | .obj => 3 | .arr => 4 | .any => 5), m.2.1)) ∧
    (accessSig.filter (fun a => a.1 == 15 && a.2.1 == 1)).map (fun a => (a.2.2.1, a.2.2.2.1, a.2.2.2.2)) =
      v15Moves.map (fun m => ((match m.1 with | .int => 0 | .str => 1 | .bool => 2 | .obj => 3 | .arr => 4 | .any => 5), m.2.1, m.2.2)) ∧
    (accessSig.filter (fun a => a.1 == 24 && a.2.1 == 1)).map (fun a => (a.2.2.1, a.2.2.2.1, a.2.2.2.2)) =
      v24Moves.map (fun m => ((match m.1 with | .int => 0 | .str => 1 | .bool => 2 | .obj => 3 | .arr => 4 | .any => 5), m.2.1, m.2.2)) ∧
    (accessSig.filter (fun a => a.1 == 26 && a.2.1 == 2)).map (fun a => (a.2.2.1, a.2.2.2.1)) =
      v26Moves.map (fun m => ((match m.1 with | .int => 0 | .str => 1 | .bool => 2 | .obj => 3 | .arr => 4 | .any => 5), m.2.1)) := by
  decide +kernel

/-- Every syntactic panic site of the package (map write, index and slice
expression, unchecked type assertion, `panic` call, integer division) is under
a guard the extractor recognised. -/
theorem C13_gen_panic_sites_guarded : ∀ s ∈ Gen.C13.panicSites, s.2.2.1 ≠ 0 := by
  decide +kernel

/-- The two repairs the no-panic theorem rests on are present in the source:
`fieldVal` reports a null object as absent, `Migrate` replaces a nil document. -/
theorem C13_gen_repairs_present :
    Gen.C13.fieldValNullObjAbsent = true ∧ Gen.C13.migrateNilDocGuard = true := by
  decide

/-! ### Non-vacuity -/

/-- A version-11 file with a null `dns` section (the former nil-map panic): upgraded, stamped 29. -/
example : ∃ d, migrate ⟨fun _ => some [], fun _ => some [], fun _ => none, fun _ _ => none, fun _ => none, [],
      fun _ _ => none⟩ (some (.obj [(kSchemaVersion, .int 11), (kDns, .null)])) 29 = .up d := by
  exact ⟨_, rfl⟩

/-- A type error in a later step: the upgrade fails at step 7 and says so. -/
example : migrate floatOracles (some (.obj [(kSchemaVersion, .int 6),
    (kDhcp, .obj [(kLeaseDuration, .str [120])])])) 29 = .err .type 7 := rfl

/-- `C13_frame_top` has content: a version-28 file keeps its `os` section through step 29,
which concerns only `schema_version` and `filtering`. -/
example : ∃ d, migrate floatOracles (some (.obj [(kSchemaVersion, .int 28), (kOs, .int 5),
      (kFilters, .arr []), (kFiltering, .obj [])])) 29 = .up d ∧ getK d kOs = some (.int 5) ∧
    kOs ∉ topKeys (touchedRange (29 - 28) 28) := by
  refine ⟨_, rfl, rfl, by decide⟩

/-- A current file: `C13_current_noop` applies. -/
example : migrate floatOracles (some (.obj [(kSchemaVersion, .int 29)])) 29 = .same := rfl

/-- Oracles under which every non-generic scalar is read back as itself. -/
def idOracles : Oracles :=
  { fmtDays := fun n => some [100, 48 + n.toNat % 10], fmtHours := fun _ => some [104], addrOK := fun _ => some true,
    addrPort := fun _ _ => some [49], quic := fun s => some s, ufPattern := [47, 42],
    rt := fun k p => some (.opaque k p) }

/-- A version-11 file with a float and a timestamp among its settings: it goes through the steps
that leave Go-typed values in the map (12, 20, 28, 29) and the one that moves one (15). -/
def doc11 : YVal :=
  .obj [(kSchemaVersion, .int 11),
    (kDns, .obj [(kQuerylogInterval, .int 7), (kAllServers, .bool true), (kUpstreamDns, .arr [.str [97]]),
      ([120], .opaque 1 [49, 46, 53])]),
    (kStatistics, .obj [(kInterval, .int 2)]),
    (kFilters, .arr [.obj [(kUrl, .str [47, 97])]]),
    (kFiltering, .obj []),
    ([121], .opaque 3 [50])]

/-- `ReencodeStable` holds of a concrete non-trivial document, `FmtTotal` of concrete oracles … -/
example : ReencodeStable idOracles doc11 = true ∧ FmtTotal idOracles ∧ versionOf doc11 = some 11 :=
  ⟨by decide, fun _ => rfl, by decide⟩

/-- … the upgrade of that document succeeds, with a Duration moved to `querylog.interval` and
written back as a string, … -/
example : (match migrate idOracles (some doc11) 29 with
    | .up d => getKeys d [kQuerylog, kInterval] == some (.str [100, 55]) &&
        getKeys d [kDns, kUpstreamMode] == some (.str sParallel)
    | _ => false) = true := by decide +kernel

/-- … and `C13_path_independent` applies to it at a split point after the first typed value is created. -/
example : (splitRun idOracles (some doc11) 29 13).2 = migrate idOracles (some doc11) 29 :=
  C13_path_independent idOracles _ 11 13 29 (by decide) (by decide) (by decide) (by decide) (by decide)
    (fun _ => rfl)

/-- `C13_frame_paths` has content: step 12 concerns `dns.querylog_interval`; the float next to it and
the timestamp at the top level read the same afterwards. -/
example : (match step idOracles 12 doc11 with
    | .ok d => getKeys (er idOracles d) [kDns, [120]] == some (.opaque 1 [49, 46, 53])
    | _ => false) = true ∧
    (∀ q ∈ touched 12, onBranch q ([kDns, [120]].map pk) = false) := ⟨by decide +kernel, by decide⟩

/-- The hypotheses of `C13_path_independent_partial` hold for a real run (version 1 to 3, then on to 5). -/
example : versionOf (.obj [(kSchemaVersion, .int 1), (kOs, .int 5)]) = some 1 ∧
    ∃ dk, upgrade floatOracles (3 - 1) 1 (.obj [(kSchemaVersion, .int 1), (kOs, .int 5)]) = .ok dk ∧
      reparse floatOracles dk = some dk :=
  ⟨by decide, _, rfl, rfl⟩

/-- `DocLike` and `versionOf` hypotheses are satisfiable together with a real upgrade. -/
example : DocLike (some (.obj [(kSchemaVersion, .int 28)])) ∧
    versionOf (.obj [(kSchemaVersion, .int 28)]) = some 28 := ⟨trivial, by decide⟩

end AGH.C13
