import AGH.Spec.Migrate
namespace AGH.C13

theorem C13_placeholder : lastSchemaVersion = 29 := rfl

end AGH.C13
