/-
C13 — config upgrade: never panics, an error leaves the file alone, a produced
document is stamped with the requested version, a current file is left alone,
top-level settings a step does not concern are preserved.

Property theorems only; helper lemmas are in AGH/Lemmas/Migrate*.lean.  All
statements quantify over every document, every oracle (library result), every
current and target version.  `DocLike` is the type guarantee of
`yaml.Unmarshal(body, &yobj{})`: no document (parse error), a nil map (null
document) or a map.

Not proved here (checked by the spec monitor on the implementation's outputs
and by the model/implementation correspondence only): independence of the
result from partial runs (`pathWhy`) for all documents, and preservation of
unconcerned settings below the top level (`frameWhy`).  The one-run/partial-run
clause is FALSE for documents holding an integral float, see
`C13_counterexample_path_float`.
-/
import AGH.Lemmas.MigrateRun
import AGH.Model.MigrateSig
import AGH.Gen.C13Facts
namespace AGH.C13
open AGH

/-- A null document is treated like an empty one. -/
theorem migrateMem_null (o : Oracles) (target : Nat) :
    migrateMem o (some .null) target = migrateMem o (some (.obj [])) target := rfl

/-- `Migrate` before the encoding does not panic. -/
theorem C13_total_mem (o : Oracles) (parsed : Option YVal) (target : Nat) (h : DocLike parsed) :
    ∀ p s, migrateMem o parsed target ≠ .panic p s := by
  have key : ∀ es p s, migrateMem o (some (.obj es)) target ≠ .panic p s := by
    intro es p s
    rcases migrateMem_obj o es target with ⟨⟨k, hk⟩, _⟩ | ⟨hs, _, _⟩ | ⟨cur, _, hlt, h29, hu⟩
    · rw [hk]; simp
    · rw [hs]; simp
    · rw [hu]
      have := upgrade_ok o (target - cur) cur (by omega) es
      cases hup : upgrade o (target - cur) cur (.obj es) with
      | error fs =>
        obtain ⟨f, s'⟩ := fs
        rw [hup] at this
        cases f <;> simp [upgradeOutcome]
        exact this.elim
      | ok d => simp [upgradeOutcome]
  intro p s
  cases parsed with
  | none => simp [migrateMem]
  | some d =>
    cases d <;> simp [DocLike] at h
    · rw [migrateMem_null]; exact key [] p s
    · exact key _ p s

/-- **No panic.**  For every document `yaml.Unmarshal` can produce, every target
and every library result, `Migrate` does not panic. -/
theorem C13_total (o : Oracles) (parsed : Option YVal) (target : Nat) (h : DocLike parsed) :
    ∀ p s, migrate o parsed target ≠ .panic p s := by
  intro p s
  unfold migrate
  cases hm : migrateMem o parsed target with
  | up d => dsimp only; split <;> simp
  | panic p' s' => exact absurd hm (C13_total_mem o parsed target h p' s')
  | err k s' => simp
  | same => simp
  | oracle => simp

/-- The in-memory document `Migrate` encodes: a map, stamped, top-level frame. -/
theorem migrateMem_up (o : Oracles) (es : List (Key × YVal)) (target : Nat) (d : YVal)
    (h : migrateMem o (some (.obj es)) target = .up d) :
    ∃ cur, versionOf (.obj es) = some cur ∧ cur < target ∧ target ≤ 29 ∧ IsObj d ∧
      getK d kSchemaVersion = some (.int target) ∧
      ∀ k, k ∉ topKeys (touchedRange (target - cur) cur) → getK d k = lookup k es := by
  rcases migrateMem_obj o es target with ⟨⟨k, hk⟩, _⟩ | ⟨hs, _, _⟩ | ⟨cur, hv, hlt, h29, hu⟩
  · rw [hk] at h; simp at h
  · rw [hs] at h; simp at h
  · rw [hu] at h
    have hup := upgrade_ok o (target - cur) cur (by omega) es
    cases hr : upgrade o (target - cur) cur (.obj es) with
    | error fs => obtain ⟨f, s⟩ := fs; rw [hr] at h; cases f <;> simp [upgradeOutcome] at h
    | ok d' =>
      rw [hr] at h hup
      simp [upgradeOutcome] at h; subst h
      obtain ⟨ho, hs, hf⟩ := hup
      refine ⟨cur, hv, hlt, h29, ho, ?_, hf⟩
      have := hs (by omega)
      rw [this]; congr 2; omega

/-- **Stamped.**  A document `Migrate` produces carries the requested version. -/
theorem C13_stamped (o : Oracles) (parsed : Option YVal) (target : Nat) (d : YVal) (hd : DocLike parsed)
    (h : migrate o parsed target = .up d) : getK d kSchemaVersion = some (.int target) := by
  have key : ∀ es, migrate o (some (.obj es)) target = .up d → getK d kSchemaVersion = some (.int target) := by
    intro es h
    unfold migrate at h
    cases hm : migrateMem o (some (.obj es)) target with
    | up d0 =>
      rw [hm] at h; dsimp only at h
      obtain ⟨cur, _, _, _, ho, hs, _⟩ := migrateMem_up o es target d0 hm
      obtain ⟨es0, rfl⟩ := ho.elim
      cases hr : reparse o (.obj es0) with
      | none => rw [hr] at h; simp at h
      | some d1 =>
        rw [hr] at h; simp at h; subst h
        obtain ⟨es1, rfl, he⟩ := reparse_obj o es0 d1 hr
        simp only [getK] at hs ⊢
        rw [reparseEntries_lookup o _ es0 es1 he, hs]
        simp [reparse_int]
    | err k s => rw [hm] at h; simp at h
    | same => rw [hm] at h; simp at h
    | panic p s => rw [hm] at h; simp at h
    | oracle => rw [hm] at h; simp at h
  cases parsed with
  | none => simp [migrate, migrateMem] at h
  | some d0 =>
    cases d0 <;> simp [DocLike] at hd
    · exact key [] (by simpa [migrate, migrateMem_null] using h)
    · exact key _ h

/-- **Settings a step does not concern are preserved** (top level): every
top-level key outside the keys named by the steps that ran has, in the produced
document, the value it had (as YAML writes it back). -/
theorem C13_frame_top (o : Oracles) (es : List (Key × YVal)) (target cur : Nat) (d : YVal)
    (hv : versionOf (.obj es) = some cur) (h : migrate o (some (.obj es)) target = .up d) :
    ∀ k, k ∉ topKeys (touchedRange (target - cur) cur) → getK d k = (lookup k es).bind (reparse o) := by
  intro k hk
  unfold migrate at h
  cases hm : migrateMem o (some (.obj es)) target with
  | up d0 =>
    rw [hm] at h; dsimp only at h
    obtain ⟨cur', hv', _, _, ho, _, hf⟩ := migrateMem_up o es target d0 hm
    have : cur' = cur := by rw [hv] at hv'; simpa using hv'.symm
    subst this
    obtain ⟨es0, rfl⟩ := ho.elim
    cases hr : reparse o (.obj es0) with
    | none => rw [hr] at h; simp at h
    | some d1 =>
      rw [hr] at h; simp at h; subst h
      obtain ⟨es1, rfl, he⟩ := reparse_obj o es0 d1 hr
      have := hf k hk
      simp only [getK] at this ⊢
      rw [reparseEntries_lookup o _ es0 es1 he, this]
  | err k s => rw [hm] at h; simp at h
  | same => rw [hm] at h; simp at h
  | panic p s => rw [hm] at h; simp at h
  | oracle => rw [hm] at h; simp at h

/-- **Upgrading an already current file changes nothing.** -/
theorem C13_current_noop (o : Oracles) (es : List (Key × YVal)) (target : Nat)
    (hv : versionOf (.obj es) = some target) (h29 : target ≤ 29) :
    migrate o (some (.obj es)) target = .same := by
  rcases migrateMem_obj o es target with ⟨_, hn | ⟨cur, hc, hgt⟩⟩ | ⟨hs, _, _⟩ | ⟨cur, hc, hlt, _, _⟩
  · rw [hv] at hn; simp at hn
  · rw [hv] at hc; simp at hc; subst hc; omega
  · simp [migrate, hs]
  · rw [hv] at hc; simp at hc; subst hc; omega

/-- **It either fails with an error or produces a document**: a real upgrade
(`cur < target ≤ 29`) never reports "nothing to do". -/
theorem C13_error_or_upgraded (o : Oracles) (es : List (Key × YVal)) (target cur : Nat)
    (hv : versionOf (.obj es) = some cur) (hlt : cur < target) :
    migrate o (some (.obj es)) target ≠ .same := by
  intro h
  unfold migrate at h
  rcases migrateMem_obj o es target with ⟨⟨k, hk⟩, _⟩ | ⟨hs, hv', _⟩ | ⟨cur', _, _, _, hu⟩
  · rw [hk] at h; simp at h
  · rw [hv] at hv'; simp at hv'; omega
  · rw [hu] at h
    cases hr : upgrade o (target - cur') cur' (.obj es) with
    | error fs => obtain ⟨f, s⟩ := fs; rw [hr] at h; cases f <;> simp [upgradeOutcome] at h
    | ok d => rw [hr] at h; simp [upgradeOutcome] at h; split at h <;> simp at h

/-- **An error leaves the file content unchanged** (and `upgraded = false` means
the returned body is the input), for any YAML codec. -/
theorem C13_wrapper {β : Type} (o : Oracles) (decode : β → Option YVal) (encode : YVal → β)
    (body : β) (target : Nat) (r : Ret β) (h : migrateBody o decode encode body target = some r) :
    (r.err.isSome → r.body = body ∧ r.upgraded = false) ∧ (r.upgraded = false → r.body = body) := by
  unfold migrateBody at h
  cases hm : migrateMem o (decode body) target <;> rw [hm] at h <;> simp at h <;> subst h <;> simp

/-- The step an error is attributed to is one of the steps that were to run. -/
theorem C13_error_step (o : Oracles) (es : List (Key × YVal)) (target : Nat) (k : ErrK) (s : Nat)
    (h : migrate o (some (.obj es)) target = .err k s) :
    s = 0 ∨ ∃ cur, versionOf (.obj es) = some cur ∧ cur < s ∧ s ≤ target := by
  unfold migrate at h
  rcases migrateMem_obj o es target with ⟨⟨k', hk⟩, _⟩ | ⟨hs, _, _⟩ | ⟨cur, hv, hlt, h29, hu⟩
  · rw [hk] at h; simp at h; exact Or.inl h.2.symm
  · rw [hs] at h; simp at h
  · right
    rw [hu] at h
    have hup := upgrade_ok o (target - cur) cur (by omega) es
    cases hr : upgrade o (target - cur) cur (.obj es) with
    | error fs =>
      obtain ⟨f, s'⟩ := fs
      rw [hr] at h hup
      cases f with
      | err k' =>
        simp [upgradeOutcome] at h
        simp only [UpgradeOK] at hup
        exact ⟨cur, hv, by omega, by omega⟩
      | panic p => simp [upgradeOutcome] at h
      | oracle => simp [upgradeOutcome] at h
    | ok d => rw [hr] at h; simp [upgradeOutcome] at h; split at h <;> simp at h

/-- A produced document is a map carrying the requested stamp. -/
theorem migrate_up_obj (o : Oracles) (parsed : Option YVal) (t : Nat) (d : YVal) (hd : DocLike parsed)
    (h : migrate o parsed t = .up d) : ∃ es, d = .obj es ∧ lookup kSchemaVersion es = some (.int t) := by
  have hs := C13_stamped o parsed t d hd h
  cases d <;> simp [getK] at hs
  exact ⟨_, rfl, hs⟩

/-- **No panic in partial runs either**: upgrading to `k` and then, from the
re-read file, to `target` does not panic at any stage. -/
theorem C13_total_split (o : Oracles) (parsed : Option YVal) (target k : Nat) (h : DocLike parsed) :
    ∀ p s, (splitRun o parsed target k).2 ≠ .panic p s := by
  intro p s
  unfold splitRun
  cases h1 : migrate o parsed k with
  | same => exact C13_total o parsed target h p s
  | up d1 =>
    obtain ⟨es1, rfl, _⟩ := migrate_up_obj o parsed k d1 h h1
    have h2 := C13_total o (some (.obj es1)) target trivial p s
    dsimp only
    cases h2' : migrate o (some (.obj es1)) target <;> simp_all
  | err k' s' => simp
  | panic p' s' => exact absurd h1 (C13_total o parsed k h p' s')
  | oracle => simp

/-! ### The model meets the spec (core clauses) -/

theorem firstSome_none {α β} (f : α → Option β) (xs : List α) (h : ∀ x ∈ xs, f x = none) :
    firstSome f xs = none := by
  induction xs with
  | nil => rfl
  | cons x xs ih =>
    simp only [firstSome, h x (by simp)]
    exact ih (fun y hy => h y (by simp [hy]))

theorem toRes_panicWhy (r : Outcome) (h : ∀ p s, r ≠ .panic p s) : (r.toRes).panicWhy = none := by
  cases r <;> simp [Outcome.toRes, Res.panicWhy]
  exact absurd rfl (h _ _)

theorem toRes_wrapperOK (r : Outcome) : (r.toRes).wrapperOK = true := by
  cases r <;> simp [Outcome.toRes, Res.wrapperOK]

theorem stampedWith_of_lookup (es : List (Key × YVal)) (n : Nat)
    (h : lookup kSchemaVersion es = some (.int n)) : stampedWith n (some (.obj es)) = true := by
  simp [stampedWith, lookupE_eq_lookup, stampKey, h]

theorem migrate_stampOK (o : Oracles) (parsed : Option YVal) (t : Nat) (hd : DocLike parsed) :
    ((migrate o parsed t).toRes).stampOK t = true := by
  cases h : migrate o parsed t <;> simp [Outcome.toRes, Res.stampOK]
  obtain ⟨es, rfl, hs⟩ := migrate_up_obj o parsed t _ hd h
  exact stampedWith_of_lookup es t hs

theorem migrate_same_version (o : Oracles) (es : List (Key × YVal)) (t : Nat)
    (h : migrate o (some (.obj es)) t = .same) : versionOf (.obj es) = some t := by
  unfold migrate at h
  rcases migrateMem_obj o es t with ⟨⟨k, hk⟩, _⟩ | ⟨_, hv, _⟩ | ⟨cur, _, _, _, hu⟩
  · rw [hk] at h; simp at h
  · exact hv
  · rw [hu] at h
    cases hr : upgrade o (t - cur) cur (.obj es) with
    | error fs => obtain ⟨f, s⟩ := fs; rw [hr] at h; cases f <;> simp [upgradeOutcome] at h
    | ok d => rw [hr] at h; simp [upgradeOutcome] at h; split at h <;> simp at h

theorem splitRun_stampOK (o : Oracles) (parsed : Option YVal) (target k : Nat) (hd : DocLike parsed) :
    (((splitRun o parsed target k).2).toRes).stampOK target = true := by
  unfold splitRun
  cases h1 : migrate o parsed k with
  | same => exact migrate_stampOK o parsed target hd
  | up d1 =>
    obtain ⟨es1, rfl, hs1⟩ := migrate_up_obj o parsed k d1 hd h1
    dsimp only
    cases h2 : migrate o (some (.obj es1)) target with
    | same =>
      have hv := migrate_same_version o es1 target h2
      simp [versionOf, lookupE_eq_lookup, stampKey, hs1] at hv
      subst hv
      simp [Outcome.toRes, Res.stampOK, stampedWith_of_lookup es1 k hs1]
    | up d2 =>
      have := migrate_stampOK o (some (.obj es1)) target trivial
      rw [h2] at this; simpa using this
    | err k' s' => simp [Outcome.toRes, Res.stampOK]
    | panic p' s' => simp [Outcome.toRes, Res.stampOK]
    | oracle => simp [Outcome.toRes, Res.stampOK]
  | err k' s' => simp [Outcome.toRes, Res.stampOK]
  | panic p' s' => simp [Outcome.toRes, Res.stampOK]
  | oracle => simp [Outcome.toRes, Res.stampOK]

theorem migrate_null (o : Oracles) (t : Nat) : migrate o (some .null) t = migrate o (some (.obj [])) t := by
  simp [migrate, migrateMem_null]

/-- **The model satisfies the spec's core clauses on every case**: in the model's
own observation of one run, the single-step run and every partial-run pair, nothing
panics, errors leave the file unchanged, every produced document carries the
requested stamp, a current file is left alone and a real upgrade fails or produces
a document.  (The partial-run and the nested preservation clauses of `specWhy` are
not covered, see the header.) -/
theorem C13_model_meets_spec (o : Oracles) (c : Case) (hd : DocLike c.parsed) :
    coreWhy c (modelObs o c) = none := by
  have hpan : firstSome Res.panicWhy (allRes (modelObs o c)) = none := by
    apply firstSome_none
    intro x hx
    simp only [allRes, modelObs, modelOutcomes, List.mem_cons, List.mem_append, List.mem_map] at hx
    rcases hx with rfl | hx | ⟨a, ⟨b, ⟨k, _, rfl⟩, rfl⟩, rfl⟩
    · exact toRes_panicWhy _ (C13_total o c.parsed c.target hd)
    · cases hst : c.stepTarget with
      | none => simp [hst] at hx
      | some t =>
        simp [hst] at hx; subst hx
        exact toRes_panicWhy _ (C13_total o c.parsed t hd)
    · exact toRes_panicWhy _ (C13_total_split o c.parsed c.target k hd)
  have hwrap : (allRes (modelObs o c)).all Res.wrapperOK = true := by
    rw [List.all_eq_true]
    intro x hx
    simp only [allRes, modelObs, modelOutcomes, List.mem_cons, List.mem_append, List.mem_map] at hx
    rcases hx with rfl | hx | ⟨a, ⟨b, _, rfl⟩, rfl⟩
    · exact toRes_wrapperOK _
    · cases hst : c.stepTarget with
      | none => simp [hst] at hx
      | some t => simp [hst] at hx; subst hx; exact toRes_wrapperOK _
    · exact toRes_wrapperOK _
  have hstamp1 : (modelObs o c).one.stampOK c.target = true := migrate_stampOK o c.parsed c.target hd
  have hstamp2 : (modelObs o c).splits.all (fun s => s.2.stampOK c.target) = true := by
    rw [List.all_eq_true]
    intro x hx
    simp only [modelObs, modelOutcomes, List.mem_map] at hx
    obtain ⟨b, ⟨k, _, rfl⟩, rfl⟩ := hx
    exact splitRun_stampOK o c.parsed c.target k hd
  have hstamp : stampsOK c (modelObs o c) = true := by
    unfold stampsOK
    rw [hstamp1, hstamp2]
    cases hst : c.stepTarget with
    | none => simp
    | some t => simp [modelObs, modelOutcomes, hst]; exact migrate_stampOK o c.parsed t hd
  unfold coreWhy
  simp only [hpan, hwrap, hstamp, Bool.not_true, Bool.false_eq_true, if_false]
  cases hcv : caseVersion c with
  | none => rfl
  | some dc =>
    obtain ⟨din0, cur⟩ := dc
    unfold caseVersion at hcv
    cases hp : c.parsed with
    | none => simp [hp] at hcv
    | some d0 =>
      simp only [hp] at hcv hd
      cases hv : versionOf d0 with
      | none => simp [hv] at hcv
      | some cur' =>
        simp only [hv] at hcv
        split at hcv
        · simp at hcv
        · rename_i hrange
          simp at hcv hrange
          obtain ⟨rfl, rfl⟩ := hcv
          -- the decoded document is a map (a null document is the empty map)
          have hobj : ∃ es, versionOf (.obj es) = some cur' ∧
              ∀ t, migrate o (some d0) t = migrate o (some (.obj es)) t := by
            cases d0 <;> simp [DocLike] at hd
            · exact ⟨[], by simpa [versionOf, lookupE] using hv, fun t => migrate_null o t⟩
            · exact ⟨_, hv, fun _ => rfl⟩
          obtain ⟨es, hves, hmig⟩ := hobj
          dsimp only
          by_cases heq : cur' = c.target
          · have := C13_current_noop o es c.target (heq ▸ hves) (by omega)
            simp [heq, modelObs, modelOutcomes, hp, hmig, this, Outcome.toRes]
          · have hne := C13_error_or_upgraded o es c.target cur' hves (by omega)
            have hbeq : (cur' == c.target) = false := by simp [heq]
            simp only [hbeq, Bool.false_eq_true, if_false]
            simp only [modelObs, modelOutcomes, hp, hmig]
            cases hm : migrate o (some (.obj es)) c.target <;> simp [Outcome.toRes]
            exact hne hm

/-! ### The partial-run clause fails on an integral float -/

/-- Oracles of the witness: `86400.0` is written back as `86400`. -/
def floatOracles : Oracles :=
  { fmtDays := fun _ => some [], fmtHours := fun _ => some [], addrOK := fun _ => none,
    addrPort := fun _ _ => none, quic := fun _ => none, ufPattern := [],
    rt := fun _ _ => some (.int 86400) }

/-- `schema_version: 5`, `dhcp: {lease_duration: 86400.0}` -/
def floatDoc : YVal :=
  .obj [(kSchemaVersion, .int 5), (kDhcp, .obj [(kLeaseDuration, .opaque 1 [])])]

/-- **Counterexample to independence from partial runs** (model and code agree on
it): in one run the upgrade to 29 fails at step 7 ("unexpected type float64"),
after a partial run to 6 it succeeds. -/
theorem C13_counterexample_path_float :
    migrate floatOracles (some floatDoc) 29 = .err .type 7 ∧
    ∃ d, splitRun floatOracles (some floatDoc) 29 6 = (2, .up d) := by
  refine ⟨rfl, _, rfl⟩

/-! ### Obligations over the facts regenerated from the Go source (translator tie)

`AGH/Gen/C13Facts.lean` is rewritten from `internal/configmigrate` on every run;
the statements below are re-checked against what the code says now. -/

/-- The step table of `upgradeConfigSchema` is complete and in order:
`upgrades[i]` is `migrateTo<i+1>` for `i = 0 … LastSchemaVersion-1`, and
`LastSchemaVersion` is the model's. -/
theorem C13_gen_step_table :
    Gen.C13.lastSchemaVersion = lastSchemaVersion ∧
    Gen.C13.stepTable = (List.range Gen.C13.lastSchemaVersion).map (fun i => (i, i + 1)) := by
  decide +kernel

/-- Every `migrateTo<N>` writes the stamp exactly once, as its first statement,
with the value `N`; no other function assigns it; and no `moveVal`, `moveSameVal`
or `delete` names that key. -/
theorem C13_gen_stamps :
    Gen.C13.stamps = (List.range Gen.C13.lastSchemaVersion).map (fun i => (i + 1, 0, i + 1)) ∧
    (∀ a ∈ Gen.C13.accesses, a.2.1 ≠ 0 → a.2.2.2.1 ≠ kSchemaVersion ∧ a.2.2.2.2 ≠ kSchemaVersion) ∧
    (∀ d ∈ Gen.C13.deletes, d.2 ≠ kSchemaVersion) := by
  decide +kernel

/-- Every typed read uses a type a decoded YAML value can have (`int`, `string`,
`bool`, `yobj`, `yarr`, `any`, or the helper's own type parameter): no step
depends on a Go-typed value left in the map by an earlier step. -/
theorem C13_gen_reads_generic : ∀ a ∈ Gen.C13.accesses, a.2.2.1 ≤ 5 ∨ a.2.2.1 = 7 := by
  decide +kernel

/-- The reads, moves, deletes and key lists of the Go source are exactly the
ones the model was written against. -/
theorem C13_gen_accesses :
    Gen.C13.accesses = accessSig ∧ Gen.C13.deletes = deleteSig ∧ Gen.C13.strLists = strListSig := by
  decide +kernel

/-- The signature's `errors.Join(moveVal…)` rows are the move lists the model executes. -/
theorem C13_sig_moves :
    (accessSig.filter (fun a => a.1 == 7 && a.2.1 == 2)).map (fun a => (a.2.2.1, a.2.2.2.1)) =
      v7Moves.map (fun m => ((match m.1 with | .int => 0 | .str => 1 | .bool => 2 | .obj => 3 | .arr => 4 | .any => 5), m.2.1)) ∧
    (accessSig.filter (fun a => a.1 == 15 && a.2.1 == 1)).map (fun a => (a.2.2.1, a.2.2.2.1, a.2.2.2.2)) =
      v15Moves.map (fun m => ((match m.1 with | .int => 0 | .str => 1 | .bool => 2 | .obj => 3 | .arr => 4 | .any => 5), m.2.1, m.2.2)) ∧
    (accessSig.filter (fun a => a.1 == 24 && a.2.1 == 1)).map (fun a => (a.2.2.1, a.2.2.2.1, a.2.2.2.2)) =
      v24Moves.map (fun m => ((match m.1 with | .int => 0 | .str => 1 | .bool => 2 | .obj => 3 | .arr => 4 | .any => 5), m.2.1, m.2.2)) ∧
    (accessSig.filter (fun a => a.1 == 26 && a.2.1 == 2)).map (fun a => (a.2.2.1, a.2.2.2.1)) =
      v26Moves.map (fun m => ((match m.1 with | .int => 0 | .str => 1 | .bool => 2 | .obj => 3 | .arr => 4 | .any => 5), m.2.1)) := by
  decide +kernel

/-- Every syntactic panic site of the package (map write, index and slice
expression, unchecked type assertion, `panic` call, integer division) is under
a guard the extractor recognised. -/
theorem C13_gen_panic_sites_guarded : ∀ s ∈ Gen.C13.panicSites, s.2.2.1 ≠ 0 := by
  decide +kernel

/-- The two repairs the no-panic theorem rests on are present in the source:
`fieldVal` reports a null object as absent, `Migrate` replaces a nil document. -/
theorem C13_gen_repairs_present :
    Gen.C13.fieldValNullObjAbsent = true ∧ Gen.C13.migrateNilDocGuard = true := by
  decide

/-! ### Non-vacuity -/

/-- A version-11 file with a null `dns` section (the former nil-map panic): upgraded, stamped 29. -/
example : ∃ d, migrate ⟨fun _ => some [], fun _ => some [], fun _ => none, fun _ _ => none, fun _ => none, [],
      fun _ _ => none⟩ (some (.obj [(kSchemaVersion, .int 11), (kDns, .null)])) 29 = .up d := by
  exact ⟨_, rfl⟩

/-- `DocLike` and `versionOf` hypotheses are satisfiable together with a real upgrade. -/
example : DocLike (some (.obj [(kSchemaVersion, .int 28)])) ∧
    versionOf (.obj [(kSchemaVersion, .int 28)]) = some 28 := ⟨trivial, by decide⟩

end AGH.C13
