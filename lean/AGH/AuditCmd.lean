/-
`#audit_module M` prints, for every theorem declared in module `M`, the axioms
it depends on:   AUDIT <name> : [ax1, ax2]
Used by /verif/bin/check to count obligations and to reject anything outside
{propext, Classical.choice, Quot.sound}.
-/
import Lean
open Lean Elab Command

elab "#audit_module " m:ident : command => do
  let env ← getEnv
  let some idx := env.getModuleIdx? m.getId
    | throwError "unknown module {m.getId}"
  let names := env.header.moduleData[idx.toNat]!.constNames
  for n in names do
    if n.isInternal then continue
    match env.find? n with
    | some (.thmInfo _) =>
      let axs ← Lean.collectAxioms n
      let axs := axs.toList.map toString |>.mergeSort
      logInfo m!"AUDIT {n} : {axs}"
    | _ => pure ()
