/-
C01 / C02 model, Layer B: the DNS rule semantics of urlfilter v0.20.0 for the
property's rule grammar, as far as AdGuard Home's pipeline observes it
(rules/rule.go NewRule, rules/host.go, rules/network.go parse + Match,
rules/regex.go patternToRegexp, rules/match.go GetDNSBasicRule,
rules/clients.go, dnsengine.go MatchRequest, filterlist scanning).

Supported grammar (anything else makes `parseLine` answer `unsupported`, which
the driver reports loudly instead of guessing):
  patterns built from `||`, leading/trailing `|`, `^`, `*` and literal bytes;
  `@@`; modifiers `important`, `dnstype=`, `client=`, `denyallow=`; hosts-style
  `IP name…` lines and bare domain names; comments and blank lines.
Not modelled: regular-expression rules, `$dnsrewrite`, `$badfilter`, `$ctag`,
`$domain`, content-type modifiers, `denyallow` entries ending in `.*`, IPv6
zones, the shortcut / lookup-table indexes (pure optimisations for lower-case
host names).  Host names are ASCII.

This is a model of a LIBRARY; it is validated only by correspondence (every
engine verdict is compared with the real urlfilter engines on every case).
-/
import AGH.Model.Filter
namespace AGH.Filter
open AGH AGH.Bytes

/-! ## netip.ParsePrefix (ParseAddr lives in `AGH/Model/NetIP.lean`) -/

/-- decimal prefix length of `ParsePrefix`: digits, no leading zero, ≤ max -/
def parseBits (s : Bytes) (max : Nat) : Option Nat :=
  if s.isEmpty ∨ !s.all isDigit ∨ s.length > 3 then none
  else if s.length > 1 ∧ s.head? = some 48 then none
  else
    let v := s.foldl (fun acc b => acc * 10 + (b - 48)) 0
    if v > max then none else some v

/-- the position of the last `/` -/
def lastSlash (s : Bytes) : Option Nat :=
  let idx := (s.reverse.findIdx (· == slash))
  if idx < s.length then some (s.length - 1 - idx) else none

/-- `netip.ParsePrefix` followed by `Masked` is not needed for containment:
`Prefix.Contains` compares the top `bits` bits. -/
def parsePrefix (s : Bytes) : Option (IP × Nat) :=
  match lastSlash s with
  | none => none
  | some i =>
    match parseAddr (s.take i) with
    | none => none
    | some ip =>
      match parseBits (s.drop (i + 1)) (if ip.v6 then 128 else 32) with
      | none => none
      | some b => some (ip, b)

/-- `netip.Prefix.Contains` (same family, same top bits) -/
def prefixContains (p : IP × Nat) (ip : IP) : Bool :=
  let len := if p.1.v6 then 128 else 32
  p.1.v6 == ip.v6 && (p.1.val / 2 ^ (len - p.2) == ip.val / 2 ^ (len - p.2))

/-- `filterutil.IsProbablyIP` -/
def isProbablyIP (s : Bytes) : Bool :=
  s.all (fun b => b == dot || b == 58 || isDigit b || (decide (65 ≤ b) && decide (b ≤ 70)) ||
    (decide (97 ≤ b) && decide (b ≤ 102)) || b == 91 || b == 93) && decide (s.length ≥ 2)

/-! ## filterutil.IsDomainName -/

def isAlpha (b : Nat) : Bool := isLowerB b || isUpperB b

structure DNState where
  st : Nat := 0
  nLabel : Nat := 0
  prev : Nat := 0
  charOnly : Bool := true
  xn : Nat := 0

def xnPrefix : Bytes := [120, 110, 45, 45]   -- "xn--"

/-- one byte of the `IsDomainName` state machine; `none` = reject -/
def dnStep (s : DNState) (c : Nat) : Option DNState :=
  if s.st = 0 ∨ s.st = 1 then
    if !isAlpha c then
      if !isDigit c then none
      else some { s with charOnly := false, st := 2, nLabel := 1 }
    else if c = 120 ∨ c = 88 then some { s with xn := 1, st := 2, nLabel := 1 }
    else some { s with st := 2, nLabel := 1 }
  else
    if c = dot then
      if s.prev = dash then none
      else some { s with st := 0, charOnly := true, xn := 0 }
    else if s.nLabel = 63 then none
    else
      let ok := isAlpha c || isDigit c || c == dash
      if !ok then none
      else
        let charOnly := if isAlpha c then s.charOnly else false
        let xn :=
          if s.xn > 0 then
            (if s.xn < 4 then (if xnPrefix[s.xn]? = some c then s.xn + 1 else 0) else s.xn + 1)
          else s.xn
        some { s with charOnly := charOnly, xn := xn, prev := c, nLabel := s.nLabel + 1 }

def dnRun : Bytes → DNState → Option DNState
  | [], s => some s
  | c :: rest, s => match dnStep s c with | some s' => dnRun rest s' | none => none

def isDomainName (name : Bytes) : Bool :=
  if name.length > 253 then false
  else match dnRun name {} with
    | none => false
    | some s => !(s.st ≠ 2 ∨ s.nLabel = 1 ∨ (!s.charOnly ∧ s.xn < 8))

/-! ## Patterns (rules/regex.go patternToRegexp, compiled to tokens) -/

inductive Tok where
  /-- `^(http|https|ws|wss)://([a-z0-9-_.]+\.)?` -/
  | startURL
  /-- `^` -/
  | startStr
  /-- `$` -/
  | endStr
  /-- `([^ a-zA-Z0-9.%_-]|$)` -/
  | sep
  /-- `.*` -/
  | any
  /-- an escaped literal byte, compared case-insensitively (`(?i)`) -/
  | lit (b : Nat)
  deriving DecidableEq, Repr

/-- the body of a pattern: `|` is special only as the very last byte -/
def compileBody : Bytes → List Tok
  | [] => []
  | [b] => if b = 124 then [.endStr] else if b = 42 then [.any] else if b = 94 then [.sep] else [.lit b]
  | b :: rest => (if b = 42 then Tok.any else if b = 94 then .sep else .lit b) :: compileBody rest

/-- `none` = the pattern matches everything (`RegexAnyCharacter`) -/
def compilePattern (p : Bytes) : Option (List Tok) :=
  if p = [124, 124] ∨ p = [124] ∨ p = [42] ∨ p = [] then none
  else match p with
    | 124 :: 124 :: rest => some (.startURL :: compileBody rest)
    | 124 :: rest => some (.startStr :: compileBody rest)
    | _ => some (compileBody p)

def foldEq (a b : Nat) : Bool := lowerB a == lowerB b

/-- `[^ a-zA-Z0-9.%_-]` -/
def isSepByte (b : Nat) : Bool :=
  !(b == 32 || isAlnumB b || b == dot || b == 37 || b == 95 || b == dash)

/-- `[a-z0-9-_.]` under `(?i)` -/
def isURLHostByte (b : Nat) : Bool := isAlnumB b || b == dash || b == 95 || b == dot

def httpScheme : Bytes := [104, 116, 116, 112, 58, 47, 47]   -- "http://"

/-- the ways `([a-z0-9-_.]+\.)?` can consume a prefix of `s`: all suffixes left over -/
def afterHostPrefix : Bytes → Bool → List Bytes
  | [], _ => []
  | b :: rest, seen =>
    if !isURLHostByte b then []
    else (if b = dot ∧ seen then [rest] else []) ++ afterHostPrefix rest true

/-- `.*` followed by the continuation `k`: try every suffix -/
def anyTail (k : Bytes → Bool → Bool) : Bytes → Bool → Bool
  | [], atStart => k [] atStart
  | c :: r, atStart => k (c :: r) atStart || anyTail k r false

/-- the tokens match a prefix of `s` (the regular expression is not end-anchored);
`atStart` says whether `s` is the whole subject -/
def matchHere : List Tok → Bytes → Bool → Bool
  | [], _, _ => true
  | .startStr :: ts, s, atStart => atStart && matchHere ts s atStart
  | .endStr :: ts, s, atStart => s.isEmpty && matchHere ts s atStart
  | .sep :: ts, s, atStart =>
    (match s with
     | [] => matchHere ts [] atStart
     | c :: r => isSepByte c && matchHere ts r false)
  | .lit b :: ts, s, _ =>
    (match s with
     | [] => false
     | c :: r => foldEq b c && matchHere ts r false)
  | .any :: ts, s, atStart => anyTail (matchHere ts) s atStart
  | .startURL :: ts, s, atStart =>
    atStart && httpScheme.isPrefixOf s &&
      (let rest := s.drop httpScheme.length
       matchHere ts rest false || (afterHostPrefix rest false).any (fun r => matchHere ts r false))

/-- unanchored search (`regexp.MatchString`) -/
def searchFrom (toks : List Tok) : Bytes → Bool → Bool
  | [], atStart => matchHere toks [] atStart
  | c :: r, atStart => matchHere toks (c :: r) atStart || searchFrom toks r false

/-! ## Rules -/

structure Clients where
  hosts : List Bytes := []
  nets : List (IP × Nat) := []
  deriving Repr

def Clients.len (c : Clients) : Nat := c.hosts.length + c.nets.length

structure NetRule where
  whitelist : Bool
  important : Bool
  /-- `none`: matches every URL -/
  toks : Option (List Tok)
  /-- the pattern is matched against `http://host` rather than the host name -/
  matchURL : Bool
  permTypes : List Nat := []
  restrTypes : List Nat := []
  permClients : Clients := {}
  restrClients : Clients := {}
  denyallow : List Bytes := []
  deriving Repr

structure HostRule where
  ip : IP
  names : List Bytes
  deriving Repr

inductive Rule where
  | net (r : NetRule)
  | host (r : HostRule)
  deriving Repr

inductive Parsed where
  | rule (r : Rule)
  /-- blank, comment, cosmetic or rejected by urlfilter: contributes nothing -/
  | skip
  /-- outside the modelled grammar -/
  | unsupported
  deriving Repr

/-! ### option parsing -/

/-- `splitWithEscapeCharacter(str, sep, '\\', false)` -/
def splitEsc (sep : Nat) : Bytes → Bytes → Bool → List Bytes → List Bytes
  | [], cur, _, acc => (if cur.isEmpty then acc else cur.reverse :: acc).reverse
  | c :: rest, cur, escaped, acc =>
    if c = 92 then splitEsc sep rest cur true acc
    else if c = sep then
      if escaped then splitEsc sep rest (c :: cur) false acc
      else if cur.isEmpty then splitEsc sep rest [] false acc
      else splitEsc sep rest [] false (cur.reverse :: acc)
    else
      if escaped then splitEsc sep rest (c :: 92 :: cur) false acc
      else splitEsc sep rest (c :: cur) false acc

def upperB (b : Nat) : Nat := if isLowerB b then b - 32 else b

/-- the part of miekg/dns `StringToType` the generator draws from; `none` = not in this table -/
def rrTypeOf (name : Bytes) : Option Nat :=
  let n := name.map upperB
  if n = [65] then some 1 else if n = [78, 83] then some 2
  else if n = [67, 78, 65, 77, 69] then some 5 else if n = [83, 79, 65] then some 6
  else if n = [80, 84, 82] then some 12 else if n = [77, 88] then some 15
  else if n = [84, 88, 84] then some 16 else if n = [65, 65, 65, 65] then some 28
  else if n = [83, 82, 86] then some 33 else if n = [83, 86, 67, 66] then some 64
  else if n = [72, 84, 84, 80, 83] then some 65 else if n = [65, 78, 89] then some 255
  else none

/-- names `strToRRType` is known to reject -/
def rrTypeInvalid (name : Bytes) : Bool :=
  let n := name.map upperB
  n = [78, 79, 78, 69] || n = [82, 69, 83, 69, 82, 86, 69, 68] || n = [78, 79, 80, 69] || n.isEmpty

inductive Opt (α : Type) where
  | ok (a : α)
  | invalid
  | unsupported

/-- `loadDNSTypes` -/
def loadDNSTypes (v : Bytes) : Opt (List Nat × List Nat) :=
  if v.isEmpty then .invalid
  else
    let parts := splitOn 124 v
    let rec go : List Bytes → List Nat → List Nat → Opt (List Nat × List Nat)
      | [], p, r => .ok (p.reverse, r.reverse)
      | s :: rest, p, r =>
        if s.isEmpty then .invalid
        else
          let restricted := s.head? = some 126
          let nm := if restricted then s.drop 1 else s
          if rrTypeInvalid nm then .invalid
          else match rrTypeOf nm with
            | none => .unsupported
            | some t => if restricted then go rest p (t :: r) else go rest (t :: p) r
    go parts [] []

/-- `strings.ReplaceAll(s, "\\"+q, q)` for a one-byte `q` -/
def unescape (q : Nat) : Bytes → Bytes
  | 92 :: c :: rest => if c = q then q :: unescape q rest else 92 :: unescape q (c :: rest)
  | c :: rest => c :: unescape q rest
  | [] => []

/-- `clients.add` -/
def Clients.add (c : Clients) (s : Bytes) : Clients :=
  if isProbablyIP s then
    match parseAddr s with
    | some ip => { c with nets := c.nets ++ [(ip, if ip.v6 then 128 else 32)] }
    | none => { c with hosts := c.hosts ++ [s] }
  else if s.contains slash then
    match parsePrefix s with
    | some p => { c with nets := c.nets ++ [p] }
    | none => { c with hosts := c.hosts ++ [s] }
  else { c with hosts := c.hosts ++ [s] }

/-- `loadClients(value, '|')` -/
def loadClients (v : Bytes) : Opt (Clients × Clients) :=
  if v.isEmpty then .invalid
  else
    let rec go : List Bytes → Clients → Clients → Opt (Clients × Clients)
      | [], p, r => .ok (p, r)
      | s :: rest, p, r =>
        let restricted := s.head? = some 126
        let cl := if restricted then s.drop 1 else s
        let quote : Nat :=
          if cl.length ≥ 2 ∧ (cl.head? = some 39 ∨ cl.head? = some 34) ∧ cl.head? = cl.getLast? then cl.headD 0 else 0
        let cl := if quote > 0 then (cl.drop 1).dropLast else cl
        let cl := unescape 44 cl
        let cl := if quote > 0 then unescape quote cl else cl
        if cl.isEmpty then .invalid
        else if cl.contains 37 then .unsupported   -- IPv6 zones
        else if restricted then go rest p (r.add cl) else go rest (p.add cl) r
    go (splitEsc 124 v [] false []) {} {}

def hasDotStar (d : Bytes) : Bool := [dot, 42].isSuffixOf d

/-- `loadDomains(value, "|")` as used by `$denyallow` -/
def loadDenyallow (v : Bytes) : Opt (List Bytes) :=
  if v.isEmpty then .invalid
  else
    let parts := splitOn 124 v
    if parts.any (fun d => d.head? = some 126) then .invalid   -- restricted entries are an error
    else if !parts.all (fun d => isDomainName d || hasDotStar d) then .invalid
    else if parts.any hasDotStar then .unsupported
    else .ok parts

/-- option names urlfilter knows but this model does not -/
def knownUnsupported : List Bytes :=
  [[116, 104, 105, 114, 100, 45, 112, 97, 114, 116, 121],
   [126, 102, 105, 114, 115, 116, 45, 112, 97, 114, 116, 121],
   [126, 116, 104, 105, 114, 100, 45, 112, 97, 114, 116, 121],
   [102, 105, 114, 115, 116, 45, 112, 97, 114, 116, 121],
   [109, 97, 116, 99, 104, 45, 99, 97, 115, 101],
   [126, 109, 97, 116, 99, 104, 45, 99, 97, 115, 101],
   [98, 97, 100, 102, 105, 108, 116, 101, 114],
   [100, 110, 115, 114, 101, 119, 114, 105, 116, 101],
   [100, 111, 109, 97, 105, 110],
   [99, 116, 97, 103],
   [101, 108, 101, 109, 104, 105, 100, 101],
   [103, 101, 110, 101, 114, 105, 99, 104, 105, 100, 101],
   [103, 101, 110, 101, 114, 105, 99, 98, 108, 111, 99, 107],
   [106, 115, 105, 110, 106, 101, 99, 116],
   [117, 114, 108, 98, 108, 111, 99, 107],
   [99, 111, 110, 116, 101, 110, 116],
   [101, 120, 116, 101, 110, 115, 105, 111, 110],
   [126, 101, 120, 116, 101, 110, 115, 105, 111, 110],
   [100, 111, 99, 117, 109, 101, 110, 116],
   [115, 116, 101, 97, 108, 116, 104],
   [112, 111, 112, 117, 112],
   [101, 109, 112, 116, 121],
   [109, 112, 52],
   [115, 99, 114, 105, 112, 116],
   [126, 115, 99, 114, 105, 112, 116],
   [115, 116, 121, 108, 101, 115, 104, 101, 101, 116],
   [126, 115, 116, 121, 108, 101, 115, 104, 101, 101, 116],
   [115, 117, 98, 100, 111, 99, 117, 109, 101, 110, 116],
   [126, 115, 117, 98, 100, 111, 99, 117, 109, 101, 110, 116],
   [111, 98, 106, 101, 99, 116],
   [126, 111, 98, 106, 101, 99, 116],
   [105, 109, 97, 103, 101],
   [126, 105, 109, 97, 103, 101],
   [120, 109, 108, 104, 116, 116, 112, 114, 101, 113, 117, 101, 115, 116],
   [126, 120, 109, 108, 104, 116, 116, 112, 114, 101, 113, 117, 101, 115, 116],
   [109, 101, 100, 105, 97],
   [126, 109, 101, 100, 105, 97],
   [102, 111, 110, 116],
   [126, 102, 111, 110, 116],
   [119, 101, 98, 115, 111, 99, 107, 101, 116],
   [126, 119, 101, 98, 115, 111, 99, 107, 101, 116],
   [112, 105, 110, 103],
   [126, 112, 105, 110, 103],
   [111, 116, 104, 101, 114],
   [126, 111, 116, 104, 101, 114]]

def indexOf (b : Nat) (s : Bytes) : Option Nat :=
  let i := s.findIdx (· == b)
  if i < s.length then some i else none

/-- `loadOption` for one `name[=value]` -/
def loadOption (r : NetRule) (o : Bytes) : Opt NetRule :=
  let (name, value) : Bytes × Bytes :=
    match indexOf 61 o with
    | some i => if i > 0 then (o.take i, o.drop (i + 1)) else (o, [])
    | none => (o, [])
  if name = [105, 109, 112, 111, 114, 116, 97, 110, 116] then .ok { r with important := true }
  else if name = [100, 110, 115, 116, 121, 112, 101] then
    match loadDNSTypes value with
    | .ok (p, x) => .ok { r with permTypes := p, restrTypes := x }
    | .invalid => .invalid
    | .unsupported => .unsupported
  else if name = [99, 108, 105, 101, 110, 116] then
    match loadClients value with
    | .ok (p, x) => .ok { r with permClients := p, restrClients := x }
    | .invalid => .invalid
    | .unsupported => .unsupported
  else if name = [100, 101, 110, 121, 97, 108, 108, 111, 119] then
    match loadDenyallow value with
    | .ok d => .ok { r with denyallow := d }
    | .invalid => .invalid
    | .unsupported => .unsupported
  else if knownUnsupported.contains name then .unsupported
  else .invalid   -- "unknown filter modifier"

def loadOptions : List Bytes → NetRule → Opt NetRule
  | [], r => .ok r
  | o :: rest, r =>
    match loadOption r o with
    | .ok r' => loadOptions rest r'
    | .invalid => .invalid
    | .unsupported => .unsupported

/-- `parseRuleText`: the position of the options delimiter, scanning from the
end (a `$` in the last position is not one); escaped delimiters are outside the model. -/
def findDelim (s : Bytes) : Option Nat :=
  let n := s.length
  if n < 2 then none
  else
    let rec go : Nat → Option Nat
      | 0 => if s[0]? = some 36 then some 0 else none
      | i + 1 => if s[i + 1]? = some 36 then some (i + 1) else go i
    go (n - 2)

def hasPrefixB (s p : Bytes) : Bool := p.isPrefixOf s

/-- `rules.NewNetworkRule` -/
def parseNetRule (line : Bytes) : Parsed :=
  if line.isEmpty ∨ line = [64, 64] then .skip
  else
    let whitelist := hasPrefixB line [64, 64]
    let text := if whitelist then line.drop 2 else line
    if text.head? = some slash ∧ text.getLast? = some slash then .unsupported   -- regular-expression rule
    else if text.contains 92 then .unsupported                                    -- escapes
    else
      let (pat, opts) : Bytes × Bytes :=
        match findDelim text with
        | some i => (text.take i, text.drop (i + 1))
        | none => (text, [])
      let r0 : NetRule := { whitelist := whitelist, important := false, toks := none, matchURL := false }
      match loadOptions (splitEsc 44 opts [] false []) r0 with
      | .invalid => .skip
      | .unsupported => .unsupported
      | .ok r =>
        -- example.org/* -> example.org^
        let pat' := if [slash, 42].isSuffixOf pat then pat.take (pat.length - 2) ++ [94] else pat
        if pat.length < 3 ∧ r.permClients.len = 0 ∧ r.restrClients.len = 0 ∧ r.permTypes.isEmpty ∧
           r.restrTypes.isEmpty ∧ r.denyallow.isEmpty then .skip       -- ErrTooWideRule
        else if pat'.length < 3 ∧ !(pat' = [124, 124] ∨ pat' = [124] ∨ pat' = [42] ∨ pat' = []) then
          .unsupported   -- patternToRegexp slices out of range on such patterns
        else if pat'.any (fun b => b ≥ 128) then .unsupported
        else
          let url := hasPrefixB pat' [124, 124] || hasPrefixB pat' [104, 116, 116, 112, 58, 47, 47] ||
            hasPrefixB pat' [104, 116, 116, 112, 115, 58, 47, 47] || hasPrefixB pat' [58, 47, 47]
          .rule (.net { r with toks := compilePattern pat', matchURL := url })

/-- `splitNextByWhitespace` -/
def skipWS : Bytes → Bytes
  | b :: rest => if b = 32 ∨ b = 9 then skipWS rest else b :: rest
  | [] => []

def takeToken : Bytes → Bytes × Bytes
  | [] => ([], [])
  | b :: rest => if b = 32 ∨ b = 9 then ([], b :: rest) else let (t, r) := takeToken rest; (b :: t, r)

def nextToken (s : Bytes) : Bytes × Bytes :=
  let (t, r) := takeToken (skipWS s)
  (t, skipWS r)

def tokens : Nat → Bytes → List Bytes
  | 0, _ => []
  | fuel + 1, s => if s.isEmpty then [] else let (t, r) := nextToken s; t :: tokens fuel r

/-- `rules.NewHostRule`; `none` = error (the caller falls back to a network rule) -/
def parseHostRule (line : Bytes) : Option HostRule :=
  let text := match indexOf 35 line with
    | some i => if i > 0 then line.take (i - 1) else line
    | none => line
  let (first, rest) := nextToken text
  if rest.isEmpty then
    if isDomainName first then some { ip := { v6 := false, val := 0 }, names := [first] } else none
  else match parseAddr first with
    | some ip => some { ip := ip, names := tokens rest.length rest }
    | none => none

def cosmeticMarkers : List Bytes :=
  [[35, 64, 36, 63, 35],
   [35, 64, 63, 35],
   [35, 36, 63, 35],
   [35, 64, 36, 35],
   [35, 64, 37, 35],
   [35, 64, 35],
   [35, 63, 35],
   [35, 36, 35],
   [35, 37, 35],
   [36, 64, 36],
   [35, 35],
   [36, 36]]

def startsAt (s : Bytes) (i : Nat) (m : Bytes) : Bool := m.isPrefixOf (s.drop i)

/-- `isCosmetic` -/
def isCosmetic (line : Bytes) : Bool :=
  [35, 36].any (fun ch =>
    match indexOf ch line with
    | none => false
    | some i =>
      if i > 0 ∧ line[i - 1]? = some 32 then false
      else cosmeticMarkers.any (startsAt line i))

/-- `isComment` -/
def isComment (line : Bytes) : Bool :=
  match line with
  | 33 :: _ => true
  | 35 :: rest => rest.isEmpty || !cosmeticMarkers.any (startsAt line 0)
  | _ => false

def isSpaceB (b : Nat) : Bool := b == 32 || (decide (9 ≤ b) && decide (b ≤ 13))

def trimSpace (s : Bytes) : Bytes :=
  ((s.dropWhile isSpaceB).reverse.dropWhile isSpaceB).reverse

/-- `rules.NewRule` as used by the rule-list scanner (cosmetic rules are ignored) -/
def parseLine (raw : Bytes) : Parsed :=
  let line := trimSpace raw
  if line.any (fun b => b ≥ 128) then .unsupported
  else if line.isEmpty ∨ isComment line then .skip
  else if isCosmetic line then .skip
  else match parseHostRule line with
    | some h => .rule (.host h)
    | none => parseNetRule line

/-! ## Matching -/

/-- what a rule can see of a request (`rules.Request` filled for a host name) -/
structure ReqInfo where
  host : Bytes
  dnsType : Nat
  clientName : Bytes
  clientIP : Option IP

/-- `matchDNSType` -/
def matchDNSType (r : NetRule) (t : Nat) : Bool :=
  if r.permTypes.isEmpty ∧ r.restrTypes.isEmpty then true
  else if r.restrTypes.contains t then false
  else if !r.permTypes.isEmpty then r.permTypes.contains t
  else true

/-- `clients.containsAny` -/
def Clients.containsAny (c : Clients) (name : Bytes) (ip : Option IP) : Bool :=
  (!name.isEmpty && c.hosts.contains name) ||
  (match ip with | some i => c.nets.any (fun p => prefixContains p i) | none => false)

/-- `matchClient` -/
def matchClient (r : NetRule) (name : Bytes) (ip : Option IP) : Bool :=
  if r.restrClients.len = 0 ∧ r.permClients.len = 0 then true
  else if r.restrClients.containsAny name ip then false
  else if r.permClients.len ≠ 0 then r.permClients.containsAny name ip
  else true

/-- `isDomainOrSubdomainOfAny` without `.*` entries -/
def isDomainOrSubdomainOfAny (host : Bytes) (ds : List Bytes) : Bool :=
  ds.any (fun d => host == d || (dot :: d).isSuffixOf host)

/-- `matchRequestDomain` for a host-name request -/
def matchRequestDomain (r : NetRule) (host : Bytes) : Bool :=
  if r.denyallow.isEmpty then true
  else if isProbablyIP host ∧ (parseAddr host).isSome then false
  else !isDomainOrSubdomainOfAny host r.denyallow

/-- `matchPattern` -/
def matchPattern (r : NetRule) (host : Bytes) : Bool :=
  match r.toks with
  | none => true
  | some toks => searchFrom toks (if r.matchURL then httpScheme ++ host else host) true

/-- `(*NetworkRule).Match` for a host-name request -/
def netMatch (r : NetRule) (q : ReqInfo) : Bool :=
  matchRequestDomain r q.host && matchDNSType r q.dnsType && matchClient r q.clientName q.clientIP &&
  matchPattern r q.host

/-- the priority class of `IsHigherPriority`: `@@`+important > important > `@@` > plain -/
def NetRule.rank (r : NetRule) : Nat :=
  if r.whitelist ∧ r.important then 3 else if r.important then 2 else if r.whitelist then 1 else 0

/-- `GetDNSBasicRule`: only the class of the selected rule is observable
(within a class the first in index order wins; it has the same polarity). -/
def bestRank : List NetRule → Option Nat
  | [] => none
  | r :: rest => match bestRank rest with
    | none => some r.rank
    | some k => some (max r.rank k)

def netRules (rs : List Rule) : List NetRule := rs.filterMap (fun r => match r with | .net n => some n | _ => none)
def hostRules (rs : List Rule) : List HostRule := rs.filterMap (fun r => match r with | .host h => some h | _ => none)

/-- `matchLookupTable`: one hit per occurrence of the name in a hosts-style line -/
def hostHits (rs : List HostRule) (host : Bytes) : List IP :=
  rs.flatMap (fun h => (h.names.filter (· == host)).map (fun _ => h.ip))

/-- `(*DNSEngine).MatchRequest` -/
def engineMatch (rs : List Rule) (q : ReqInfo) : Option EngRes :=
  if q.host.isEmpty then none
  else match bestRank ((netRules rs).filter (fun r => netMatch r q)) with
    | some k => some (.net (k == 1 || k == 3))
    | none =>
      let hits := hostHits (hostRules rs) q.host
      if hits.isEmpty then none
      else some (.hosts (hits.filter (fun ip => !ip.v6)) (hits.filter (fun ip => ip.v6)))

/-- the rules of a list of lines, in order; `none` if a line is outside the grammar -/
def parseLines : List Bytes → Option (List Rule)
  | [] => some []
  | l :: rest =>
    match parseLine l, parseLines rest with
    | .unsupported, _ => none
    | _, none => none
    | .skip, some rs => some rs
    | .rule r, some rs => some (r :: rs)

/-- blocked-service rules are created with `rules.NewNetworkRule` directly -/
def parseServiceRules : List Bytes → Option (List NetRule)
  | [] => some []
  | l :: rest =>
    match parseNetRule l, parseServiceRules rest with
    | .unsupported, _ => none
    | _, none => none
    | .skip, some rs => some rs
    | .rule (.net r), some rs => some (r :: rs)
    | .rule (.host _), some rs => some rs

/-- the configured rule texts as AdGuard Home loads them: user rules first,
then the enabled block lists; the enabled allow lists in the other engine -/
structure RuleSets where
  custom : List Bytes
  blockLists : List (Bool × List Bytes)
  allowLists : List (Bool × List Bytes)

def enabledLines (ls : List (Bool × List Bytes)) : List Bytes :=
  ls.flatMap (fun (en, lines) => if en then lines else [])

def RuleSets.blockLines (rs : RuleSets) : List Bytes := rs.custom ++ enabledLines rs.blockLists
def RuleSets.allowLines (rs : RuleSets) : List Bytes := enabledLines rs.allowLists

def reqInfo (r : DNSReq) : ReqInfo :=
  { host := r.host, dnsType := r.qtype, clientName := r.clientName, clientIP := some r.clientIP }

/-- Layer B instantiation of Layer A's engines. -/
def ruleEngines (block allow : List Rule) : Engines where
  allow := fun r => engineMatch allow (reqInfo r)
  block := fun r => engineMatch block (reqInfo r)
  svc := fun sv host =>
    match parseServiceRules sv.rules with
    | some rs => !host.isEmpty && rs.any (fun r => netMatch r { host := host, dnsType := 0, clientName := [], clientIP := none })
    | none => false

end AGH.Filter
