/-
C10 — byte-level model of the lease database file `leases.json`
(`db.go`: `dataLeases` / `dbLease` through `encoding/json`), for the fields the
code writes: `expires` (RFC 3339, empty for a static lease), `ip` (dotted
quad), `hostname` (JSON string escaping of `encoding/json` with HTML escaping,
ASCII), `mac` (`net.HardwareAddr.String`), `static`.  Core Lean only.

`encodeDB` is what `json.Marshal(&dataLeases{Version: 1, Leases: …})` writes;
`decodeDB` reads that shape back (`json.Unmarshal` + `toLease`).  The time
codec (`time.Format/Parse(time.RFC3339)`) is a parameter.
-/
import AGH.Model.DHCP
namespace AGH.C10
open AGH

def hexd (n : Nat) : Nat := if n < 10 then 48 + n else 87 + n

/-- `appendString(…, escapeHTML = true)` for one ASCII byte. -/
def escByte (b : Nat) : Bytes :=
  if b = 34 then [92, 34] else if b = 92 then [92, 92]
  else if b = 8 then [92, 98] else if b = 12 then [92, 102] else if b = 10 then [92, 110]
  else if b = 13 then [92, 114] else if b = 9 then [92, 116]
  else if b < 32 ∨ b = 60 ∨ b = 62 ∨ b = 38 then [92, 117, 48, 48, hexd (b / 16), hexd (b % 16)]
  else [b]

def escape (s : Bytes) : Bytes := s.flatMap escByte

def jsonString (s : Bytes) : Bytes := 34 :: escape s ++ [34]

/-- Decimal digits, most significant first (fuel = the number itself is enough). -/
def decDigits : Nat → Nat → Bytes
  | 0, n => [48 + n % 10]
  | f + 1, n => if n < 10 then [48 + n] else decDigits f (n / 10) ++ [48 + n % 10]

def dec (n : Nat) : Bytes := decDigits n n

def fmtIP (a : Nat) : Bytes :=
  dec (a / 16777216 % 256) ++ 46 :: dec (a / 65536 % 256) ++ 46 :: dec (a / 256 % 256) ++ 46 :: dec (a % 256)

def hex2 (b : Nat) : Bytes := [hexd (b / 16 % 16), hexd (b % 16)]

/-- `net.HardwareAddr.String`. -/
def fmtMAC : Bytes → Bytes
  | [] => []
  | [b] => hex2 b
  | b :: rest => hex2 b ++ 58 :: fmtMAC rest

def encLease (fmtExp : Nat → Bytes) (d : DLease) : Bytes :=
  [123, 34, 101, 120, 112, 105, 114, 101, 115, 34, 58] ++ jsonString (if d.static then [] else fmtExp d.exp) ++
  [44, 34, 105, 112, 34, 58] ++ jsonString (fmtIP d.ip) ++
  [44, 34, 104, 111, 115, 116, 110, 97, 109, 101, 34, 58] ++ jsonString d.host ++
  [44, 34, 109, 97, 99, 34, 58] ++ jsonString (fmtMAC d.mac) ++
  [44, 34, 115, 116, 97, 116, 105, 99, 34, 58] ++ (if d.static then [116, 114, 117, 101] else [102, 97, 108, 115, 101]) ++ [125]

def joinComma : List Bytes → Bytes
  | [] => []
  | [x] => x
  | x :: rest => x ++ 44 :: joinComma rest

def encodeDB (fmtExp : Nat → Bytes) (ds : List DLease) : Bytes :=
  [123, 34, 118, 101, 114, 115, 105, 111, 110, 34, 58, 49, 44, 34, 108, 101, 97, 115, 101, 115, 34, 58, 91] ++ joinComma (ds.map (encLease fmtExp)) ++ [93, 125]

/-! ### reading it back -/

def unhexd (c : Nat) : Option Nat :=
  if 48 ≤ c ∧ c ≤ 57 then some (c - 48) else if 97 ≤ c ∧ c ≤ 102 then some (c - 87) else none

/-- The body of a JSON string up to the closing quote: (decoded, rest after the quote). -/
def readBody : Nat → Bytes → Bytes → Option (Bytes × Bytes)
  | 0, _, _ => none
  | _ + 1, _, [] => none
  | f + 1, acc, c :: rest =>
    if c = 34 then some (acc.reverse, rest)
    else if c = 92 then
      match rest with
      | 34 :: r => readBody f (34 :: acc) r
      | 92 :: r => readBody f (92 :: acc) r
      | 98 :: r => readBody f (8 :: acc) r
      | 102 :: r => readBody f (12 :: acc) r
      | 110 :: r => readBody f (10 :: acc) r
      | 114 :: r => readBody f (13 :: acc) r
      | 116 :: r => readBody f (9 :: acc) r
      | 117 :: 48 :: 48 :: a :: b :: r =>
        match unhexd a, unhexd b with
        | some x, some y => readBody f ((x * 16 + y) :: acc) r
        | _, _ => none
      | _ => none
    else readBody f (c :: acc) rest

def readString (s : Bytes) : Option (Bytes × Bytes) :=
  match s with
  | 34 :: rest => readBody (rest.length + 1) [] rest
  | _ => none

def expectLit (lit s : Bytes) : Option Bytes := if lit.isPrefixOf s then some (s.drop lit.length) else none

def parseDec (s : Bytes) : Option Nat :=
  if s.isEmpty then none else
  s.foldl (fun acc c => match acc with
    | none => none
    | some n => if 48 ≤ c ∧ c ≤ 57 then some (n * 10 + (c - 48)) else none) (some 0)

def splitOnByte (sep : Nat) (s : Bytes) : List Bytes := Bytes.splitOn sep s

def parseIP (s : Bytes) : Option Nat :=
  match (splitOnByte 46 s).map parseDec with
  | [some a, some b, some c, some d] => if a < 256 ∧ b < 256 ∧ c < 256 ∧ d < 256 then some (a * 16777216 + b * 65536 + c * 256 + d) else none
  | _ => none

def parseHex2 (s : Bytes) : Option Nat :=
  match s with
  | [a, b] => match unhexd a, unhexd b with
    | some x, some y => some (x * 16 + y)
    | _, _ => none
  | _ => none

def parseMAC (s : Bytes) : Option Bytes :=
  if s.isEmpty then none else
  (splitOnByte 58 s).foldr (fun p acc => match parseHex2 p, acc with
    | some b, some l => some (b :: l)
    | _, _ => none) (some [])

def decLease (parseExp : Bytes → Option Nat) (s : Bytes) : Option (DLease × Bytes) := do
  let s ← expectLit ([123, 34, 101, 120, 112, 105, 114, 101, 115, 34, 58]) s
  let (e, s) ← readString s
  let s ← expectLit ([44, 34, 105, 112, 34, 58]) s
  let (ip, s) ← readString s
  let s ← expectLit ([44, 34, 104, 111, 115, 116, 110, 97, 109, 101, 34, 58]) s
  let (h, s) ← readString s
  let s ← expectLit ([44, 34, 109, 97, 99, 34, 58]) s
  let (m, s) ← readString s
  let s ← expectLit ([44, 34, 115, 116, 97, 116, 105, 99, 34, 58]) s
  let (st, s) ← (match expectLit ([116, 114, 117, 101, 125]) s with
    | some r => some (true, r)
    | none => (expectLit ([102, 97, 108, 115, 101, 125]) s).map (fun r => (false, r)))
  let ipn ← parseIP ip
  let mac ← parseMAC m
  let exp ← (if st then some 0 else parseExp e)
  pure ({ mac := mac, ip := ipn, host := h, static := st, exp := exp }, s)

def decList (parseExp : Bytes → Option Nat) : Nat → Bytes → Option (List DLease × Bytes)
  | 0, _ => none
  | f + 1, s => do
    let (d, s) ← decLease parseExp s
    match s with
    | 44 :: r =>
      let (ds, s') ← decList parseExp f r
      pure (d :: ds, s')
    | _ => pure ([d], s)

def decodeDB (parseExp : Bytes → Option Nat) (s : Bytes) : Option (List DLease) := do
  let s ← expectLit ([123, 34, 118, 101, 114, 115, 105, 111, 110, 34, 58, 49, 44, 34, 108, 101, 97, 115, 101, 115, 34, 58, 91]) s
  match s with
  | 93 :: r => if r = [125] then some [] else none
  | _ =>
    let (ds, s) ← decList parseExp (s.length + 1) s
    if s = [93, 125] then some ds else none

/-! ### `time.Format(time.RFC3339)` in UTC, whole seconds (executable; the zero time is year 1) -/

def pad (w n : Nat) : Bytes :=
  let d := dec n
  List.replicate (w - d.length) 48 ++ d

/-- Civil date of a day count since 1970-01-01 (Hinnant). -/
def civil (days : Nat) : Nat × Nat × Nat :=
  let z := days + 719468
  let era := z / 146097
  let doe := z % 146097
  let yoe := (doe - doe / 1460 + doe / 36524 - doe / 146096) / 365
  let doy := doe - (365 * yoe + yoe / 4 - yoe / 100)
  let mp := (5 * doy + 2) / 153
  let d := doy - (153 * mp + 2) / 5 + 1
  let m := if mp < 10 then mp + 3 else mp - 9
  let y := yoe + era * 400 + (if m ≤ 2 then 1 else 0)
  (y, m, d)

def fmtUnix (t : Nat) : Bytes :=
  let (y, m, d) := civil (t / 86400)
  let r := t % 86400
  pad 4 y ++ 45 :: pad 2 m ++ 45 :: pad 2 d ++ 84 :: pad 2 (r / 3600) ++ 58 :: pad 2 (r / 60 % 60) ++ 58 :: pad 2 (r % 60) ++ [90]

def daysFromCivil (y m d : Nat) : Nat :=
  let y' := if m ≤ 2 then y - 1 else y
  let era := y' / 400
  let yoe := y' % 400
  let mp := if m > 2 then m - 3 else m + 9
  let doy := (153 * mp + 2) / 5 + d - 1
  let doe := yoe * 365 + yoe / 4 - yoe / 100 + doy
  era * 146097 + doe - 719468

def parseUnix (s : Bytes) : Option Nat :=
  match s with
  | [y1, y2, y3, y4, 45, m1, m2, 45, d1, d2, 84, h1, h2, 58, n1, n2, 58, s1, s2, 90] => do
    let y ← parseDec [y1, y2, y3, y4]
    let m ← parseDec [m1, m2]
    let d ← parseDec [d1, d2]
    let h ← parseDec [h1, h2]
    let n ← parseDec [n1, n2]
    let sec ← parseDec [s1, s2]
    pure (daysFromCivil y m d * 86400 + h * 3600 + n * 60 + sec)
  | _ => none

/-- The expiry codec of a block: model time `1000 + k` is `base + k` on the wall clock; `0` is Go's zero time. -/
def fmtExpAt (base : Nat) (e : Nat) : Bytes :=
  if e = 0 then [48, 48, 48, 49, 45, 48, 49, 45, 48, 49, 84, 48, 48, 58, 48, 48, 58, 48, 48, 90] else fmtUnix (base + e - 1000)

def parseExpAt (base : Nat) (s : Bytes) : Option Nat :=
  if s = [48, 48, 48, 49, 45, 48, 49, 45, 48, 49, 84, 48, 48, 58, 48, 48, 58, 48, 48, 90] then some 0 else (parseUnix s).map (fun t => t + 1000 - base)

end AGH.C10
