/-
C13 — executable model of the validation stage of the configuration loader
(`internal/home/config.go`: `parseConfig` after the upgrade, `validateConfig`,
`validateBindHosts`, `addPorts`, and `aghalg.UniqChecker`).

The loader unmarshals the (upgraded) document into the default configuration
and then validates a handful of fields.  Unmarshalling (yaml.v3 + reflect +
the text unmarshalers of netip / timeutil) is a library stage: the model starts
from the fields as they came out of it (`LoaderIn`, shipped with each case),
and transcribes everything the loader does with them.  Core Lean only.
-/
namespace AGH.C13L

/-- The fields `parseConfig` looks at after `yaml.Unmarshal`, plus how the two
library stages before them ended. -/
structure LoaderIn where
  /-- `Migrate` returned no error -/
  migrated : Bool
  /-- `yaml.Unmarshal(fileData, &config)` returned no error -/
  unmarshalled : Bool
  /-- `config.HTTPConfig.Address.IsValid()` -/
  httpValid : Bool
  /-- `config.HTTPConfig.Address.Port()` -/
  httpPort : Nat
  /-- `addr.IsValid()` for every `config.DNS.BindHosts` -/
  bindValid : List Bool
  /-- `config.DNS.Port` -/
  dnsPort : Nat
  /-- `config.TLS.Enabled` -/
  tlsEnabled : Bool
  portHTTPS : Nat
  portDoT : Nat
  portDoQ : Nat
  portDNSCrypt : Nat
  /-- `validateTLSCipherIDs(config.TLS.OverrideTLSCiphers) == nil` -/
  ciphersOK : Bool
  deriving Repr

inductive LoadRes
  | ok
  | migrate
  | unmarshal
  /-- "http.address is not a valid ip address" -/
  | bindHTTP
  /-- "dns.bind_hosts at index %d is not a valid ip address" -/
  | bindDNS (idx : Nat)
  /-- "validating tcp ports: duplicated values: [...]" -/
  | tcpDup (ports : List Nat)
  /-- "validating udp ports: duplicated values: [...]" -/
  | udpDup (ports : List Nat)
  /-- "override_tls_ciphers: ..." -/
  | ciphers
  deriving Repr, DecidableEq

/-! ### aghalg.UniqChecker: a map from element to the number of times it was added.
The model keeps the elements added, in order; the count is `List.count`. -/

abbrev UniqChecker := List Nat

/-- `uc.Add(elems...)` -/
def ucAdd (uc : UniqChecker) (elems : List Nat) : UniqChecker := uc ++ elems

def insertSorted (p : Nat) : List Nat → List Nat
  | [] => [p]
  | q :: qs => if p < q then p :: q :: qs else if p = q then q :: qs else q :: insertSorted p qs

/-- `uc.Validate()`: the elements added more than once, each once, ascending
(`slices.Sort(dup)`); `[]` is "no error". -/
def ucDups (uc : UniqChecker) : List Nat :=
  (uc.filter (fun p => decide (1 < uc.count p))).foldr insertSorted []

/-- `addPorts(uc, ports...)`: "a helper for ports validation that skips zero ports". -/
def addPorts (uc : UniqChecker) : List Nat → UniqChecker
  | [] => uc
  | p :: ps => addPorts (if p ≠ 0 then ucAdd uc [p] else uc) ps

/-- index of the first invalid bind host -/
def firstInvalid : List Bool → Nat → Option Nat
  | [], _ => none
  | b :: bs, i => if b then firstInvalid bs (i + 1) else some i

/-- `validateConfig()` (the normalisation of `filters_update_interval` never fails and is omitted). -/
def validateConfig (i : LoaderIn) : LoadRes :=
  -- validateBindHosts
  if !i.httpValid then .bindHTTP else
  match firstInvalid i.bindValid 0 with
  | some idx => .bindDNS idx
  | none =>
    let tcp0 := addPorts [] [i.httpPort]
    let udp0 := addPorts [] [i.dnsPort]
    let tcp := if i.tlsEnabled then addPorts tcp0 [i.portHTTPS, i.portDoT, i.portDNSCrypt] else tcp0
    let udp := if i.tlsEnabled then addPorts udp0 [i.portDoQ] else udp0
    if ucDups tcp ≠ [] then .tcpDup (ucDups tcp)
    else if ucDups udp ≠ [] then .udpDup (ucDups udp)
    else .ok

/-- `parseConfig()` from the upgrade on. -/
def parseConfig (i : LoaderIn) : LoadRes :=
  if !i.migrated then .migrate
  else if !i.unmarshalled then .unmarshal
  else
    match validateConfig i with
    | .ok => if i.ciphersOK then .ok else .ciphers
    | r => r

end AGH.C13L
