/-
C07 model: the query log as a state machine (memory ring, current file,
rotated file) and the search behind `GET /control/querylog`.

Transcribes internal/querylog: qlog.go (`Add`, `Shutdown`, `clear`),
querylogfile.go (`flushLogBuffer`, `rotate`, `checkAndRotate`), search.go
(`search`, `searchMemory`, `searchFiles`, `readEntries`, `readNextEntry`,
`seekRecord`), searchparams.go (`match`, `quickMatch`), searchcriterion.go
(`ctDomainOrClientCase*`, `containsFold`, `quickMatch`,
`ctFilteringStatusCase`, `isFilteredWithReason`), http.go
(`parseSearchParams`, `parseSearchCriterion`, `handleQueryLog`,
`handlePutQueryLogConfig`) and qlogreader.go (`seekTS`, `SeekStart`,
`ReadNext` — at the level "list of lines, newest first, seek by timestamp";
the byte level of the reader is property C20).

Modelling decisions
* A file line IS the entry it encodes (the harness tests
  `decode(encode e) = e` for every generated entry).  A file exists iff it is
  non-empty (files are only created by a flush of a non-empty buffer); a
  zero-byte current file (residue of a failed first write) is the same state
  as no current file: `readFileFirstTimeValue` fails on both and
  `checkAndRotate` then rotates nothing (the harness puts such a file in place
  for the duration of a rotation check).
* `ts` is the entry's time in ns.  Go's zero `time.Time` (`olderThan.IsZero()`,
  `oldest.IsZero()`, `oldestNano == 0`) is `none`.
* Strings are bytes, decoded as Go decodes UTF-8; `strings.EqualFold` is rune-wise
  equality under Unicode simple case folding (Model/QLogFold.lean, table
  generated from unicode.SimpleFold); `aghnet.NormalizeDomain` lower-cases
  ASCII only (names are ASCII in the generator).
* `findClient`, `Ignored.Has`, `idna.ToASCII`, `time.Parse` are environment /
  library oracles: the client table, the set of ignored hosts, the IDNA form of
  the term and the parsed `older_than` are inputs.
* Go `int` is 64-bit: `offset + limit` wraps (`wrap64`), slicing with a
  negative bound is the explicit fault `sliceBounds`.
* `Add` starts its flush goroutine (`addRaw`: sets `flushPending`, one more
  `tasks`); the goroutine is a separate step (`runTask`).  `Op.add` is Add
  followed by the completion of the goroutines; `Op.addThen` runs a clear /
  shutdown / restart BEFORE the goroutine gets to run (the other order).  The
  property excludes records submitted while a flush is pending: no `Op` adds a
  record while `tasks > 0`.
Core Lean only.
-/
import AGH.Model.Bytes
import AGH.Model.QLogFold
namespace AGH.C07
open AGH AGH.Bytes

/-! ## Entries, clients, configuration -/

/-- What the search looks at in a `logEntry`, plus `id`: the identity of the
recorded query (stands for client, question, answer, upstream and filtering
result it was recorded with; the harness fingerprints those). -/
structure Entry where
  ts : Int
  host : Bytes
  cid : Bytes
  ip : Bytes
  /-- text of the address after `AnonymizeIP` (last 2 bytes of an IPv4, last 10
  of an IPv6 address zeroed) -/
  ipAnon : Bytes
  reason : Nat
  isFiltered : Bool
  id : Nat
  deriving DecidableEq, Repr, Inhabited

/-- `querylog.Client` (the fields the search uses). -/
structure ClientInfo where
  name : Bytes
  ignore : Bool
  deriving DecidableEq, Repr

structure Conf where
  enabled : Bool
  fileEnabled : Bool
  memSize : Nat
  /-- `AnonymizeClientIP` (the anonymiser masks the address in API answers) -/
  anonymize : Bool
  /-- `RotationIvl` in ns -/
  ivl : Int
  /-- hosts `h` with `conf.Ignored.Has(h)` (oracle: urlfilter engine) -/
  ignored : List Bytes
  /-- the client registry behind `conf.FindClient`, keyed by ClientID or IP text -/
  clients : List (Bytes × ClientInfo)
  deriving Repr

structure State where
  /-- ring buffer, oldest first -/
  mem : List Entry
  /-- querylog.json, oldest first -/
  cur : List Entry
  /-- querylog.json.1, oldest first -/
  rot : List Entry
  conf : Conf
  /-- `queryLog.flushPending` -/
  flushPending : Bool := false
  /-- flush goroutines started by `Add` (`go l.flushLogBuffer`) that have not run yet -/
  tasks : Nat := 0
  deriving Repr

/-- Lookup of one id in the registry. -/
def lookupClient (tbl : List (Bytes × ClientInfo)) (id : Bytes) : Option ClientInfo :=
  match tbl with
  | [] => none
  | (k, v) :: rest => if k = id then some v else lookupClient rest id

/-- `conf.FindClient(ids)`: the first id that is registered. -/
def findClient (tbl : List (Bytes × ClientInfo)) : List Bytes → Option ClientInfo
  | [] => none
  | id :: rest =>
    match lookupClient tbl id with
    | some c => some c
    | none => findClient tbl rest

/-- `(*queryLog).client(clientID, ip, cache)`. -/
def clientOf (c : Conf) (cid ip : Bytes) : Option ClientInfo :=
  findClient c.clients ((if cid ≠ [] then [cid] else []) ++ (if ip ≠ [] then [ip] else []))

def clientName (c : Conf) (cid ip : Bytes) : Bytes :=
  match clientOf c cid ip with
  | some ci => ci.name
  | none => []

def clientIgnored (c : Conf) (cid ip : Bytes) : Bool :=
  match clientOf c cid ip with
  | some ci => ci.ignore
  | none => false

/-- `l.isIgnored(host)`. -/
def isIgnored (c : Conf) (host : Bytes) : Bool := c.ignored.contains host

/-! ## Term criterion -/

/-- `hasPrefixFold(s[i:], substr)` on the folded runes: the rest of the field
starts with the term (rune by rune, equal under simple case folding). -/
def hasPrefixFoldR : List Nat → List Nat → Bool
  | _, [] => true
  | [], _ :: _ => false
  | a :: s, b :: t => a == b && hasPrefixFoldR s t

/-- The loop `for i := range s` of `containsFold` over the rune starts of the
field (`s[i:]` at a rune start decodes to the corresponding rest of the rune
list: `decodeRunes` is "decode one rune, drop its bytes, go on"). -/
def containsRunes (t : List Nat) : List Nat → Bool
  | [] => false
  | a :: s => hasPrefixFoldR (a :: s) t || containsRunes t s

/-- searchcriterion.go `containsFold`. -/
def containsFold (s sub : Bytes) : Bool :=
  if sub.length = 0 then true else containsRunes (foldRunes sub) (foldRunes s)

/-- `ctDomainOrClientCaseStrict`. -/
def termStrict (term ascii cid name host ip : Bytes) : Bool :=
  equalFold host term ||
  (ascii ≠ [] && equalFold host ascii) ||
  equalFold cid term ||
  equalFold ip term ||
  equalFold name term

/-- `ctDomainOrClientCaseNonStrict`. -/
def termNonStrict (term ascii cid name host ip : Bytes) : Bool :=
  containsFold cid term ||
  containsFold host term ||
  (ascii ≠ [] && containsFold host ascii) ||
  containsFold ip term ||
  containsFold name term

def termMatch (strict : Bool) (term ascii cid name host ip : Bytes) : Bool :=
  if strict then termStrict term ascii cid name host ip
  else termNonStrict term ascii cid name host ip

/-! ## Filtering-status criterion -/

/-- `filtering.Reason` values. -/
def rNotFound : Nat := 0
def rAllowList : Nat := 1
def rError : Nat := 2
def rBlockList : Nat := 3
def rSafeBrowsing : Nat := 4
def rParental : Nat := 5
def rInvalid : Nat := 6
def rSafeSearch : Nat := 7
def rBlockedService : Nat := 8
def rRewritten : Nat := 9
def rRewrittenAutoHosts : Nat := 10
def rRewrittenRule : Nat := 11

/-- `filtering.Reason.String()` of the numbers above (tied to the package on
every run by the `C07.consts` line). -/
def reasonNames : List (Nat × String) :=
  [(rNotFound, "NotFilteredNotFound"), (rAllowList, "NotFilteredWhiteList"), (rError, "NotFilteredError"),
   (rBlockList, "FilteredBlackList"), (rSafeBrowsing, "FilteredSafeBrowsing"), (rParental, "FilteredParental"),
   (rInvalid, "FilteredInvalid"), (rSafeSearch, "FilteredSafeSearch"), (rBlockedService, "FilteredBlockedService"),
   (rRewritten, "Rewrite"), (rRewrittenAutoHosts, "RewriteEtcHosts"), (rRewrittenRule, "RewriteRule")]

/-- `queryLogFileName`, `maxEntrySize`, `bufferSize` (qlog.go, qlogfile.go). -/
def logFileName : String := "querylog.json"
def maxEntrySize : Nat := 16 * 1024
def readBufferSize : Nat := 100 * maxEntrySize

/-- `filteringStatusValues`. -/
inductive Status where
  | all | filtered | blocked | blockedService | blockedSafebrowsing | blockedParental
  | whitelisted | rewritten | safeSearch | processed
  deriving DecidableEq, Repr

/-- `Reason.In`. -/
def reasonIn (r : Nat) (l : List Nat) : Bool := l.contains r

/-- `isFilteredWithReason`; its `panic` default is unreachable because the
criterion value was validated against `filteringStatusValues` and the caller
dispatches only these five (the other values answer `false` here). -/
def isFilteredWithReason (v : Status) (r : Nat) : Bool :=
  match v with
  | .blocked => reasonIn r [rBlockList, rBlockedService]
  | .blockedParental => r == rParental
  | .blockedSafebrowsing => r == rSafeBrowsing
  | .blockedService => r == rBlockedService
  | .safeSearch => r == rSafeSearch
  | _ => false

/-- `ctFilteringStatusCase`. -/
def statusMatch (v : Status) (reason : Nat) (isFiltered : Bool) : Bool :=
  match v with
  | .all => true
  | .filtered => isFiltered || reasonIn reason [rAllowList, rRewritten, rRewrittenAutoHosts, rRewrittenRule]
  | .blocked | .blockedParental | .blockedSafebrowsing | .blockedService | .safeSearch =>
    isFiltered && isFilteredWithReason v reason
  | .whitelisted => reason == rAllowList
  | .rewritten => reasonIn reason [rRewritten, rRewrittenAutoHosts, rRewrittenRule]
  | .processed => !reasonIn reason [rBlockList, rBlockedService, rAllowList]

/-! ## Search parameters -/

inductive Criterion where
  | term (value ascii : Bytes) (strict : Bool)
  | status (v : Status)
  deriving DecidableEq, Repr

structure Params where
  /-- `none` is the zero time -/
  olderThan : Option Int
  criteria : List Criterion
  offset : Int
  limit : Int
  /-- `maxFileScanEntries` -/
  scan : Int
  deriving Repr

/-- `(*searchCriterion).match`. -/
def critMatch (c : Conf) (cr : Criterion) (e : Entry) : Bool :=
  match cr with
  | .term v a strict => termMatch strict v a e.cid (clientName c e.cid e.ip) e.host e.ip
  | .status v => statusMatch v e.reason e.isFiltered

/-- `(*searchParams).match`. -/
def matchE (c : Conf) (p : Params) (e : Entry) : Bool :=
  (match p.olderThan with
   | some t => decide (e.ts < t)
   | none => true) &&
  p.criteria.all (fun cr => critMatch c cr e)

/-- A byte after which `encoding/json` (HTML-escaping encoder) writes a
backslash sequence.  Bytes ≥ 0x80 are taken as parts of valid UTF-8 (written
raw; U+2028/9 and invalid UTF-8 are not modelled). -/
def jsonEscapedByte (b : Nat) : Bool :=
  decide (b < 32) || b == 34 || b == 92 || b == 60 || b == 62 || b == 38

/-- The raw JSON value of `s` contains a backslash. -/
def jsonEscaped (s : Bytes) : Bool := s.any jsonEscapedByte

/-- `(*searchCriterion).quickMatch` on the raw line of `e`. -/
def critQuick (c : Conf) (cr : Criterion) (e : Entry) : Bool :=
  match cr with
  | .term v a strict =>
    if jsonEscaped e.host || jsonEscaped e.cid then true
    else termMatch strict v a e.cid (clientName c e.cid e.ip) e.host e.ip
  | .status _ => true

/-- `(*searchParams).quickMatch`. -/
def quickE (c : Conf) (p : Params) (e : Entry) : Bool :=
  p.criteria.all (fun cr => critQuick c cr e)

/-- `readNextEntry` returns the entry (not nil) for this file record. -/
def keepE (c : Conf) (p : Params) (e : Entry) : Bool :=
  quickE c p e && !isIgnored c e.host && !clientIgnored c e.cid e.ip && matchE c p e

/-! ## The file reader at list level -/

/-- Outcome of `(*qLogFile).seekTS` on a file with strictly increasing stamps
(C20): found at line `k`, or the class of the absent timestamp. -/
inductive SeekRes where
  | found (k : Nat) | tooEarly | tooLate | notFound
  deriving DecidableEq, Repr

def fileSeek (f : List Entry) (t : Int) : SeekRes :=
  match f.findIdx? (fun e => e.ts == t) with
  | some k => .found k
  | none =>
    if f.all (fun e => decide (t < e.ts)) then .tooEarly
    else if f.all (fun e => decide (e.ts < t)) then .tooLate
    else .notFound

/-- Everything the reader returns from its start position: newest first. -/
def filesRev (rot cur : List Entry) : List Entry := cur.reverse ++ rot.reverse

/-- `seekTS` in the rotated file (the oldest one: "too early" is final). -/
def seekRot (rot cur : List Entry) (t : Int) : Option (List Entry) :=
  match fileSeek rot t with
  | .found k => some ((rot.take (k + 1)).reverse)
  | .tooLate => some (filesRev rot cur)     -- `return r.SeekStart()`
  | .tooEarly => none
  | .notFound => none

/-- `(*qLogReader).seekTS` over the existing files (newest first), as the
sequence of records the following `ReadNext` calls return; `none` = error. -/
def seekFiles (rot cur : List Entry) (t : Int) : Option (List Entry) :=
  if cur ≠ [] then
    match fileSeek cur t with
    | .found k => some ((cur.take (k + 1)).reverse ++ rot.reverse)
    | .tooLate => some (filesRev rot cur)
    | .notFound => none
    | .tooEarly => if rot ≠ [] then seekRot rot cur t else none
  else if rot ≠ [] then seekRot rot cur t
  else some []

/-- `seekRecord` (after the F12 repair: no record is skipped). -/
def seekRecord (rot cur : List Entry) (olderThan : Option Int) : Option (List Entry) :=
  match olderThan with
  | none => some (filesRev rot cur)
  | some t => seekFiles rot cur t

/-- `readEntries`: `rem` is what `ReadNext` will return, `acc` the entries
collected so far, `total` the records processed, `oldest` the last timestamp. -/
def readEntries (keep : Entry → Bool) (scan totalLimit : Int) :
    List Entry → List Entry → Int → Option Int → List Entry × Option Int
  | [], acc, total, oldest =>
    if total < scan ∨ scan ≤ 0 then (acc, none) else (acc, oldest)
  | e :: rest, acc, total, oldest =>
    if total < scan ∨ scan ≤ 0 then
      if keep e then
        if ((acc ++ [e]).length : Int) = totalLimit then (acc ++ [e], some e.ts)
        else readEntries keep scan totalLimit rest (acc ++ [e]) (total + 1) (some e.ts)
      else readEntries keep scan totalLimit rest acc (total + 1) (some e.ts)
    else (acc, oldest)

/-- Go `int` addition. -/
def wrap64 (x : Int) : Int := (x + 9223372036854775808) % 18446744073709551616 - 9223372036854775808

def maxInt : Int := 9223372036854775807

/-- `searchFiles`. -/
def searchFiles (s : State) (p : Params) : List Entry × Option Int :=
  match seekRecord s.rot s.cur p.olderThan with
  | none => ([], none)
  | some rem => readEntries (keepE s.conf p) p.scan (wrap64 (p.offset + p.limit)) rem [] 0 none

/-- What `searchMemory` keeps of a buffer record: host and client not ignored
now, and `match`. -/
def keepMem (c : Conf) (p : Params) (e : Entry) : Bool :=
  !isIgnored c e.host && !clientIgnored c e.cid e.ip && matchE c p e

/-- `searchMemory`. -/
def searchMemory (s : State) (p : Params) : List Entry :=
  if s.conf.memSize = 0 then [] else s.mem.reverse.filter (keepMem s.conf p)

/-- Stable insertion of `e` into a list sorted newest first (after all entries
that are not older). -/
def insertDesc (e : Entry) : List Entry → List Entry
  | [] => [e]
  | x :: xs => if x.ts < e.ts then e :: x :: xs else x :: insertDesc e xs

/-- `slices.SortStableFunc(entries, -a.Time.Compare(b.Time))`: the unique stable
sort, here by insertion from the right. -/
def sortDesc : List Entry → List Entry
  | [] => []
  | e :: rest => insertDesc e (sortDesc rest)

inductive Fault where
  | sliceBounds
  deriving DecidableEq, Repr

/-- `(*queryLog).search`. -/
def search (s : State) (p : Params) : Except Fault (List Entry × Option Int) :=
  if p.limit = 0 then .ok ([], none) else
  let memE := searchMemory s p
  let (fileE, oldest) := searchFiles s p
  let totalLimit := wrap64 (p.offset + p.limit)
  let entries := memE ++ fileE
  if (entries.length : Int) > totalLimit ∧ totalLimit < 0 then .error .sliceBounds else
  let entries := if (entries.length : Int) > totalLimit then entries.take totalLimit.toNat else entries
  let entries := sortDesc entries
  let (entries, oldest) :=
    if p.offset > 0 then
      if (entries.length : Int) > p.offset then (entries.drop p.offset.toNat, oldest) else ([], none)
    else (entries, oldest)
  let oldest := match entries.getLast? with
    | some e => some e.ts
    | none => oldest
  .ok (entries, oldest)

/-! ## Request parsing -/

def isDigit (b : Nat) : Bool := decide (48 ≤ b) && decide (b ≤ 57)

def digitsVal (ds : Bytes) : Nat := ds.foldl (fun acc b => acc * 10 + (b - 48)) 0

/-- Optional sign and the rest. -/
def signBody (s : Bytes) : Bool × Bytes :=
  match s with
  | 43 :: r => (false, r)
  | 45 :: r => (true, r)
  | r => (false, r)

/-- `strconv.ParseInt(s, 10, 64)`: `none` = error (syntax or range). -/
def parseInt64 (s : Bytes) : Option Int :=
  let nb := signBody s
  if nb.2 = [] then none
  else if !nb.2.all isDigit then none
  else
    let v : Int := digitsVal nb.2
    if nb.1 then (if v ≤ 9223372036854775808 then some (-v) else none)
    else (if v ≤ maxInt then some v else none)

/-- `getDoubleQuotesEnclosedValue`. -/
def unquote (t : Bytes) : Bytes × Bool :=
  if t.length ≥ 2 ∧ t.head? = some 34 ∧ t.getLast? = some 34 then ((t.drop 1).dropLast, true)
  else (t, false)

/-- The `response_status` names as bytes (literal lists, so that the kernel can
compute with them). -/
def statusNames : List (Bytes × Status) :=
  [([97,108,108], .all),
   ([102,105,108,116,101,114,101,100], .filtered),
   ([98,108,111,99,107,101,100], .blocked),
   ([98,108,111,99,107,101,100,95,115,101,114,118,105,99,101,115], .blockedService),
   ([98,108,111,99,107,101,100,95,115,97,102,101,98,114,111,119,115,105,110,103], .blockedSafebrowsing),
   ([98,108,111,99,107,101,100,95,112,97,114,101,110,116,97,108], .blockedParental),
   ([119,104,105,116,101,108,105,115,116,101,100], .whitelisted),
   ([114,101,119,114,105,116,116,101,110], .rewritten),
   ([115,97,102,101,95,115,101,97,114,99,104], .safeSearch),
   ([112,114,111,99,101,115,115,101,100], .processed)]
  -- all, filtered, blocked, blocked_services, blocked_safebrowsing, blocked_parental, whitelisted, rewritten, safe_search, processed

def statusOfName (s : Bytes) : Option Status :=
  match statusNames.find? (fun x => x.1 == s) with
  | some x => some x.2
  | none => none

/-- `older_than` after `time.Parse(time.RFC3339Nano, ·)` (library oracle). -/
inductive OlderIn where
  | absent            -- empty parameter
  | bad               -- does not parse
  | zero              -- parses to the zero time
  | at (t : Int)
  deriving DecidableEq, Repr

/-- The query string of `GET /control/querylog` as the handler reads it. -/
structure Req where
  older : OlderIn
  limitRaw : Bytes
  offsetRaw : Bytes
  searchRaw : Bytes
  /-- `strings.ToLower(val)` of the unquoted term (Unicode lower-casing: library oracle) -/
  loweredRaw : Bytes
  /-- `idna.ToASCII(strings.ToLower(val))`: returned string and `err != nil` -/
  asciiRet : Bytes
  asciiErr : Bool
  statusRaw : Bytes
  deriving Repr

/-- `parseSearchCriterion` for `search`. -/
def parseTerm (r : Req) : Option Criterion :=
  if r.searchRaw = [] then none else
  let (val, strict) := unquote r.searchRaw
  let lowered := r.loweredRaw
  let ascii := if r.asciiErr then r.asciiRet else if r.asciiRet = lowered then [] else r.asciiRet
  some (.term val ascii strict)

/-- `parseSearchCriterion` for `response_status`: `none` = no criterion,
`some none` = error. -/
def parseStatus (r : Req) : Option (Option Criterion) :=
  if r.statusRaw = [] then none else
  let (val, _) := unquote r.statusRaw
  match statusOfName val with
  | some v => some (some (.status v))
  | none => some none

/-- `older_than`: `none` = error. -/
def parseOlder (r : Req) : Option (Option Int) :=
  match r.older with
  | .bad => none
  | .at t => some (some t)
  | .absent => some none
  | .zero => some none

/-- `limit`: `none` = error; an unparsable value is skipped (default 500). -/
def parseLimit (r : Req) : Option Int :=
  match parseInt64 r.limitRaw with
  | some v => if v < 0 ∨ v > maxInt then none else some v
  | none => some 500

/-- `offset` and the resulting `maxFileScanEntries`: `none` = error. -/
def parseOffset (scanDefault : Int) (r : Req) (limit : Int) : Option (Int × Int) :=
  match parseInt64 r.offsetRaw with
  | some v => if v < 0 ∨ v > maxInt - limit then none else some (v, 0)
  | none => some (0, scanDefault)

def critList (t : Option Criterion) (st : Option Criterion) : List Criterion :=
  (match t with | some c => [c] | none => []) ++ (match st with | some c => [c] | none => [])

/-- `parseSearchParams`; `none` = error (HTTP 400).  `scanDefault` is
`newSearchParams().maxFileScanEntries` (50000). -/
def parseParams (scanDefault : Int) (r : Req) : Option Params :=
  match parseOlder r with
  | none => none
  | some olderThan =>
    match parseLimit r with
    | none => none
    | some limit =>
      match parseOffset scanDefault r limit with
      | none => none
      | some (offset, scan) =>
        match parseStatus r with
        | some none => none
        | some (some c) =>
          some { olderThan := olderThan, criteria := critList (parseTerm r) (some c),
                 offset := offset, limit := limit, scan := scan }
        | none =>
          some { olderThan := olderThan, criteria := critList (parseTerm r) none,
                 offset := offset, limit := limit, scan := scan }

/-- `"client"` of an entry of the answer (`entryToJSON`): a function of the stored
record and the CURRENT anonymisation setting; the stored record is not touched. -/
def shownClient (c : Conf) (e : Entry) : Bytes := if c.anonymize then e.ipAnon else e.ip

inductive Resp where
  | bad                                              -- HTTP 400
  | ok (entries : List Entry) (oldest : Option Int)  -- HTTP 200: `data`, `oldest`
  deriving Repr

/-- `handleQueryLog`. -/
def handle (scanDefault : Int) (s : State) (r : Req) : Except Fault Resp :=
  match parseParams scanDefault r with
  | none => .ok .bad
  | some p =>
    match search s p with
    | .error f => .error f
    | .ok (es, o) => .ok (.ok es o)

/-! ## Operations -/

/-- `aghnet.NormalizeDomain` (ASCII). -/
def normalizeDomain (q : Bytes) : Bytes :=
  if q = [dot] then q
  else lower (if q.getLast? = some dot then q.dropLast else q)

/-- `RingBuffer.Push` on a ring of capacity `cap ≥ 1`, as the list oldest first. -/
def push (cap : Nat) (mem : List Entry) (e : Entry) : List Entry :=
  let m := mem ++ [e]
  if m.length > cap then m.drop (m.length - cap) else m

/-- capacity of the ring made by `newQueryLog` -/
def ringCap (c : Conf) : Nat := if c.memSize = 0 then 1 else c.memSize

/-- `flushLogBuffer`: an empty buffer is an error and changes nothing. -/
def flush (s : State) : State :=
  if s.mem = [] then s else { s with mem := [], cur := s.cur ++ s.mem, flushPending := false }

/-- `Add` up to and including the `go` statement: the flush goroutine is started,
not run. -/
def addRaw (s : State) (e : Entry) : State :=
  if !s.conf.enabled then s else
  let mem := push (ringCap s.conf) s.mem e
  if !s.flushPending && s.conf.fileEnabled && decide (mem.length ≥ s.conf.memSize) then
    { s with mem := mem, flushPending := true, tasks := s.tasks + 1 }
  else { s with mem := mem }

/-- One flush goroutine runs: `flushLogBuffer` (an empty buffer is an error that
leaves `flushPending` as it is). -/
def runTask (s : State) : State := { flush s with tasks := s.tasks - 1 }

def runTasksN : Nat → State → State
  | 0, s => s
  | n + 1, s => runTasksN n (runTask s)

/-- `synctest.Wait()`: every started flush goroutine runs to completion. -/
def runTasks (s : State) : State := runTasksN s.tasks s

/-- `Add` with nothing pending, followed by the completion of the flush it
starts: what `runTasks (addRaw s e)` is when `flushPending = false` and
`tasks = 0` (lemma `runTasks_addRaw`). -/
def addEntry (s : State) (e : Entry) : State :=
  if !s.conf.enabled then s else
  let mem := push (ringCap s.conf) s.mem e
  let s' := { s with mem := mem }
  if s.conf.fileEnabled && decide (mem.length ≥ s.conf.memSize) then flush s' else s'

/-- `Shutdown`. -/
def shutdown (s : State) : State := if s.conf.fileEnabled then flush s else s

/-- `rotate`: rename querylog.json to querylog.json.1 if it exists. -/
def rotate (s : State) : State :=
  if s.cur = [] then s else { s with rot := s.cur, cur := [] }

/-- `checkAndRotate` at time `now`; `[]`: the current file is absent or has no
record — the first time value cannot be read, nothing is rotated. -/
def rotCheck (s : State) (now : Int) : State :=
  match s.cur with
  | [] => s
  | first :: _ => if first.ts + s.conf.ivl > now then s else rotate s

/-- `clear`. -/
def clear (s : State) : State := { s with mem := [], cur := [], rot := [], flushPending := false }

/-- `Shutdown`, then `newQueryLog` over the same directory (a flush goroutine of
the old instance finds its buffer empty and cannot touch the new one). -/
def restart (s : State) (memSize : Nat) (fileEnabled enabled : Bool) : State :=
  let s1 := shutdown s
  { s1 with mem := [], flushPending := false, tasks := 0,
            conf := { s1.conf with memSize := memSize, fileEnabled := fileEnabled, enabled := enabled } }

def msNs : Int := 1000000
def minIvlMs : Int := 3600000
def maxIvlMs : Int := 365 * 86400000

/-- `handlePutQueryLogConfig` with a decodable body, non-null flags and rules
the engine accepts: a bad interval is answered 422 and changes nothing. -/
def putConf (s : State) (enabled anonymize : Bool) (ivlMs : Int) (ignored : List Bytes) : State :=
  if ivlMs < minIvlMs ∨ ivlMs > maxIvlMs then s
  else { s with conf := { s.conf with enabled := enabled, anonymize := anonymize, ivl := ivlMs * msNs,
                                       ignored := ignored } }

def setClients (s : State) (tbl : List (Bytes × ClientInfo)) : State :=
  { s with conf := { s.conf with clients := tbl } }

def init (c : Conf) : State := { mem := [], cur := [], rot := [], conf := c }

/-- What is done right after `Add`, before the flush goroutine it started runs. -/
inductive Then where
  | clear
  | shutdown
  | restart (memSize : Nat) (fileEnabled enabled : Bool)
  deriving Repr

inductive Op where
  | add (e : Entry)
  | addThen (e : Entry) (t : Then)
  | shutdown
  | rotate
  | rotCheck (now : Int)
  | clear
  | restart (memSize : Nat) (fileEnabled enabled : Bool)
  | putConf (enabled anonymize : Bool) (ivlMs : Int) (ignored : List Bytes)
  | setClients (tbl : List (Bytes × ClientInfo))
  deriving Repr

def applyThen (s : State) : Then → State
  | .clear => clear s
  | .shutdown => shutdown s
  | .restart m f en => restart s m f en

def step (s : State) : Op → State
  | .add e => runTasks (addRaw s e)
  | .addThen e t => runTasks (applyThen (addRaw s e) t)
  | .shutdown => shutdown s
  | .rotate => rotate s
  | .rotCheck now => rotCheck s now
  | .clear => clear s
  | .restart m f en => restart s m f en
  | .putConf en an ivl ign => putConf s en an ivl ign
  | .setClients tbl => setClients s tbl

def run (s : State) (ops : List Op) : State := ops.foldl step s

end AGH.C07
