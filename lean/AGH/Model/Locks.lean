/-
C05 — abstract machine for Go goroutines that synchronise with `sync.Mutex` /
`sync.RWMutex` and touch shared fields (DESIGN §2 C05).  Core Lean only.

A goroutine is the list of synchronisation-relevant events it still has to
perform: acquire / release a lock in a mode, read / write a shared variable.
The lock table is not a separate component: what a thread holds is part of the
thread, and whether an acquisition is enabled is computed from what ALL threads
hold.  Rules transcribed from package `sync`:

* `Mutex.Lock` / `RWMutex.Lock` (mode `excl`) blocks while ANY thread — the
  caller included, Go mutexes are not re-entrant — holds the lock in any mode.
* `RWMutex.RLock` (mode `shared`) blocks while a thread holds the lock
  exclusively, and also while a writer is PENDING: a goroutine that has called
  `Lock` and is waiting for the readers to drain has already announced itself
  (`readerCount` is negative), so a second `RLock` of a goroutine that still
  holds its first one deadlocks.  The announcement is its own machine step
  (`announce`), so that every interleaving of "writer arrives" with the
  readers is covered.
* `Unlock` / `RUnlock` of a lock that the thread does not hold in that mode is a
  fatal error in Go; here the event is simply not enabled (the thread is stuck)
  and the discipline predicates of `AGH.Spec.Locks` exclude it.
* reads and writes are always enabled.

The machine deliberately has MORE behaviours than Go (any enabled thread may
move, no FIFO hand-off), so safety statements proved of it carry over.
-/
namespace AGH.C05

abbrev Lock := Nat
abbrev Var := Nat

inductive Mode where
  | shared | excl
  deriving DecidableEq, Repr

inductive Event where
  | acq (l : Lock) (m : Mode)
  | rel (l : Lock) (m : Mode)
  | rd (x : Var)
  | wr (x : Var)
  deriving DecidableEq, Repr

/-- One goroutine: the locks it holds (a multiset: one entry per un-released
acquisition), whether it has announced the exclusive acquisition it is about to
make, and the events it still has to perform. -/
structure Thread where
  held : List (Lock × Mode)
  announced : Bool
  rest : List Event
  deriving DecidableEq, Repr

abbrev State := List Thread

/-- A program is one event list per goroutine. -/
abbrev Prog := List (List Event)

def initThread (evs : List Event) : Thread := { held := [], announced := false, rest := evs }

def init (p : Prog) : State := p.map initThread

def holdsAny (t : Thread) (l : Lock) : Bool := t.held.any (fun h => h.1 == l)

def holdsExcl (t : Thread) (l : Lock) : Bool := t.held.contains (l, Mode.excl)

/-- `t` is a pending writer of `l`: it called `Lock` and waits. -/
def wantsExcl (t : Thread) (l : Lock) : Bool :=
  t.announced && (t.rest.head? == some (Event.acq l Mode.excl))

/-- Is an acquisition of `l` in mode `m` enabled in state `s`? -/
def canAcq (s : State) (l : Lock) : Mode → Bool
  | .excl => s.all (fun t => !holdsAny t l)
  | .shared => s.all (fun t => !holdsExcl t l && !wantsExcl t l)

/-- The thread after performing its next event (no enabledness check). -/
def advance (t : Thread) : Thread :=
  match t.rest with
  | [] => t
  | .acq l m :: r => { held := (l, m) :: t.held, announced := false, rest := r }
  | .rel l m :: r => { t with held := t.held.erase (l, m), rest := r }
  | .rd _ :: r => { t with rest := r }
  | .wr _ :: r => { t with rest := r }

/-- Is the next event of `t` enabled in `s`? -/
def enabled (s : State) (t : Thread) : Bool :=
  match t.rest with
  | [] => false
  | .acq l m :: _ => canAcq s l m
  | .rel l m :: _ => t.held.contains (l, m)
  | .rd _ :: _ => true
  | .wr _ :: _ => true

/-- Thread `i` performs its next event, if enabled. -/
def stepThread (s : State) (i : Nat) : Option State :=
  match s[i]? with
  | none => none
  | some t => if enabled s t then some (s.set i (advance t)) else none

/-- Thread `i`, about to `Lock`, announces itself as a pending writer. -/
def announce (s : State) (i : Nat) : Option State :=
  match s[i]? with
  | none => none
  | some t =>
    match t.rest with
    | .acq _ .excl :: _ => if t.announced then none else some (s.set i { t with announced := true })
    | _ => none

inductive Step : State → State → Prop where
  | run {s s' : State} (i : Nat) : stepThread s i = some s' → Step s s'
  | ann {s s' : State} (i : Nat) : announce s i = some s' → Step s s'

/-- States reachable from `s₀` by any interleaving. -/
inductive Reach (s₀ : State) : State → Prop where
  | refl : Reach s₀ s₀
  | step {s s' : State} : Reach s₀ s → Step s s' → Reach s₀ s'

/-! ### what must never happen -/

/-- The access a thread is about to make: variable and "is a write". -/
def nextAccess (t : Thread) : Option (Var × Bool) :=
  match t.rest with
  | .rd x :: _ => some (x, false)
  | .wr x :: _ => some (x, true)
  | _ => none

/-- A data race: two different goroutines are both about to access the same
variable (accesses are always enabled, so both orders are possible and nothing
orders them) and at least one access is a write. -/
def Race (s : State) : Prop :=
  ∃ (i j : Nat) (x : Var) (wi wj : Bool), i ≠ j ∧ (s[i]?).bind nextAccess = some (x, wi) ∧
    (s[j]?).bind nextAccess = some (x, wj) ∧ (wi = true ∨ wj = true)

def unfinished (s : State) : Bool := s.any (fun t => !t.rest.isEmpty)

/-- A deadlock: some goroutine still has work, and no goroutine can perform
its next event (announcements are not progress). -/
def Deadlock (s : State) : Prop := unfinished s = true ∧ ∀ i, stepThread s i = none

/-- Thread `i` waits for a lock that thread `k` holds. -/
def WaitsFor (s : State) (i k : Nat) : Prop :=
  ∃ (ti tk : Thread) (l : Lock) (m : Mode) (r : List Event), s[i]? = some ti ∧ s[k]? = some tk ∧ ti.rest = .acq l m :: r ∧
    canAcq s l m = false ∧ holdsAny tk l = true

/-- One or more `WaitsFor` edges. -/
inductive WaitChain (s : State) : Nat → Nat → Prop where
  | one {i k : Nat} : WaitsFor s i k → WaitChain s i k
  | cons {i k j : Nat} : WaitsFor s i k → WaitChain s k j → WaitChain s i j

/-! ### executable runner (the driver's model; `exec` only takes `run` steps) -/

def raceB (s : State) : Bool :=
  let acc := s.map nextAccess
  (List.range acc.length).any fun i =>
    (List.range acc.length).any fun j =>
      i != j && (match acc[i]?, acc[j]? with
        | some (some (x, wi)), some (some (y, wj)) => x == y && (wi || wj)
        | _, _ => false)

def deadlockB (s : State) : Bool :=
  unfinished s && (List.range s.length).all (fun i => (stepThread s i).isNone)

/-- Would the scheduler's pick `i` be granted in `s`? -/
def grantOf (s : State) (i : Nat) : Bool := (stepThread s i).isSome

/-- Move thread `i` if `g` (whatever the lock table says), else leave `s`. -/
def stepForced (s : State) (i : Nat) (g : Bool) : State :=
  if g then (match s[i]? with | some t => s.set i (advance t) | none => s) else s

/-- The states visited under schedule `sched`, when the grant decisions are
taken from `gs` (the implementation's) — missing decisions mean "not granted". -/
def replayFrom (s : State) : List Nat → List Bool → List State
  | [], _ => [s]
  | _ :: is, [] => s :: replayFrom s is []
  | i :: is, g :: gs => s :: replayFrom (stepForced s i g) is gs

/-- The model's own grant decisions along `sched`. -/
def grantsFrom (s : State) : List Nat → List Bool
  | [] => []
  | i :: is => grantOf s i :: grantsFrom (stepForced s i (grantOf s i)) is

/-- The states the model visits along `sched`. -/
def statesFrom (s : State) : List Nat → List State
  | [] => [s]
  | i :: is => s :: statesFrom (stepForced s i (grantOf s i)) is

end AGH.C05
