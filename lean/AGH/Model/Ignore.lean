/-
C08 model, part 1: the ignore engine (internal/aghnet/ignore.go) over the rule
syntax the property names — plain names, `||name^`, wildcards, `|.^`, `@@`
exceptions, comments — i.e. urlfilter v0.20.0 rules WITHOUT modifiers (`$…`),
regular-expression patterns (`/…/`), cosmetic markers and /etc/hosts lines.

Transcribed: `aghnet.NewIgnoreEngine` (join with "\n", `strings.ToLower`),
`filterlist.RuleScanner` (split at "\n", unparsable lines are skipped),
`rules.NewRule` (TrimSpace, comments, host rule first, then network rule),
`rules.NewHostRule` just-domain form with `filterutil.IsDomainName`,
`rules.NewNetworkRule` (`@@`, too-wide check), `rules.patternToRegexp`
(`||`, `|`, `^`, `*`; inner pipes are literals), `NetworkRule.matchPattern` /
`shouldMatchHostname` (a `||` pattern is matched against "http://"+host, every
other one against the host), `DNSEngine.MatchRequest` (empty host never
matches; any matching network rule — exception rules included — or an equal
host rule means "ignored").  The shortcut / lookup tables of the engine are
indexes only (a rule is returned iff `Match` holds) and are not modelled.
Text is ASCII (`supportedRule`).
-/
import AGH.Model.Bytes
namespace AGH.Ignore
open AGH AGH.Bytes

def pipe : Nat := 124
def star : Nat := 42
def caret : Nat := 94
def atSign : Nat := 64

/-- ASCII white space of `strings.TrimSpace`. -/
def isSpaceB (b : Nat) : Bool := b == 32 || b == 9 || b == 10 || b == 11 || b == 12 || b == 13

def trimLeft (s : Bytes) : Bytes := s.dropWhile isSpaceB
def trimRight (s : Bytes) : Bytes := (s.reverse.dropWhile isSpaceB).reverse
def trim (s : Bytes) : Bytes := trimRight (trimLeft s)

/-! ### filterutil.IsDomainName -/

def isLetterB (c : Nat) : Bool := isLowerB c || isUpperB c

structure DNState where
  /-- 0/1 = at the start of a label, 2 = inside a label -/
  st : Nat := 0
  nLabel : Nat := 0
  prev : Nat := 0
  charOnly : Bool := true
  xn : Nat := 0

/-- "xn--"[i] -/
def xnByte (i : Nat) : Nat :=
  match i with
  | 0 => 120 | 1 => 110 | _ => 45

/-- One iteration of the loop of `IsDomainName`; `none` = `return false`. -/
def dnStep (s : DNState) (c : Nat) : Option DNState :=
  if s.st != 2 then
    if !isLetterB c then
      if !isDigitB c then none
      else some { s with charOnly := false, st := 2, nLabel := 1 }
    else if c == 120 || c == 88 then some { s with xn := 1, st := 2, nLabel := 1 }
    else some { s with st := 2, nLabel := 1 }
  else if c == dot then
    if s.prev == dash then none
    else some { s with st := 0, charOnly := true, xn := 0 }
  else if s.nLabel == 63 then none
  else
    let charOnly := s.charOnly && isLetterB c
    if !isLetterB c && !(isDigitB c || c == dash) then none
    else
      let xn :=
        if s.xn > 0 then
          if s.xn < 4 then (if c == xnByte s.xn then s.xn + 1 else 0) else s.xn + 1
        else s.xn
      some { s with charOnly := charOnly, xn := xn, prev := c, nLabel := s.nLabel + 1 }

def dnRun : DNState → Bytes → Option DNState
  | s, [] => some s
  | s, c :: rest => match dnStep s c with
    | none => none
    | some s' => dnRun s' rest

def isDomainName (name : Bytes) : Bool :=
  if name.length > 253 then false
  else match dnRun {} name with
    | none => false
    | some s => !(s.st != 2 || s.nLabel == 1 || (!s.charOnly && s.xn < 8))

/-! ### Rules -/

inductive Tok where
  | lit (b : Nat)
  | any
  | sep
  deriving DecidableEq, Repr

/-- A compiled basic pattern: the regular expression `patternToRegexp` builds. -/
structure Pat where
  /-- the pattern began with `||` (matched against the URL "http://"+host) -/
  startURL : Bool
  /-- the pattern began with a single `|` -/
  startStr : Bool
  /-- the pattern ended with `|` -/
  endStr : Bool
  body : List Tok
  deriving DecidableEq, Repr

inductive Rule where
  /-- just-a-domain host rule: matches exactly this host name -/
  | host (name : Bytes)
  /-- network rule (blocking or `@@` exception: both make `Has` true) -/
  | net (p : Pat)
  deriving DecidableEq, Repr

def tokOf (b : Nat) : Tok :=
  if b == star then .any else if b == caret then .sep else .lit b

/-- `patternToRegexp` for a pattern of at least three bytes that is not a
regular expression. -/
def compilePattern (p : Bytes) : Pat :=
  let startURL := hasPrefix p [pipe, pipe]
  let startStr := !startURL && hasPrefix p [pipe]
  let k := if startURL then 2 else if startStr then 1 else 0
  let rest := p.drop k
  let endStr := rest.getLast? == some pipe
  let body := if endStr then rest.dropLast else rest
  { startURL := startURL, startStr := startStr, endStr := endStr, body := body.map tokOf }

/-- `rules.NewRule` on one line of the (already lower-cased) rule text.
`none`: empty line, comment, or a rule the parser rejects (skipped by the
scanner). -/
def parseRule (line : Bytes) : Option Rule :=
  let l := trim line
  match l with
  | [] => none
  | c :: _ =>
    if c == 33 || c == 35 then none            -- '!' comment; '#' comment (or cosmetic, ignored)
    else if isDomainName l then some (.host l)
    else
      -- NewNetworkRule / parseRuleText
      if l == [atSign, atSign] then none
      else
        let p := if hasPrefix l [atSign, atSign] then l.drop 2 else l
        if p.length < 3 then none                -- ErrTooWideRule (covers "", "|", "||", "*")
        else some (.net (compilePattern p))

/-- The rule text is in the subset this model covers. -/
def supportedRule (r : Bytes) : Bool :=
  r.all (fun b => decide (b < 128) && b != 36 && b != 47 && b != 58 && b != 92) &&
  -- '#' only as the first byte of a line (comment), no white space inside a line
  (splitOn nl r).all (fun line =>
    let l := trim line
    match l with
    | [] => true
    | c :: rest =>
      c == 33 || c == 35 ||                      -- a comment line may contain anything
      (l.all (fun b => !isSpaceB b) && rest.all (fun b => b != 35)))

/-! ### Matching -/

/-- `RegexSeparator` character class `[^ a-zA-Z0-9.%_-]`. -/
def isSepB (c : Nat) : Bool :=
  !(c == 32 || isAlnumB c || c == dot || c == 37 || c == 95 || c == dash)

/-- `.*` followed by `f`: `.` does not match a newline. -/
def anyThen (f : Bytes → Bool) : Bytes → Bool
  | [] => f []
  | c :: rest => f (c :: rest) || (c != nl && anyThen f rest)

/-- The regular expression `body` (then `$` iff `e`) matches a prefix of `s`. -/
def matchHere : List Tok → Bool → Bytes → Bool
  | [], e, s => !e || s.isEmpty
  | .lit b :: ts, e, s =>
    match s with
    | c :: rest => lowerB c == lowerB b && matchHere ts e rest
    | [] => false
  | .any :: ts, e, s => anyThen (matchHere ts e) s
  | .sep :: ts, e, s =>
    match s with
    | c :: rest => isSepB c && matchHere ts e rest
    | [] => matchHere ts e []

/-- Unanchored search: the expression matches at some position of `s`. -/
def searchFrom (f : Bytes → Bool) : Bytes → Bool
  | [] => f []
  | c :: rest => f (c :: rest) || searchFrom f rest

/-- Character class `[a-z0-9-_.]` under `(?i)`. -/
def isHostCharB (c : Nat) : Bool := isAlnumB c || c == dash || c == 95 || c == dot

/-- `([a-z0-9-_.]+\.)` then `f`: a run of host characters, at least one before
the final dot (`n` = number of characters of the run consumed so far). -/
def afterSubdomain (f : Bytes → Bool) : Bytes → Nat → Bool
  | [], _ => false
  | c :: rest, n =>
    isHostCharB c && ((c == dot && decide (n ≥ 1) && f rest) || afterSubdomain f rest (n + 1))

def matchPat (p : Pat) (host : Bytes) : Bool :=
  let f := matchHere p.body p.endStr
  if p.startURL then f host || afterSubdomain f host 0
  else if p.startStr then f host
  else searchFrom f host

def matchRule (r : Rule) (host : Bytes) : Bool :=
  match r with
  | .host n => n == host
  | .net p => matchPat p host

/-- The rules of an engine built by `NewIgnoreEngine(ignored)`. -/
def compile (ignored : List Bytes) : List Rule :=
  (splitOn nl (lower (joinWith nl ignored))).filterMap parseRule

/-- `(*IgnoreEngine).Has` on the engine built from `ignored`. -/
def has (ignored : List Bytes) (host : Bytes) : Bool :=
  host != [] && (compile ignored).any (fun r => matchRule r host)

/-- `aghnet.NormalizeDomain` (ASCII). -/
def normalize (host : Bytes) : Bytes :=
  if host = [dot] then host
  else lower (if host.getLast? == some dot then host.dropLast else host)

end AGH.Ignore
