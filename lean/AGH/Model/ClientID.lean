/-
C16 model: ClientID extraction (internal/dnsforward/clientid.go,
beforerequest.go clientIDFromDNSContext; golibs netutil label validation).
-/
import AGH.Model.Bytes
import AGH.Model.PathClean
namespace AGH.C16
open AGH AGH.Bytes

/-- netutil.IsValidHostOuterRune on a byte. -/
def isOuter (b : Nat) : Bool := isAlnumB b
/-- netutil.IsValidHostInnerRune on a byte. -/
def isInner (b : Nat) : Bool := b == dash || isOuter b

/-- netutil.ValidateHostnameLabel l == nil.  Bytes ≥ 0x80 decode to runes
≥ 0x80 (or U+FFFD), none of which is valid, so the byte-level test is exact. -/
def validLabel (l : Bytes) : Bool :=
  match l with
  | [] => false
  | [a] => isOuter a
  | a :: rest =>
    decide (l.length ≤ 63) && isOuter a && rest.dropLast.all isInner &&
      (match rest.getLast? with | some z => isOuter z | none => false)

/-- netutil.IsSubdomain -/
def isSubdomain (domain top : Bytes) : Bool :=
  decide (domain.length > top.length + 1) && hasSuffix domain top &&
    (domain[domain.length - top.length - 1]? == some dot)

/-- netutil.IsImmediateSubdomain -/
def isImmediateSubdomain (domain top : Bytes) : Bool :=
  isSubdomain domain top && (domain.count dot == top.count dot + 1)

inductive Err where
  | sniMismatch | badLabel | badPath | extraParts | nilRequest | badConn | badHost
  deriving DecidableEq, Repr

/-- clientIDFromClientServerName -/
def clientIDFromServerName (host cli : Bytes) (strict : Bool) : Except Err Bytes :=
  if host = cli then .ok []
  else if !isImmediateSubdomain cli host then
    if !strict then .ok [] else .error .sniMismatch
  else
    let id := cli.take (cli.length - host.length - 1)
    if validLabel id then .ok (lower id) else .error .badLabel

def dnsQuery : Bytes := [100, 110, 115, 45, 113, 117, 101, 114, 121]  -- "dns-query"

/-- clientIDFromDNSContextHTTPS on r.URL.Path -/
def clientIDFromPath (p : Bytes) : Except Err Bytes :=
  let parts0 := splitOn slash (pathClean p)
  let parts := match parts0 with
    | [] :: rest => rest
    | ps => ps
  match parts with
  | [] => .error .badPath
  | first :: rest =>
    if first ≠ dnsQuery then .error .badPath
    else match rest with
      | [] => .ok []
      | [id] => if validLabel id then .ok (lower id) else .error .badLabel
      | _ => .error .extraParts

inductive Proto where
  | udp | tcp | tls | https | quic | dnscrypt
  deriving DecidableEq, Repr

/-- Everything `clientIDFromDNSContext` reads. -/
structure Ctx where
  proto : Proto
  /-- `pctx.HTTPRequest.URL.Path`, `none` when the request is nil -/
  path : Option Bytes
  /-- `r.TLS.ServerName` when `r.TLS != nil` -/
  httpTLS : Option Bytes
  /-- `r.Host` -/
  hostHdr : Bytes
  /-- `netutil.SplitHost(r.Host)` (oracle: Go's net.SplitHostPort), `none` = error -/
  hostSplit : Option Bytes
  /-- server name from the TLS / QUIC connection state, `none` if the conn has the wrong type -/
  connSNI : Option Bytes
  /-- `s.conf.TLSConf.ServerName` -/
  hostSrvName : Bytes
  strict : Bool

/-- clientServerName -/
def clientServerName (c : Ctx) : Except Err Bytes :=
  match c.proto with
  | .https =>
    match c.httpTLS with
    | some n => .ok n
    | none =>
      if c.hostHdr = [] then .ok []
      else match c.hostSplit with
        | some h => .ok h
        | none => .error .badHost
  | .quic | .tls =>
    match c.connSNI with
    | some n => .ok n
    | none => .error .badConn
  | _ => .ok []

def fromSNI (c : Ctx) : Except Err Bytes :=
  if c.hostSrvName = [] then .ok []
  else match clientServerName c with
    | .error e => .error e
    | .ok cli => clientIDFromServerName c.hostSrvName cli c.strict

/-- (*Server).clientIDFromDNSContext -/
def clientIDFromCtx (c : Ctx) : Except Err Bytes :=
  match c.proto with
  | .https =>
    match c.path with
    | none => .error .nilRequest
    | some p =>
      match clientIDFromPath p with
      | .error e => .error e
      | .ok id => if id ≠ [] then .ok id else fromSNI c
  | .tls | .quic => fromSNI c
  | _ => .ok []

end AGH.C16

namespace AGH.C16
open AGH AGH.Bytes

/-! ### The ClientID cache between `HandleBefore` and `processInitial`

`HandleBefore` stores the extracted ClientID under dnsproxy's request number;
`processInitial` reads it back under the same number.  dnsproxy numbers
requests from 1 again whenever the proxy is re-created, the cache lives as long
as the server, so numbers ARE reused. -/

/-- request number ↦ ClientID (absent = empty). -/
abbrev Cache := List (Nat × Bytes)

def Cache.get (c : Cache) (r : Nat) : Bytes :=
  match c.find? (·.1 == r) with
  | some (_, id) => id
  | none => []

def Cache.del (c : Cache) (r : Nat) : Cache := c.filter (·.1 != r)

def Cache.set (c : Cache) (r : Nat) (id : Bytes) : Cache := (r, id) :: c.del r

/-- The part of `HandleBefore` that concerns the ClientID (access lists empty):
a failed extraction fails the request and leaves the cache alone; otherwise the
entry for this request number is replaced — or removed when there is no id. -/
def handleBefore (c : Cache) (r : Nat) (ctx : Ctx) : Cache × Except Err Bytes :=
  match clientIDFromCtx ctx with
  | .error e => (c, .error e)
  | .ok id => if id ≠ [] then (c.set r id, .ok id) else (c.del r, .ok [])

/-- `processInitial`: the ClientID the request is attributed to. -/
def attributed (c : Cache) (r : Nat) : Bytes := c.get r

end AGH.C16
