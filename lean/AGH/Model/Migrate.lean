/-
C13 — executable model of `internal/configmigrate` (migrator.go, yaml.go,
v1.go … v29.go) as of the tree with `fieldVal` treating a null object as absent.

A YAML document decoded by yaml.v3 into `map[string]any` is a `YVal`.  Go values
of static type `yobj` held in a local variable are `YVal`s too: `.obj es` is a
non-nil map, `.null` is the nil map (reads succeed, a write panics).  Go maps
are mutated in place through aliases; the model is functional, so a child map
that was obtained with `fieldVal[yobj]` and then changed is written back with
`putK` (not a Go operation, cannot panic), whereas every Go map assignment
`m[k] = v` is `setK` (panics on a nil map, as Go does).

When a step returns an error `Migrate` discards the document and returns the
original body, so the model does not track partial mutations on error paths:
a step is `YVal → Except Fault YVal`.

Library results the model does not compute are oracles shipped with each case
(`Oracles`): duration formatting, `netip` address formatting, `addQUICPort`
(`url.Parse`), the data-directory pattern.  A missing oracle value is the
fault `.oracle` (the driver answers `bad-op`), never a default.
Core Lean only.
-/
import AGH.Model.Bytes
namespace AGH.C13
open AGH

abbrev Key := Bytes

/-- Decoded YAML value, plus the Go-typed values that steps leave in the map. -/
inductive YVal
  | null
  | bool (b : Bool)
  | int (i : Int)
  | str (s : Bytes)
  /-- float64, uint64, time.Time, map[any]any …: matched by no `T` except `any`;
      payload is the canonical dump. -/
  | opaque (kind : Nat) (payload : Bytes)
  | arr (xs : List YVal)
  | obj (es : List (Key × YVal))
  /-- `timeutil.Duration(time.Duration(n) * timeutil.Day)` left by v12/v20. -/
  | dur (days : Int)
  /-- `[]string` left by v29. -/
  | strs (xs : List Bytes)
  /-- `dnsforward.UpstreamMode` left by v28. -/
  | umode (s : Bytes)
  deriving Repr, Inhabited

/-- The type argument of `fieldVal[T]`. -/
inductive Ty | int | str | bool | obj | arr | any
  deriving DecidableEq, Repr

inductive ErrK | type | bcrypt | bindHost | verCur | verTarget | parse | encode | other
  deriving DecidableEq, Repr

inductive PanicK | nilMapWrite | index | assertion | other
  deriving DecidableEq, Repr

inductive Fault
  | err (k : ErrK)
  | panic (p : PanicK)
  | oracle
  deriving DecidableEq, Repr

abbrev M := Except Fault

structure Oracles where
  /-- `timeutil.Duration(time.Duration(n) * timeutil.Day).String()` -/
  fmtDays : Int → Option Bytes
  /-- `timeutil.Duration(time.Duration(n) * time.Hour).String()` -/
  fmtHours : Int → Option Bytes
  /-- `netip.ParseAddr(host)` succeeded; `none`: not shipped for this host. -/
  addrOK : Bytes → Option Bool
  /-- `netip.AddrPortFrom(addr, uint16(port)).String()` -/
  addrPort : Bytes → Int → Option Bytes
  /-- `addQUICPort(u, 784)` -/
  quic : Bytes → Option Bytes
  /-- `filepath.Join(dataDir, "userfilters", "*")` -/
  ufPattern : Bytes
  /-- what yaml.v3 reads back after encoding a value that is not a generic
      scalar (`3.0` is written as `3` and read back as an int) -/
  rt : Nat → Bytes → Option YVal

/-! ### Keys and constants (byte lists, so that the kernel never sees `String`) -/

def kSchemaVersion : Key := [115, 99, 104, 101, 109, 97, 95, 118, 101, 114, 115, 105, 111, 110]  -- "schema_version"
def kCoredns : Key := [99, 111, 114, 101, 100, 110, 115]  -- "coredns"
def kDns : Key := [100, 110, 115]  -- "dns"
def kBootstrapDns : Key := [98, 111, 111, 116, 115, 116, 114, 97, 112, 95, 100, 110, 115]  -- "bootstrap_dns"
def kClients : Key := [99, 108, 105, 101, 110, 116, 115]  -- "clients"
def kUseGlobalBlockedServices : Key := [117, 115, 101, 95, 103, 108, 111, 98, 97, 108, 95, 98, 108, 111, 99, 107, 101, 100, 95, 115, 101, 114, 118, 105, 99, 101, 115]  -- "use_global_blocked_services"
def kAuthName : Key := [97, 117, 116, 104, 95, 110, 97, 109, 101]  -- "auth_name"
def kAuthPass : Key := [97, 117, 116, 104, 95, 112, 97, 115, 115]  -- "auth_pass"
def kName : Key := [110, 97, 109, 101]  -- "name"
def kPassword : Key := [112, 97, 115, 115, 119, 111, 114, 100]  -- "password"
def kUsers : Key := [117, 115, 101, 114, 115]  -- "users"
def kIp : Key := [105, 112]  -- "ip"
def kMac : Key := [109, 97, 99]  -- "mac"
def kIds : Key := [105, 100, 115]  -- "ids"
def kDhcp : Key := [100, 104, 99, 112]  -- "dhcp"
def kDhcpv4 : Key := [100, 104, 99, 112, 118, 52]  -- "dhcpv4"
def kGatewayIp : Key := [103, 97, 116, 101, 119, 97, 121, 95, 105, 112]  -- "gateway_ip"
def kSubnetMask : Key := [115, 117, 98, 110, 101, 116, 95, 109, 97, 115, 107]  -- "subnet_mask"
def kRangeStart : Key := [114, 97, 110, 103, 101, 95, 115, 116, 97, 114, 116]  -- "range_start"
def kRangeEnd : Key := [114, 97, 110, 103, 101, 95, 101, 110, 100]  -- "range_end"
def kLeaseDuration : Key := [108, 101, 97, 115, 101, 95, 100, 117, 114, 97, 116, 105, 111, 110]  -- "lease_duration"
def kIcmpTimeoutMsec : Key := [105, 99, 109, 112, 95, 116, 105, 109, 101, 111, 117, 116, 95, 109, 115, 101, 99]  -- "icmp_timeout_msec"
def kBindHost : Key := [98, 105, 110, 100, 95, 104, 111, 115, 116]  -- "bind_host"
def kBindHosts : Key := [98, 105, 110, 100, 95, 104, 111, 115, 116, 115]  -- "bind_hosts"
def kAutohostTld : Key := [97, 117, 116, 111, 104, 111, 115, 116, 95, 116, 108, 100]  -- "autohost_tld"
def kLocalDomainName : Key := [108, 111, 99, 97, 108, 95, 100, 111, 109, 97, 105, 110, 95, 110, 97, 109, 101]  -- "local_domain_name"
def kUpstreamDns : Key := [117, 112, 115, 116, 114, 101, 97, 109, 95, 100, 110, 115]  -- "upstream_dns"
def kLocalPtrUpstreams : Key := [108, 111, 99, 97, 108, 95, 112, 116, 114, 95, 117, 112, 115, 116, 114, 101, 97, 109, 115]  -- "local_ptr_upstreams"
def kRlimitNofile : Key := [114, 108, 105, 109, 105, 116, 95, 110, 111, 102, 105, 108, 101]  -- "rlimit_nofile"
def kOs : Key := [111, 115]  -- "os"
def kGroup : Key := [103, 114, 111, 117, 112]  -- "group"
def kUser : Key := [117, 115, 101, 114]  -- "user"
def kQuerylogInterval : Key := [113, 117, 101, 114, 121, 108, 111, 103, 95, 105, 110, 116, 101, 114, 118, 97, 108]  -- "querylog_interval"
def kPersistent : Key := [112, 101, 114, 115, 105, 115, 116, 101, 110, 116]  -- "persistent"
def kRuntimeSources : Key := [114, 117, 110, 116, 105, 109, 101, 95, 115, 111, 117, 114, 99, 101, 115]  -- "runtime_sources"
def kWhois : Key := [119, 104, 111, 105, 115]  -- "whois"
def kArp : Key := [97, 114, 112]  -- "arp"
def kRdns : Key := [114, 100, 110, 115]  -- "rdns"
def kHosts : Key := [104, 111, 115, 116, 115]  -- "hosts"
def kResolveClients : Key := [114, 101, 115, 111, 108, 118, 101, 95, 99, 108, 105, 101, 110, 116, 115]  -- "resolve_clients"
def kQuerylog : Key := [113, 117, 101, 114, 121, 108, 111, 103]  -- "querylog"
def kIgnored : Key := [105, 103, 110, 111, 114, 101, 100]  -- "ignored"
def kEnabled : Key := [101, 110, 97, 98, 108, 101, 100]  -- "enabled"
def kFileEnabled : Key := [102, 105, 108, 101, 95, 101, 110, 97, 98, 108, 101, 100]  -- "file_enabled"
def kInterval : Key := [105, 110, 116, 101, 114, 118, 97, 108]  -- "interval"
def kSizeMemory : Key := [115, 105, 122, 101, 95, 109, 101, 109, 111, 114, 121]  -- "size_memory"
def kQuerylogEnabled : Key := [113, 117, 101, 114, 121, 108, 111, 103, 95, 101, 110, 97, 98, 108, 101, 100]  -- "querylog_enabled"
def kQuerylogFileEnabled : Key := [113, 117, 101, 114, 121, 108, 111, 103, 95, 102, 105, 108, 101, 95, 101, 110, 97, 98, 108, 101, 100]  -- "querylog_file_enabled"
def kQuerylogSizeMemory : Key := [113, 117, 101, 114, 121, 108, 111, 103, 95, 115, 105, 122, 101, 95, 109, 101, 109, 111, 114, 121]  -- "querylog_size_memory"
def kStatistics : Key := [115, 116, 97, 116, 105, 115, 116, 105, 99, 115]  -- "statistics"
def kStatisticsInterval : Key := [115, 116, 97, 116, 105, 115, 116, 105, 99, 115, 95, 105, 110, 116, 101, 114, 118, 97, 108]  -- "statistics_interval"
def kEdnsClientSubnet : Key := [101, 100, 110, 115, 95, 99, 108, 105, 101, 110, 116, 95, 115, 117, 98, 110, 101, 116]  -- "edns_client_subnet"
def kUseCustom : Key := [117, 115, 101, 95, 99, 117, 115, 116, 111, 109]  -- "use_custom"
def kCustomIp : Key := [99, 117, 115, 116, 111, 109, 95, 105, 112]  -- "custom_ip"
def kSafeSearch : Key := [115, 97, 102, 101, 95, 115, 101, 97, 114, 99, 104]  -- "safe_search"
def kBing : Key := [98, 105, 110, 103]  -- "bing"
def kDuckduckgo : Key := [100, 117, 99, 107, 100, 117, 99, 107, 103, 111]  -- "duckduckgo"
def kGoogle : Key := [103, 111, 111, 103, 108, 101]  -- "google"
def kPixabay : Key := [112, 105, 120, 97, 98, 97, 121]  -- "pixabay"
def kYandex : Key := [121, 97, 110, 100, 101, 120]  -- "yandex"
def kYoutube : Key := [121, 111, 117, 116, 117, 98, 101]  -- "youtube"
def kSafesearchEnabled : Key := [115, 97, 102, 101, 115, 101, 97, 114, 99, 104, 95, 101, 110, 97, 98, 108, 101, 100]  -- "safesearch_enabled"
def kBlockedServices : Key := [98, 108, 111, 99, 107, 101, 100, 95, 115, 101, 114, 118, 105, 99, 101, 115]  -- "blocked_services"
def kSchedule : Key := [115, 99, 104, 101, 100, 117, 108, 101]  -- "schedule"
def kTimeZone : Key := [116, 105, 109, 101, 95, 122, 111, 110, 101]  -- "time_zone"
def kBindPort : Key := [98, 105, 110, 100, 95, 112, 111, 114, 116]  -- "bind_port"
def kWebSessionTtl : Key := [119, 101, 98, 95, 115, 101, 115, 115, 105, 111, 110, 95, 116, 116, 108]  -- "web_session_ttl"
def kHttp : Key := [104, 116, 116, 112]  -- "http"
def kAddress : Key := [97, 100, 100, 114, 101, 115, 115]  -- "address"
def kSessionTtl : Key := [115, 101, 115, 115, 105, 111, 110, 95, 116, 116, 108]  -- "session_ttl"
def kLogFile : Key := [108, 111, 103, 95, 102, 105, 108, 101]  -- "log_file"
def kLogMaxBackups : Key := [108, 111, 103, 95, 109, 97, 120, 95, 98, 97, 99, 107, 117, 112, 115]  -- "log_max_backups"
def kLogMaxSize : Key := [108, 111, 103, 95, 109, 97, 120, 95, 115, 105, 122, 101]  -- "log_max_size"
def kLogMaxAge : Key := [108, 111, 103, 95, 109, 97, 120, 95, 97, 103, 101]  -- "log_max_age"
def kLogCompress : Key := [108, 111, 103, 95, 99, 111, 109, 112, 114, 101, 115, 115]  -- "log_compress"
def kLogLocaltime : Key := [108, 111, 103, 95, 108, 111, 99, 97, 108, 116, 105, 109, 101]  -- "log_localtime"
def kVerbose : Key := [118, 101, 114, 98, 111, 115, 101]  -- "verbose"
def kFile : Key := [102, 105, 108, 101]  -- "file"
def kMaxBackups : Key := [109, 97, 120, 95, 98, 97, 99, 107, 117, 112, 115]  -- "max_backups"
def kMaxSize : Key := [109, 97, 120, 95, 115, 105, 122, 101]  -- "max_size"
def kMaxAge : Key := [109, 97, 120, 95, 97, 103, 101]  -- "max_age"
def kCompress : Key := [99, 111, 109, 112, 114, 101, 115, 115]  -- "compress"
def kLocalTime : Key := [108, 111, 99, 97, 108, 95, 116, 105, 109, 101]  -- "local_time"
def kLog : Key := [108, 111, 103]  -- "log"
def kDebugPprof : Key := [100, 101, 98, 117, 103, 95, 112, 112, 114, 111, 102]  -- "debug_pprof"
def kPprof : Key := [112, 112, 114, 111, 102]  -- "pprof"
def kPort : Key := [112, 111, 114, 116]  -- "port"
def kFilteringEnabled : Key := [102, 105, 108, 116, 101, 114, 105, 110, 103, 95, 101, 110, 97, 98, 108, 101, 100]  -- "filtering_enabled"
def kFiltersUpdateInterval : Key := [102, 105, 108, 116, 101, 114, 115, 95, 117, 112, 100, 97, 116, 101, 95, 105, 110, 116, 101, 114, 118, 97, 108]  -- "filters_update_interval"
def kParentalEnabled : Key := [112, 97, 114, 101, 110, 116, 97, 108, 95, 101, 110, 97, 98, 108, 101, 100]  -- "parental_enabled"
def kSafebrowsingEnabled : Key := [115, 97, 102, 101, 98, 114, 111, 119, 115, 105, 110, 103, 95, 101, 110, 97, 98, 108, 101, 100]  -- "safebrowsing_enabled"
def kSafebrowsingCacheSize : Key := [115, 97, 102, 101, 98, 114, 111, 119, 115, 105, 110, 103, 95, 99, 97, 99, 104, 101, 95, 115, 105, 122, 101]  -- "safebrowsing_cache_size"
def kSafesearchCacheSize : Key := [115, 97, 102, 101, 115, 101, 97, 114, 99, 104, 95, 99, 97, 99, 104, 101, 95, 115, 105, 122, 101]  -- "safesearch_cache_size"
def kParentalCacheSize : Key := [112, 97, 114, 101, 110, 116, 97, 108, 95, 99, 97, 99, 104, 101, 95, 115, 105, 122, 101]  -- "parental_cache_size"
def kRewrites : Key := [114, 101, 119, 114, 105, 116, 101, 115]  -- "rewrites"
def kProtectionEnabled : Key := [112, 114, 111, 116, 101, 99, 116, 105, 111, 110, 95, 101, 110, 97, 98, 108, 101, 100]  -- "protection_enabled"
def kBlockingMode : Key := [98, 108, 111, 99, 107, 105, 110, 103, 95, 109, 111, 100, 101]  -- "blocking_mode"
def kBlockingIpv4 : Key := [98, 108, 111, 99, 107, 105, 110, 103, 95, 105, 112, 118, 52]  -- "blocking_ipv4"
def kBlockingIpv6 : Key := [98, 108, 111, 99, 107, 105, 110, 103, 95, 105, 112, 118, 54]  -- "blocking_ipv6"
def kBlockedResponseTtl : Key := [98, 108, 111, 99, 107, 101, 100, 95, 114, 101, 115, 112, 111, 110, 115, 101, 95, 116, 116, 108]  -- "blocked_response_ttl"
def kProtectionDisabledUntil : Key := [112, 114, 111, 116, 101, 99, 116, 105, 111, 110, 95, 100, 105, 115, 97, 98, 108, 101, 100, 95, 117, 110, 116, 105, 108]  -- "protection_disabled_until"
def kParentalBlockHost : Key := [112, 97, 114, 101, 110, 116, 97, 108, 95, 98, 108, 111, 99, 107, 95, 104, 111, 115, 116]  -- "parental_block_host"
def kSafebrowsingBlockHost : Key := [115, 97, 102, 101, 98, 114, 111, 119, 115, 105, 110, 103, 95, 98, 108, 111, 99, 107, 95, 104, 111, 115, 116]  -- "safebrowsing_block_host"
def kFiltering : Key := [102, 105, 108, 116, 101, 114, 105, 110, 103]  -- "filtering"
def kAllServers : Key := [97, 108, 108, 95, 115, 101, 114, 118, 101, 114, 115]  -- "all_servers"
def kFastestAddr : Key := [102, 97, 115, 116, 101, 115, 116, 95, 97, 100, 100, 114]  -- "fastest_addr"
def kUpstreamMode : Key := [117, 112, 115, 116, 114, 101, 97, 109, 95, 109, 111, 100, 101]  -- "upstream_mode"
def kFilters : Key := [102, 105, 108, 116, 101, 114, 115]  -- "filters"
def kUrl : Key := [117, 114, 108]  -- "url"
def kSafeFsPatterns : Key := [115, 97, 102, 101, 95, 102, 115, 95, 112, 97, 116, 116, 101, 114, 110, 115]  -- "safe_fs_patterns"
def s2160h : Bytes := [50, 49, 54, 48, 104]  -- '2160h'
def sLocal : Bytes := [76, 111, 99, 97, 108]  -- 'Local'
def sDotRule : Bytes := [124, 46, 94]  -- '|.^'
def sDot : Bytes := [46]  -- '.'
def sLoadBalance : Bytes := [108, 111, 97, 100, 95, 98, 97, 108, 97, 110, 99, 101]  -- 'load_balance'
def sParallel : Bytes := [112, 97, 114, 97, 108, 108, 101, 108]  -- 'parallel'
def sFastestAddr : Bytes := [102, 97, 115, 116, 101, 115, 116, 95, 97, 100, 100, 114]  -- 'fastest_addr'
def bcryptMark : Bytes := [0, 98, 99, 114, 121, 112, 116, 45, 111, 102, 58]  -- '\x00bcrypt-of:'

/-! ### Association lists (Go maps; order is irrelevant, outputs are sorted) -/

def lookup (k : Key) : List (Key × YVal) → Option YVal
  | [] => none
  | (k', v) :: es => if k' = k then some v else lookup k es

def insert (k : Key) (v : YVal) : List (Key × YVal) → List (Key × YVal)
  | [] => [(k, v)]
  | (k', v') :: es => if k' = k then (k, v) :: es else (k', v') :: insert k v es

def erase (k : Key) : List (Key × YVal) → List (Key × YVal)
  | [] => []
  | (k', v') :: es => if k' = k then erase k es else (k', v') :: erase k es

/-- `m[k]` read; a nil map reads as empty. -/
def getK (m : YVal) (k : Key) : Option YVal :=
  match m with
  | .obj es => lookup k es
  | _ => none

/-- `m[k] = v`.  Panics on the nil map. -/
def setK (m : YVal) (k : Key) (v : YVal) : M YVal :=
  match m with
  | .obj es => .ok (.obj (insert k v es))
  | _ => .error (.panic .nilMapWrite)

/-- `delete(m, k)`; a no-op on the nil map. -/
def delK (m : YVal) (k : Key) : YVal :=
  match m with
  | .obj es => .obj (erase k es)
  | v => v

/-- Write-back of a changed child (aliasing made explicit); not a Go operation. -/
def putK (m : YVal) (k : Key) (v : YVal) : YVal :=
  match m with
  | .obj es => .obj (insert k v es)
  | w => w

def isEmptyObj : YVal → Bool
  | .obj [] => true
  | .obj _ => false
  | _ => true

/-! ### yaml.go -/

def zeroOf : Ty → YVal
  | .int => .int 0
  | .str => .str []
  | .bool => .bool false
  | .obj => .null        -- the nil map
  | .arr => .arr []      -- the nil slice (ranges, lens and encodes like an empty one)
  | .any => .null

/-- `val.(T)` succeeds (for a non-nil `val`). -/
def hasTy : Ty → YVal → Bool
  | .any, _ => true
  | .int, .int _ => true
  | .str, .str _ => true
  | .bool, .bool _ => true
  | .obj, .obj _ => true
  | .arr, .arr _ => true
  | _, _ => false

/-- Result triple of `fieldVal[T]`. -/
structure FV where
  v : YVal
  ok : Bool
  err : Bool

def fieldVal (T : Ty) (m : YVal) (k : Key) : FV :=
  match getK m k with
  | none => ⟨zeroOf T, false, false⟩
  | some .null =>
    -- repaired code: a null object is reported as absent
    if T = .obj then ⟨zeroOf T, false, false⟩ else ⟨zeroOf T, true, false⟩
  | some v => if hasTy T v then ⟨v, true, false⟩ else ⟨zeroOf T, false, true⟩

/-- `moveVal[T](src, dst, sk, dk)` for distinct maps: new src, new dst, error?. -/
def moveVal (T : Ty) (src dst : YVal) (sk dk : Key) : M (YVal × YVal × Bool) :=
  let r := fieldVal T src sk
  if r.ok then
    match setK dst dk r.v with
    | .ok dst' => .ok (delK src sk, dst', false)
    | .error f => .error f
  else .ok (src, dst, r.err)

/-- `moveVal[T](m, m, sk, dk)`: source and destination are the same map. -/
def moveSelf (T : Ty) (m : YVal) (sk dk : Key) : M (YVal × Bool) :=
  let r := fieldVal T m sk
  if r.ok then
    match setK m dk r.v with
    | .ok m' => .ok (delK m' sk, false)
    | .error f => .error f
  else .ok (m, r.err)

/-- `errors.Join(moveVal…, moveVal…, …)`: every move runs, errors are joined. -/
def moves : List (Ty × Key × Key) → YVal → YVal → M (YVal × YVal × Bool)
  | [], src, dst => .ok (src, dst, false)
  | (T, sk, dk) :: rest, src, dst =>
    match moveVal T src dst sk dk with
    | .error f => .error f
    | .ok (s, d, e) =>
      match moves rest s d with
      | .error f => .error f
      | .ok (s', d', e') => .ok (s', d', e || e')

def typeErr : M YVal := .error (.err .type)

/-- `if !ok { return err }` after a `fieldVal`. -/
def bail (r : FV) (d : YVal) : M YVal := if r.err then typeErr else .ok d

/-- `diskConf["schema_version"] = n` -/
def stamp (n : Nat) (d : YVal) : M YVal := setK d kSchemaVersion (.int n)

def mapM' (f : YVal → M YVal) : List YVal → M (List YVal)
  | [] => .ok []
  | x :: xs =>
    match f x with
    | .error e => .error e
    | .ok y =>
      match mapM' f xs with
      | .error e => .error e
      | .ok ys => .ok (y :: ys)

/-! ### v1 … v29 -/

def migrateTo1 (d0 : YVal) : M YVal := stamp 1 d0

def migrateTo2 (d0 : YVal) : M YVal :=
  match stamp 2 d0 with
  | .error f => .error f
  | .ok d =>
    match moveSelf .any d kCoredns kDns with
    | .error f => .error f
    | .ok (d', e) => if e then typeErr else .ok d'

def migrateTo3 (d0 : YVal) : M YVal :=
  match stamp 3 d0 with
  | .error f => .error f
  | .ok d =>
    let r := fieldVal .obj d kDns
    if r.ok then
      let b := fieldVal .any r.v kBootstrapDns
      if b.ok then
        match setK r.v kBootstrapDns (.arr [b.v]) with
        | .error f => .error f
        | .ok dns' => .ok (putK d kDns dns')
      else .ok d
    else bail r d

def v4Client (c : YVal) : M YVal :=
  match c with
  | .obj _ => setK c kUseGlobalBlockedServices (.bool true)
  | _ => .ok c

def migrateTo4 (d0 : YVal) : M YVal :=
  match stamp 4 d0 with
  | .error f => .error f
  | .ok d =>
    match getK d kClients with
    | some (.arr xs) =>
      match mapM' v4Client xs with
      | .error f => .error f
      | .ok xs' => .ok (putK d kClients (.arr xs'))
    | _ => .ok d

def migrateTo5 (d0 : YVal) : M YVal :=
  match stamp 5 d0 with
  | .error f => .error f
  | .ok d =>
    match moveVal .str d (.obj []) kAuthName kName with
    | .error f => .error f
    | .ok (d1, user, e) =>
      if e then typeErr else
      let p := fieldVal .str d1 kAuthPass
      if p.ok then
        let d2 := delK d1 kAuthPass
        match p.v with
        | .str pass =>
          if pass.length > 72 then .error (.err .bcrypt) else
          match setK user kPassword (.str (bcryptMark ++ pass)) with
          | .error f => .error f
          | .ok user' => setK d2 kUsers (.arr [user'])
        | _ => .error (.panic .other)   -- unreachable: `fieldVal[string]` yields a string
      else bail p d1

/-- ids of one client: the non-empty `ip` and `mac` strings. -/
def v6Ids (c : YVal) : List Key → M (List YVal)
  | [] => .ok []
  | id :: rest =>
    let f := fieldVal .str c id
    if f.err then .error (.err .type) else
    match v6Ids c rest with
    | .error e => .error e
    | .ok ids =>
      match f.v with
      | .str [] => .ok ids
      | v => .ok (v :: ids)

def v6Client (c : YVal) : M YVal :=
  match c with
  | .obj _ =>
    match v6Ids c [kIp, kMac] with
    | .error e => .error e
    | .ok ids => setK c kIds (.arr ids)
  | _ => typeErr

def migrateTo6 (d0 : YVal) : M YVal :=
  match stamp 6 d0 with
  | .error f => .error f
  | .ok d =>
    let r := fieldVal .arr d kClients
    if r.ok then
      match r.v with
      | .arr [] => .ok d     -- null or empty: the loop does nothing
      | .arr xs =>
        match mapM' v6Client xs with
        | .error f => .error f
        | .ok xs' => .ok (putK d kClients (.arr xs'))
      | _ => .error (.panic .other)   -- unreachable
    else bail r d

def v7Moves : List (Ty × Key × Key) :=
  [(.str, kGatewayIp, kGatewayIp), (.str, kSubnetMask, kSubnetMask), (.str, kRangeStart, kRangeStart),
   (.str, kRangeEnd, kRangeEnd), (.int, kLeaseDuration, kLeaseDuration), (.int, kIcmpTimeoutMsec, kIcmpTimeoutMsec)]

def migrateTo7 (d0 : YVal) : M YVal :=
  match stamp 7 d0 with
  | .error f => .error f
  | .ok d =>
    let r := fieldVal .obj d kDhcp
    if r.ok then
      match moves v7Moves r.v (.obj []) with
      | .error f => .error f
      | .ok (dhcp, dhcpv4, e) =>
        if e then typeErr else
        match setK dhcp kDhcpv4 dhcpv4 with
        | .error f => .error f
        | .ok dhcp' => .ok (putK d kDhcp dhcp')
    else .ok d

def migrateTo8 (d0 : YVal) : M YVal :=
  match stamp 8 d0 with
  | .error f => .error f
  | .ok d =>
    let r := fieldVal .obj d kDns
    if r.ok then
      let b := fieldVal .str r.v kBindHost
      if b.ok then
        match setK (delK r.v kBindHost) kBindHosts (.arr [b.v]) with
        | .error f => .error f
        | .ok dns' => .ok (putK d kDns dns')
      else bail b d
    else bail r d

def migrateTo9 (d0 : YVal) : M YVal :=
  match stamp 9 d0 with
  | .error f => .error f
  | .ok d =>
    let r := fieldVal .obj d kDns
    if r.ok then
      match moveSelf .str r.v kAutohostTld kLocalDomainName with
      | .error f => .error f
      | .ok (dns', e) => if e then typeErr else .ok (putK d kDns dns')
    else bail r d

def v10Ups (o : Oracles) (u : YVal) : M YVal :=
  match u with
  | .str s =>
    match o.quic s with
    | some s' => .ok (.str s')
    | none => .error .oracle
  | _ => typeErr

/-- One of the two blocks of `migrateTo10` for the key `k` of `dns`. -/
def v10Field (o : Oracles) (dns : YVal) (k : Key) : M YVal :=
  let r := fieldVal .arr dns k
  if r.err then typeErr
  else if r.ok then
    match r.v with
    | .arr xs =>
      match mapM' (v10Ups o) xs with
      | .error f => .error f
      | .ok xs' => setK dns k (.arr xs')
    | _ => .error (.panic .other)   -- unreachable
  else .ok dns

def migrateTo10 (o : Oracles) (d0 : YVal) : M YVal :=
  match stamp 10 d0 with
  | .error f => .error f
  | .ok d =>
    let r := fieldVal .obj d kDns
    if r.ok then
      match v10Field o r.v kUpstreamDns with
      | .error f => .error f
      | .ok dns1 =>
        match v10Field o dns1 kLocalPtrUpstreams with
        | .error f => .error f
        | .ok dns2 => .ok (putK d kDns dns2)
    else bail r d

def migrateTo11 (d0 : YVal) : M YVal :=
  match stamp 11 d0 with
  | .error f => .error f
  | .ok d =>
    let r := fieldVal .int d kRlimitNofile
    if r.err then typeErr else
    setK (delK d kRlimitNofile) kOs
      (.obj [(kGroup, .str []), (kRlimitNofile, r.v), (kUser, .str [])])

def intOf : YVal → Int
  | .int i => i
  | _ => 0

def migrateTo12 (d0 : YVal) : M YVal :=
  match stamp 12 d0 with
  | .error f => .error f
  | .ok d =>
    let r := fieldVal .obj d kDns
    if r.ok then
      let q := fieldVal .int r.v kQuerylogInterval
      if !q.ok && q.err then typeErr else
      let ivl : Int := if q.ok then intOf q.v else 90
      match setK r.v kQuerylogInterval (.dur ivl) with
      | .error f => .error f
      | .ok dns' => .ok (putK d kDns dns')
    else bail r d

def migrateTo13 (d0 : YVal) : M YVal :=
  match stamp 13 d0 with
  | .error f => .error f
  | .ok d =>
    let r := fieldVal .obj d kDns
    if r.ok then
      let h := fieldVal .obj d kDhcp
      if h.ok then
        match moveVal .str r.v h.v kLocalDomainName kLocalDomainName with
        | .error f => .error f
        | .ok (dns', dhcp', e) =>
          if e then typeErr else .ok (putK (putK d kDns dns') kDhcp dhcp')
      else bail h d
    else bail r d

def v14Runtime : YVal :=
  .obj [(kWhois, .bool true), (kArp, .bool true), (kRdns, .bool false), (kDhcp, .bool true), (kHosts, .bool true)]

def v14Clients (persistent runtime : YVal) : YVal :=
  .obj [(kPersistent, persistent), (kRuntimeSources, runtime)]

def migrateTo14 (d0 : YVal) : M YVal :=
  match stamp 14 d0 with
  | .error f => .error f
  | .ok d =>
    let p := fieldVal .arr d kClients
    if !p.ok && p.err then typeErr else
    let persistent : YVal := if p.ok then p.v else .arr []
    match setK d kClients (v14Clients persistent v14Runtime) with
    | .error f => .error f
    | .ok d1 =>
      let r := fieldVal .obj d1 kDns
      if r.err then typeErr
      else if r.ok then
        match moveVal .bool r.v v14Runtime kResolveClients kRdns with
        | .error f => .error f
        | .ok (dns', runtime', e) =>
          if e then typeErr else
          .ok (putK (putK d1 kClients (v14Clients persistent runtime')) kDns dns')
      else .ok d1

def v15Qlog : YVal :=
  .obj [(kIgnored, .arr []), (kEnabled, .bool true), (kFileEnabled, .bool true),
        (kInterval, .str s2160h), (kSizeMemory, .int 1000)]

def v15Moves : List (Ty × Key × Key) :=
  [(.bool, kQuerylogEnabled, kEnabled), (.bool, kQuerylogFileEnabled, kFileEnabled),
   (.any, kQuerylogInterval, kInterval), (.int, kQuerylogSizeMemory, kSizeMemory)]

def migrateTo15 (d0 : YVal) : M YVal :=
  match stamp 15 d0 with
  | .error f => .error f
  | .ok d =>
    let r := fieldVal .obj d kDns
    if r.ok then
      match setK d kQuerylog v15Qlog with
      | .error f => .error f
      | .ok d1 =>
        match moves v15Moves r.v v15Qlog with
        | .error f => .error f
        | .ok (dns', qlog', e) =>
          if e then typeErr else .ok (putK (putK d1 kQuerylog qlog') kDns dns')
    else bail r d

def v16Stats : YVal :=
  .obj [(kEnabled, .bool true), (kInterval, .int 1), (kIgnored, .arr [])]

def migrateTo16 (d0 : YVal) : M YVal :=
  match stamp 16 d0 with
  | .error f => .error f
  | .ok d =>
    let r := fieldVal .obj d kDns
    if r.ok then
      match setK d kStatistics v16Stats with
      | .error f => .error f
      | .ok d1 =>
        let s := fieldVal .int r.v kStatisticsInterval
        if s.ok then
          -- `if statsIvl == 0 { stats["enabled"] = false } else { stats["interval"] = statsIvl }`
          match setK v16Stats (if intOf s.v = 0 then kEnabled else kInterval)
              (if intOf s.v = 0 then .bool false else s.v) with
          | .error f => .error f
          | .ok stats' =>
            .ok (putK (putK d1 kStatistics stats') kDns (delK r.v kStatisticsInterval))
        else bail s d1
    else bail r d

def migrateTo17 (d0 : YVal) : M YVal :=
  match stamp 17 d0 with
  | .error f => .error f
  | .ok d =>
    let r := fieldVal .obj d kDns
    if r.ok then
      let e := fieldVal .bool r.v kEdnsClientSubnet
      match setK r.v kEdnsClientSubnet
          (.obj [(kEnabled, e.v), (kUseCustom, .bool false), (kCustomIp, .str [])]) with
      | .error f => .error f
      | .ok dns' => .ok (putK d kDns dns')
    else bail r d

def safeSearchDefault : YVal :=
  .obj [(kEnabled, .bool true), (kBing, .bool true), (kDuckduckgo, .bool true), (kGoogle, .bool true),
        (kPixabay, .bool true), (kYandex, .bool true), (kYoutube, .bool true)]

def migrateTo18 (d0 : YVal) : M YVal :=
  match stamp 18 d0 with
  | .error f => .error f
  | .ok d =>
    let r := fieldVal .obj d kDns
    if r.ok then
      match setK r.v kSafeSearch safeSearchDefault with
      | .error f => .error f
      | .ok dns1 =>
        match moveVal .bool dns1 safeSearchDefault kSafesearchEnabled kEnabled with
        | .error f => .error f
        | .ok (dns2, ss, e) =>
          if e then typeErr else .ok (putK d kDns (putK dns2 kSafeSearch ss))
    else bail r d

def v19Client (c : YVal) : M YVal :=
  match c with
  | .obj _ =>
    match moveVal .bool c safeSearchDefault kSafesearchEnabled kEnabled with
    | .error f => .error f
    | .ok (c', ss, _) => setK c' kSafeSearch ss     -- the error is only logged
  | _ => .ok c

def migrateTo19 (d0 : YVal) : M YVal :=
  match stamp 19 d0 with
  | .error f => .error f
  | .ok d =>
    let r := fieldVal .obj d kClients
    if r.ok then
      match getK r.v kPersistent with
      | some (.arr xs) =>
        match mapM' v19Client xs with
        | .error f => .error f
        | .ok xs' => .ok (putK d kClients (putK r.v kPersistent (.arr xs')))
      | _ => .ok d       -- absent, null (empty loop) or of another type (error ignored)
    else bail r d

def migrateTo20 (d0 : YVal) : M YVal :=
  match stamp 20 d0 with
  | .error f => .error f
  | .ok d =>
    let r := fieldVal .obj d kStatistics
    if r.ok then
      let i := fieldVal .int r.v kInterval
      if i.err then typeErr else
      let ivl : Int := if !i.ok || intOf i.v = 0 then 1 else intOf i.v
      match setK r.v kInterval (.dur ivl) with
      | .error f => .error f
      | .ok stats' => .ok (putK d kStatistics stats')
    else bail r d

def scheduleDefault : YVal := .obj [(kTimeZone, .str sLocal)]

def migrateTo21 (d0 : YVal) : M YVal :=
  match stamp 21 d0 with
  | .error f => .error f
  | .ok d =>
    let r := fieldVal .obj d kDns
    if r.ok then
      match moveVal .arr r.v (.obj [(kSchedule, scheduleDefault)]) kBlockedServices kIds with
      | .error f => .error f
      | .ok (dns1, svcs, e) =>
        if e then typeErr else
        match setK dns1 kBlockedServices svcs with
        | .error f => .error f
        | .ok dns2 => .ok (putK d kDns dns2)
    else bail r d

def v22Client (c : YVal) : M YVal :=
  match c with
  | .obj _ =>
    let s := fieldVal .arr c kBlockedServices
    if s.err then typeErr
    else if s.ok then setK c kBlockedServices (.obj [(kIds, s.v), (kSchedule, scheduleDefault)])
    else .ok c
  | _ => typeErr

def migrateTo22 (d0 : YVal) : M YVal :=
  match stamp 22 d0 with
  | .error f => .error f
  | .ok d =>
    let r := fieldVal .obj d kClients
    if r.ok then
      let p := fieldVal .arr r.v kPersistent
      if p.ok then
        match p.v with
        | .arr [] => .ok d
        | .arr xs =>
          match mapM' v22Client xs with
          | .error f => .error f
          | .ok xs' => .ok (putK d kClients (putK r.v kPersistent (.arr xs')))
        | _ => .error (.panic .other)   -- unreachable
      else bail p d
    else bail r d

def bytesOf : YVal → Bytes
  | .str s => s
  | _ => []

def migrateTo23 (o : Oracles) (d0 : YVal) : M YVal :=
  match stamp 23 d0 with
  | .error f => .error f
  | .ok d =>
    let h := fieldVal .str d kBindHost
    if h.ok then
      match o.addrOK (bytesOf h.v) with
      | none => .error .oracle
      | some false => .error (.err .bindHost)
      | some true =>
        let p := fieldVal .int d kBindPort
        if p.err then typeErr else
        let t := fieldVal .int d kWebSessionTtl
        if t.err then typeErr else
        match o.addrPort (bytesOf h.v) (intOf p.v), o.fmtHours (intOf t.v) with
        | some addr, some ttl =>
          match setK d kHttp (.obj [(kAddress, .str addr), (kSessionTtl, .str ttl)]) with
          | .error f => .error f
          | .ok d1 => .ok (delK (delK (delK d1 kBindHost) kBindPort) kWebSessionTtl)
        | _, _ => .error .oracle
    else bail h d

def v24Moves : List (Ty × Key × Key) :=
  [(.str, kLogFile, kFile), (.int, kLogMaxBackups, kMaxBackups), (.int, kLogMaxSize, kMaxSize),
   (.int, kLogMaxAge, kMaxAge), (.bool, kLogCompress, kCompress), (.bool, kLogLocaltime, kLocalTime),
   (.bool, kVerbose, kVerbose)]

def migrateTo24 (d0 : YVal) : M YVal :=
  match stamp 24 d0 with
  | .error f => .error f
  | .ok d =>
    match moves v24Moves d (.obj []) with
    | .error f => .error f
    | .ok (d1, logObj, e) =>
      if e then typeErr
      else if isEmptyObj logObj then .ok d1
      else setK d1 kLog logObj

def v25Pprof : YVal := .obj [(kEnabled, .bool false), (kPort, .int 6060)]

def migrateTo25 (d0 : YVal) : M YVal :=
  match stamp 25 d0 with
  | .error f => .error f
  | .ok d =>
    let r := fieldVal .obj d kHttp
    if r.ok then
      match moveVal .bool d v25Pprof kDebugPprof kEnabled with
      | .error f => .error f
      | .ok (d1, pprof, e) =>
        if e then typeErr else
        match setK r.v kPprof pprof with
        | .error f => .error f
        | .ok http' => .ok (putK d1 kHttp http')
    else bail r d

def v26Moves : List (Ty × Key × Key) :=
  [(.bool, kFilteringEnabled, kFilteringEnabled), (.int, kFiltersUpdateInterval, kFiltersUpdateInterval),
   (.bool, kParentalEnabled, kParentalEnabled), (.bool, kSafebrowsingEnabled, kSafebrowsingEnabled),
   (.int, kSafebrowsingCacheSize, kSafebrowsingCacheSize), (.int, kSafesearchCacheSize, kSafesearchCacheSize),
   (.int, kParentalCacheSize, kParentalCacheSize), (.obj, kSafeSearch, kSafeSearch),
   (.arr, kRewrites, kRewrites), (.obj, kBlockedServices, kBlockedServices),
   (.bool, kProtectionEnabled, kProtectionEnabled), (.str, kBlockingMode, kBlockingMode),
   (.str, kBlockingIpv4, kBlockingIpv4), (.str, kBlockingIpv6, kBlockingIpv6),
   (.int, kBlockedResponseTtl, kBlockedResponseTtl), (.any, kProtectionDisabledUntil, kProtectionDisabledUntil),
   (.str, kParentalBlockHost, kParentalBlockHost), (.str, kSafebrowsingBlockHost, kSafebrowsingBlockHost)]

def migrateTo26 (d0 : YVal) : M YVal :=
  match stamp 26 d0 with
  | .error f => .error f
  | .ok d =>
    let r := fieldVal .obj d kDns
    if r.ok then
      match moves v26Moves r.v (.obj []) with
      | .error f => .error f
      | .ok (dns', flt, e) =>
        if e then typeErr
        else if isEmptyObj flt then .ok (putK d kDns dns')
        else
          match setK d kFiltering flt with
          | .error f => .error f
          | .ok d1 => .ok (putK d1 kDns dns')
    else bail r d

def v27Host (h : YVal) : YVal :=
  match h with
  | .str s => if s = sDot then .str sDotRule else h
  | _ => h

/-- `replaceDot(diskConf, key)` -/
def replaceDot (d : YVal) (key : Key) : M YVal :=
  let r := fieldVal .obj d key
  if r.err then typeErr
  else if r.ok then
    let i := fieldVal .arr r.v kIgnored
    if i.err then typeErr
    else if i.ok then
      match getK r.v kIgnored with
      | some (.arr xs) => .ok (putK d key (putK r.v kIgnored (.arr (xs.map v27Host))))
      | _ => .ok d      -- null: the loop does nothing
    else .ok d
  else .ok d

def migrateTo27 (d0 : YVal) : M YVal :=
  match stamp 27 d0 with
  | .error f => .error f
  | .ok d =>
    match replaceDot d kQuerylog with
    | .error f => .error f
    | .ok d1 => replaceDot d1 kStatistics

def boolOf : YVal → Bool
  | .bool b => b
  | _ => false

def migrateTo28 (d0 : YVal) : M YVal :=
  match stamp 28 d0 with
  | .error f => .error f
  | .ok d =>
    let r := fieldVal .obj d kDns
    if r.ok then
      let all := boolOf (fieldVal .bool r.v kAllServers).v
      let fastest := boolOf (fieldVal .bool r.v kFastestAddr).v
      let mode : Bytes := if all then sParallel else if fastest then sFastestAddr else sLoadBalance
      match setK r.v kUpstreamMode (.umode mode) with
      | .error f => .error f
      | .ok dns' => .ok (putK d kDns (delK (delK dns' kAllServers) kFastestAddr))
    else bail r d

/-- `filepath.IsAbs` on Unix. -/
def isAbs (p : Bytes) : Bool :=
  match p with
  | 47 :: _ => true
  | _ => false

/-- The absolute `url`s of the filters, in order; fails on a non-object. -/
def v29Paths : List YVal → M (List Bytes)
  | [] => .ok []
  | f :: rest =>
    match f with
    | .obj _ =>
      let u := fieldVal .str f kUrl
      match v29Paths rest with
      | .error e => .error e
      | .ok ps => if u.ok && isAbs (bytesOf u.v) then .ok (bytesOf u.v :: ps) else .ok ps
    | _ => .error (.err .type)

def migrateTo29 (o : Oracles) (d0 : YVal) : M YVal :=
  match stamp 29 d0 with
  | .error f => .error f
  | .ok d =>
    let fl := fieldVal .arr d kFilters
    if fl.ok then
      match fl.v with
      | .arr xs =>
        match v29Paths xs with
        | .error e => .error e
        | .ok ps =>
          let r := fieldVal .obj d kFiltering
          if r.ok then
            match setK r.v kSafeFsPatterns (.strs (o.ufPattern :: ps)) with
            | .error f => .error f
            | .ok flt' => .ok (putK d kFiltering flt')
          else bail r d
      | _ => .error (.panic .other)   -- unreachable
    else bail fl d

/-! ### migrator.go -/

def lastSchemaVersion : Nat := 29

/-- `upgrades[n-1]`: the step that brings a document to version `n` (1 ≤ n ≤ 29). -/
def step (o : Oracles) (n : Nat) (d : YVal) : M YVal :=
  match n with
  | 1 => migrateTo1 d | 2 => migrateTo2 d | 3 => migrateTo3 d | 4 => migrateTo4 d
  | 5 => migrateTo5 d | 6 => migrateTo6 d | 7 => migrateTo7 d | 8 => migrateTo8 d
  | 9 => migrateTo9 d | 10 => migrateTo10 o d | 11 => migrateTo11 d | 12 => migrateTo12 d
  | 13 => migrateTo13 d | 14 => migrateTo14 d | 15 => migrateTo15 d | 16 => migrateTo16 d
  | 17 => migrateTo17 d | 18 => migrateTo18 d | 19 => migrateTo19 d | 20 => migrateTo20 d
  | 21 => migrateTo21 d | 22 => migrateTo22 d | 23 => migrateTo23 o d | 24 => migrateTo24 d
  | 25 => migrateTo25 d | 26 => migrateTo26 d | 27 => migrateTo27 d | 28 => migrateTo28 d
  | 29 => migrateTo29 o d
  | _ => .error (.panic .other)     -- index outside the table `upgrades`

/-- `upgradeConfigSchema`: the steps `cur+1 … cur+cnt` in order; the failing step is reported. -/
def upgrade (o : Oracles) : (cnt : Nat) → (cur : Nat) → YVal → Except (Fault × Nat) YVal
  | 0, _, d => .ok d
  | cnt + 1, cur, d =>
    match step o (cur + 1) d with
    | .error f => .error (f, cur + 1)
    | .ok d' => upgrade o cnt (cur + 1) d'

/-! ### Encoding (`yaml.Encoder`) followed by decoding: typed values become generic -/

mutual
def reparse (o : Oracles) : YVal → Option YVal
  | .arr xs => (reparseList o xs).map .arr
  | .obj es => (reparseEntries o es).map .obj
  | .dur n => (o.fmtDays n).map .str
  | .strs xs => some (.arr (xs.map .str))
  | .umode s => some (.str s)
  | .opaque k p => o.rt k p
  | v => some v
def reparseList (o : Oracles) : List YVal → Option (List YVal)
  | [] => some []
  | x :: xs =>
    match reparse o x, reparseList o xs with
    | some y, some ys => some (y :: ys)
    | _, _ => none
def reparseEntries (o : Oracles) : List (Key × YVal) → Option (List (Key × YVal))
  | [] => some []
  | (k, v) :: es =>
    match reparse o v, reparseEntries o es with
    | some w, some ws => some ((k, w) :: ws)
    | _, _ => none
end

/-- What `Migrate` returns. -/
inductive Outcome
  /-- an error: body returned unchanged, `upgraded = false`; the failing step (0: the wrapper) -/
  | err (k : ErrK) (step : Nat)
  /-- no error, nothing to do: body returned unchanged, `upgraded = false` -/
  | same
  /-- upgraded: the decoded new body -/
  | up (d : YVal)
  | panic (p : PanicK) (step : Nat)
  /-- a library value was not shipped with the case -/
  | oracle
  deriving Repr

/-- How `Migrate` reports the result of `upgradeConfigSchema`. -/
def upgradeOutcome (r : Except (Fault × Nat) YVal) : Outcome :=
  match r with
  | .error (.err k, s) => .err k s
  | .error (.panic p, s) => .panic p s
  | .error (.oracle, _) => .oracle
  | .ok d => .up d

/-- `Migrate(body, target)` up to (not including) the encoding, where `parsed` is
`yaml.Unmarshal(body, &yobj{})`; `.up d` carries the in-memory document. -/
def migrateMem (o : Oracles) (parsed : Option YVal) (target : Nat) : Outcome :=
  match parsed with
  | none => .err .parse 0
  | some doc0 =>
    -- `if diskConf == nil { diskConf = yobj{} }`: a null document is an empty one
    let doc := match doc0 with | .null => .obj [] | d => d
    let c := fieldVal .int doc kSchemaVersion
    if c.err then .err .type 0 else
    let cur := intOf c.v
    -- `uint(currentInt)`: a negative value becomes a huge one
    if cur < 0 then .err .verCur 0
    else if cur.toNat > target then .err .verCur 0
    else if target > lastSchemaVersion then .err .verTarget 0
    else if cur.toNat = target then .same
    else
      upgradeOutcome (upgrade o (target - cur.toNat) cur.toNat doc)

/-- `Migrate(body, target)` as the harness observes it: the upgraded body decoded again. -/
def migrate (o : Oracles) (parsed : Option YVal) (target : Nat) : Outcome :=
  match migrateMem o parsed target with
  | .up d =>
    match reparse o d with
    | some d' => .up d'
    | none => .oracle
  | r => r

/-- The three results of `Migrate`. -/
structure Ret (β : Type) where
  body : β
  upgraded : Bool
  err : Option (ErrK × Nat)

/-- `Migrate` on file contents of an abstract type `β` with the YAML codec as
parameters: every `return` statement of the wrapper.  `none`: panic / missing oracle. -/
def migrateBody {β : Type} (o : Oracles) (decode : β → Option YVal) (encode : YVal → β)
    (body : β) (target : Nat) : Option (Ret β) :=
  match migrateMem o (decode body) target with
  | .err k s => some ⟨body, false, some (k, s)⟩
  | .same => some ⟨body, false, none⟩
  | .up d => some ⟨encode d, true, none⟩
  | .panic _ _ => none
  | .oracle => none

end AGH.C13
