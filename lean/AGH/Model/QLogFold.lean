/-
C07 model of the text primitives behind the search term: UTF-8 decoding exactly
as Go's `for range` / `utf8.DecodeRuneInString` (invalid or truncated sequences
decode to U+FFFD, width 1), and `strings.EqualFold` = rune-wise equality under
Unicode simple case folding.  The folding relation comes from the generated
table `AGH.Gen.C07Fold` (unicode.SimpleFold orbits of the toolchain), never from
the code under test.  Core Lean only.
-/
import AGH.Model.Bytes
import AGH.Gen.C07Fold
namespace AGH.C07
open AGH

def runeError : Nat := 0xFFFD

def isCont (b : Nat) : Bool := decide (0x80 ≤ b) && decide (b ≤ 0xBF)

/-- Width of the first rune of a non-empty string and its value
(`utf8.DecodeRuneInString`: `first` table and accept ranges). -/
def decodeFirst : Bytes → Nat × Nat
  | [] => (runeError, 0)
  | b0 :: rest =>
    if b0 < 0x80 then (b0, 1)
    else if 0xC2 ≤ b0 ∧ b0 ≤ 0xDF then
      match rest with
      | b1 :: _ => if isCont b1 then ((b0 - 0xC0) * 64 + (b1 - 0x80), 2) else (runeError, 1)
      | [] => (runeError, 1)
    else if 0xE0 ≤ b0 ∧ b0 ≤ 0xEF then
      let lo := if b0 = 0xE0 then 0xA0 else 0x80
      let hi := if b0 = 0xED then 0x9F else 0xBF
      match rest with
      | b1 :: b2 :: _ =>
        if lo ≤ b1 ∧ b1 ≤ hi ∧ isCont b2 then (((b0 - 0xE0) * 64 + (b1 - 0x80)) * 64 + (b2 - 0x80), 3)
        else (runeError, 1)
      | _ => (runeError, 1)
    else if 0xF0 ≤ b0 ∧ b0 ≤ 0xF4 then
      let lo := if b0 = 0xF0 then 0x90 else 0x80
      let hi := if b0 = 0xF4 then 0x8F else 0xBF
      match rest with
      | b1 :: b2 :: b3 :: _ =>
        if lo ≤ b1 ∧ b1 ≤ hi ∧ isCont b2 ∧ isCont b3 then
          ((((b0 - 0xF0) * 64 + (b1 - 0x80)) * 64 + (b2 - 0x80)) * 64 + (b3 - 0x80), 4)
        else (runeError, 1)
      | _ => (runeError, 1)
    else (runeError, 1)

/-- The runes of a string as `for _, r := range s` yields them. -/
def decodeRunesN : Nat → Bytes → List Nat
  | 0, _ => []
  | _ + 1, [] => []
  | fuel + 1, s =>
    let (r, w) := decodeFirst s
    r :: decodeRunesN fuel (s.drop w)

/-- (every rune takes at least one byte, so `s.length` steps are enough) -/
def decodeRunes (s : Bytes) : List Nat := decodeRunesN s.length s

/-- Binary search in the generated table. -/
def foldLookup (tbl : Array (Nat × Nat)) (r : Nat) : Nat → Nat → Nat → Nat
  | 0, _, _ => r
  | fuel + 1, lo, hi =>
    if lo ≥ hi then r
    else
      let mid := (lo + hi) / 2
      let e := tbl[mid]!
      if e.1 = r then e.2
      else if e.1 < r then foldLookup tbl r fuel (mid + 1) hi
      else foldLookup tbl r fuel lo mid

/-- The smallest member of the simple-folding orbit of `r` (`unicode.SimpleFold`
closure): two runes are equal under case folding iff they have the same one. -/
def foldCanon (r : Nat) : Nat :=
  if r < 0x80 then (if 97 ≤ r ∧ r ≤ 122 then r - 32 else r)
  else foldLookup Gen.foldPairs r 16 0 Gen.foldPairs.size

/-- The folded rune sequence of a string. -/
def foldRunes (s : Bytes) : List Nat := (decodeRunes s).map foldCanon

/-- `strings.EqualFold`. -/
def equalFold (a b : Bytes) : Bool := foldRunes a == foldRunes b

end AGH.C07
