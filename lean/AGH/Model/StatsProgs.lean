/-
C09 concurrent model, concrete part: the operations of the statistics context
as straight-line programs of micro-steps, in the order the Go code performs
its lock acquisitions, reads and writes (internal/stats/stats.go Update,
flush/flushDB, loadUnits/getData via handleStats, setLimit via
handleStatsConfig, handlePutStatsConfig, clear via handleStatsReset).

WHICH locks a program takes is not fixed here: it is read from `LockFacts`,
the facts the harness re-extracts from the Go sources on every run
(`C09.locks`).  `LockFacts.real` is what the current tree says.

Simplifications, stated: the current unit is a value, not a pointer (a write
through a stale `ptr` after a swap is not representable; under the lock facts
of the theorem no swap can happen in between); the bucket lookups of one
`loadUnits` are one step inside its transaction; a nil database handle
(between `db.Swap(nil)` and `openDB` in `clear`) is not representable; `Close`
is not modelled; the unit id a flush/clear works with is a parameter of the
operation (the value `unitIDGen()` returned to it).
-/
import AGH.Model.StatsConc
namespace AGH.C09

structure LockFacts where
  /-- `confMu` around `s.curr.add` in `Update` -/
  updConf : Option Mode
  /-- `currMu` around `s.curr.add` in `Update` -/
  updCurr : Option Mode
  /-- `confMu` around `flushDB` in `flush` -/
  flushConf : Option Mode
  flushCurr : Option Mode
  /-- `confMu` around every `getData` / outside `loadUnits` call -/
  readConf : Option Mode
  /-- `currMu` around the read of the current unit in `loadUnits` -/
  loadCurr : Option Mode
  /-- `confMu` around `setLimit` (handleStatsConfig) -/
  setDaysConf : Option Mode
  /-- `confMu` around the assignments of limit/enabled in handlePutStatsConfig -/
  putConfConf : Option Mode
  /-- `currMu` around `s.curr = newUnit(..)` in `clear` -/
  clearCurr : Option Mode
  /-- `confMu` around `clear()` in handleStatsReset -/
  resetConf : Option Mode
  deriving DecidableEq, Repr

/-- The locking of the current tree (after the fix that takes `confMu` in
`handleStatsReset`). -/
def LockFacts.real : LockFacts :=
  { updConf := some .W, updCurr := some .W, flushConf := some .W, flushCurr := some .W,
    readConf := some .R, loadCurr := some .R, setDaysConf := some .W, putConfConf := some .W,
    clearCurr := some .W, resetConf := some .W }

/-- The locking before that fix: `handleStatsReset` called `clear()` without `confMu`. -/
def LockFacts.beforeResetFix : LockFacts := { LockFacts.real with resetConf := none }

/-- Thread-local variables of the programs. -/
structure Loc where
  go : Bool
  bad : Bool
  tmp : Nat
  ptr : MemUnit
  lim : Nat
  curID : Nat
  stored : List UnitDB
  units : List UnitDB
  result : Option (Except Fault Resp)

def Loc.init : Loc := ⟨true, false, 0, newUnit 0, 0, 0, [], [], none⟩

inductive COp where
  | upd (e : Entry)
  | flush (id : Nat)
  | read
  | setDays (d : Nat)
  | putConf (ms : Nat) (en : Bool)
  | reset

def optLock (l : Lk) (m : Option Mode) (g : Loc → Bool) : List (Instr Loc) :=
  match m with
  | none => []
  | some m => [.lock l m g]

def optUnlock (l : Lk) (m : Option Mode) (g : Loc → Bool) : List (Instr Loc) :=
  match m with
  | none => []
  | some m => [.unlock l m g]

/-- The bucket lookups of `loadUnits`: `for i := firstID; i != curID; i++`. -/
def lookups (db : DB) (curID lim : Nat) : List UnitDB :=
  (List.range (sub32 curID (add32 (sub32 curID lim) 1))).map fun k =>
    (db.get (add32 (add32 (sub32 curID lim) 1) k)).getD UnitDB.empty

def emptyResp : Resp :=
  { days := true, dnsQueries := [], blockedFiltering := [], replacedSafebrowsing := [], replacedParental := []
    numDNSQueries := 0, numBlockedFiltering := 0, numReplacedSafebrowsing := 0
    numReplacedSafesearch := 0, numReplacedParental := 0 }

/-- `Update(e)` between `confMu.Lock()` and the deferred unlocks. -/
def updBody (F : LockFacts) (e : Entry) : List (Instr Loc) :=
  [ -- if !s.enabled || s.limit == 0 { return }
    .act fun s l => (s, { l with go := !(!s.enabled || s.limit == 0) }),
    -- err := e.validate(); if err != nil { return }
    .act fun s l => (s, { l with go := l.go && e.valid }) ] ++
  optLock .curr F.updCurr (·.go) ++
  [ -- u.nResult[e.Result]++ : index check and read …
    .act fun s l =>
      if l.go then
        if e.result < 0 ∨ e.result ≥ 6 then (s, { l with bad := true })
        else (s, { l with tmp := s.curr.nResult e.result.toNat })
      else (s, l),
    -- … and write
    .act fun s l =>
      if l.go && !l.bad then
        ({ s with curr := { s.curr with
            nResult := fun i => if i = e.result.toNat then l.tmp + 1 else s.curr.nResult i } }, l)
      else (s, l),
    -- u.nTotal++ : read …
    .act fun s l => if l.go && !l.bad then (s, { l with tmp := s.curr.nTotal }) else (s, l),
    -- … and write
    .act fun s l =>
      if l.go && !l.bad then ({ s with curr := { s.curr with nTotal := l.tmp + 1 } }, l) else (s, l) ] ++
  optUnlock .curr F.updCurr (·.go)

/-- `flush()` with `id := s.unitIDGen()`, between `confMu.Lock()` and the unlocks. -/
def flushBody (F : LockFacts) (id : Nat) : List (Instr Loc) :=
  optLock .curr F.flushCurr (fun _ => true) ++
  [ -- ptr := s.curr      (the clock the sequential model carries is set here)
    .act fun s l => ({ s with clock := id }, { l with ptr := s.curr }),
    -- limit := uint32(s.limit.Hours()); if limit == 0 || ptr.id == id { return }
    .act fun s l => (s, { l with lim := s.limitHours, go := !(s.limitHours == 0 || l.ptr.id == id) }),
    -- tx, err := db.Begin(true)
    .lock .tx .W (·.go),
    -- s.curr = newUnit(id)
    .act fun s l => if l.go then ({ s with curr := newUnit id }, l) else (s, l),
    -- s.flushUnitToDB(ptr.serialize(), tx, ptr.id)
    .act fun s l => if l.go then ({ s with db := s.db.put l.ptr.id l.ptr.serialize }, l) else (s, l),
    -- tx.DeleteBucket(idToUnitName(id - limit))
    .act fun s l => if l.go then ({ s with db := s.db.del (sub32 id l.lim) }, l) else (s, l),
    -- finishTxn(tx, true)
    .unlock .tx .W (·.go) ] ++
  optUnlock .curr F.flushCurr (fun _ => true)

/-- `handleStats`: `getData(uint32(s.limit.Hours()))` between `confMu.RLock()` and `RUnlock()`. -/
def readBody (F : LockFacts) : List (Instr Loc) :=
  [ -- limit == 0: the fixed empty answer
    .act fun s l =>
      (s, { l with lim := s.limitHours, go := !(s.limitHours == 0),
                   result := if s.limitHours == 0 then some (.ok emptyResp) else none }),
    -- tx, err := db.Begin(true)
    .lock .tx .W (·.go) ] ++
  optLock .curr F.loadCurr (·.go) ++
  [ -- cur := s.curr; curID = cur.id
    .act fun s l => if l.go then (s, { l with curID := s.curr.id }) else (s, l),
    -- for i := firstID; i != curID; i++ { loadUnitFromDB(tx, i) }
    .act fun s l =>
      if l.go then
        (s, { l with stored := lookups s.db l.curID l.lim })
      else (s, l),
    -- finishTxn(tx, false)
    .unlock .tx .W (·.go),
    -- units = append(units, cur.serialize()); length check
    .act fun s l =>
      if l.go then
        (s, { l with units := l.stored ++ [s.curr.serialize],
                     bad := (l.stored ++ [s.curr.serialize]).length != l.lim })
      else (s, l) ] ++
  optUnlock .curr F.loadCurr (·.go) ++
  [ -- dataFromUnits(units, curID)
    .act fun s l =>
      if l.go then
        (s, { l with result := some (if l.bad then .error .unitsLen else dataFromUnits l.units l.curID) })
      else (s, l) ]

/-- `clear()`: the file is replaced, then the current unit under `currMu`. -/
def clearSteps (F : LockFacts) : List (Instr Loc) :=
  [ -- db.Swap(nil) … db.Close(); os.Remove; s.openDB()
    .act fun s l => ({ s with db := [] }, l) ] ++
  optLock .curr F.clearCurr (fun _ => true) ++
  [ -- s.curr = newUnit(s.unitIDGen())
    .act fun s l => ({ s with curr := newUnit s.clock }, l) ] ++
  optUnlock .curr F.clearCurr (fun _ => true)

/-- `handleStatsConfig` with an accepted interval: `setLimit(limit)`. -/
def setDaysBody (F : LockFacts) (d : Nat) : List (Instr Loc) :=
  if d * 24 * msPerHour ≠ 0 then
    [ .act fun s l => ({ s with enabled := true }, l),
      .act fun s l => ({ s with limit := d * 24 * msPerHour }, l) ]
  else
    (.act fun s l => ({ s with enabled := false }, l)) :: clearSteps F

/-- `handlePutStatsConfig` with an accepted interval. -/
def putConfBody (ms : Nat) (en : Bool) : List (Instr Loc) :=
  [ .act fun s l => ({ s with limit := ms }, l),
    .act fun s l => ({ s with enabled := en }, l) ]

/-- The `confMu` mode the facts give an operation, and what it does while
holding it; `none` = the request is rejected before anything shared is touched. -/
def confOf (F : LockFacts) : COp → Option Mode
  | .upd _ => F.updConf
  | .flush _ => F.flushConf
  | .read => F.readConf
  | .setDays _ => F.setDaysConf
  | .putConf _ _ => F.putConfConf
  | .reset => F.resetConf

def rejected : COp → Bool
  | .setDays d => !checkInterval d
  | .putConf ms _ => !validIvl ms
  | _ => false

def bodyOf (F : LockFacts) : COp → List (Instr Loc)
  | .upd e => updBody F e
  | .flush id => flushBody F id
  | .read => readBody F
  | .setDays d => setDaysBody F d
  | .putConf ms en => putConfBody ms en
  | .reset => clearSteps F

/-- The whole program of an operation under lock facts `F`. -/
def codeOf (F : LockFacts) (op : COp) : List (Instr Loc) :=
  if rejected op then []
  else optLock .conf (confOf F op) (fun _ => true) ++ bodyOf F op ++ optUnlock .conf (confOf F op) (fun _ => true)

/-- Threads `t` with `ops t = some op` run `op`; all start on state `s0`. -/
def concInit (F : LockFacts) (ops : Nat → Option COp) (s0 : State) : Sys Loc :=
  { st := s0, lk := fun _ => {},
    th := fun t => ⟨match ops t with | none => [] | some op => codeOf F op, Loc.init⟩ }

/-- The sequential operation an interleaved one stands for. -/
def COp.toOp : COp → Op
  | .upd e => .upd e 1
  | .flush id => .tick id
  | .read => .read
  | .setDays d => .setDays d
  | .putConf ms en => .putConf ms en
  | .reset => .clear

end AGH.C09
