/-
Go's `path.Clean` (= `path/filepath.Clean` on Unix) at component level.
Shared by C16 (DoH path) and C17 (local filter files).  Pinned to the Go
implementation by the correspondence harnesses of both properties.
-/
import AGH.Model.Bytes
namespace AGH
open Bytes

def dotC : Bytes := [46]
def dotdotC : Bytes := [46, 46]

/-- Process path components left to right; `st` is the output stack, top first. -/
def cleanStack (rooted : Bool) : List Bytes → List Bytes → List Bytes
  | [], st => st
  | c :: cs, st =>
    if c = [] ∨ c = dotC then cleanStack rooted cs st
    else if c = dotdotC then
      match st with
      | top :: st' =>
        if top = dotdotC then cleanStack rooted cs (c :: st)
        else cleanStack rooted cs st'
      | [] => if rooted then cleanStack rooted cs [] else cleanStack rooted cs [c]
    else cleanStack rooted cs (c :: st)

def pathClean (p : Bytes) : Bytes :=
  match p with
  | [] => dotC
  | b :: _ =>
    let rooted := b == slash
    let st := (cleanStack rooted (splitOn slash p) []).reverse
    if rooted then slash :: joinWith slash st
    else if st.isEmpty then dotC else joinWith slash st

def isAbs (p : Bytes) : Bool := p.head? == some slash

end AGH
