/-
C18 model, part 2: the conversions from serialised numbers to nanoseconds that
go through float64.

  * `aghhttp.JSONDuration.UnmarshalJSON` (internal/aghhttp/json.go):
      msec, err := strconv.ParseFloat(string(b), 64);  *d = JSONDuration(int64(msec * nsecPerMsec))
  * `time.ParseDuration` (via `timeutil.Duration.UnmarshalText`) on a fractional
    coefficient:  v*unit + uint64(float64(f) * (float64(unit) / scale)).

float64 is modelled EXACTLY (IEEE 754 binary64, round to nearest, ties to
even), with natural numbers only: every finite float64 is an integer multiple
of 2^-1074, so a float is the number `N` of such units.  Rounding a positive
rational `P/d` (in units) keeps 53 significant bits.  What stays outside:
`int64(x)` for `|x| ≥ 2^63`, ±Inf and NaN (implementation-specific in Go):
`outOfRange`.  Core Lean only.
-/
import AGH.Model.Schedule
namespace AGH.C18
open AGH

/-! ### binary64 rounding -/

/-- 2^1074: the number of float64 units in 1. -/
@[irreducible] def fUnit : Nat := 2 ^ 1074

inductive Fl
  | fin (N : Nat)      -- the finite float N · 2^-1074 (sign kept separately)
  | inf                -- overflow
  | giveUp             -- the exponent search failed (never observed; `unmodelled` in the driver)
deriving DecidableEq, Repr

/-- Is `s` the shift that leaves 53 significant bits of `P/d` (or 0 for subnormals)? -/
def shiftOK (P d s : Nat) : Bool :=
  (decide (s = 0) || decide (2 ^ 52 * (d * 2 ^ s) ≤ P)) && decide (P < 2 ^ 53 * (d * 2 ^ s))

/-- The binary exponent (as a shift `s ≥ 0` in units of 2^-1074): from the bit
lengths, checked. -/
def pickShift (P d : Nat) : Option Nat :=
  let L : Int := (Nat.log2 P : Int) - (Nat.log2 d : Int)     -- ⌊log2 (P/d)⌋ ∈ {L-1, L}
  let s0 := (L - 52).toNat
  let s1 := (L - 53).toNat
  if shiftOK P d s0 then some s0 else if shiftOK P d s1 then some s1 else none

/-- Round the positive rational `P/d` (units of 2^-1074) to float64. -/
def roundU (P d : Nat) : Fl :=
  if P = 0 then .fin 0
  else match pickShift P d with
    | none => .giveUp
    | some s =>
      let den := d * 2 ^ s
      let m0 := P / den
      let r := P % den
      let m := if 2 * r > den ∨ (2 * r = den ∧ m0 % 2 = 1) then m0 + 1 else m0
      let N := m * 2 ^ s
      if N ≥ 2 ^ 2098 then .inf else .fin N          -- 2^1024 in units

/-! ### JSON number literals -/

/-- A decimal literal: `(-1)^neg · mant · 10^exp10`. -/
structure Dec where
  neg : Bool
  mant : Nat
  exp10 : Int
deriving DecidableEq, Repr

/-- digits after the decimal point: value so far, count, rest -/
def leadingFrac : Nat → Nat → Bytes → Nat × Nat × Bytes
  | acc, n, [] => (acc, n, [])
  | acc, n, c :: cs => if isDigit c then leadingFrac (acc * 10 + (c - 48)) (n + 1) cs else (acc, n, c :: cs)

/-- `-? digits+ (. digits+)? ([eE] [+-]? digits+)?` — the JSON number grammar
(leading zeros tolerated, as `strconv.ParseFloat` does).  `none`: not such a literal. -/
def parseJSONNumber (tok : Bytes) : Option Dec :=
  let p := stripMinus tok
  match p.2 with
  | [] => none
  | c :: _ =>
    if !isDigit c then none
    else
      let ip := leadingInt 0 p.2
      -- fraction
      let fr : Option (Nat × Nat × Bytes) :=
        match ip.2 with
        | 46 :: r =>
          let f := leadingFrac ip.1 0 r
          if f.2.1 = 0 then none else some f
        | r => some (ip.1, 0, r)
      match fr with
      | none => none
      | some (mant, nfrac, r2) =>
        match r2 with
        | [] => some ⟨p.1, mant, -(nfrac : Int)⟩
        | e :: r3 =>
          if e = 101 ∨ e = 69 then
            let sg := stripSign r3
            match sg.2 with
            | [] => none
            | c2 :: _ =>
              if !isDigit c2 then none
              else
                let ex := leadingInt 0 sg.2
                if ex.2 = [] then
                  some ⟨p.1, mant, (if sg.1 then -(ex.1 : Int) else (ex.1 : Int)) - (nfrac : Int)⟩
                else none
          else none

/-- The literal as a fraction `p/d` (magnitude). -/
def Dec.frac (x : Dec) : Nat × Nat :=
  if x.exp10 ≥ 0 then (x.mant * 10 ^ x.exp10.toNat, 1) else (x.mant, 10 ^ (-x.exp10).toNat)

/-- Literals beyond this size are left to the oracle (keeps the arithmetic small). -/
def Dec.small (x : Dec) : Bool := decide (x.mant < 10 ^ 400) && decide (x.exp10.natAbs ≤ 1200)

inductive NsRes
  | ok (ns : Int)
  | err                -- ParseFloat reports a range error (±Inf)
  | outOfRange         -- int64 of a float beyond ±2^63: not defined by Go
  | giveUp
deriving DecidableEq, Repr

/-- `int64(ParseFloat(lit) * 1e6)` for the literal `(-1)^neg · p/d` (milliseconds);
`U` is the number of float64 units in 1 (always `fUnit`; a parameter so that proofs
never have to look inside 2^1074). -/
def Fl.andThen (x : Fl) (onInf : NsRes) (f : Nat → NsRes) : NsRes :=
  match x with
  | .fin N => f N
  | .inf => onInf
  | .giveUp => .giveUp

/-- `int64(x)` for the float `N2` units: truncation toward zero. -/
def truncNs (U : Nat) (neg : Bool) (N2 : Nat) : NsRes :=
  let k := N2 / U
  if k < 2 ^ 63 then .ok (if neg then -(k : Int) else (k : Int))
  else if neg ∧ k = 2 ^ 63 ∧ N2 % U = 0 then .ok (-(k : Int))
  else .outOfRange

def floatMsToNsU (U : Nat) (neg : Bool) (p d : Nat) : NsRes :=
  (roundU (p * U) d).andThen .err fun N1 =>            -- ParseFloat: nearest float64 (±Inf: range error)
    (roundU (N1 * 1000000) 1).andThen .outOfRange fun N2 =>   -- msec * nsecPerMsec, rounded again
      truncNs U neg N2

def floatMsToNs (neg : Bool) (p d : Nat) : NsRes := floatMsToNsU fUnit neg p d

/-- Result of `JSONDuration.UnmarshalJSON` on a token. -/
inductive JRes
  | ok (ns : Int)
  | err                -- ParseFloat error (range) — for a JSON number token
  | notNumber          -- not a JSON number literal (string, null, …: ParseFloat fails; or not JSON at all)
  | unmodelled         -- int64 of an out-of-range float, oversized literal
deriving DecidableEq, Repr

/-- `JSONDuration.UnmarshalJSON`. -/
def jsonDurDecodeF (tok : Bytes) : JRes :=
  match parseJSONNumber tok with
  | none => .notNumber
  | some x =>
    if !x.small then .unmodelled
    else match floatMsToNs x.neg x.frac.1 x.frac.2 with
      | .ok ns => .ok ns
      | .err => .err
      | .outOfRange => .unmodelled
      | .giveUp => .unmodelled

/-! ### `time.ParseDuration` with fractional coefficients -/

/-- `uint64(float64(f) * (float64(unit) / scale))` with `scale = 10^nfrac`. -/
def fracNs (f nfrac unit : Nat) : Option Nat :=
  match roundU (f * fUnit) 1, roundU (unit * fUnit) (10 ^ nfrac) with
  | .fin a, .fin b =>
    match roundU (a * b) fUnit with        -- (a·2^-1074)·(b·2^-1074) in units of 2^-1074
    | .fin c => some (c / fUnit)
    | _ => none
  | _, _ => none

/-- Result of parsing a duration string: the value Go computes, and the exact
value of the string as the fraction `exNum/exDen` ns (sign in `neg`). -/
inductive PResF
  | ok (ns : Int) (neg : Bool) (exNum exDen : Nat)
  | err
  | unmodelled       -- more than 18 fraction digits, values near the int64 range
  | fuel
deriving DecidableEq, Repr

/-- The loop of `time.ParseDuration`, fractions included (`parseDurLoop` of
`Model/Schedule.lean` is the same loop without them). -/
def parseDurFLoop : Nat → Int → Nat → Nat → Bytes → Option (Int × Nat × Nat) ⊕ Bool
  | 0, _, _, _, _ => .inr true                                   -- fuel
  | fuel + 1, d, en, ed, s =>
    match s with
    | [] => .inl (some (d, en, ed))
    | c :: _ =>
      if !(c = 46 ∨ isDigit c) then .inl none                   -- "invalid duration"
      else
        let vi := leadingInt 0 s
        let pre := decide (vi.2.length ≠ s.length)
        let fr : Nat × Nat × Bytes := match vi.2 with
          | 46 :: r => leadingFrac 0 0 r
          | r => (0, 0, r)
        let post := decide (fr.2.1 ≠ 0)
        if !pre && !post then .inl none                         -- no digits at all
        else if fr.2.1 > 18 then .inr false                     -- leadingFraction would overflow
        else
          let us := spanUnit fr.2.2
          if us.1 = [] then .inl none                           -- "missing unit"
          else match unitNs us.1 with
            | none => .inl none                                 -- "unknown unit"
            | some unit =>
              match (if fr.1 > 0 then fracNs fr.1 fr.2.1 unit.toNat else some 0) with
              | none => .inr false
              | some fns =>
                let d' := d + (vi.1 : Int) * unit + (fns : Int)
                if d' ≥ durModelLimit then .inr false
                else parseDurFLoop fuel d'
                  (en * 10 ^ fr.2.1 + (vi.1 * 10 ^ fr.2.1 + fr.1) * unit.toNat * ed) (ed * 10 ^ fr.2.1) us.2

/-- `time.ParseDuration` = `timeutil.Duration.UnmarshalText`, fractions included. -/
def parseDurF (tok : Bytes) : PResF :=
  let p := stripSign tok
  if p.2 = [48] then .ok 0 p.1 0 1
  else if p.2 = [] then .err
  else match parseDurFLoop (p.2.length + 1) 0 0 1 p.2 with
    | .inl (some (d, en, ed)) => .ok (if p.1 then -d else d) p.1 en ed
    | .inl none => .err
    | .inr true => .fuel
    | .inr false => .unmodelled

/-! ### Decoding a document from its tokens -/

/-- The two tokens of one day object (`none` = the key is absent: the field stays 0). -/
structure DayToks where
  start : Option Bytes
  stop : Option Bytes
deriving DecidableEq, Repr

/-- What the duration type's unmarshaller makes of one token. -/
inductive TokNs
  | ok (ns : Int)
  | fail             -- the unmarshaller returns an error: the library's decode fails
  | unknown          -- outside the modelled domain: take the oracle's value
deriving DecidableEq, Repr

def jsonTokNs (t : Bytes) : TokNs :=
  match jsonDurDecodeF t with
  | .ok ns => .ok ns
  | .err => .fail
  | .notNumber => .fail
  | .unmodelled => .unknown

def yamlTokNs (t : Bytes) : TokNs :=
  match parseDurF t with
  | .ok ns _ _ _ => .ok ns
  | .err => .fail
  | _ => .unknown

inductive TokConf
  | conf (c : Conf)
  | parseError         -- some token makes the library's decode fail
deriving DecidableEq, Repr

/-- One field: token (or absent) and the oracle's value for it. -/
def fieldNs (dec : Bytes → TokNs) (t : Option Bytes) (oracle : Int) : Option Int :=
  match t with
  | none => some 0
  | some b => match dec b with
    | .ok ns => some ns
    | .fail => none
    | .unknown => some oracle

/-- The configuration struct the library builds from the tokens (`oracle` is
used only where a token is outside the modelled domain). -/
def confOfToks (dec : Bytes → TokNs) (tz : Bytes) (toks : Week (Option DayToks)) (oracle : Week (Option DayRange)) :
    TokConf :=
  let day (t : Option DayToks) (o : Option DayRange) : Option (Option DayRange) :=
    match t with
    | none => some none
    | some dt =>
      let od := o.getD DayRange.zero
      match fieldNs dec dt.start od.start, fieldNs dec dt.stop od.stop with
      | some a, some b => some (some ⟨a, b⟩)
      | _, _ => none
  match day toks.sun oracle.sun, day toks.mon oracle.mon, day toks.tue oracle.tue, day toks.wed oracle.wed,
      day toks.thu oracle.thu, day toks.fri oracle.fri, day toks.sat oracle.sat with
  | some a0, some a1, some a2, some a3, some a4, some a5, some a6 => .conf ⟨tz, ⟨a0, a1, a2, a3, a4, a5, a6⟩⟩
  | _, _, _, _, _, _, _ => .parseError

end AGH.C18
