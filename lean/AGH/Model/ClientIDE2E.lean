/-
C16 end-to-end model: the glue between the wire and `clientIDFromDNSContext`.

Transcribed from (Go 1.26 standard library, dnsproxy v0.75.3, AdGuard Home):
* net/http `readRequest` / h2 `newWriterAndRequest`: request-target checks,
  `url.ParseRequestURI` (`net/url.parse` with `viaRequest`), `getScheme`,
  `url.unescape` (two loops), `URL.setPath`, `URL.EscapedPath`,
* net/http `ServeMux.findHandler` for the two patterns AdGuard Home registers
  (`/dns-query`, `/dns-query/`): `cleanPath`, redirect to the cleaned path,
  first-segment matching on the unescaped segment,
* dnsforward `handleDoH` (unencrypted DoH gate), dnsproxy `ServeHTTP`
  (no acceptable DNS message ⇒ 400), `newDNSContext` (request counter),
* dnsforward `onGetCertificate` + `anyNameMatches` (strict SNI: the DoT/DoQ
  handshake is refused),
* then `HandleBefore` / `processInitial` from `AGH.Model.ClientID`.
-/
import AGH.Model.ClientID
namespace AGH.C16.E2E
open AGH AGH.Bytes AGH.C16

def pct : Nat := 37
def qmark : Nat := 63
def colon : Nat := 58
def star : Nat := 42
def space : Nat := 32

def isHex (b : Nat) : Bool :=
  isDigitB b || (decide (97 ≤ b) && decide (b ≤ 102)) || (decide (65 ≤ b) && decide (b ≤ 70))

/-- net/url `unhex` (precondition `isHex`). -/
def unhex (b : Nat) : Nat :=
  if isDigitB b then b - 48
  else if decide (97 ≤ b) && decide (b ≤ 102) then b - 87
  else b - 55

/-! ### `url.unescape(s, encodePath)` — the two loops of the Go function -/

/-- First loop: every `%` is followed by two hex digits (`i += 3`), else `EscapeError`. -/
def unescCheck : Bytes → Bool
  | [] => true
  | c :: rest =>
    if c = pct then
      match rest with
      | a :: b :: rest' => isHex a && isHex b && unescCheck rest'
      | _ => false
    else unescCheck rest

/-- Second loop: builds the result (`i += 2` after a `%`); in path mode `+` stays `+`. -/
def unescBuild : Bytes → Bytes
  | [] => []
  | c :: rest =>
    if c = pct then
      match rest with
      | a :: b :: rest' => (unhex a * 16 + unhex b) :: unescBuild rest'
      | _ => []            -- unreachable after `unescCheck`
    else c :: unescBuild rest

def unescape (s : Bytes) : Option Bytes :=
  if unescCheck s then some (unescBuild s) else none

/-! ### `url.escape(s, encodePath)`, `validEncoded`, `URL.EscapedPath` -/

/-- `!shouldEscape(c, encodePath)` — net/url/encoding_table.go (Go 1.26). -/
def pathSafe (c : Nat) : Bool :=
  isAlnumB c || [36, 38, 43, 44, 45, 46, 47, 58, 59, 61, 64, 95, 126].contains c

def hexUpper (n : Nat) : Nat := if n < 10 then 48 + n else 55 + n

def escapePath : Bytes → Bytes
  | [] => []
  | c :: rest =>
    if pathSafe c then c :: escapePath rest
    else pct :: hexUpper (c / 16 % 16) :: hexUpper (c % 16) :: escapePath rest

/-- `validEncoded(s, encodePath)` -/
def validEncoded (s : Bytes) : Bool :=
  s.all fun c =>
    [33, 36, 38, 39, 40, 41, 42, 43, 44, 59, 61, 58, 64, 91, 93, 37].contains c || pathSafe c

/-! ### `url.parse(rawURL, viaRequest = true)` -/

def hasCTL (s : Bytes) : Bool := s.any fun b => decide (b < 32) || b == 127

def isLetter (c : Nat) : Bool := isLowerB c || isUpperB c
def isSchemeTail (c : Nat) : Bool := isDigitB c || c == 43 || c == 45 || c == 46

/-- `getScheme`: `none` = "missing protocol scheme"; `acc` is `rawURL[:i]`. -/
def getSchemeAux (raw : Bytes) : Bytes → Bytes → Option (Bytes × Bytes)
  | _, [] => some ([], raw)
  | acc, c :: rest =>
    if isLetter c then getSchemeAux raw (acc ++ [c]) rest
    else if isSchemeTail c then
      (if acc = [] then some ([], raw) else getSchemeAux raw (acc ++ [c]) rest)
    else if c = colon then (if acc = [] then none else some (acc, rest))
    else some ([], raw)

def getScheme (raw : Bytes) : Option (Bytes × Bytes) := getSchemeAux raw [] raw

/-- `strings.Cut(rest, "?")` first component; the `ForceQuery` branch (a single
trailing `?`) removes the same suffix. -/
def cutQuery (s : Bytes) : Bytes := s.takeWhile (· != qmark)

/-- The authorities the model accepts in an absolute-form target:
`[A-Za-z0-9.-]*` optionally followed by `:` and digits.  (`parseAuthority`
accepts more — userinfo, IP literals, sub-delims; the generator stays inside
this set, outside it the model answers like a parse error.) -/
def simpleAuthority (a : Bytes) : Bool :=
  let h := a.takeWhile (· != colon)
  let p := a.dropWhile (· != colon)
  h.all (fun c => isAlnumB c || c == dot || c == dash) &&
    (match p with
     | [] => true
     | _ :: digits => digits.all isDigitB)

structure URL where
  /-- `URL.Host` (authority of an absolute-form target) -/
  host : Bytes
  /-- the string handed to `setPath` (`""` for an opaque URL) -/
  rawPath : Bytes
  /-- `URL.Path` -/
  path : Bytes
  deriving DecidableEq, Repr

/-- Everything of `parse` before `setPath`: `(host, rawPath)`. -/
def splitTarget (raw : Bytes) : Option (Bytes × Bytes) :=
  if raw = [] then none
  else match getScheme raw with
    | none => none
    | some (scheme, rest0) =>
      let rest := cutQuery rest0
      if rest.head? ≠ some slash then
        -- rootless: opaque with a scheme, "invalid URI for request" without
        if scheme ≠ [] then some ([], []) else none
      else if scheme ≠ [] ∧ rest.take 2 = [slash, slash] then
        let a := (rest.drop 2).takeWhile (· != slash)
        let p := (rest.drop 2).dropWhile (· != slash)
        if simpleAuthority a then some (a, p) else none
      else some ([], rest)

def parseRequestURI (raw : Bytes) : Option URL :=
  if hasCTL raw then none
  else match splitTarget raw with
    | none => none
    | some (host, rp) =>
      match unescape rp with
      | none => none
      | some p => some { host := host, rawPath := rp, path := p }

/-- `URL.EscapedPath()` -/
def escapedPath (u : URL) : Bytes :=
  if validEncoded u.rawPath then u.rawPath else escapePath u.path

/-! ### `ServeMux` with the patterns `/dns-query` and `/dns-query/` -/

/-- net/http `cleanPath` -/
def muxCleanPath (p : Bytes) : Bytes :=
  if p = [] then [slash]
  else
    let p := if p.head? ≠ some slash then slash :: p else p
    let np := pathClean p
    if p.getLast? = some slash ∧ np ≠ [slash] then np ++ [slash] else np

/-- `pathUnescape`: the original string when the escaping is invalid. -/
def pathUnescape (s : Bytes) : Bytes :=
  match unescape s with
  | some u => u
  | none => s

/-- Does the (cleaned, escaped) path match `/dns-query` or `/dns-query/`?  The
routing tree compares the unescaped first segment. -/
def muxMatch (p : Bytes) : Bool :=
  match p with
  | [] => false
  | _ :: tl => pathUnescape (tl.takeWhile (· != slash)) == dnsQuery

/-! ### Requests, configuration, outcome -/

inductive Tr where
  | udp | tcp | dot | doq | h1 | h2 | hp | dcu
  deriving DecidableEq, Repr

inductive Method where
  | get | post
  deriving DecidableEq, Repr

structure Conf where
  srvName : Bytes
  strict : Bool
  /-- `s.dnsNames`: the sorted DNS names of the certificate -/
  certNames : List Bytes
  /-- `TLSAllowUnencryptedDoH` -/
  plainDoH : Bool

structure Req where
  tr : Tr
  /-- server name in the TLS / QUIC ClientHello -/
  sni : Bytes
  /-- oracle: `netutil.IsValidHostname(sni) || netutil.IsValidIPString(sni)` -/
  sniValidHost : Bool
  method : Method
  /-- raw request-target (`:path` for h2), query included -/
  target : Bytes
  /-- `Host` header (`:authority` for h2) -/
  host : Bytes
  /-- oracle: `netutil.SplitHost` of the effective `r.Host`, `none` = error -/
  hostSplit : Option Bytes
  /-- the request carries a DNS message dnsproxy accepts -/
  dnsOK : Bool
  /- inputs nothing in the ClientID pipeline reads: -/
  peer : Bytes
  edns : Bytes
  qname : Bytes
  hdrs : List (Bytes × Bytes)

inductive Out where
  /-- processed and answered; attributed to `id` (`[]` = nobody) -/
  | ans (id : Bytes)
  /-- `HandleBefore` failed the request: SERVFAIL, nothing logged -/
  | servfail
  /-- rejected by net/http, the mux, `handleDoH` or dnsproxy's `ServeHTTP` -/
  | http (code : Nat)
  /-- h2 stream reset -/
  | rst
  /-- TLS / QUIC handshake refused -/
  | hs
  deriving DecidableEq, Repr

def isHTTP (t : Tr) : Bool := t == .h1 || t == .h2 || t == .hp

/-- `r.Host` as the handler sees it: the authority of an absolute-form target
replaces the Host header (HTTP/1.x); for h2 it is `:authority`. -/
def effHost (r : Req) (urlHost : Bytes) : Bytes :=
  if r.tr == .h2 then r.host else if urlHost ≠ [] then urlHost else r.host

def mkCtxHTTP (cf : Conf) (r : Req) (urlHost path : Bytes) : Ctx :=
  { proto := .https, path := some path,
    httpTLS := if r.tr == .hp then none else some r.sni,
    hostHdr := effHost r urlHost, hostSplit := r.hostSplit,
    connSNI := none, hostSrvName := cf.srvName, strict := cf.strict }

def mkCtxConn (cf : Conf) (p : Proto) (sni : Option Bytes) : Ctx :=
  { proto := p, path := none, httpTLS := none, hostHdr := [], hostSplit := none,
    connSNI := sni, hostSrvName := cf.srvName, strict := cf.strict }

def isWildcard (dn : Bytes) : Bool := dn.take 2 == [star, dot]

/-- dnsforward `anyNameMatches` -/
def anyNameMatches (names : List Bytes) (sni : Bytes) (validHost : Bool) : Bool :=
  validHost && (names.contains sni || names.any fun dn => isWildcard dn && hasSuffix sni (dn.drop 1))

/-- Everything that happens to a DoH request before dnsproxy creates the DNS
context; reads the transport, the raw target and whether a DNS message is
carried — nothing else of the request. -/
def gateHTTP (cf : Conf) (tr : Tr) (target : Bytes) (dnsOK : Bool) : Except Out URL :=
  let bad : Out := if tr == .h2 then .rst else .http 400
  if tr != .h2 && target.contains space then .error (.http 400)
  else if target = [star] then .error (.http 400)
  else match parseRequestURI target with
    | none => .error bad
    | some u =>
      let esc := escapedPath u
      let cl := muxCleanPath esc
      if cl ≠ esc then .error (.http 307)
      else if !muxMatch cl then .error (.http 404)
      else if tr == .hp && !cf.plainDoH then .error (.http 404)
      else if !dnsOK then .error (.http 400)
      else .ok u

def frontHTTP (cf : Conf) (r : Req) : Except Out Ctx :=
  match gateHTTP cf r.tr r.target r.dnsOK with
  | .error o => .error o
  | .ok u => .ok (mkCtxHTTP cf r u.host u.path)

/-- …and to a DoT / DoQ connection. -/
def frontTLS (cf : Conf) (r : Req) (p : Proto) : Except Out Ctx :=
  if cf.strict && !anyNameMatches cf.certNames r.sni r.sniValidHost then .error .hs
  else .ok (mkCtxConn cf p (some r.sni))

def front (cf : Conf) (r : Req) : Except Out Ctx :=
  match r.tr with
  | .udp => .ok (mkCtxConn cf .udp none)
  | .tcp => .ok (mkCtxConn cf .tcp none)
  | .dcu => .ok (mkCtxConn cf .dnscrypt none)
  | .dot => frontTLS cf r .tls
  | .doq => frontTLS cf r .quic
  | .h1 | .h2 | .hp => frontHTTP cf r

/-- Server state that matters: dnsproxy's request counter (restarts with every
re-created proxy) and the server's ClientID cache (kept). -/
structure St where
  counter : Nat := 0
  cache : Cache := []

/-- One request through the whole server. -/
def step (cf : Conf) (st : St) (r : Req) : St × Out :=
  match front cf r with
  | .error o => (st, o)
  | .ok ctx =>
    let n := st.counter + 1
    match handleBefore st.cache n ctx with
    | (cache', .error _) => ({ counter := n, cache := cache' }, .servfail)
    | (cache', .ok _) => ({ counter := n, cache := cache' }, .ans (attributed cache' n))

/-- `Server.Reconfigure`: the proxy is re-created, its counter restarts. -/
def reconf (st : St) : St := { st with counter := 0 }

end AGH.C16.E2E
