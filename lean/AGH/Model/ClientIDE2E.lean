/-
C16 end-to-end model: the glue between the wire and `clientIDFromDNSContext`.

Transcribed from (Go 1.26 standard library, dnsproxy v0.75.3, AdGuard Home):
* net/http `readRequest` / h2 `newWriterAndRequest`: request-target checks,
  `url.ParseRequestURI` (`net/url.parse` with `viaRequest`), `getScheme`,
  `url.unescape` (two loops), `URL.setPath`, `URL.EscapedPath`,
* net/http `ServeMux.findHandler` for the two patterns AdGuard Home registers
  (`/dns-query`, `/dns-query/`): `cleanPath`, redirect to the cleaned path,
  first-segment matching on the unescaped segment,
* dnsforward `handleDoH` (unencrypted DoH gate), dnsproxy `ServeHTTP`
  (no acceptable DNS message ⇒ 400), `newDNSContext` (request counter),
* dnsforward `onGetCertificate` + `anyNameMatches` (strict SNI: the DoT/DoQ
  handshake is refused),
* then `HandleBefore` / `processInitial` from `AGH.Model.ClientID`.
-/
import AGH.Model.ClientID
namespace AGH.C16.E2E
open AGH AGH.Bytes AGH.C16

def pct : Nat := 37
def qmark : Nat := 63
def colon : Nat := 58
def star : Nat := 42
def space : Nat := 32

def isHex (b : Nat) : Bool :=
  isDigitB b || (decide (97 ≤ b) && decide (b ≤ 102)) || (decide (65 ≤ b) && decide (b ≤ 70))

/-- net/url `unhex` (precondition `isHex`). -/
def unhex (b : Nat) : Nat :=
  if isDigitB b then b - 48
  else if decide (97 ≤ b) && decide (b ≤ 102) then b - 87
  else b - 55

/-! ### `url.unescape(s, encodePath)` — the two loops of the Go function -/

/-- First loop: every `%` is followed by two hex digits (`i += 3`), else `EscapeError`. -/
def unescCheck : Bytes → Bool
  | [] => true
  | c :: rest =>
    if c = pct then
      match rest with
      | a :: b :: rest' => isHex a && isHex b && unescCheck rest'
      | _ => false
    else unescCheck rest

/-- Second loop: builds the result (`i += 2` after a `%`); in path mode `+` stays `+`. -/
def unescBuild : Bytes → Bytes
  | [] => []
  | c :: rest =>
    if c = pct then
      match rest with
      | a :: b :: rest' => (unhex a * 16 + unhex b) :: unescBuild rest'
      | _ => []            -- unreachable after `unescCheck`
    else c :: unescBuild rest

def unescape (s : Bytes) : Option Bytes :=
  if unescCheck s then some (unescBuild s) else none

/-! ### `url.escape(s, encodePath)`, `validEncoded`, `URL.EscapedPath` -/

/-- `!shouldEscape(c, encodePath)` — net/url/encoding_table.go (Go 1.26). -/
def pathSafe (c : Nat) : Bool :=
  isAlnumB c || [36, 38, 43, 44, 45, 46, 47, 58, 59, 61, 64, 95, 126].contains c

def hexUpper (n : Nat) : Nat := if n < 10 then 48 + n else 55 + n

def escapePath : Bytes → Bytes
  | [] => []
  | c :: rest =>
    if pathSafe c then c :: escapePath rest
    else pct :: hexUpper (c / 16 % 16) :: hexUpper (c % 16) :: escapePath rest

/-- `validEncoded(s, encodePath)` -/
def validEncoded (s : Bytes) : Bool :=
  s.all fun c =>
    [33, 36, 38, 39, 40, 41, 42, 43, 44, 59, 61, 58, 64, 91, 93, 37].contains c || pathSafe c

/-! ### `url.parse(rawURL, viaRequest = true)` -/

def hasCTL (s : Bytes) : Bool := s.any fun b => decide (b < 32) || b == 127

def isLetter (c : Nat) : Bool := isLowerB c || isUpperB c
def isSchemeTail (c : Nat) : Bool := isDigitB c || c == 43 || c == 45 || c == 46

/-- `getScheme`: `none` = "missing protocol scheme"; `acc` is `rawURL[:i]`. -/
def getSchemeAux (raw : Bytes) : Bytes → Bytes → Option (Bytes × Bytes)
  | _, [] => some ([], raw)
  | acc, c :: rest =>
    if isLetter c then getSchemeAux raw (acc ++ [c]) rest
    else if isSchemeTail c then
      (if acc = [] then some ([], raw) else getSchemeAux raw (acc ++ [c]) rest)
    else if c = colon then (if acc = [] then none else some (acc, rest))
    else some ([], raw)

def getScheme (raw : Bytes) : Option (Bytes × Bytes) := getSchemeAux raw [] raw

/-- `strings.Cut(rest, "?")` first component; the `ForceQuery` branch (a single
trailing `?`) removes the same suffix. -/
def cutQuery (s : Bytes) : Bytes := s.takeWhile (· != qmark)

/-! ### `parseAuthority` / `parseHost` (net/url, Go 1.26) -/

/-- `!shouldEscape(c, encodeHost)`; the `encodeZone` column of
net/url/encoding_table.go is the same set. -/
def hostSafe (c : Nat) : Bool :=
  isAlnumB c ||
    [33, 34, 36, 38, 39, 40, 41, 42, 43, 44, 45, 46, 58, 59, 60, 61, 62, 91, 93, 95, 126].contains c

/-- First loop of `unescape(s, encodeHost)`: a `%XY` must be well formed and,
unless it is `%25`, stand for a byte ≥ 0x80; any other ASCII byte must be
allowed raw in a host. -/
def unescCheckHost : Bytes → Bool
  | [] => true
  | c :: rest =>
    if c = pct then
      match rest with
      | a :: b :: rest' =>
        isHex a && isHex b && (decide (8 ≤ unhex a) || (a == 50 && b == 53)) && unescCheckHost rest'
      | _ => false
    else (decide (128 ≤ c) || hostSafe c) && unescCheckHost rest

/-- First loop of `unescape(s, encodeZone)`: a `%XY` other than `%25` must
stand for a space or for a byte allowed raw in a host. -/
def unescCheckZone : Bytes → Bool
  | [] => true
  | c :: rest =>
    if c = pct then
      match rest with
      | a :: b :: rest' =>
        isHex a && isHex b &&
          ((a == 50 && b == 53) || unhex a * 16 + unhex b == 32 || hostSafe (unhex a * 16 + unhex b)) &&
          unescCheckZone rest'
      | _ => false
    else (decide (128 ≤ c) || hostSafe c) && unescCheckZone rest

def unescapeHost (s : Bytes) : Option Bytes := if unescCheckHost s then some (unescBuild s) else none
def unescapeZone (s : Bytes) : Option Bytes := if unescCheckZone s then some (unescBuild s) else none

/-- `strings.IndexByte` -/
def indexOf (x : Nat) : Bytes → Option Nat
  | [] => none
  | c :: t => if c = x then some 0 else (indexOf x t).map (· + 1)

/-- `strings.LastIndexByte` -/
def lastIndexOf (x : Nat) (s : Bytes) : Option Nat :=
  (indexOf x s.reverse).map fun i => s.length - 1 - i

/-- `strings.Index(s, "%25")` -/
def indexPct25 : Bytes → Option Nat
  | [] => none
  | c :: t => if (c :: t).take 3 = [37, 50, 53] then some 0 else (indexPct25 t).map (· + 1)

/-- `validOptionalPort`: empty or `:` followed by digits. -/
def validOptionalPort (p : Bytes) : Bool :=
  match p with
  | [] => true
  | c :: digits => c == colon && digits.all isDigitB

/-- `validUserinfo` (ranges over runes: a byte ≥ 0x80 is never accepted). -/
def validUserinfo (s : Bytes) : Bool :=
  s.all fun c =>
    isAlnumB c || [45, 46, 95, 58, 126, 33, 36, 38, 39, 40, 41, 42, 43, 44, 59, 61, 37, 64].contains c

/-- What the parser takes from its environment. -/
structure UrlEnv where
  /-- GODEBUG `urlstrictcolons` is not "0" (the default depends on the `go`
  line of the main module) -/
  strictColons : Bool
  /-- oracle: `netip.ParseAddr` accepts the unescaped content of a bracketed
  host and it is not an IPv4 address -/
  ipLitOK : Bool

def httpS : Bytes := [104, 116, 116, 112]
def httpsS : Bytes := [104, 116, 116, 112, 115]

/-- `parseHost(scheme, host)`; `scheme` is already lower-cased. -/
def parseHost (e : UrlEnv) (scheme host : Bytes) : Option Bytes :=
  match lastIndexOf 91 host with
  | some (_ + 1) => none                       -- "invalid IP-literal"
  | some 0 =>
    match lastIndexOf 93 host with
    | none => none                             -- "missing ']' in host"
    | some cb =>
      let colonPort := host.drop (cb + 1)
      if !validOptionalPort colonPort then none
      else
        let hostname := (host.take cb).drop 1
        let uh : Option Bytes :=
          match indexPct25 hostname with
          | some z =>
            (match unescapeHost (hostname.take z), unescapeZone (hostname.drop z) with
             | some a, some b => some (a ++ b)
             | _, _ => none)
          | none => unescapeHost hostname
        match uh with
        | none => none
        | some u => if e.ipLitOK then some (91 :: u ++ 93 :: colonPort) else none
  | none =>
    let portOK :=
      match indexOf colon host with
      | none => true
      | some i =>
        let last := (lastIndexOf colon host).getD i
        let i' := if last ≠ i ∧ (¬ (scheme = httpS ∨ scheme = httpsS) ∨ e.strictColons = false) then last else i
        validOptionalPort (host.drop i')
    if portOK then unescapeHost host else none

/-- `parseAuthority`: the host, `none` on any error. -/
def parseAuthority (e : UrlEnv) (scheme auth : Bytes) : Option Bytes :=
  match lastIndexOf 64 auth with
  | none => parseHost e scheme auth
  | some i =>
    match parseHost e scheme (auth.drop (i + 1)) with
    | none => none
    | some h =>
      let ui := auth.take i
      if !validUserinfo ui then none
      else if !ui.contains colon then (if unescCheck ui then some h else none)
      else
        let user := ui.takeWhile (· != colon)
        let pass := (ui.dropWhile (· != colon)).drop 1
        if unescCheck user && unescCheck pass then some h else none

structure URL where
  /-- `URL.Host` (authority of an absolute-form target) -/
  host : Bytes
  /-- the string handed to `setPath` (`""` for an opaque URL) -/
  rawPath : Bytes
  /-- `URL.Path` -/
  path : Bytes
  deriving DecidableEq, Repr

/-- Everything of `parse` before `setPath`: `(host, rawPath)`. -/
def splitTarget (e : UrlEnv) (raw : Bytes) : Option (Bytes × Bytes) :=
  if raw = [] then none
  else match getScheme raw with
    | none => none
    | some (scheme, rest0) =>
      let rest := cutQuery rest0
      if rest.head? ≠ some slash then
        -- rootless: opaque with a scheme, "invalid URI for request" without
        if scheme ≠ [] then some ([], []) else none
      else if scheme ≠ [] ∧ rest.take 2 = [slash, slash] then
        let a := (rest.drop 2).takeWhile (· != slash)
        let p := (rest.drop 2).dropWhile (· != slash)
        match parseAuthority e (lower scheme) a with
        | some h => some (h, p)
        | none => none
      else some ([], rest)

def parseRequestURI (e : UrlEnv) (raw : Bytes) : Option URL :=
  if hasCTL raw then none
  else match splitTarget e raw with
    | none => none
    | some (host, rp) =>
      match unescape rp with
      | none => none
      | some p => some { host := host, rawPath := rp, path := p }

/-- `URL.EscapedPath()` -/
def escapedPath (u : URL) : Bytes :=
  if validEncoded u.rawPath then u.rawPath else escapePath u.path

/-! ### `ServeMux` with the patterns `/dns-query` and `/dns-query/` -/

/-- net/http `cleanPath` -/
def muxCleanPath (p : Bytes) : Bytes :=
  if p = [] then [slash]
  else
    let p := if p.head? ≠ some slash then slash :: p else p
    let np := pathClean p
    if p.getLast? = some slash ∧ np ≠ [slash] then np ++ [slash] else np

/-- `pathUnescape`: the original string when the escaping is invalid. -/
def pathUnescape (s : Bytes) : Bytes :=
  match unescape s with
  | some u => u
  | none => s

/-- Does the (cleaned, escaped) path match `/dns-query` or `/dns-query/`?  The
routing tree compares the unescaped first segment. -/
def muxMatch (p : Bytes) : Bool :=
  match p with
  | [] => false
  | _ :: tl => pathUnescape (tl.takeWhile (· != slash)) == dnsQuery

/-! ### Requests, configuration, outcome -/

inductive Tr where
  | udp | tcp | dot | doq | h1 | h2 | hp | dcu
  deriving DecidableEq, Repr

inductive Method where
  | get | post
  deriving DecidableEq, Repr

/-- What `prepareTLS` reads of the certificate (`x509.ParseCertificate` of
`TLSConf.Cert`). -/
structure Cert where
  /-- DNS subject alternative names -/
  dnsNames : List Bytes
  /-- `Subject.CommonName` -/
  cn : Bytes
  /-- the certificate has IP SANs (`s.hasIPAddrs`; DDR only) -/
  hasIP : Bool

/-- What `prepareTLS` leaves behind for the request path. -/
structure TLSPrep where
  /-- `s.conf.TLSConf.StrictSNICheck` as `clientIDFromDNSContext` and
  `onGetCertificate` will read it -/
  strict : Bool
  /-- `s.dnsNames` (sorted in the code; only membership is used) -/
  dnsNames : List Bytes

/-- dnsforward `(*Server).prepareTLS`, the part about strict checking: with
strict checking the names to match a handshake against are the DNS SANs, or
the common name alone (even an empty one) when there is no DNS SAN.  The
configured flag is read, never written. -/
def prepareTLS (strict : Bool) (c : Cert) : TLSPrep :=
  { strict := strict
    dnsNames := if strict then (if c.dnsNames ≠ [] then c.dnsNames else [c.cn]) else [] }

structure Conf where
  srvName : Bytes
  /-- `TLSConf.StrictSNICheck` as configured -/
  strict : Bool
  cert : Cert
  /-- `TLSAllowUnencryptedDoH` -/
  plainDoH : Bool
  /-- GODEBUG `urlstrictcolons` of the server binary (see `UrlEnv`) -/
  urlStrictColons : Bool

structure Req where
  tr : Tr
  /-- server name in the TLS / QUIC ClientHello -/
  sni : Bytes
  /-- oracle: `netutil.IsValidHostname(sni) || netutil.IsValidIPString(sni)` -/
  sniValidHost : Bool
  method : Method
  /-- raw request-target (`:path` for h2), query included -/
  target : Bytes
  /-- `Host` header (`:authority` for h2) -/
  host : Bytes
  /-- oracle: `netutil.SplitHost` of the effective `r.Host`, `none` = error -/
  hostSplit : Option Bytes
  /-- the request carries a DNS message dnsproxy accepts -/
  dnsOK : Bool
  /-- oracle for a bracketed host in an absolute-form target (see `UrlEnv`) -/
  ipLitOK : Bool
  /- inputs nothing in the ClientID pipeline reads: -/
  peer : Bytes
  edns : Bytes
  qname : Bytes
  hdrs : List (Bytes × Bytes)

inductive Out where
  /-- processed and answered; attributed to `id` (`[]` = nobody) -/
  | ans (id : Bytes)
  /-- `HandleBefore` failed the request: SERVFAIL, nothing logged -/
  | servfail
  /-- rejected by net/http, the mux, `handleDoH` or dnsproxy's `ServeHTTP` -/
  | http (code : Nat)
  /-- h2 stream reset -/
  | rst
  /-- TLS / QUIC handshake refused -/
  | hs
  deriving DecidableEq, Repr

def isHTTP (t : Tr) : Bool := t == .h1 || t == .h2 || t == .hp

/-- `r.Host` as the handler sees it: the authority of an absolute-form target
replaces the Host header (HTTP/1.x); for h2 it is `:authority`. -/
def effHost (r : Req) (urlHost : Bytes) : Bytes :=
  if r.tr == .h2 then r.host else if urlHost ≠ [] then urlHost else r.host

def Conf.prep (cf : Conf) : TLSPrep := prepareTLS cf.strict cf.cert

def mkCtxHTTP (cf : Conf) (r : Req) (urlHost path : Bytes) : Ctx :=
  { proto := .https, path := some path,
    httpTLS := if r.tr == .hp then none else some r.sni,
    hostHdr := effHost r urlHost, hostSplit := r.hostSplit,
    connSNI := none, hostSrvName := cf.srvName, strict := cf.prep.strict }

def mkCtxConn (cf : Conf) (p : Proto) (sni : Option Bytes) : Ctx :=
  { proto := p, path := none, httpTLS := none, hostHdr := [], hostSplit := none,
    connSNI := sni, hostSrvName := cf.srvName, strict := cf.prep.strict }

def isWildcard (dn : Bytes) : Bool := dn.take 2 == [star, dot]

/-- dnsforward `anyNameMatches` -/
def anyNameMatches (names : List Bytes) (sni : Bytes) (validHost : Bool) : Bool :=
  validHost && (names.contains sni || names.any fun dn => isWildcard dn && hasSuffix sni (dn.drop 1))

/-- Everything that happens to a DoH request before dnsproxy creates the DNS
context; reads the transport, the raw target and whether a DNS message is
carried — nothing else of the request. -/
def envOf (cf : Conf) (ipLitOK : Bool) : UrlEnv := { strictColons := cf.urlStrictColons, ipLitOK := ipLitOK }

def gateHTTP (cf : Conf) (tr : Tr) (target : Bytes) (dnsOK ipLitOK : Bool) : Except Out URL :=
  let bad : Out := if tr == .h2 then .rst else .http 400
  if tr != .h2 && target.contains space then .error (.http 400)
  else if target = [star] then .error (.http 400)
  else match parseRequestURI (envOf cf ipLitOK) target with
    | none => .error bad
    | some u =>
      let esc := escapedPath u
      let cl := muxCleanPath esc
      if cl ≠ esc then .error (.http 307)
      else if !muxMatch cl then .error (.http 404)
      else if tr == .hp && !cf.plainDoH then .error (.http 404)
      else if !dnsOK then .error (.http 400)
      else .ok u

/-- httpguts `validHostByte` -/
def validHostByte (c : Nat) : Bool :=
  isAlnumB c || [33, 36, 37, 38, 40, 41, 42, 43, 44, 45, 46, 58, 59, 61, 91, 39, 93, 95, 126].contains c

/-- The Host header / `:authority` as the transport accepts it: HTTP/1.x
requires `httpguts.ValidHostHeader` ("malformed Host header", 400); h2 only a
valid header field value (else the stream is reset). -/
def hostFieldOK (tr : Tr) (host : Bytes) : Bool :=
  if tr == .h2 then host.all fun b => !((decide (b < 32) && b != 9) || b == 127)
  else host.all validHostByte

def frontHTTP (cf : Conf) (r : Req) : Except Out Ctx :=
  if !hostFieldOK r.tr r.host then .error (if r.tr == .h2 then .rst else .http 400)
  else match gateHTTP cf r.tr r.target r.dnsOK r.ipLitOK with
    | .error o => .error o
    | .ok u => .ok (mkCtxHTTP cf r u.host u.path)

/-- …and to a DoT / DoQ connection. -/
def frontTLS (cf : Conf) (r : Req) (p : Proto) : Except Out Ctx :=
  if cf.prep.strict && !anyNameMatches cf.prep.dnsNames r.sni r.sniValidHost then .error .hs
  else .ok (mkCtxConn cf p (some r.sni))

def front (cf : Conf) (r : Req) : Except Out Ctx :=
  match r.tr with
  | .udp => .ok (mkCtxConn cf .udp none)
  | .tcp => .ok (mkCtxConn cf .tcp none)
  | .dcu => .ok (mkCtxConn cf .dnscrypt none)
  | .dot => frontTLS cf r .tls
  | .doq => frontTLS cf r .quic
  | .h1 | .h2 | .hp => frontHTTP cf r

/-- Server state that matters: dnsproxy's request counter (restarts with every
re-created proxy) and the server's ClientID cache (kept). -/
structure St where
  counter : Nat := 0
  cache : Cache := []

/-- One request through the whole server. -/
def step (cf : Conf) (st : St) (r : Req) : St × Out :=
  match front cf r with
  | .error o => (st, o)
  | .ok ctx =>
    let n := st.counter + 1
    match handleBefore st.cache n ctx with
    | (cache', .error _) => ({ counter := n, cache := cache' }, .servfail)
    | (cache', .ok _) => ({ counter := n, cache := cache' }, .ans (attributed cache' n))

/-- `Server.Reconfigure`: the proxy is re-created, its counter restarts. -/
def reconf (st : St) : St := { st with counter := 0 }

end AGH.C16.E2E
