/-
C04 model: the persistent-client registry (internal/client/index.go,
storage.go Add / Update / RemoveByName / Find / FindByName /
ApplyClientFiltering, persistent.go validate / subnetCompare,
aghalg/sortedmap.go Set / Del / Range, slices.BinarySearchFunc).

Transcription notes
* Go maps keyed by a comparable type are total functions `κ → Option UID`
  (`FMap`): `m[k] = v`, `delete(m, k)`, `v, ok := m[k]` and nothing else is
  used on them.  `uidToClient` is also iterated (`rangeByName`, `size`), so it
  is the list of its values, at most one per UID.
* `SortedMap` is transcribed with BOTH of its fields (`vals`, `keys`) and with
  Go's binary search; that `keys` stays sorted, duplicate-free and equal to the
  domain of `vals` is a theorem (Lemmas/ClientsSorted.lean), not an assumption.
* A lookup that finds a UID without a client returns Go's `(nil, true)`; every
  caller that would dereference it panics.  That is `Look.dangling` here, and
  the Storage-level functions turn it into `panic`.  `macToKey` panics on a MAC
  whose length is not 6, 8 or 20; so do the model's `clashes`, `findByMAC`.
  `slices.Delete` panics when the range is out of bounds; so does `SortedMap.del`.
* `netip.Addr`, `netip.Prefix` and `Prefix.Contains` are those of the C03 model.
* Parsing of strings into typed identifiers (`SetIDs`, `netip.ParseAddr`,
  `net.ParseMAC`) is outside: clients arrive typed, `Find` gets its argument
  together with what the parsers make of it.
* Tag and upstream validation (`validate`) is an oracle bit per client.
-/
import AGH.Model.Access
namespace AGH.C04
open AGH AGH.Bytes
open AGH.C03 (IP Prefix)

/-- `client.UID` (a UUID); `0` is the zero value `UID{}`. -/
abbrev UID := Nat
abbrev MAC := Bytes

/-- `client.Persistent`, the fields this property is about. -/
structure Client where
  uid : UID
  name : Bytes
  ips : List IP
  subnets : List Prefix
  macs : List MAC
  cids : List Bytes
  /-- oracle: `validate` rejects the tags or the upstreams -/
  invalidConf : Bool
  useOwnSettings : Bool
  filteringEnabled : Bool
  safeSearchEnabled : Bool
  safeBrowsingEnabled : Bool
  parentalEnabled : Bool
  useOwnBlockedServices : Bool
  /-- stands for the value of `BlockedServices` -/
  svc : Nat
  /-- identity of the stored `SafeSearch` object; `0` = nil.  Independent of
  `useOwnSettings` and of `safeSearchEnabled` (`SafeSearchConf.Enabled`). -/
  safeSearch : Nat
  /-- stands for the value of `Tags` -/
  tags : Nat
  /-- identifies the struct value (which operation brought it in); carried in
  `UpstreamsCacheSize` -/
  ver : Nat
  ignoreQueryLog : Bool := false
  ignoreStatistics : Bool := false
  /-- stands for the value of `Upstreams` -/
  upstreams : Nat := 0
  upstreamsCacheEnabled : Bool := false
  /-- stands for the schedule of `BlockedServices` -/
  sched : Nat := 0
  /-- stands for the per-engine switches of `SafeSearchConf` -/
  ssConf : Nat := 0
  deriving DecidableEq, Repr

def Client.idsLen (c : Client) : Nat :=
  c.ips.length + c.subnets.length + c.macs.length + c.cids.length

/-! ### Go maps as functions -/

def FMap (κ : Type) := κ → Option UID

namespace FMap
variable {κ : Type} [DecidableEq κ]
def empty : FMap κ := fun _ => none
/-- `m[k] = u` -/
def set (m : FMap κ) (k : κ) (u : UID) : FMap κ := fun x => if x = k then some u else m x
/-- `delete(m, k)` -/
def del (m : FMap κ) (k : κ) : FMap κ := fun x => if x = k then none else m x
/-- `for _, k := range ks { m[k] = u }` -/
def setAll (m : FMap κ) (ks : List κ) (u : UID) : FMap κ := ks.foldl (fun m k => m.set k u) m
/-- `for _, k := range ks { delete(m, k) }` -/
def delAll (m : FMap κ) (ks : List κ) : FMap κ := ks.foldl (fun m k => m.del k) m
end FMap

/-! ### subnetCompare, binary search, SortedMap -/

/-- `netip.Addr.Compare` on the addresses of two prefixes (no zones there):
family first (IPv4 before IPv6), then the numeric value. -/
def addrCompare (x y : Prefix) : Ordering :=
  if x.is6 != y.is6 then (if y.is6 then .lt else .gt)
  else compare x.addr y.addr

/-- `subnetCompare` -/
def subnetCompare (x y : Prefix) : Ordering :=
  if x = y then .eq
  else if x.bits = y.bits then addrCompare x y
  else if x.bits > y.bits then .lt
  else .gt

/-- The loop of `slices.BinarySearchFunc(keys, target, subnetCompare)`. -/
def bsearchLoop (keys : List Prefix) (target : Prefix) (i j : Nat) : Nat :=
  if i < j then
    let h := (i + j) / 2
    match keys[h]? with
    | some k =>
      if subnetCompare k target = .lt then bsearchLoop keys target (h + 1) j
      else bsearchLoop keys target i h
    | none => i   -- `x[h]` out of range: cannot happen, h < j ≤ len(x)
  else i
termination_by j - i
decreasing_by all_goals omega

/-- `slices.BinarySearchFunc`: position and whether the key is there. -/
def bsearch (keys : List Prefix) (target : Prefix) : Nat × Bool :=
  let i := bsearchLoop keys target 0 keys.length
  (i, match keys[i]? with
      | some k => subnetCompare k target == .eq
      | none => false)

/-- `aghalg.SortedMap[netip.Prefix, UID]` -/
structure SortedMap where
  vals : FMap Prefix
  keys : List Prefix

def SortedMap.empty : SortedMap := ⟨FMap.empty, []⟩

/-- `SortedMap.Set` -/
def SortedMap.set (m : SortedMap) (key : Prefix) (val : UID) : SortedMap :=
  let vals := m.vals.set key val
  let (i, has) := bsearch m.keys key
  if has then ⟨vals, m.keys.set i key⟩
  else ⟨vals, m.keys.take i ++ key :: m.keys.drop i⟩

/-- `SortedMap.Del`; `none` = `slices.Delete` panicked. -/
def SortedMap.del (m : SortedMap) (key : Prefix) : Option SortedMap :=
  match m.vals key with
  | none => some m
  | some _ =>
    let (i, _) := bsearch m.keys key
    if i + 1 ≤ m.keys.length then some ⟨m.vals.del key, m.keys.take i ++ m.keys.drop (i + 1)⟩
    else none

/-! ### SetIDs: strings to typed identifiers

`Persistent.SetIDs` (persistent.go): every string is tried as an address
(`netip.ParseAddr`), then as a CIDR (`netip.ParsePrefix`), then as a MAC
(`net.ParseMAC`), then validated as a ClientID and lower-cased; afterwards the
four lists are sorted.  What the three parsers make of a string travels with
it; the ORDER of the attempts, the label check, the lower-casing and the
sorting are the model's. -/

/-- One identifier string with the parsers' verdicts. -/
structure IDString where
  raw : Bytes
  asIP : Option IP
  asPrefix : Option Prefix
  asMAC : Option MAC

inductive SetErr where
  /-- "clientid is empty" -/
  | empty
  /-- `ValidateClientID` failed -/
  | badClientID
  deriving DecidableEq, Repr

/-- `netip.Addr.Compare` < 0: family (zero, IPv4, IPv6), then value, then zone. -/
def ipLt : IP → IP → Bool
  | .invalid, .invalid => false
  | .invalid, _ => true
  | .v4 _, .invalid => false
  | .v4 a, .v4 b => decide (a < b)
  | .v4 _, .v6 _ _ => true
  | .v6 a za, .v6 b zb => decide (a < b) || (a == b && compare za zb == .lt)
  | .v6 _ _, _ => false

/-- Insert into a list kept in `lt` order (what sorting does, one element at a time). -/
def insertSorted {α : Type} (lt : α → α → Bool) (x : α) : List α → List α
  | [] => [x]
  | y :: rest => if lt x y then x :: y :: rest else y :: insertSorted lt x rest

def sortBy {α : Type} (lt : α → α → Bool) (l : List α) : List α := l.foldr (insertSorted lt) []

/-- `setID` -/
def setID (c : Client) (id : IDString) : Except SetErr Client :=
  if id.raw = [] then .error .empty
  else match id.asIP with
    | some ip => .ok { c with ips := c.ips ++ [ip] }
    | none => match id.asPrefix with
      | some p => .ok { c with subnets := c.subnets ++ [p] }
      | none => match id.asMAC with
        | some m => .ok { c with macs := c.macs ++ [m] }
        | none =>
          if C16.validLabel id.raw then .ok { c with cids := c.cids ++ [Bytes.lower id.raw] }
          else .error .badClientID

/-- The loop of `SetIDs` (it stops at the first bad string, before sorting). -/
def setIDsLoop (c : Client) : List IDString → Except SetErr Client
  | [] => .ok c
  | id :: rest => match setID c id with
    | .ok c' => setIDsLoop c' rest
    | .error e => .error e

/-- `Persistent.SetIDs` -/
def setIDs (c : Client) (ids : List IDString) : Except SetErr Client :=
  match setIDsLoop c ids with
  | .error e => .error e
  | .ok c =>
    .ok { c with
      ips := sortBy ipLt c.ips
      subnets := sortBy (fun x y => subnetCompare x y == .lt) c.subnets
      macs := sortBy (fun x y => compare x y == .lt) c.macs
      cids := sortBy (fun x y => compare x y == .lt) c.cids }

/-! ### index -/

structure Index where
  nameToUID : FMap Bytes
  clientIDToUID : FMap Bytes
  ipToUID : FMap IP
  macToUID : FMap MAC
  /-- values of `uidToClient` -/
  clients : List Client
  subnetToUID : SortedMap

def Index.empty : Index := ⟨FMap.empty, FMap.empty, FMap.empty, FMap.empty, [], SortedMap.empty⟩

/-- `ci.uidToClient[u]` -/
def Index.client (ci : Index) (u : UID) : Option Client := ci.clients.find? (·.uid == u)

/-- Result of a `findBy…`: Go's `(nil,false)`, `(c,true)`, `(nil,true)`. -/
inductive Look where
  | none
  | found (c : Client)
  | dangling
  deriving DecidableEq, Repr

def Index.deref (ci : Index) : Option UID → Look
  | .none => .none
  | .some u => match ci.client u with
    | some c => .found c
    | none => .dangling

/-- `macToKey` does not panic. -/
def macOK (m : MAC) : Bool := m.length == 6 || m.length == 8 || m.length == 20

def Index.findByName (ci : Index) (n : Bytes) : Look := ci.deref (ci.nameToUID n)
def Index.findByClientID (ci : Index) (id : Bytes) : Look := ci.deref (ci.clientIDToUID id)

/-- `findByIP`: exact address, else the first subnet in key order containing
the address without its zone. -/
def Index.findByIP (ci : Index) (ip : IP) : Look :=
  match ci.ipToUID ip with
  | some u => ci.deref (some u)
  | none =>
    match ci.subnetToUID.keys.find? (fun pref => pref.contains ip.withoutZone) with
    | some pref =>
      -- `m.vals[k]`: the zero UID when the key has no value
      ci.deref (some ((ci.subnetToUID.vals pref).getD 0))
    | none => .none

/-- `findByMAC`; `none` = `macToKey` panicked. -/
def Index.findByMAC (ci : Index) (mac : MAC) : Option Look :=
  if macOK mac then some (ci.deref (ci.macToUID mac)) else none

/-- `index.add` (all MACs have a valid length: `clashes` ran before). -/
def Index.add (ci : Index) (c : Client) : Index :=
  { nameToUID := ci.nameToUID.set c.name c.uid
    clientIDToUID := ci.clientIDToUID.setAll c.cids c.uid
    ipToUID := ci.ipToUID.setAll c.ips c.uid
    subnetToUID := c.subnets.foldl (fun m p => m.set p c.uid) ci.subnetToUID
    macToUID := ci.macToUID.setAll c.macs c.uid
    clients := ci.clients.filter (·.uid != c.uid) ++ [c] }

/-- `index.remove`; `none` = a panic inside `SortedMap.Del`. -/
def Index.remove (ci : Index) (c : Client) : Option Index :=
  match c.subnets.foldlM (fun m p => SortedMap.del m p) ci.subnetToUID with
  | none => none
  | some sm =>
    some { nameToUID := ci.nameToUID.del c.name
           clientIDToUID := ci.clientIDToUID.delAll c.cids
           ipToUID := ci.ipToUID.delAll c.ips
           subnetToUID := sm
           macToUID := ci.macToUID.delAll c.macs
           clients := ci.clients.filter (·.uid != c.uid) }

inductive Err where
  | emptyName | noIDs | noUID | invalidConf
  | uidClash | nameClash | cidClash | ipClash | subnetClash | macClash
  | notFound
  /-- the configuration written by `forConfig` is refused at start-up -/
  | restartFailed
  deriving DecidableEq, Repr

inductive Res where
  | ok
  | err (e : Err)
  | panic
  deriving DecidableEq, Repr

/-- `clashesIP` / `clashesSubnet`: the loop stops at the first identifier that
is mapped to another UID and returns `uidToClient[existing]`; the caller treats
nil (no such client) as "no clash". -/
def clashIn {κ : Type} (ci : Index) (look : κ → Option UID) (uid : UID) : List κ → Bool
  | [] => false
  | k :: rest =>
    match look k with
    | some existing =>
      if existing != uid then (ci.client existing).isSome else clashIn ci look uid rest
    | none => clashIn ci look uid rest

/-- `clashesSubnet` looks a subnet up by ranging over the keys. -/
def Index.subnetLook (ci : Index) (s : Prefix) : Option UID :=
  if ci.subnetToUID.keys.contains s then some ((ci.subnetToUID.vals s).getD 0) else none

/-- The ClientID loop of `clashes`: dereferences `uidToClient[existing]`. -/
def clashCIDs (ci : Index) (uid : UID) : List Bytes → Res
  | [] => .ok
  | id :: rest =>
    match ci.clientIDToUID id with
    | some existing =>
      if existing != uid then
        (match ci.client existing with
         | some _ => .err .cidClash
         | none => .panic)
      else clashCIDs ci uid rest
    | none => clashCIDs ci uid rest

/-- The MAC loop of `clashesMAC`: `macToKey` first. -/
def clashMACs (ci : Index) (uid : UID) : List MAC → Res
  | [] => .ok
  | mac :: rest =>
    if !macOK mac then .panic
    else match ci.macToUID mac with
      | some existing =>
        if existing != uid then (if (ci.client existing).isSome then .err .macClash else .ok)
        else clashMACs ci uid rest
      | none => clashMACs ci uid rest

/-- `index.clashes` after the name check. -/
def Index.clashesRest (ci : Index) (c : Client) : Res :=
  match clashCIDs ci c.uid c.cids with
  | .ok =>
    if clashIn ci ci.ipToUID c.uid c.ips then .err .ipClash
    else if clashIn ci ci.subnetLook c.uid c.subnets then .err .subnetClash
    else clashMACs ci c.uid c.macs
  | r => r

/-- `index.clashes` -/
def Index.clashes (ci : Index) (c : Client) : Res :=
  match ci.findByName c.name with
  | .dangling => .panic
  | .found existing => if existing.uid != c.uid then .err .nameClash else ci.clashesRest c
  | .none => ci.clashesRest c

/-- `Persistent.validate` -/
def Client.validate (c : Client) : Option Err :=
  if c.name = [] then some .emptyName
  else if c.idsLen = 0 then some .noIDs
  else if c.uid = 0 then some .noUID
  else if c.invalidConf then some .invalidConf
  else none

/-! ### Storage -/

structure Storage where
  index : Index
  /-- the DHCP server's `MACByIP` table -/
  dhcp : List (IP × MAC)

def Storage.empty : Storage := ⟨Index.empty, []⟩

/-- `s.dhcp.MACByIP(ip)`; `none` = nil. -/
def Storage.macByIP (s : Storage) (ip : IP) : Option MAC :=
  (s.dhcp.find? (·.1 == ip)).map (·.2)

/-- `Storage.Add` -/
def Storage.add (s : Storage) (p : Client) : Storage × Res :=
  match p.validate with
  | some e => (s, .err e)
  | none =>
    if (s.index.client p.uid).isSome then (s, .err .uidClash)
    else match s.index.clashes p with
      | .ok => ({ s with index := s.index.add p }, .ok)
      | r => (s, r)

/-- `Storage.Update` -/
def Storage.update (s : Storage) (name : Bytes) (p : Client) : Storage × Res :=
  match p.validate with
  | some e => (s, .err e)
  | none =>
    match s.index.findByName name with
    | .none => (s, .err .notFound)
    | .dangling => (s, .panic)
    | .found stored =>
      let p := { p with uid := stored.uid }
      match s.index.clashes p with
      | .ok =>
        (match s.index.remove stored with
         | some idx => ({ s with index := idx.add p }, .ok)
         | none => (s, .panic))
      | r => (s, r)

/-- `Storage.RemoveByName`: `ok` = true, `err notFound` = false. -/
def Storage.removeByName (s : Storage) (name : Bytes) : Storage × Res :=
  match s.index.findByName name with
  | .none => (s, .err .notFound)
  | .dangling => (s, .panic)
  | .found p =>
    match s.index.remove p with
    | some idx => ({ s with index := idx }, .ok)
    | none => (s, .panic)

inductive Op where
  | add (c : Client)
  | update (name : Bytes) (c : Client)
  | remove (name : Bytes)
  /-- the DHCP server leases `ip` to `mac` -/
  | dhcpSet (ip : IP) (mac : MAC)
  | dhcpDel (ip : IP)

def step (s : Storage) : Op → Storage × Res
  | .add c => s.add c
  | .update n c => s.update n c
  | .remove n => s.removeByName n
  | .dhcpSet ip mac => ({ s with dhcp := (ip, mac) :: s.dhcp.filter (·.1 != ip) }, .ok)
  | .dhcpDel ip => ({ s with dhcp := s.dhcp.filter (·.1 != ip) }, .ok)

/-- The storage after a history (results dropped). -/
def run (s : Storage) : List Op → Storage
  | [] => s
  | op :: rest => run (step s op).1 rest

/-! ### persistence: configuration file and restart (internal/home/clients.go)

`forConfig` turns every stored client into a `clientObject` (the YAML record),
`toPersistent` turns a record back into a client, `clientsContainer.Init` feeds
them to `NewStorage`, which adds them one by one.  The YAML encoding itself and
the String/Parse round trips of netip and net are outside: an address or CIDR
string parses back to the value it was printed from; a MAC is printed with
colons, so `net.ParseMAC` gives it back — but an 8-byte one printed that way is
ALSO a valid IPv6 address text, and `SetIDs` asks the address parser first. -/

/-- `clientObject` -/
structure ClientObject where
  name : Bytes
  ids : List IDString
  tags : Nat
  upstreams : Nat
  uid : UID
  upstreamsCacheSize : Nat
  upstreamsCacheEnabled : Bool
  useGlobalSettings : Bool
  filteringEnabled : Bool
  parentalEnabled : Bool
  safeBrowsingEnabled : Bool
  useGlobalBlockedServices : Bool
  ignoreQueryLog : Bool
  ignoreStatistics : Bool
  safeSearchEnabled : Bool
  ssConf : Nat
  svc : Nat
  sched : Nat
  /-- the oracle bit of `validate` travels with the tags/upstreams it stands for -/
  invalidConf : Bool

/-- The IPv6 address whose text is the colon spelling of an 8-byte MAC
(`00:11:22:33:44:55:66:77` = `0:11:22:33:44:55:66:77`). -/
def macAsIP (m : MAC) : Option IP :=
  if m.length = 8 then some (.v6 (m.foldl (fun acc b => acc * 65536 + b) 0) []) else none

/-- `Persistent.IDs()`: addresses, CIDRs, MACs, ClientIDs, each with what the
parsers make of the text.  `fix = false` is the tree as it is: a MAC is printed
with `HardwareAddr.String` (colons).  `fix = true` is the prepared repair
(fixes/c04/eui64_ids.patch, `macString`): a MAC whose colon form is also
address text is printed with hyphens, which only `net.ParseMAC` reads. -/
def Client.idStrings (fix : Bool) (c : Client) : List IDString :=
  c.ips.map (fun ip => ⟨[105], some ip, none, none⟩) ++
  c.subnets.map (fun p => ⟨[115], none, some p, none⟩) ++
  c.macs.map (fun m => ⟨[109], if fix then none else macAsIP m, none, some m⟩) ++
  c.cids.map (fun id => ⟨id, none, none, none⟩)

/-- One element of `forConfig` -/
def Client.forConfig (fix : Bool) (c : Client) : ClientObject :=
  { name := c.name, ids := c.idStrings fix, tags := c.tags, upstreams := c.upstreams, uid := c.uid
    upstreamsCacheSize := c.ver, upstreamsCacheEnabled := c.upstreamsCacheEnabled
    useGlobalSettings := !c.useOwnSettings
    filteringEnabled := c.filteringEnabled, parentalEnabled := c.parentalEnabled
    safeBrowsingEnabled := c.safeBrowsingEnabled
    useGlobalBlockedServices := !c.useOwnBlockedServices
    ignoreQueryLog := c.ignoreQueryLog, ignoreStatistics := c.ignoreStatistics
    safeSearchEnabled := c.safeSearchEnabled, ssConf := c.ssConf, svc := c.svc, sched := c.sched
    invalidConf := c.invalidConf }

/-- `clientObject.toPersistent`.  A safe-search engine is created exactly when
the record's safe-search config is enabled (identity `1`).  A record without
UID would get a random one: outside the model (`none`). -/
def ClientObject.toPersistent (o : ClientObject) : Option (Except SetErr Client) :=
  if o.uid = 0 then none
  else
    let base : Client :=
      { uid := o.uid, name := o.name, ips := [], subnets := [], macs := [], cids := []
        invalidConf := o.invalidConf
        useOwnSettings := !o.useGlobalSettings
        filteringEnabled := o.filteringEnabled, safeSearchEnabled := o.safeSearchEnabled
        safeBrowsingEnabled := o.safeBrowsingEnabled, parentalEnabled := o.parentalEnabled
        useOwnBlockedServices := !o.useGlobalBlockedServices
        svc := o.svc, safeSearch := if o.safeSearchEnabled then 1 else 0, tags := o.tags
        ver := o.upstreamsCacheSize
        ignoreQueryLog := o.ignoreQueryLog, ignoreStatistics := o.ignoreStatistics
        upstreams := o.upstreams, upstreamsCacheEnabled := o.upstreamsCacheEnabled
        sched := o.sched, ssConf := o.ssConf }
    some (setIDs base o.ids)

/-! ### lookups -/

/-- Outcome of a Storage-level lookup. -/
inductive Got where
  | none
  | client (c : Client)
  | panic
  deriving DecidableEq, Repr

def Look.got : Look → Got
  | .none => .none
  | .found c => .client c
  | .dangling => .panic     -- `p.ShallowClone()` / `c.Name` on nil

/-- `Storage.FindByName` -/
def Storage.findByName (s : Storage) (n : Bytes) : Got := (s.index.findByName n).got

/-- The argument of `Find` with what `netip.ParseAddr` and `net.ParseMAC` make of it. -/
structure IdStr where
  raw : Bytes
  asIP : Option IP
  asMAC : Option MAC

/-- `Storage.FindByMAC` -/
def Storage.findByMAC (s : Storage) (mac : MAC) : Got :=
  match s.index.findByMAC mac with
  | none => .panic
  | some l => l.got

/-- `foundMAC := s.dhcp.MACByIP(ip)`, then `FindByMAC` unless it is nil. -/
def Storage.findByLease (s : Storage) (ip : IP) : Got :=
  match s.macByIP ip with
  | some mac => s.findByMAC mac
  | none => .none

/-- `index.find` followed by the DHCP fallback of `Storage.Find`. -/
def Storage.find (s : Storage) (id : IdStr) : Got :=
  match s.index.findByClientID id.raw with
  | .found c => .client c
  | .dangling => .panic
  | .none =>
    let byIP : Look := match id.asIP with
      | some ip => s.index.findByIP ip
      | none => .none
    match byIP with
    | .found c => .client c
    | .dangling => .panic
    | .none =>
      let byMAC : Option Got := match id.asMAC with
        | some mac => some (s.findByMAC mac)     -- `return ci.findByMAC(mac)`: final for index.find
        | none => none
      match byMAC with
      | some (.client c) => .client c
      | some .panic => .panic
      | _ =>
        match id.asIP with
        | none => .none
        | some ip => s.findByLease ip

/-- `filtering.Settings`: every field, the ones `ApplyClientFiltering` may
write and the ones it must leave alone. -/
structure Settings where
  clientName : Bytes
  /-- stands for `ClientTags` -/
  clientTags : Nat
  /-- stands for `BlockedServices` -/
  svc : Nat
  filteringEnabled : Bool
  safeSearchEnabled : Bool
  /-- identity of `ClientSafeSearch`; `0` = nil (the global engine is used) -/
  clientSafeSearch : Nat
  safeBrowsingEnabled : Bool
  parentalEnabled : Bool
  /-- `ProtectionEnabled`: never written here -/
  protectionEnabled : Bool
  /-- `ClientIP` and `ServicesRules` are as the caller left them -/
  untouched : Bool
  deriving DecidableEq, Repr

/-- The client `ApplyClientFiltering` picks. -/
def Storage.resolve (s : Storage) (id : Bytes) (addr : IP) : Got :=
  match s.index.findByClientID id with
  | .found c => .client c
  | .dangling => .panic
  | .none =>
    match s.index.findByIP addr with
    | .found c => .client c
    | .dangling => .panic
    | .none => s.findByLease addr

/-- What `ApplyClientFiltering` does to `setts` once the client is known. -/
def Client.apply (c : Client) (setts : Settings) : Settings :=
  let setts := if c.useOwnBlockedServices then { setts with svc := c.svc } else setts
  let setts := { setts with clientName := c.name, clientTags := c.tags }
  if !c.useOwnSettings then setts
  else { setts with
    filteringEnabled := c.filteringEnabled
    safeSearchEnabled := c.safeSearchEnabled
    clientSafeSearch := c.safeSearch
    safeBrowsingEnabled := c.safeBrowsingEnabled
    parentalEnabled := c.parentalEnabled }

/-- `Storage.ApplyClientFiltering`; `none` = panic. -/
def Storage.applyClientFiltering (s : Storage) (id : Bytes) (addr : IP) (setts : Settings) :
    Option Settings :=
  match s.resolve id addr with
  | .none => some setts
  | .client c => some (c.apply setts)
  | .panic => none

/-- `rangeByName`: the clients sorted by name (stable; the order of equal
names depends on Go's map iteration and is left as found). -/
def insertByName (c : Client) : List Client → List Client
  | [] => [c]
  | d :: rest => if compare c.name d.name == .lt then c :: d :: rest else d :: insertByName c rest

def Index.rangeByName (ci : Index) : List Client := ci.clients.foldr insertByName []

/-- `clients.runtime_sources` of the configuration: where RUNTIME client
information (names for the dashboard) may come from.  `Init` hands the DHCP
server to the storage whatever these say; only `RuntimeSourceDHCP` (runtime
information) and the hosts-file container are gated by them. -/
structure RuntimeSources where
  whois : Bool
  arp : Bool
  rdns : Bool
  dhcp : Bool
  hostsFile : Bool

/-- One iteration of the loop of `clientsContainer.Init`: a record that
`toPersistent` refuses aborts the start. -/
def ClientObject.load (o : ClientObject) : Option Client :=
  match o.toPersistent with
  | some (.ok c) => some c
  | _ => none

/-- `NewStorage`: the initial clients are added one by one; the first error aborts. -/
def addAll (s : Storage) : List Client → Option Storage
  | [] => some s
  | c :: rest => match s.add c with
    | (s', .ok) => addAll s' rest
    | _ => none

/-- Write the configuration file, stop, start again: `forConfig`, then
`toPersistent` and `NewStorage` (`clientsContainer.Init`).  The DHCP server is
a different component and keeps its leases.  When a record is refused the
program does not come up (`err restartFailed`, old state shown).  `_src` is the
`runtime_sources` section the new process reads: `Init` does not let it touch
the persistent registry or the DHCP interface of the storage. -/
def Storage.restart (fix : Bool) (_src : RuntimeSources) (s : Storage) : Storage × Res :=
  let objs := s.index.rangeByName.map (Client.forConfig fix)
  match objs.mapM ClientObject.load with
  | none => (s, .err .restartFailed)
  | some cs =>
    match addAll ⟨Index.empty, s.dhcp⟩ cs with
    | some s' => (s', .ok)
    | none => (s, .err .restartFailed)

end AGH.C04
