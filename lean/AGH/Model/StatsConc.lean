/-
C09 concurrent model, generic part: threads run straight-line programs of
micro-steps — lock / unlock of one of three locks (`confMu`, `currMu`, the bbolt
write transaction as an exclusive section) and atomic reads/writes of the
shared `State` — interleaved arbitrarily by a scheduler (`Sys.step σ t` runs
one micro-step of thread `t`, `none` = blocked or finished; `Reach` = any
sequence of such steps).

Locks are Go `sync.RWMutex`es: `W` needs no holder at all, `R` needs no
writer.  (A waiting writer also blocks new readers in Go; that only removes
schedules, the theorems are about every schedule of this model.)
-/
import AGH.Model.Stats
namespace AGH.C09

inductive Lk where
  | conf | curr | tx
  deriving DecidableEq, Repr

inductive Mode where
  | R | W
  deriving DecidableEq, Repr

/-- One micro-step.  Lock steps of `currMu`/tx carry a guard on the thread's
locals: the Go code takes them only on some paths (early returns). -/
inductive Instr (L : Type) where
  | lock (l : Lk) (m : Mode) (g : L → Bool)
  | unlock (l : Lk) (m : Mode) (g : L → Bool)
  | act (f : State → L → State × L)

structure LockSt where
  writer : Option Nat := none
  readers : List Nat := []

def LockSt.can (ls : LockSt) : Mode → Bool
  | .W => ls.writer.isNone && ls.readers.isEmpty
  | .R => ls.writer.isNone

def LockSt.acq (ls : LockSt) (t : Nat) : Mode → LockSt
  | .W => { ls with writer := some t }
  | .R => { ls with readers := t :: ls.readers }

def LockSt.rel (ls : LockSt) (t : Nat) : Mode → LockSt
  | .W => { ls with writer := none }
  | .R => { ls with readers := ls.readers.erase t }

structure Thread (L : Type) where
  rest : List (Instr L)
  loc : L

structure Sys (L : Type) where
  st : State
  lk : Lk → LockSt
  th : Nat → Thread L

def setLk (lk : Lk → LockSt) (l : Lk) (v : LockSt) : Lk → LockSt := fun l' => if l' = l then v else lk l'

def setTh {L : Type} (th : Nat → Thread L) (t : Nat) (v : Thread L) : Nat → Thread L :=
  fun t' => if t' = t then v else th t'

/-- Thread `t` performs its next micro-step. -/
def Sys.step {L : Type} (σ : Sys L) (t : Nat) : Option (Sys L) :=
  match (σ.th t).rest with
  | [] => none
  | .lock l m g :: r =>
    if g (σ.th t).loc then
      if (σ.lk l).can m then
        some { σ with lk := setLk σ.lk l ((σ.lk l).acq t m), th := setTh σ.th t ⟨r, (σ.th t).loc⟩ }
      else none
    else some { σ with th := setTh σ.th t ⟨r, (σ.th t).loc⟩ }
  | .unlock l m g :: r =>
    if g (σ.th t).loc then
      some { σ with lk := setLk σ.lk l ((σ.lk l).rel t m), th := setTh σ.th t ⟨r, (σ.th t).loc⟩ }
    else some { σ with th := setTh σ.th t ⟨r, (σ.th t).loc⟩ }
  | .act f :: r =>
    some { σ with st := (f σ.st (σ.th t).loc).1, th := setTh σ.th t ⟨r, (f σ.st (σ.th t).loc).2⟩ }

/-- Every state some schedule can produce. -/
inductive Reach {L : Type} (σ0 : Sys L) : Sys L → Prop where
  | refl : Reach σ0 σ0
  | step {σ σ' : Sys L} (t : Nat) : Reach σ0 σ → σ.step t = some σ' → Reach σ0 σ'

/-- Run a given schedule (a step that is not enabled is skipped). -/
def Sys.run {L : Type} (σ : Sys L) : List Nat → Sys L
  | [] => σ
  | t :: ts => match σ.step t with
    | some σ' => Sys.run σ' ts
    | none => Sys.run σ ts

/-- An operation whose shared accesses all happen while it holds `confMu` in
`mode`: `lock confMu; body; unlock confMu`. -/
structure CProg (L : Type) where
  mode : Mode
  body : List (Instr L)

def CProg.code {L : Type} (p : CProg L) : List (Instr L) :=
  .lock .conf p.mode (fun _ => true) :: (p.body ++ [.unlock .conf p.mode (fun _ => true)])

def Instr.isConf {L : Type} : Instr L → Bool
  | .lock .conf _ _ => true
  | .unlock .conf _ _ => true
  | _ => false

def execI {L : Type} (i : Instr L) (p : State × L) : State × L :=
  match i with
  | .act f => f p.1 p.2
  | _ => p

/-- The body run in isolation (locks play no role then). -/
def execBody {L : Type} (b : List (Instr L)) (p : State × L) : State × L := b.foldl (fun p i => execI i p) p

def Instr.readOnly {L : Type} : Instr L → Prop
  | .act f => ∀ s l, (f s l).1 = s
  | _ => True

/-- `body` does not touch `confMu`; under a read lock it does not write. -/
structure CProg.WF {L : Type} (p : CProg L) : Prop where
  noConf : ∀ i ∈ p.body, i.isConf = false
  ro : p.mode = .R → ∀ i ∈ p.body, i.readOnly

/-- A set of threads: thread `t` runs `progs t` (`none` = an operation that
returns before touching anything shared) from locals `loc0 t`. -/
structure Setup (L : Type) where
  progs : Nat → Option (CProg L)
  loc0 : Nat → L
  init : State

def Setup.code {L : Type} (S : Setup L) (t : Nat) : List (Instr L) :=
  match S.progs t with
  | none => []
  | some p => p.code

def Setup.initSys {L : Type} (S : Setup L) : Sys L :=
  { st := S.init, lk := fun _ => {}, th := fun t => ⟨S.code t, S.loc0 t⟩ }

/-- Thread `t`'s operation executed alone on state `s`: new state and final locals. -/
def Setup.effect {L : Type} (S : Setup L) (t : Nat) (s : State) : State × L :=
  match S.progs t with
  | none => (s, S.loc0 t)
  | some p => execBody p.body (s, S.loc0 t)

/-- The operations of `hist` executed one after the other. -/
def Setup.seq {L : Type} (S : Setup L) (hist : List Nat) : State :=
  hist.foldl (fun s t => (S.effect t s).1) S.init

end AGH.C09
