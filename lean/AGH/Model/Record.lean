/-
C08 model, part 2: what reaches the query log and the statistics.

Transcribed code:
* internal/dnsforward/stats.go `processQueryLogsAndStats`, `shouldLog`,
  `shouldCountStat`, `logQuery`, `updateStats` (order: real address string,
  anonymize in place, id list `[clientID, realIP]`, ANY refusal, log, count);
* internal/querylog/http.go `AnonymizeIP`; json.go `entryToJSON` (the reported
  address is anonymized again with the CURRENT function);
* internal/querylog/qlog.go `ShouldLog`, `Add`; querylogfile.go
  `flushLogBuffer`; search.go `search` / `searchMemory` / `readNextEntry`
  (memory and file records are both re-checked against the CURRENT ignore list
  and the CURRENT client flag, looked up by the stored address);
* internal/stats/stats.go `ShouldCount`, `Update`; unit.go `validate`, `add`;
* internal/home/clients.go `findMultiple`, `clientOrArtificial`,
  `shouldCountClient`; internal/client/storage.go `Find`, `FindLoose`;
  index.go `find`, `findByIP`, `findByMAC`, `clashes`; persistent.go
  `subnetCompare`.

Addresses are byte lists of length 4 or 16 (no IPv6 zones).  The stored /
reported form of an address is its canonical form (`canon`: an IPv4-mapped
IPv6 address is shown as the IPv4 one, as `net.IP.String` does).
-/
import AGH.Model.Ignore
namespace AGH.C08
open AGH AGH.Bytes

/-! ## Addresses -/

def zeros (n : Nat) : Bytes := List.replicate n 0

/-- `net.IP.To4() != nil` for a 16-byte slice. -/
def is4in6 (a : Bytes) : Bool :=
  a.length == 16 && a.take 10 == zeros 10 && (a.drop 10).take 2 == [255, 255]

/-- `querylog.AnonymizeIP` on the slice `ip` (in place: same length). -/
def anonymize (a : Bytes) : Bytes :=
  if a.length == 4 then a.take 2 ++ zeros 2
  else if is4in6 a then a.take 14 ++ zeros 2
  else if a.length == 16 then a.take 6 ++ zeros 10
  else a

/-- The address `net.IP(a).String()` denotes (and `netip.ParseAddr` reads back):
an IPv4-mapped IPv6 slice denotes the IPv4 address. -/
def canon (a : Bytes) : Bytes := if is4in6 a then a.drop 12 else a

/-- The anonymizer currently stored in the shared `aghnet.IPMut`. -/
def ipMut (anon : Bool) (a : Bytes) : Bytes := if anon then anonymize a else a

/-- Last 16 bits (IPv4) resp. 80 bits (IPv6) are zero. -/
def masked (a : Bytes) : Bool :=
  if a.length == 4 then a.drop 2 == zeros 2
  else if a.length == 16 then a.drop 6 == zeros 10
  else false

def toNat (a : Bytes) : Nat := a.foldl (fun acc b => acc * 256 + b) 0

/-! ## Persistent clients -/

structure Prefix where
  addr : Bytes
  bits : Nat
  deriving DecidableEq, Repr

structure PClient where
  name : Bytes
  ignLog : Bool
  ignStat : Bool
  ips : List Bytes
  /-- addresses configured with an IPv6 zone, e.g. fe80::1%eth0: (address, zone) -/
  zips : List (Bytes × Bytes) := []
  nets : List Prefix
  macs : List Bytes
  cids : List Bytes
  deriving DecidableEq, Repr

/-- `netip.Prefix.Contains` (no zones): same family, first `bits` bits equal. -/
def Prefix.contains (p : Prefix) (ip : Bytes) : Bool :=
  ip.length == p.addr.length &&
    toNat ip / 2 ^ (8 * ip.length - p.bits) == toNat p.addr / 2 ^ (8 * ip.length - p.bits)

/-- `subnetCompare x y < 0` for two prefixes of the same family: longer prefix
first, then the lower address. -/
def Prefix.before (x y : Prefix) : Bool :=
  decide (x.bits > y.bits) || (x.bits == y.bits && decide (toNat x.addr < toNat y.addr))

abbrev Leases := List (Bytes × Bytes)

/-- `dhcp.MACByIP`. -/
def macByIP (ls : Leases) (ip : Bytes) : Option Bytes :=
  (ls.find? (fun l => l.1 == ip)).map (·.2)

def byCid (cs : List PClient) (cid : Bytes) : Option PClient := cs.find? (fun c => c.cids.contains cid)
def byIP (cs : List PClient) (ip : Bytes) : Option PClient := cs.find? (fun c => c.ips.contains ip)
def byMAC (cs : List PClient) (mac : Bytes) : Option PClient := cs.find? (fun c => c.macs.contains mac)

/-- All (prefix, client) pairs containing `ip`. -/
def netCands (cs : List PClient) (ip : Bytes) : List (Prefix × PClient) :=
  cs.flatMap (fun c => (c.nets.filter (·.contains ip)).map (fun p => (p, c)))

def bestNet : List (Prefix × PClient) → Option (Prefix × PClient)
  | [] => none
  | x :: rest =>
    match bestNet rest with
    | none => some x
    | some y => if y.1.before x.1 then some y else some x

/-- The first prefix in `subnetCompare` order that contains `ip` (the range over
the sorted map in `findByIP`). -/
def bySubnet (cs : List PClient) (ip : Bytes) : Option PClient := (bestNet (netCands cs ip)).map (·.2)

/-- `index.findByIP` -/
def findByIP (cs : List PClient) (ip : Bytes) : Option PClient :=
  (byIP cs ip).orElse fun _ => bySubnet cs ip

def hexVal (c : Nat) : Option Nat :=
  if isDigitB c then some (c - 48)
  else if decide (97 ≤ c) && decide (c ≤ 102) then some (c - 87)
  else if decide (65 ≤ c) && decide (c ≤ 70) then some (c - 55)
  else none

/-- `net.ParseMAC` for the only form a ClientID label can have that yields a
6-byte address: `hh-hh-hh-hh-hh-hh`. -/
def parseMAC6 (s : Bytes) : Option Bytes :=
  match s with
  | [a0, a1, d1, b0, b1, d2, c0, c1, d3, e0, e1, d4, f0, f1, d5, g0, g1] =>
    if d1 == dash && d2 == dash && d3 == dash && d4 == dash && d5 == dash then
      match hexVal a0, hexVal a1, hexVal b0, hexVal b1, hexVal c0, hexVal c1,
            hexVal e0, hexVal e1, hexVal f0, hexVal f1, hexVal g0, hexVal g1 with
      | some a0, some a1, some b0, some b1, some c0, some c1,
        some e0, some e1, some f0, some f1, some g0, some g1 =>
        some [a0 * 16 + a1, b0 * 16 + b1, c0 * 16 + c1, e0 * 16 + e1, f0 * 16 + f1, g0 * 16 + g1]
      | _, _, _, _, _, _, _, _, _, _, _, _ => none
    else none
  | _ => none

/-- One element of the id list built by `processQueryLogsAndStats` / `client`. -/
inductive QID where
  | cid (c : Bytes)
  /-- the address an IP string denotes (canonical form) -/
  | ip (a : Bytes)
  deriving DecidableEq, Repr

/-- `index.find(id)`: ClientID, then IP (exact, subnets), then the string as a MAC. -/
def indexFind (cs : List PClient) : QID → Option PClient
  | .cid c => (byCid cs c).orElse fun _ => (parseMAC6 c).bind (byMAC cs)
  | .ip a => findByIP cs a

/-- `Storage.Find(id)` -/
def storageFind (cs : List PClient) (ls : Leases) (id : QID) : Option PClient :=
  (indexFind cs id).orElse fun _ =>
    match id with
    | .ip a => (macByIP ls a).bind (byMAC cs)
    | .cid _ => none

/-- `index.findByIPWithoutZone(ip)`: a client holding the address under some zone
(the unzoned holders were found by `index.find` already).  With the same address
under two zones in different clients the real result is indeterminate (map
order); the model takes the first. -/
def byIPZoned (cs : List PClient) (a : Bytes) : Option PClient :=
  cs.find? (fun c => c.zips.any (·.1 == a))

/-- `Storage.FindLoose(ip, id)` where `ip` is `netip.ParseAddr(id)` (the zero
address for a ClientID): `index.find`, the DHCP MAC, then the address without
zone. -/
def storageFindLoose (cs : List PClient) (ls : Leases) (id : QID) : Option PClient :=
  (storageFind cs ls id).orElse fun _ =>
    match id with
    -- QUIRK: when the address has a DHCP lease, the result of the MAC lookup is
    -- final (`return s.FindByMAC(foundMAC)`), found or not
    | .ip a => if (macByIP ls a).isSome then none else byIPZoned cs a
    | .cid _ => none

/-- `clientsContainer.shouldCountClient(ids)`.  `loose = true` is the code as it
is (`Storage.FindLoose`, like the query log; repair c47dc1e); `loose = false` the
code before it (`Storage.Find`), kept for scratch trees and the counterexample. -/
def shouldCountClient (loose : Bool) (cs : List PClient) (ls : Leases) : List QID → Bool
  | [] => true
  | id :: rest =>
    match (if loose then storageFindLoose cs ls id else storageFind cs ls id) with
    | some c => !c.ignStat
    | none => shouldCountClient loose cs ls rest

/-- `clientsContainer.findMultiple(ids)`, reduced to what `ShouldLog` and the
search read: `some flag` when a persistent client was found.  (Runtime clients
are returned by the real function too but carry no flag; they can only be found
for the last id.) -/
def findMultiple (cs : List PClient) (ls : Leases) : List QID → Option Bool
  | [] => none
  | id :: rest =>
    match storageFindLoose cs ls id with
    | some c => some c.ignLog
    | none => findMultiple cs ls rest

/-! ## Configuration and stores -/

/-- The disallowed clients of the access settings (`newAccessCtx(nil, blocked, nil)`):
exact addresses, CIDRs in list order, ClientIDs. -/
structure Access where
  ips : List Bytes := []
  nets : List Prefix := []
  cids : List Bytes := []
  deriving Repr

/-- One runtime client record (`client.Runtime`), as far as the finders read it:
rDNS host name and WHOIS organisation (empty = none). -/
structure RT where
  ip : Bytes
  host : Bytes
  org : Bytes
  deriving DecidableEq, Repr

structure Conf where
  anon : Bool
  refuseAny : Bool
  qlogOn : Bool
  statsOn : Bool
  ignQ : List Bytes
  ignS : List Bytes
  clients : List PClient
  leases : Leases
  /-- the tree carries the zoned-client repair (c47dc1e); false only for scratch trees -/
  fixZone : Bool := true
  /-- access settings: the disallowed clients (blocklist mode) -/
  access : Access := {}
  deriving Repr

/-- One query-log record: normalized name, canonical stored address, ClientID. -/
structure Entry where
  name : Bytes
  ip : Bytes
  cid : Bytes
  deriving DecidableEq, Repr

/-- A statistics client key: the ClientID if there is one, else the address string. -/
inductive Key where
  | id (c : Bytes)
  | ip (a : Bytes)
  deriving DecidableEq, Repr

structure State where
  conf : Conf
  /-- memory buffer, oldest first -/
  mem : List Entry
  /-- flushed file, oldest first -/
  file : List Entry
  /-- current unit: requests per client -/
  sClients : List (Key × Nat)
  /-- current unit: requests per domain -/
  sDomains : List (Bytes × Nat)
  /-- stats.db: the client tables of the finished units, concatenated -/
  dClients : List (Key × Nat) := []
  /-- stats.db: the domain tables of the finished units, concatenated -/
  dDomains : List (Bytes × Nat) := []
  /-- querylog.json.1 exists (the harness drives `rotate` once per history) -/
  rotated : Bool := false
  /-- the runtime client index -/
  runtime : List RT := []
  deriving Repr

structure Query where
  name : Bytes
  qtype : Nat
  addr : Bytes
  cid : Bytes
  /-- IPv6 zone of the peer address; `netip.Addr.AsSlice` drops it, nothing reads it -/
  zone : Bytes := []
  deriving Repr

def typeANY : Nat := 255

/-- `ids` of `processQueryLogsAndStats`: built from the REAL address. -/
def queryIDs (q : Query) : List QID :=
  if q.cid ≠ [] then [.cid q.cid, .ip (canon q.addr)] else [.ip (canon q.addr)]

/-- `(*queryLog).ShouldLog` -/
def qlogShouldLog (c : Conf) (host : Bytes) (ids : List QID) : Bool :=
  if findMultiple c.clients c.leases ids == some true then false
  else !Ignore.has c.ignQ host

/-- `(*Server).shouldLog` -/
def shouldLog (c : Conf) (host : Bytes) (qt : Nat) (ids : List QID) : Bool :=
  if qt == typeANY && c.refuseAny then false else qlogShouldLog c host ids

/-- `(*StatsCtx).ShouldCount` -/
def shouldCount (c : Conf) (host : Bytes) (ids : List QID) : Bool :=
  if !shouldCountClient c.fixZone c.clients c.leases ids then false else !Ignore.has c.ignS host

/-- map[k]++ on an association list. -/
def bump {α : Type} [BEq α] (m : List (α × Nat)) (k : α) : List (α × Nat) :=
  match m with
  | [] => [(k, 1)]
  | (k', n) :: rest => if k' == k then (k', n + 1) :: rest else (k', n) :: bump rest k

/-- The record `logQuery` / `Add` push (when the log is enabled). -/
def logEntry (c : Conf) (q : Query) : Entry :=
  { name := Ignore.normalize q.name, ip := canon (ipMut c.anon q.addr), cid := q.cid }

/-- The client key `updateStats` uses. -/
def statKey (c : Conf) (q : Query) : Key :=
  if q.cid ≠ [] then .id q.cid else .ip (canon (ipMut c.anon q.addr))

/-- `processQueryLogsAndStats` -/
def processQuery (s : State) (q : Query) : State :=
  let host := Ignore.normalize q.name
  let ids := queryIDs q
  let s1 :=
    if shouldLog s.conf host q.qtype ids && s.conf.qlogOn then
      { s with mem := s.mem ++ [logEntry s.conf q] }
    else s
  -- Entry.validate: an empty domain is dropped (the client is never empty here)
  if shouldCount s.conf host ids && s.conf.statsOn && host ≠ [] then
    { s1 with sClients := bump s1.sClients (statKey s.conf q),
              sDomains := bump s1.sDomains host }
  else s1

/-- `flushLogBuffer` (file logging enabled; nothing happens on an empty buffer). -/
def flush (s : State) : State := { s with file := s.file ++ s.mem, mem := [] }

/-- `l.client(e.ClientID, e.IP.String(), cache)` then `IgnoreQueryLog`. -/
def entryClientIgnored (c : Conf) (e : Entry) : Bool :=
  let ids := (if e.cid ≠ [] then [QID.cid e.cid] else []) ++ [QID.ip e.ip]
  findMultiple c.clients c.leases ids == some true

/-- What `searchMemory` / `readNextEntry` keep of a record (no search criteria). -/
def keeps (c : Conf) (e : Entry) : Bool :=
  !Ignore.has c.ignQ e.name && !entryClientIgnored c e

/-- `entryToJSON`: the address is passed through the current anonymizer. -/
def report (c : Conf) (e : Entry) : Entry := { e with ip := canon (ipMut c.anon e.ip) }

/-- `search` with a limit larger than the log: the memory records, then the file
records, that are kept, newest first. -/
def search (s : State) : List Entry :=
  ((s.mem.reverse.filter (keeps s.conf)) ++ (s.file.reverse.filter (keeps s.conf))).map (report s.conf)

/-! ## The client information of the log API (`client_info`) -/

/-- A string of the answer that may be an address. -/
inductive RuleRef where
  | ip (a : Bytes)
  | net (a : Bytes) (bits : Nat)
  | str (s : Bytes)
  deriving DecidableEq, Repr

/-- `querylog.Client` as marshalled: name, whois.orgname, disallowed, disallowed_rule. -/
structure Info where
  name : Bytes
  org : Bytes
  disallowed : Bool
  rule : RuleRef
  deriving DecidableEq, Repr

/-- `(*Server).IsBlockedClient(ip, id)` in blocklist mode, as `clientOrArtificial`
calls it: `ip` is the parsed id (zero for a ClientID), the ClientID argument is
the id STRING itself.  QUIRK: the rule is `cmp.Or(rule, id)`, i.e. the id string
when nothing matched. -/
def isBlocked (acc : Access) : QID → Bool × RuleRef
  | .ip a =>
    if acc.ips.contains a then (true, .ip a)
    else match acc.nets.find? (·.contains a) with
      | some p => (true, .net p.addr p.bits)
      | none => (false, .ip a)
  | .cid c => (c != [] && acc.cids.contains c, .str c)

def rtFind (rt : List RT) (a : Bytes) : Option RT := rt.find? (·.ip == a)

/-- `clientOrArtificial(ip, id)`: the information, whether it is artificial, and
the persistent client's `IgnoreQueryLog`. -/
def clientFull (c : Conf) (rt : List RT) (id : QID) : Info × Bool × Bool :=
  let b := isBlocked c.access id
  match storageFindLoose c.clients c.leases id with
  | some p => ({ name := p.name, org := [], disallowed := b.1, rule := b.2 }, false, p.ignLog)
  | none =>
    match (match id with | .ip a => rtFind rt a | .cid _ => none) with
    | some r => ({ name := r.host, org := r.org, disallowed := b.1, rule := b.2 }, false, false)
    | none => ({ name := [], org := [], disallowed := b.1, rule := b.2 }, true, false)

/-- `findMultiple(ids)` in full: the first non-artificial record, else the last
artificial one; with the ignore flag `ShouldLog` and the search read. -/
def findFull (c : Conf) (rt : List RT) : List QID → Option (Info × Bool)
  | [] => none
  | id :: rest =>
    let r := clientFull c rt id
    if r.2.1 then
      match findFull c rt rest with
      | some x => some x
      | none => some (r.1, false)
    else some (r.1, r.2.2)

def entryIDs (e : Entry) : List QID := (if e.cid ≠ [] then [QID.cid e.cid] else []) ++ [QID.ip e.ip]

/-- One record of the log API's answer. -/
structure Reported where
  entry : Entry
  /-- `client_info`, when included -/
  info : Option Info
  /-- the raw JSON mentions an un-anonymised peer address of the history (observed only) -/
  leak : Bool := false
  deriving DecidableEq, Repr

/-- `entryToJSON`: `client` is the stored address passed through the current
anonymizer; `client_info` is included iff that did not change the address. -/
def reportFull (s : State) (e : Entry) : Reported :=
  { entry := report s.conf e,
    info := if canon (ipMut s.conf.anon e.ip) == e.ip then (findFull s.conf s.runtime (entryIDs e)).map (·.1)
            else none }

def searchFull (s : State) : List Reported :=
  ((s.mem.reverse.filter (keeps s.conf)) ++ (s.file.reverse.filter (keeps s.conf))).map (reportFull s)

/-- `Storage.UpdateAddress(ip, host, whois)`: the rDNS name is set when given;
the WHOIS data only when no persistent client is found by the address. -/
def updateAddress (cs : List PClient) (rt : List RT) (a host org : Bytes) : List RT :=
  let orgOK := org != [] && (findByIP cs a).isNone
  if !(host != [] || orgOK) then rt
  else match rtFind rt a with
    | some _ =>
      rt.map fun r => if r.ip == a then
        { r with host := if host != [] then host else r.host, org := if orgOK then org else r.org } else r
    | none => rt ++ [{ ip := a, host := host, org := if orgOK then org else [] }]

/-! ## Configuration operations -/

/-- A persistent client as configured: typed identifiers. -/
inductive CID where
  | ip (a : Bytes)
  | net (a : Bytes) (bits : Nat)
  | mac (m : Bytes)
  | cid (c : Bytes)
  /-- an address with an IPv6 zone -/
  | zip (a : Bytes) (zone : Bytes)
  deriving Repr

structure ClientObj where
  name : Bytes
  ignLog : Bool
  ignStat : Bool
  ids : List CID
  deriving Repr

/-- `toPersistent` / `SetIDs` (ClientIDs are lower-cased). -/
def ClientObj.toPersistent (o : ClientObj) : PClient :=
  { name := o.name, ignLog := o.ignLog, ignStat := o.ignStat,
    ips := o.ids.filterMap (fun | .ip a => some a | _ => none),
    zips := o.ids.filterMap (fun | .zip a z => some (a, z) | _ => none),
    nets := o.ids.filterMap (fun | .net a b => some ⟨a, b⟩ | _ => none),
    macs := o.ids.filterMap (fun | .mac m => some m | _ => none),
    cids := o.ids.filterMap (fun | .cid c => some (lower c) | _ => none) }

/-- `index.clashes(c)` against the clients already stored. -/
def clashes (cs : List PClient) (c : PClient) : Bool :=
  cs.any fun p =>
    p.name == c.name ||
    c.cids.any p.cids.contains || c.ips.any p.ips.contains || c.zips.any p.zips.contains ||
    c.nets.any p.nets.contains || c.macs.any p.macs.contains

/-- `NewStorage` with `InitialClients`: `none` when an `Add` reports a clash. -/
def addAll : List PClient → List PClient → Option (List PClient)
  | acc, [] => some acc
  | acc, c :: rest => if clashes acc c then none else addAll (acc ++ [c]) rest

structure ResetArgs where
  anon : Bool
  refuseAny : Bool
  qlogOn : Bool
  statsOn : Bool
  ignQ : List Bytes
  ignS : List Bytes
  clients : List ClientObj
  leases : Leases
  fixZone : Bool := true
  access : Access := {}
  deriving Repr

def reset (a : ResetArgs) : Option State :=
  (addAll [] (a.clients.map ClientObj.toPersistent)).map fun cs =>
    { conf := { anon := a.anon, refuseAny := a.refuseAny, qlogOn := a.qlogOn, statsOn := a.statsOn,
                ignQ := a.ignQ, ignS := a.ignS, clients := cs, leases := a.leases,
                fixZone := a.fixZone, access := a.access },
      mem := [], file := [], sClients := [], sDomains := [] }

/-- `Storage.Update` with the same identifiers and new flags: the client is
removed and added again (it moves to the end of the iteration order, which no
lookup depends on when the table is clash-free). -/
def setFlags (cs : List PClient) (name : Bytes) (lg st : Bool) : Option (List PClient) :=
  match cs.find? (·.name == name) with
  | none => none
  | some p => some (cs.filter (·.name != name) ++ [{ p with ignLog := lg, ignStat := st }])

/-- One more identifier for a client (`SetIDs`). -/
def PClient.addID (p : PClient) : CID → PClient
  | .ip a => { p with ips := p.ips ++ [a] }
  | .net a b => { p with nets := p.nets ++ [⟨a, b⟩] }
  | .mac m => { p with macs := p.macs ++ [m] }
  | .cid c => { p with cids := p.cids ++ [lower c] }
  | .zip a z => { p with zips := p.zips ++ [(a, z)] }

/-- `Storage.Update(name, p')` where `p'` is the stored client with one more
identifier: `none` = no such client; `some none` = rejected because the
identifier belongs to another client (the storage must stay as it was);
`some (some cs)` = done. -/
def editClient (cs : List PClient) (name : Bytes) (id : CID) : Option (Option (List PClient)) :=
  match cs.find? (·.name == name) with
  | none => none
  | some p =>
    let others := cs.filter (·.name != name)
    let p' := p.addID id
    if clashes others p' then some none else some (some (others ++ [p']))

def rmClient (cs : List PClient) (name : Bytes) : Option (List PClient) :=
  if cs.any (·.name == name) then some (cs.filter (·.name != name)) else none

inductive Op where
  | query (q : Query)
  | flush
  /-- PUT /control/querylog/config/update -/
  | qlogConf (enabled anon : Bool) (ignored : List Bytes)
  /-- PUT /control/stats/config/update -/
  | statsConf (enabled : Bool) (ignored : List Bytes)
  | setFlags (name : Bytes) (lg st : Bool)
  | rmClient (name : Bytes)
  /-- an edit of a client that adds an identifier (rejected when it clashes) -/
  | edit (name : Bytes) (id : CID)
  | search
  | stats
  /-- the unit-id clock moves on one hour and `(*StatsCtx).flush` runs -/
  | tick
  /-- shutdown (log buffer flushed, current unit stored) and start on the same directory -/
  | restart
  /-- `(*queryLog).rotate`, driven at most once per history -/
  | rotate
  /-- `clients.UpdateAddress(ip, host, whois)`: a runtime record from rDNS / WHOIS -/
  | runtime (a host org : Bytes)
  deriving Repr

/-- What an operation shows. -/
inductive Out where
  | ok
  | noClient
  | clash
  | stores (mem : List Entry) (sClients : List (Key × Nat)) (sDomains : List (Bytes × Nat))
  | flushed (mem file : List Entry)
  | found (r : List Reported)
  | report (sClients : List (Key × Nat)) (sDomains : List (Bytes × Nat))
  /-- raw stats.db tables (all buckets), then the current unit -/
  | ticked (kc : List (Key × Nat)) (kd : List (Bytes × Nat))
      (sClients : List (Key × Nat)) (sDomains : List (Bytes × Nat))
  /-- memory buffer, raw log file(s), raw stats.db tables, current unit — after the restart -/
  | restarted (mem file : List Entry) (kc : List (Key × Nat)) (kd : List (Bytes × Nat))
      (sClients : List (Key × Nat)) (sDomains : List (Bytes × Nat))
  /-- the rotation happened; raw log file(s) -/
  | rotated (file : List Entry)
  | rotateSkipped
  | rotateNoFile
  deriving Repr

/-- The id `topClientPairs` hands to `shouldCountClient` for a stored client key. -/
def Key.qid : Key → QID
  | .id c => .cid c
  | .ip a => .ip a

/-- GET /control/stats (`getData` / `topsCollector` / `topClientPairs`): the top
domains are filtered with the CURRENT statistics ignore list, the top clients
with the CURRENT client flag (looked up by the stored key). -/
def statsReport (s : State) : Out :=
  .report ((s.dClients ++ s.sClients).filter
      (fun kv => shouldCountClient s.conf.fixZone s.conf.clients s.conf.leases [kv.1.qid]))
    ((s.dDomains ++ s.sDomains).filter (fun kv => !Ignore.has s.conf.ignS kv.1))

/-- `(*StatsCtx).flush` after the clock moved on: the current unit is stored in
its bucket and an empty unit starts. -/
def tick (s : State) : State :=
  { s with dClients := s.dClients ++ s.sClients, dDomains := s.dDomains ++ s.sDomains,
           sClients := [], sDomains := [] }

def step (s : State) : Op → State × Out
  | .query q =>
    let s' := processQuery s q
    (s', .stores s'.mem s'.sClients s'.sDomains)
  | .flush =>
    let s' := flush s
    (s', .flushed s'.mem s'.file)
  | .qlogConf en an ign =>
    ({ s with conf := { s.conf with qlogOn := en, anon := an, ignQ := ign } }, .ok)
  | .statsConf en ign =>
    ({ s with conf := { s.conf with statsOn := en, ignS := ign } }, .ok)
  | .setFlags n lg st =>
    match setFlags s.conf.clients n lg st with
    | some cs => ({ s with conf := { s.conf with clients := cs } }, .ok)
    | none => (s, .noClient)
  | .rmClient n =>
    match rmClient s.conf.clients n with
    | some cs => ({ s with conf := { s.conf with clients := cs } }, .ok)
    | none => (s, .noClient)
  | .edit n id =>
    match editClient s.conf.clients n id with
    | some (some cs) => ({ s with conf := { s.conf with clients := cs } }, .ok)
    | some none => (s, .clash)
    | none => (s, .noClient)
  | .search => (s, .found (searchFull s))
  | .runtime a host org =>
    ({ s with runtime := updateAddress s.conf.clients s.runtime a host org }, .ok)
  | .stats => (s, statsReport s)
  | .tick =>
    let s' := tick s
    (s', .ticked s'.dClients s'.dDomains s'.sClients s'.sDomains)
  | .restart =>
    -- Shutdown flushes the buffer; Close stores the current unit in its bucket,
    -- New loads it again; configuration and clients come back from the config file.
    let s' := { flush s with runtime := [] }
    (s', .restarted s'.mem s'.file (s'.dClients ++ s'.sClients) (s'.dDomains ++ s'.sDomains)
      s'.sClients s'.sDomains)
  | .rotate =>
    if s.rotated then (s, .rotateSkipped)
    else if s.file.isEmpty then (s, .rotateNoFile)
    else ({ s with rotated := true }, .rotated s.file)

def run (s : State) : List Op → State
  | [] => s
  | op :: rest => run (step s op).1 rest

end AGH.C08
