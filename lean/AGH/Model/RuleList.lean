/-
C15 model, part 1: the filtering-rule list parser
(internal/filtering/rulelist/parser.go) with the library code it runs on:
`bufio.Scanner` + `bufio.ScanLines` (max token 65 536), `bytes.TrimSpace`
(Go 1.26: ASCII fast path, then `TrimFunc(…, unicode.IsSpace)` with
`utf8.DecodeRune` / `utf8.DecodeLastRune`), `bytes.Index`, `bytes.EqualFold`
on the two ASCII prefixes, CRC-32/IEEE.

Part 2: `updateIntl` / `finalizeUpdate` / `refreshFiltersArray`
(internal/filtering/filter.go) as a state machine over list metadata and the
list file.
-/
import AGH.Model.Bytes
import AGH.Model.SafeFS
namespace AGH.C15
open AGH AGH.Bytes
open AGH.C17 (decodeRune runeError isCont)

/-! ## Library -/

/-- `unicode.IsSpace`. -/
def isSpaceRune (r : Nat) : Bool :=
  (decide (9 ≤ r) && decide (r ≤ 13)) || r == 32 || r == 0x85 || r == 0xA0 || r == 0x1680 ||
  (decide (0x2000 ≤ r) && decide (r ≤ 0x200A)) || r == 0x2028 || r == 0x2029 || r == 0x202F ||
  r == 0x205F || r == 0x3000

/-- `bytes.asciiSpace[c] != 0` -/
def isAsciiSpace (c : Nat) : Bool := (decide (9 ≤ c) && decide (c ≤ 13)) || c == 32

/-- `utf8.RuneStart` -/
def runeStart (b : Nat) : Bool := !isCont b

/-- `utf8.DecodeLastRune p`, computed on `rev = p.reverse`. -/
def decodeLastRev (rev : Bytes) : Nat × Nat :=
  match rev with
  | [] => (runeError, 0)
  | b :: _ =>
    if b < 0x80 then (b, 1)
    else
      let k :=
        if (match rev[1]? with | some x => runeStart x | none => false) then 2
        else if (match rev[2]? with | some x => runeStart x | none => false) then 3
        else if (match rev[3]? with | some x => runeStart x | none => false) then 4
        else min rev.length 5
      let d := decodeRune (rev.take k).reverse
      if d.2 ≠ k then (runeError, 1) else d

def decodeLastRune (p : Bytes) : Nat × Nat := decodeLastRev p.reverse

/-- `TrimLeftFunc(s, unicode.IsSpace)`: the suffix from the first non-space
rune on (`[]` when there is none: Go returns nil). -/
def trimLeftF : Nat → Bytes → Bytes
  | 0, _ => []
  | f + 1, s =>
    match s with
    | [] => []
    | _ :: _ =>
      let d := decodeRune s
      if !isSpaceRune d.1 then s else trimLeftF f (s.drop d.2)

def trimLeftFunc (s : Bytes) : Bytes := trimLeftF (s.length + 1) s

/-- `lastIndexFunc(s, unicode.IsSpace, false)`, with `i` the current prefix
length: the start index of the last non-space rune. -/
def lastIdxF : Nat → Bytes → Nat → Option Nat
  | 0, _, _ => none
  | f + 1, s, i =>
    if i = 0 then none
    else
      let b := s.getD (i - 1) 0
      let d := if b < 0x80 then (b, 1) else decodeLastRune (s.take i)
      if !isSpaceRune d.1 then some (i - d.2) else lastIdxF f s (i - d.2)

/-- `TrimRightFunc(s, unicode.IsSpace)` -/
def trimRightFunc (s : Bytes) : Bytes :=
  match lastIdxF (s.length + 1) s s.length with
  | some i =>
    if s.getD i 0 ≥ 0x80 then s.take (i + (decodeRune (s.drop i)).2) else s.take (i + 1)
  | none => []

def trimFunc (s : Bytes) : Bytes := trimRightFunc (trimLeftFunc s)

/-- The backward ASCII loop of `bytes.TrimSpace`, on the reversed slice. -/
def trimSpaceBack : Bytes → Bytes
  | [] => []
  | c :: r =>
    if c ≥ 0x80 then trimFunc (c :: r).reverse
    else if isAsciiSpace c then trimSpaceBack r
    else (c :: r).reverse

/-- `bytes.TrimSpace` (Go 1.26). -/
def trimSpace : Bytes → Bytes
  | [] => []
  | c :: rest =>
    if c ≥ 0x80 then trimFunc (c :: rest)
    else if isAsciiSpace c then trimSpace rest
    else trimSpaceBack (c :: rest).reverse

/-- `bytes.TrimSpace s == nil` (differs from "is empty" only in theory; the
title code tests for nil). -/
def trimSpaceIsNil : Bytes → Bool
  | [] => true
  | c :: rest =>
    if c ≥ 0x80 then (trimLeftFunc (c :: rest)).isEmpty
    else if isAsciiSpace c then trimSpaceIsNil rest
    else false

/-- `bytes.Index(s, sep)` (first occurrence; `none` = -1). -/
def indexOf (sep : Bytes) : Bytes → Nat → Option Nat
  | [], i => if sep.isEmpty then some i else none
  | c :: s, i => if sep.isPrefixOf (c :: s) then some i else indexOf sep s (i + 1)

/-- CRC-32 (IEEE, reflected 0xEDB88320), one byte. -/
def crcByte (c b : Nat) : Nat :=
  let step := fun (x : Nat) => if x % 2 = 1 then (x / 2) ^^^ 0xEDB88320 else x / 2
  step (step (step (step (step (step (step (step (c ^^^ (b % 256)))))))))

/-- `crc32.Update(crc, crc32.IEEETable, p)` -/
def crcUpdate (crc : Nat) (p : Bytes) : Nat :=
  (p.foldl crcByte (crc ^^^ 0xFFFFFFFF)) ^^^ 0xFFFFFFFF

/-! ## bufio.Scanner with ScanLines -/

def maxToken : Nat := 65536

/-- `dropCR` -/
def dropCR (l : Bytes) : Bytes :=
  match l.getLast? with
  | some 13 => l.dropLast
  | _ => l

/-- Split off the bytes before the first `\n`: (segment, rest after `\n`, found). -/
def splitNL : Bytes → Bytes × Bytes × Bool
  | [] => ([], [], false)
  | c :: s => if c = nl then ([], s, true) else let r := splitNL s; (c :: r.1, r.2.1, r.2.2)

inductive ScanEnd where
  | eof        -- clean end of input
  | tooLong    -- bufio.ErrTooLong
  | readErr    -- the reader failed (body cut short); the partial last line was delivered
  deriving DecidableEq, Repr

/-- The tokens `Scan` delivers, and how scanning ends.  `complete = false`:
after `data` the reader returns an error instead of EOF. -/
def scanLines : Nat → Bytes → Bool → List Bytes × ScanEnd
  | 0, _, _ => ([], .tooLong)     -- unreachable with fuel = length + 1
  | f + 1, data, complete =>
    match data with
    | [] => ([], if complete then .eof else .readErr)
    | _ :: _ =>
      let sp := splitNL data
      if sp.1.length ≥ maxToken then ([], .tooLong)
      else if sp.2.2 then
        let r := scanLines f sp.2.1 complete
        (dropCR sp.1 :: r.1, r.2)
      else ([dropCR sp.1], if complete then .eof else .readErr)

/-! ## rulelist.Parser -/

structure PState where
  title : Bytes
  titleFound : Bool
  count : Nat
  written : Nat
  crc : Nat
  deriving DecidableEq, Repr

def PState.init : PState := ⟨[], false, 0, 0, 0⟩

inductive PErr where
  | html
  | binary (line col byte : Nat)
  | tooLong
  | read
  deriving DecidableEq, Repr

/-- `likelyBinary` -/
def likelyBinary (b : Nat) : Bool :=
  (decide (b < 32) || b == 0x7f) && b != 10 && b != 13 && b != 9

def hasPrefixFold (b pre : Bytes) : Bool :=
  decide (b.length ≥ pre.length) && (lower (b.take pre.length) == pre)

def htmlP : Bytes := [60, 104, 116, 109, 108]                          -- "<html"
def doctypeP : Bytes := [60, 33, 100, 111, 99, 116, 121, 112, 101]      -- "<!doctype"
def titleP : Bytes := [33, 32, 84, 105, 116, 108, 101, 58, 32]          -- "! Title: "

def isHTMLLine (line : Bytes) : Bool := hasPrefixFold line htmlP || hasPrefixFold line doctypeP

/-- `slices.IndexFunc(line, likelyBinary)` -/
def binIdx : Bytes → Nat → Option Nat
  | [], _ => none
  | c :: s, i => if likelyBinary c then some i else binIdx s (i + 1)

/-- `parseLine`: (badIdx, isRule) -/
def parseLine (line : Bytes) : Option Nat × Bool :=
  match line with
  | [] => (none, false)
  | c :: _ =>
    if c = 35 ∨ c = 33 then (none, false)
    else match binIdx line 0 with
      | some i => (some i, false)
      | none => (none, true)

/-- `parseLineTitle`: (state, badIdx, isRule) -/
def parseLineTitle (st : PState) (line : Bytes) : PState × Option Nat × Bool :=
  match line with
  | [] => (st, none, false)
  | c :: _ =>
    if c = 35 then (st, none, false)
    else if c ≠ 33 then
      match binIdx line 0 with
      | some i => (st, some i, false)
      | none => (st, none, true)
    else if !titleP.isPrefixOf line then (st, none, false)
    else
      let rest := line.drop titleP.length
      if trimSpaceIsNil rest then (st, none, false)
      else ({ st with title := trimSpace rest, titleFound := true }, none, false)

/-- `processLine`: new state and the bytes written to dst, or the error. -/
def processLine (st : PState) (line : Bytes) (lineNum : Nat) : Except PErr (PState × Bytes) :=
  let trimmed := trimSpace line
  if st.written = 0 ∧ isHTMLLine trimmed then .error .html
  else
    let r := if st.titleFound then (st, parseLine trimmed) else parseLineTitle st trimmed
    let st1 := r.1
    match r.2.1 with
    | some bad =>
      .error (.binary lineNum (bad + (indexOf trimmed line 0).getD 0 + 1) (trimmed.getD bad 0))
    | none =>
      if !r.2.2 then .ok (st1, [])
      else
        .ok ({ st1 with count := st1.count + 1, crc := crcUpdate st1.crc trimmed,
                        written := st1.written + (trimmed.length + 1) }, trimmed ++ [nl])

structure ParseOut where
  st : PState
  out : Bytes
  err : Option PErr
  deriving DecidableEq, Repr

/-- The `for s.Scan()` loop. -/
def runLines : PState → Bytes → List Bytes → Nat → ScanEnd → ParseOut
  | st, out, [], _, e =>
    ⟨st, out, match e with | .eof => none | .tooLong => some .tooLong | .readErr => some .read⟩
  | st, out, l :: ls, n, e =>
    match processLine st l n with
    | .error er => ⟨st, out, some er⟩
    | .ok (st', w) => runLines st' (out ++ w) ls (n + 1) e

/-- `Parser.Parse` on a source delivering `src` and then EOF (`complete`) or a
read error. -/
def parse (src : Bytes) (complete : Bool) : ParseOut :=
  let sc := scanLines (src.length + 1) src complete
  runLines PState.init [] sc.1 1 sc.2

/-! ## Refresh (filter.go) -/

/-- What the download of one list yields. -/
inductive Fetch where
  | fail                                   -- connection error, non-200, unreadable local file, no safe pattern
  | body (data : Bytes) (complete : Bool)  -- a body; `complete = false`: cut short
  deriving DecidableEq, Repr

/-- One list: metadata (`FilterYAML`) and the content of `data/filters/<id>.txt`. -/
structure Flt where
  enabled : Bool
  count : Nat
  checksum : Nat
  file : Option Bytes
  deriving DecidableEq, Repr

/-- `updateIntl` + `finalizeUpdate` on the copy `uf` (only its checksum matters):
`some (count, checksum, content)` = the file was replaced. -/
def updateIntl (curChecksum : Nat) (f : Fetch) : Option (Nat × Nat × Bytes) :=
  match f with
  | .fail => none
  | .body data complete =>
    let r := parse data complete
    if r.err.isNone ∧ r.st.crc ≠ curChecksum then some (r.st.count, r.st.crc, r.out) else none

/-- One list through `refreshFiltersArray` when at least one list of the batch
succeeded (metadata are copied back), or through `update` directly. -/
def refreshOne (flt : Flt) (f : Fetch) : Flt :=
  match updateIntl flt.checksum f with
  | some (c, k, out) => { flt with count := c, checksum := k, file := some out }
  | none => flt

/-- Is the download + parse a failure (error returned by `update`)? -/
def fetchFails (f : Fetch) : Bool :=
  match f with
  | .fail => true
  | .body data complete => (parse data complete).err.isSome

/-- `refreshFiltersArray` over a whole array: `due i` = list `i` is enabled
and due (or the refresh is forced).  When every due list fails nothing is
copied back; files are only ever replaced by successful, changed downloads. -/
def refreshArray (flts : List Flt) (fetches : List Fetch) (due : List Bool) : List Flt :=
  match flts, fetches, due with
  | flt :: fs, f :: ffs, d :: ds =>
    (if d && flt.enabled then refreshOne flt f else flt) :: refreshArray fs ffs ds
  | fs, _, _ => fs

/-! ### One call of `tryRefreshFilters(block, allow, force)` over both arrays,
including the engine's view (`refreshFiltersIntl`). -/

structure LState where
  flt : Flt
  allow : Bool
  /-- the content the filtering engine was last built from (`none`: not loaded) -/
  inForce : Option Bytes
  deriving DecidableEq, Repr

structure Req where
  block : Bool
  allow : Bool
  force : Bool
  deriving DecidableEq, Repr

/-- `listsToUpdate`: the list is in a selected array, enabled, and due or forced. -/
def attempted (rq : Req) (l : LState) (due : Bool) : Bool :=
  (if l.allow then rq.allow else rq.block) && l.flt.enabled && (rq.force || due)

/-- Phase 1 (`update` on every attempted list): new metadata/file, and per
list (attempted, failed, updated). -/
def phase1 (rq : Req) : List LState → List (Bool × Fetch) → List (LState × Bool × Bool × Bool)
  | l :: ls, (due, f) :: ins =>
    (if attempted rq l due then
       ({ l with flt := refreshOne l.flt f }, true, fetchFails f, (updateIntl l.flt.checksum f).isSome)
     else (l, false, false, false)) :: phase1 rq ls ins
  | ls, _ => ls.map fun l => (l, false, false, false)

/-- `refreshFiltersArray`'s fourth result for one array: some list was tried and all failed. -/
def netErr (allow : Bool) (rs : List (LState × Bool × Bool × Bool)) : Bool :=
  let mine := rs.filter fun r => r.1.allow == allow && r.2.1
  !mine.isEmpty && mine.all fun r => r.2.2.1

def updCount (allow : Bool) (rs : List (LState × Bool × Bool × Bool)) : Nat :=
  if netErr allow rs then 0 else (rs.filter fun r => r.1.allow == allow && r.2.2.2).length

/-- The whole refresh (`refreshFiltersIntl`, as repaired by commit f646577).
The engine is rebuilt from the files (`EnableFilters`) whenever something was
updated — also when the other array failed completely (then the call still
reports the network error, which is not part of this state). -/
def refreshStep (rq : Req) (ls : List LState) (ins : List (Bool × Fetch)) : List LState :=
  let rs := phase1 rq ls ins
  let updNum := (if rq.block then updCount false rs else 0) + (if rq.allow then updCount true rs else 0)
  let reload := updNum != 0
  rs.map fun r =>
    if reload then { r.1 with inForce := if r.1.flt.enabled then r.1.flt.file else none } else r.1

/-! ### set_url (`handleFilteringSetURL` → `filterSetProperties`) -/

/-- What the request asks of the list (after `validateFilterURL` accepted it). -/
structure SetReq where
  /-- `data.url` differs from the list's current URL -/
  changed : Bool
  /-- another list already has `data.url` (`errFilterExists`) -/
  dup : Bool
  /-- `data.enabled` -/
  enabled : Bool
  deriving DecidableEq, Repr

inductive SetRes where
  | ok (restart : Bool)   -- 200; `restart`: the engine is rebuilt
  | err                   -- 400
  deriving DecidableEq, Repr

structure SetOut where
  flt : Flt
  /-- the list now has the requested URL -/
  urlChanged : Bool
  res : SetRes
  deriving DecidableEq, Repr

/-- The `d.update(flt)` call inside `filterSetProperties`: `flt2` is the list
with the new URL / enabled flag already applied, `old` the list before the
request.  On an error the deferred function restores URL, name, enabled flag,
update time and rule count — NOT the checksum.  As repaired by commit c5ab9db
the engine is rebuilt also when the download brought nothing new, since the
URL or the enabled flag changed. -/
def setDownload (old flt2 : Flt) (changed : Bool) (f : Fetch) : SetOut :=
  match updateIntl flt2.checksum f with
  | some (c, k, out) => ⟨⟨true, c, k, some out⟩, changed, .ok true⟩
  | none =>
    if fetchFails f then ⟨⟨old.enabled, old.count, flt2.checksum, old.file⟩, false, .err⟩
    else ⟨flt2, changed, .ok true⟩

/-- `filterSetProperties` on the list found by its old URL. -/
def setProps (flt : Flt) (rq : SetReq) (f : Fetch) : SetOut :=
  if rq.changed && rq.dup then ⟨flt, false, .err⟩
  else
    -- `flt.unload()` after a URL change zeroes count and checksum
    let flt1 : Flt := if rq.changed then ⟨flt.enabled, 0, 0, flt.file⟩ else flt
    let restart := rq.changed || (flt1.enabled != rq.enabled)
    let flt2 : Flt := ⟨rq.enabled, flt1.count, flt1.checksum, flt1.file⟩
    if rq.enabled then
      if restart then setDownload flt flt2 rq.changed f
      else ⟨flt2, rq.changed, .ok false⟩
    else ⟨⟨false, 0, 0, flt2.file⟩, rq.changed, .ok restart⟩

/-- The handler on the whole state: list `i` is changed, and the engine is
rebuilt from the files when `filterSetProperties` asks for a restart. -/
def setURLStep (ls : List LState) (i : Nat) (rq : SetReq) (f : Fetch) : List LState × SetRes :=
  match ls[i]? with
  | none => (ls, .err)
  | some l =>
    let o := setProps l.flt rq f
    let ls1 := ls.set i { l with flt := o.flt }
    match o.res with
    | .ok true => (ls1.map fun x => { x with inForce := if x.flt.enabled then x.flt.file else none }, o.res)
    | r => (ls1, r)

/-! ### The asynchronous engine rebuild (`setFilters(…, async = true)` and `updatesLoop`)

Handlers (`set_url`, `add_url`, `remove_url`, `set_rules`, …) do not rebuild
the engines themselves: `EnableFilters(true)` captures WHICH lists are enabled
and puts that task into the one-slot channel `filtersInitializerChan`, after
removing any task still waiting there (lock, drain, enqueue: the latest
request wins).  `updatesLoop` takes the task and builds the engines from the
files those lists have THEN. -/

/-- Lists, and the task waiting in `filtersInitializerChan` (the enabled flag
of every list at the time of the request). -/
structure BState where
  ls : List LState
  pending : Option (List Bool)
  deriving DecidableEq, Repr

def enabledFlags (ls : List LState) : List Bool := ls.map (·.flt.enabled)

/-- `initFiltering` with the captured list set, on the files of now. -/
def applySnap : List LState → List Bool → List LState
  | l :: ls, e :: es => { l with inForce := if e then l.flt.file else none } :: applySnap ls es
  | ls, _ => ls

/-- `handleFilteringSetURL`: the list is changed at once, the rebuild is only requested. -/
def setURLAsync (s : BState) (i : Nat) (rq : SetReq) (f : Fetch) : BState × SetRes :=
  match s.ls[i]? with
  | none => (s, .err)
  | some l =>
    let o := setProps l.flt rq f
    let ls1 := s.ls.set i { l with flt := o.flt }
    match o.res with
    | .ok true => (⟨ls1, some (enabledFlags ls1)⟩, o.res)
    | r => (⟨ls1, s.pending⟩, r)

/-- Any other handler that ends in `EnableFilters(true)` without touching the
lists (`set_rules`, a configuration reload). -/
def enqueue (s : BState) : BState := ⟨s.ls, some (enabledFlags s.ls)⟩

/-- `handleFilteringRemoveURL`: the list leaves the configuration (modelled as
disabled, with zero metadata), its file is renamed away (`<id>.txt.old`), and
a rebuild is requested. -/
def removeAsync (s : BState) (i : Nat) : BState :=
  match s.ls[i]? with
  | none => s
  | some l =>
    let ls1 := s.ls.set i { l with flt := ⟨false, 0, 0, none⟩ }
    ⟨ls1, some (enabledFlags ls1)⟩

/-- `updatesLoop` takes what is waiting in the channel. -/
def drain (s : BState) : BState :=
  match s.pending with
  | none => s
  | some snap => ⟨applySnap s.ls snap, none⟩

/-- `tryRefreshFilters` rebuilds synchronously and does not look at the channel. -/
def refreshB (s : BState) (rq : Req) (ins : List (Bool × Fetch)) : BState :=
  ⟨refreshStep rq s.ls ins, s.pending⟩

end AGH.C15
