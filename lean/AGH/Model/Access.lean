/-
C03 model: access lists (internal/dnsforward/access.go newAccessCtx,
processAccessClients, allowlistMode, isBlockedClientID, isBlockedIP;
dnsforward.go IsBlockedClient; beforerequest.go HandleBefore,
preBlockedResponse) and the part of dnsproxy's handleDNSRequest/handleBefore
that decides whether a request is processed at all.

Transcription notes
* `netip.Addr` is `IP`: the zero value (`invalid`), an IPv4 address (32-bit
  number) or an IPv6 address (128-bit number) with its zone.  An IPv4-mapped
  IPv6 address (`::ffff:a.b.c.d`) is an IPv6 address here exactly as in netip:
  it never equals, and is never contained in, anything IPv4.
* `netip.Prefix` keeps the address as written (host bits are NOT masked by
  `ParsePrefix`), never has a zone, and `Contains` compares the leading `bits`
  bits of same-family addresses and is false for every zoned address.
* `container.MapSet` is a list used only through `Has`/`Len`.
* Parsing of list entries (`netip.ParseAddr`, `netip.ParsePrefix`) is an
  oracle whose result travels with every entry (`Entry.parse`); the label check
  of `ValidateClientID` is the C16 model's `validLabel`.
* The blocked-hosts rule engine (urlfilter) is an oracle: one bit per request.
-/
import AGH.Model.Bytes
import AGH.Model.ClientID
namespace AGH.C03
open AGH AGH.Bytes

/-- `netip.Addr`. -/
inductive IP where
  | invalid
  | v4 (n : Nat)
  | v6 (n : Nat) (zone : Bytes)
  deriving DecidableEq, Repr

/-- `ip.WithZone("")` -/
def IP.withoutZone : IP → IP
  | .v6 n _ => .v6 n []
  | ip => ip

/-- `ip != (netip.Addr{})` -/
def IP.isValid : IP → Bool
  | .invalid => false
  | _ => true

/-- `netip.Prefix` (valid ones only: `ParsePrefix` succeeded, so
`bits ≤ 32` resp. `≤ 128`). -/
structure Prefix where
  is6 : Bool
  addr : Nat
  bits : Nat
  deriving DecidableEq, Repr

/-- `netip.Prefix.Contains`: false for zoned and invalid addresses and across
families; otherwise the xor of the two addresses has no bit set among the
leading `bits` bits (Go: `uint32((a^b) >> (32-bits)) == 0`, resp.
`a.xor(b).and(mask6(bits)).isZero()`). -/
def Prefix.contains (p : Prefix) : IP → Bool
  | .invalid => false
  | .v4 n => !p.is6 && ((n ^^^ p.addr) >>> (32 - p.bits) == 0)
  | .v6 n z => z.isEmpty && p.is6 && ((n ^^^ p.addr) >>> (128 - p.bits) == 0)

/-- What `netip.ParseAddr` / `netip.ParsePrefix` make of one list entry. -/
inductive Parse where
  | addr (ip : IP)
  | pfx (p : Prefix)
  | none
  deriving DecidableEq, Repr

/-- One string of `allowed_clients` / `disallowed_clients`. -/
structure Entry where
  raw : Bytes
  parse : Parse
  deriving DecidableEq, Repr

/-- The three containers `processAccessClients` fills. -/
structure Lists where
  ips : List IP := []
  nets : List Prefix := []
  ids : List Bytes := []
  deriving Repr

/-- `processAccessClients`: the loop over `clientStrs` starting at index `i`;
the error carries the index of the offending entry. -/
def processFrom : Nat → List Entry → Lists → Except Nat Lists
  | _, [], acc => .ok acc
  | i, e :: rest, acc =>
    match e.parse with
    | .addr ip => processFrom (i + 1) rest { acc with ips := acc.ips ++ [ip] }
    | .pfx p => processFrom (i + 1) rest { acc with nets := acc.nets ++ [p] }
    | .none =>
      if C16.validLabel e.raw then processFrom (i + 1) rest { acc with ids := acc.ids ++ [e.raw] }
      else .error i

def processAccessClients (es : List Entry) : Except Nat Lists := processFrom 0 es {}

/-- `accessManager` without the blocked-hosts engine. -/
structure Access where
  allowed : Lists
  blocked : Lists
  deriving Repr

inductive ConfErr where
  | allowed (idx : Nat)
  | blocked (idx : Nat)
  deriving DecidableEq, Repr

/-- `newAccessCtx` -/
def newAccessCtx (allowed blocked : List Entry) : Except ConfErr Access :=
  match processAccessClients allowed with
  | .error i => .error (.allowed i)
  | .ok al =>
    match processAccessClients blocked with
    | .error i => .error (.blocked i)
    | .ok bl => .ok { allowed := al, blocked := bl }

/-! ### `POST /control/access/set` (access.go validateAccessSet, handleAccessSet)

`aghalg.UniqChecker` counts occurrences; `Validate` fails when a count exceeds
one; `Merge` adds the counts of two checkers. -/

/-- `uc.Validate() != nil` for the checker filled from `l`. -/
def hasDup : List Bytes → Bool
  | [] => false
  | x :: rest => rest.contains x || hasDup rest

inductive SetErr where
  | dupAllowed | dupDisallowed | dupHosts
  /-- "items in allowed and disallowed clients intersect" -/
  | intersect
  | conf (e : ConfErr)
  deriving DecidableEq, Repr

/-- `validateAccessSet` on the raw strings.  The merged checker is only built
from two duplicate-free lists, so it fails exactly when they share a string. -/
def validateAccessSet (allowed disallowed hosts : List Bytes) : Option SetErr :=
  if hasDup allowed then some .dupAllowed
  else if hasDup disallowed then some .dupDisallowed
  else if hasDup hosts then some .dupHosts
  else if allowed.any (fun x => disallowed.contains x) then some .intersect
  else none

/-- `handleAccessSet`: the new manager replaces `s.access` only when the lists
validate and `newAccessCtx` accepts them; otherwise 400 and nothing changes. -/
def accessSet (cur : Access) (allowed disallowed : List Entry) (hosts : List Bytes) :
    Access × Option SetErr :=
  match validateAccessSet (allowed.map (·.raw)) (disallowed.map (·.raw)) hosts with
  | some e => (cur, some e)
  | none =>
    match newAccessCtx allowed disallowed with
    | .error e => (cur, some (.conf e))
    | .ok a => (a, none)

/-! ### `Server.Prepare`: defaults, then the access manager (dnsforward.go, config.go)

`initDefaultSettings` replaces an empty `BlockedHosts` by the default names;
`Prepare` calls it BEFORE `newAccessCtx(s.conf.…)`, so the rule engine is built
from the same list `/control/access/list` reports. -/

/-- `defaultBlockedHosts`: "version.bind", "id.server", "hostname.bind" -/
def defaultBlockedHosts : List Bytes :=
  [[118, 101, 114, 115, 105, 111, 110, 46, 98, 105, 110, 100],
   [105, 100, 46, 115, 101, 114, 118, 101, 114],
   [104, 111, 115, 116, 110, 97, 109, 101, 46, 98, 105, 110, 100]]

/-- the `BlockedHosts` part of `initDefaultSettings` -/
def initDefaultHosts (hosts : List Bytes) : List Bytes :=
  if hosts.length = 0 then defaultBlockedHosts else hosts

/-- The access part of `Prepare`: the manager, the list the engine is built
from, and the list `s.conf.BlockedHosts` (what the API reports) holds afterwards. -/
structure Prepared where
  access : Access
  engineHosts : List Bytes
  reportedHosts : List Bytes

def prepare (allowed disallowed : List Entry) (hosts : List Bytes) : Except ConfErr Prepared :=
  let conf := initDefaultHosts hosts
  match newAccessCtx allowed disallowed with
  | .error e => .error e
  | .ok a => .ok ⟨a, conf, conf⟩

/-- `allowlistMode` -/
def Access.allowlistMode (a : Access) : Bool :=
  a.allowed.ips.length != 0 || a.allowed.ids.length != 0 || a.allowed.nets.length != 0

/-- `isBlockedClientID` -/
def Access.isBlockedClientID (a : Access) (id : Bytes) : Bool :=
  let allowlistMode := a.allowlistMode
  if id = [] then allowlistMode
  else if allowlistMode then !a.allowed.ids.contains id
  else a.blocked.ids.contains id

/-- Which kind of string `rule` is (the text itself is not modelled). -/
inductive Rule where
  | none | ip | net | clientID
  deriving DecidableEq, Repr

/-- `isBlockedIP` -/
def Access.isBlockedIP (a : Access) (ip : IP) : Bool × Rule :=
  let (blocked, ips, ipnets) :=
    if a.allowlistMode then (false, a.allowed.ips, a.allowed.nets)
    else (true, a.blocked.ips, a.blocked.nets)
  if ips.contains ip then (blocked, .ip)
  else if ipnets.any (fun ipnet => ipnet.contains ip.withoutZone) then (blocked, .net)
  else (!blocked, .none)

/-- `cmp.Or(rule, clientID)` -/
def orRule (r : Rule) (id : Bytes) : Rule :=
  match r with
  | .none => if id = [] then .none else .clientID
  | r => r

/-- `(*Server).IsBlockedClient` -/
def Access.isBlockedClient (a : Access) (ip : IP) (id : Bytes) : Bool × Rule :=
  let (blockedByIP, rule) := if ip.isValid then a.isBlockedIP ip else (false, Rule.none)
  let allowlistMode := a.allowlistMode
  let blockedByClientID := a.isBlockedClientID id
  if allowlistMode && blockedByIP && blockedByClientID then (true, rule)
  else if !allowlistMode && (blockedByIP || blockedByClientID) then (true, orRule rule id)
  else (false, orRule rule id)

/-- What `HandleBefore` tells dnsproxy. -/
inductive Action where
  /-- `nil`: go on processing -/
  | pass
  /-- plain `errAccessBlocked`: dnsproxy sends nothing -/
  | drop
  /-- `BeforeRequestError` carrying a REFUSED response -/
  | refused
  /-- `BeforeRequestError` carrying a SERVFAIL response -/
  | servfail
  deriving DecidableEq, Repr

/-- `preBlockedResponse` -/
def preBlockedResponse (proto : C16.Proto) : Action :=
  if proto = .udp ∨ proto = .dnscrypt then .drop else .refused

/-- Everything `HandleBefore` reads from the request. -/
structure Request where
  proto : C16.Proto
  addr : IP
  /-- result of `clientIDFromDNSContext` (the C16 model) -/
  clientID : Except C16.Err Bytes
  /-- `len(pctx.Req.Question)` -/
  nq : Nat
  /-- oracle: `s.access.isBlockedHost(NormalizeDomain(q.Name), q.Qtype)` for the
  first question: the rule engine sees the normalised name and the TYPE of the
  question (rules may carry `$dnstype`), nothing else -/
  hostBlocked : Bool
  /-- `q.Qclass` of the first question (IN = 1, CH = 3, HS = 4, NONE = 254, ANY = 255, …):
  `HandleBefore` never reads it -/
  qclass : Nat
  /-- `q.Qtype` of the first question: read only to ask the rule engine -/
  qtype : Nat

/-- `clientID, cidErr := s.clientIDFromDNSContext(pctx)`: the ClientID the
access checks see — empty when the extraction failed. -/
def Request.effectiveID (r : Request) : Bytes :=
  match r.clientID with
  | .ok id => id
  | .error _ => []

/-- `(*Server).HandleBefore`: the action and the ClientID put into
`clientIDCache` (empty = nothing stored).  The access checks come first, with
an empty ClientID when the extraction failed; the extraction error is reported
(SERVFAIL) only for a request that passed them. -/
def handleBefore (a : Access) (r : Request) : Action × Bytes :=
  let clientID := r.effectiveID
  if (a.isBlockedClient r.addr clientID).1 then (preBlockedResponse r.proto, [])
  else if r.nq = 1 ∧ r.hostBlocked then (preBlockedResponse r.proto, [])
  else match r.clientID with
    | .error _ => (.servfail, [])
    | .ok _ => (.pass, clientID)

/-! ### dnsproxy: what happens to a request around the hook

`proxy.handleDNSRequest` calls `handleBefore` first; only when it returns
`true` are the rate limiter, the request handler (AdGuard Home's
`handleDNSRequest`: filtering, upstream exchange, query log, statistics) and
`respond` reached.  The effects of the request handler are a parameter. -/

/-- What a request causes that the property talks about. -/
structure Effects where
  /-- requests handed to filtering -/
  filtered : List Request := []
  /-- requests sent upstream -/
  upstream : List Request := []
  /-- query-log records -/
  logged : List Request := []
  /-- statistics updates -/
  counted : List Request := []

inductive Reply where
  | refused | servfail
  /-- whatever the request handler produced -/
  | processed
  deriving DecidableEq, Repr

/-- `proxy.handleDNSRequest` for a request that is not itself a response:
`process` stands for everything behind the hook (rate limiter, request
handler, `respond`), including whether a reply is written. -/
def serve (a : Access) (process : Request → Effects × Option Reply) (r : Request) :
    Effects × Option Reply :=
  match (handleBefore a r).1 with
  | .pass => process r
  | .drop => ({}, none)
  | .refused => ({}, some .refused)
  | .servfail => ({}, some .servfail)

end AGH.C03
