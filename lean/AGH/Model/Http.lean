/-
C11 — executable model of the admin-HTTP wrapper chain of AdGuard Home.

Transcribes (file:line of /repo at the time of writing):
  internal/home/control.go   httpRegister:193  ensure:205  modifiesData:233
                             ensureContentType:238  preInstall:290  postInstall:403
  internal/home/authhttp.go  optionalAuthThird:236  optionalAuth:288  isPublicResource:320
  internal/home/auth.go      checkSession:267 (abstracted to the cookie class), authRequired:396

A request is abstracted to what the wrappers look at: `URL.Path`, the method,
the class of the session cookie, the class of the Basic credentials, the
`Content-Type` header, `ContentLength`, and the two global flags `firstRun`
and "a user is configured" (`Auth.authRequired`, gl-inet mode off).  A handler
is a function `Req → Resp`; the wrappers are functions `Handler → Handler`.
A wrapper that answers by itself never calls the wrapped handler — "no side
effect" in the model is "the inner handler is not applied".

Not modelled (assumptions listed in checks/C11.json): the HTTPS force-redirect
of `handleHTTPSRedirect` (off: `web.httpsServer.server == nil`), gl-inet mode,
`net/http.ServeMux` matching and path cleaning (the serving pattern is an
input, observed on the real mux).
Core Lean only.
-/
import AGH.Model.Bytes
namespace AGH.C11
open AGH AGH.Bytes

/-! ## Requests and responses -/

/-- Class of the `agh_session` cookie of a request w.r.t. the session table. -/
inductive Cookie
  | none      -- no `agh_session` cookie
  | unknown   -- a value that is not in the session table
  | expired   -- in the table, `expire ≤ now`
  | valid     -- in the table, not expired
  deriving DecidableEq, Repr

/-- Class of the `Authorization: Basic` header w.r.t. the configured users. -/
inductive Basic
  | none | wrong | right
  deriving DecidableEq, Repr

/-- Result of `os.Stat` + reading the file named by the GL-Inet cookie
(`glCheckToken`/`glGetTokenDate`, authglinet.go:57-108). -/
inductive GLStat
  | missing          -- `os.Stat` fails (no such file, not a directory, name too long, NUL, …)
  | short            -- exists, but no 4 bytes can be read (also a directory): date 0
  | date (d : Nat)   -- the first 4 bytes, native endian
  deriving DecidableEq, Repr

structure Req where
  path : Bytes            -- `r.URL.Path` (decoded), as the wrappers see it
  method : Bytes          -- `r.Method`
  cookie : Cookie
  basic : Basic
  ctype : Bytes           -- `r.Header.Get("Content-Type")`
  contentLength : Int     -- `r.ContentLength`: 0 = no body, n > 0 = n bytes, -1 = unknown
                          -- (HTTP/1.1 chunked, HTTP/2 without content-length)
  firstRun : Bool         -- `globalContext.firstRun`
  usersExist : Bool       -- `globalContext.auth != nil && auth.authRequired()`
  /-- every other request header (name, value), in order: `Origin`,
  `Access-Control-Request-*`, `X-Forwarded-*`, `X-Requested-With`, `Upgrade`,
  further `Authorization` values, cookies of other names, further
  `agh_session` values, …  No wrapper reads them. -/
  headers : List (Bytes × Bytes) := []
  /-- `GLMode` (`--glinet`): the router's token files are a further credential -/
  glMode : Bool := false
  /-- value of the first `Admin-Token` cookie as net/http parses it -/
  glCookie : Option Bytes := none
  /-- what the operating system finds at the path `glFilePrefix ++ value` -/
  glStat : GLStat := .missing
  /-- `uint32(time.Now().UTC().Unix())` -/
  now : Nat := 0
  /-- the login rate limiter currently blocks the remote address
  (`checkBasicAuth`, 07d17ef: Basic credentials are then not evaluated) -/
  addrBlocked : Bool := false
  /-- `globalContext.auth == nil`: the auth module is missing.  `optionalAuth`
  then requires nothing.  Start-up never leaves it so (`startup`,
  `C11_auth_never_nil_after_startup`). -/
  authNil : Bool := false
  deriving DecidableEq, Repr

/-- Where a wrapper redirects to (the first argument of `http.Redirect`). -/
inductive Target
  | login     -- "login.html"   (optionalAuthThird, only for `/` and `/index.html`)
  | install   -- "install.html" (postInstall, first run)
  | dash      -- ""             (optionalAuth: `/login.html` with a valid session)
  | glRouter  -- "http://<host>" (glProcessRedirect: the router's own login page, gl-inet mode)
  deriving DecidableEq, Repr

/-- What a request ends in.  `ran` = the innermost (registered) handler was
entered; every other constructor is an answer written by a wrapper. -/
inductive Resp
  | ran
  | forbiddenAuth          -- 403 "Forbidden"        (optionalAuthThird)
  | forbiddenPre           -- 403 "Forbidden\n"      (preInstall, not first run)
  | methodNotAllowed       -- 405                    (ensure)
  | unsupportedMedia       -- 415                    (ensureContentType)
  | redirect (t : Target)  -- 302
  deriving DecidableEq, Repr

def Resp.status : Resp → Nat
  | .ran => 0
  | .forbiddenAuth => 403
  | .forbiddenPre => 403
  | .methodNotAllowed => 405
  | .unsupportedMedia => 415
  | .redirect _ => 302

abbrev Handler := Req → Resp

/-! ## String constants -/

def sGET : Bytes := [71, 69, 84]
def sPOST : Bytes := [80, 79, 83, 84]
def sPUT : Bytes := [80, 85, 84]
def sDELETE : Bytes := [68, 69, 76, 69, 84, 69]
/-- "application/json" -/
def sAppJSON : Bytes := [97, 112, 112, 108, 105, 99, 97, 116, 105, 111, 110, 47, 106, 115, 111, 110]
/-- "/" -/
def pRoot : Bytes := [47]
/-- "/index.html" -/
def pIndex : Bytes := [47, 105, 110, 100, 101, 120, 46, 104, 116, 109, 108]
/-- "/login.html" -/
def pLoginHtml : Bytes := [47, 108, 111, 103, 105, 110, 46, 104, 116, 109, 108]
/-- "/assets/" -/
def pAssets : Bytes := [47, 97, 115, 115, 101, 116, 115, 47]
/-- "/login." -/
def pLoginDot : Bytes := [47, 108, 111, 103, 105, 110, 46]
/-- "/install." -/
def pInstallDot : Bytes := [47, 105, 110, 115, 116, 97, 108, 108, 46]

/-! ## isPublicResource (authhttp.go:320) -/

/-- `path.Match(lit ++ "*", p)` for a literal `lit` without meta characters:
`p` is `lit` followed by any bytes other than '/'. -/
def globLitStar (lit p : Bytes) : Bool :=
  lit.isPrefixOf p && !(p.drop lit.length).contains slash

/-- `isPublicResource`: `/assets/*` or `/login.*`. -/
def isPublicResource (p : Bytes) : Bool :=
  globLitStar pAssets p || globLitStar pLoginDot p

/-! ## Authentication decision (optionalAuthThird:236-264) -/

/-- `glTokenTimeoutSeconds` -/
def glTimeout : Nat := 3600

/-- `filepath.Base(v) == v` on Unix: `v` is not empty and holds no separator —
or is the single separator `/` (`Base("/") = "/"`).  `.` and `..` are plain
names here: `glFilePrefix ++ ".."` is the entry `gl_token_..`. -/
def plainName (v : Bytes) : Bool := (v != [] && !v.contains slash) || v == [slash]

/-- `glCheckToken` (authglinet.go:57, after 40971e7): the cookie value must be a
plain file name, never a path; then the file `glFilePrefix ++ value` must exist;
its date (0 when it cannot be read) plus the timeout, in `uint32` arithmetic,
must not be before now. -/
def glCheckToken (r : Req) : Bool :=
  match r.glCookie with
  | none => false
  | some v =>
    plainName v &&
    (match r.glStat with
     | .missing => false
     | .short => decide (r.now ≤ (0 + glTimeout) % 4294967296)
     | .date d => decide (r.now ≤ (d + glTimeout) % 4294967296))

/-- `glProcessCookie` (authglinet.go:39). -/
def glProcessCookie (r : Req) : Bool :=
  r.glMode && r.glCookie.isSome && glCheckToken r

/-- `Auth.findUser` (auth.go:337): the verdict — the `ok` result — is "some
configured user has EXACTLY this name and the password verifies against that
user's hash".  `users` are (name, hash) pairs, `verifies hash pass` stands for
`bcrypt.CompareHashAndPassword`. -/
def findUserOK (users : List (Bytes × Bytes)) (verifies : Bytes → Bytes → Bool)
    (name pass : Bytes) : Bool :=
  users.any fun u => u.1 == name && verifies u.2 pass

/-- The class of the `Authorization` header: `r.BasicAuth()` gives no
credentials (no header, another scheme, bad base64, no colon) or a (name,
password) pair, which `checkBasicAuth` judges by `findUser`'s verdict alone. -/
def basicClass (users : List (Bytes × Bytes)) (verifies : Bytes → Bytes → Bool) :
    Option (Bytes × Bytes) → Basic
  | none => .none
  | some (name, pass) => if findUserOK users verifies name pass then .right else .wrong

/-- Session cookie or Basic credentials: a session cookie, when present, decides
alone (Basic credentials are then not looked at); without a cookie, Basic
credentials decide — unless the login rate limiter blocks the remote address:
`checkBasicAuth` then answers "no" without evaluating them. -/
def sessionOrBasic (c : Cookie) (b : Basic) (blocked : Bool := false) : Bool :=
  match c with
  | .none => b == .right && !blocked
  | .valid => true
  | .unknown => false
  | .expired => false

/-- `optionalAuthThird`'s notion of an authenticated request: the gl-inet token
first, then session cookie / Basic credentials. -/
def authenticated (r : Req) : Bool :=
  glProcessCookie r || sessionOrBasic r.cookie r.basic r.addrBlocked

/-- `globalContext.auth != nil && globalContext.auth.authRequired()`
(authhttp.go:326, auth.go:396): with an auth module, always in gl-inet mode,
else when a user is configured; without one, never. -/
def authRequired (r : Req) : Bool := !r.authNil && (r.glMode || r.usersExist)

/-! ## Start-up: where the auth module comes from (home.go run:671, initUsers:789, auth.go InitAuth:76) -/

/-- State of `data/sessions.db` when the program starts. -/
inductive StoreState
  | missing | fine | empty | garbage | truncated | directory
  deriving DecidableEq, Repr

/-- `bbolt.Open` in `InitAuth`: a missing or empty file is initialised, a valid
one opened; anything else is an error and `InitAuth` returns nil. -/
def storeOpens : StoreState → Bool
  | .missing => true
  | .fine => true
  | .empty => true
  | .garbage => false
  | .truncated => false
  | .directory => false

/-- `globalContext.auth, err = initUsers(); fatalOnError(err)`: `none` = the
program stops; `some authNil` = it goes on with that auth module.  `initUsers`
turns a nil module into an error, so the only way on is with a module. -/
def startup (st : StoreState) : Option Bool :=
  if storeOpens st then some false else none

/-- `InitAuth` stores the configured users as they are (auth.go:89,
`users: users`): no entry is dropped, whatever its name or password hash looks
like. -/
def initAuthUsers {α : Type} (configured : List α) : List α := configured

/-- `Auth.authRequired` after start-up (gl-inet mode off): `len(a.users) != 0`. -/
def usersExistAfter {α : Type} (configured : List α) : Bool := !(initAuthUsers configured).isEmpty

/-- Facts about the start-up code, extracted from the tree (rows of
`Gen.authFacts`). -/
inductive AuthFactKind
  | assignCheckedFatal   -- `globalContext.auth, err = initUsers()` followed by `fatalOnError(err)`
  | nilAfterWebClose     -- `globalContext.auth = nil` after `globalContext.web.close` (shutdown)
  | returnNilWithError   -- `return nil, <an error that cannot be nil>` in initUsers
  | returnCheckedValue   -- `return auth, …` after `if auth == nil { return … }`
  | findUserVerdictOnly  -- `_, ok = findUser(…)` on the gate path, `ok` assigned nowhere else
  | usersStoredAsGiven   -- InitAuth: `users: users` in the Auth literal, the field written nowhere else
  | bad                  -- anything else: the module may be nil while requests are served
  deriving DecidableEq, Repr

structure AuthFact where
  kind : AuthFactKind
  site : Nat
  deriving DecidableEq, Repr

/-! ## The wrappers -/

/-- `modifiesData` (control.go:233). -/
def modifiesData (m : Bytes) : Bool := m == sPOST || m == sPUT || m == sDELETE

/-- `ensureContentType` (control.go:238): `true` = the request may proceed.
Only `ContentLength == 0` takes the "no body, no content type" branch; every
other value, including the unknown length -1, needs `application/json`. -/
def ctypeOK (r : Req) : Bool :=
  if r.contentLength = 0 then r.ctype == [] else r.ctype == sAppJSON

inductive Wrapper
  | postInstall
  | preInstall
  | optionalAuth
  | gzip
  | ensure (m : Bytes)
  deriving DecidableEq, Repr

/-- `postInstall` (control.go:403); `handleHTTPSRedirect` proceeds (no HTTPS server). -/
def postInstallW (h : Handler) : Handler := fun r =>
  if r.firstRun && !pInstallDot.isPrefixOf r.path && !pAssets.isPrefixOf r.path
  then .redirect .install else h r

/-- `preInstall` (control.go:290). -/
def preInstallW (h : Handler) : Handler := fun r =>
  if !r.firstRun then .forbiddenPre else h r

/-- Where an unauthenticated `/` or `/index.html` is sent: `glProcessRedirect`
(the router's login page) in gl-inet mode, `login.html` otherwise. -/
def loginTarget (glMode : Bool) : Target := if glMode then .glRouter else .login

/-- `optionalAuthThird` (authhttp.go:236): `some resp` = "must authenticate
first" and `resp` has been written. -/
def optionalAuthThird (r : Req) : Option Resp :=
  if authenticated r then none
  else if r.path = pRoot ∨ r.path = pIndex then some (.redirect (loginTarget r.glMode))
  else some .forbiddenAuth

/-- What `optionalAuth` decides by itself, as a function of exactly the things
it looks at — path, class of the session cookie, class of the Basic
credentials, "authentication is required", and in gl-inet mode the verdict on
the token cookie: `some resp` = it answers `resp` and the wrapped handler is not
called; `none` = it calls the wrapped handler. -/
def authDecision (path : Bytes) (cookie : Cookie) (basic : Basic)
    (authReq glMode glOK : Bool) (blocked : Bool := false) : Option Resp :=
  if path = pLoginHtml then
    if authReq && cookie == .valid then some (.redirect .dash) else none
  else if isPublicResource path then none
  else if authReq then
    if glOK || sessionOrBasic cookie basic blocked then none
    else if path = pRoot ∨ path = pIndex then some (.redirect (loginTarget glMode))
    else some .forbiddenAuth
  else none

/-- `optionalAuth` (authhttp.go:288). -/
def optionalAuthW (h : Handler) : Handler := fun r =>
  if r.path = pLoginHtml then
    if authRequired r && r.cookie == .valid then .redirect .dash else h r
  else if isPublicResource r.path then h r
  else if authRequired r then
    match optionalAuthThird r with
    | some resp => resp
    | none => h r
  else h r

/-- `ensure` (control.go:205).  Taking `controlLock` is not a visible effect. -/
def ensureW (m : Bytes) (h : Handler) : Handler := fun r =>
  if r.method ≠ m then .methodNotAllowed
  else if modifiesData r.method then
    if ctypeOK r then h r else .unsupportedMedia
  else h r

def Wrapper.apply : Wrapper → Handler → Handler
  | .postInstall => postInstallW
  | .preInstall => preInstallW
  | .optionalAuth => optionalAuthW
  | .gzip => fun h => h          -- gziphandler only encodes the response body
  | .ensure m => ensureW m

/-- Run a wrapper chain (outermost first) around handler `h`. -/
def run (chain : List Wrapper) (h : Handler) : Handler :=
  chain.foldr Wrapper.apply h

/-! ## Routes (rows of the regenerated table `AGH/Gen/C11Routes.lean`) -/

structure Route where
  /-- the ServeMux pattern as written in the source -/
  pattern : Bytes
  /-- the method given at the registration site (`""` = none) -/
  declared : Bytes
  /-- wrappers around the registered handler, outermost first -/
  chain : List Wrapper
  /-- index into build/C11/facts.json `routes` (file:line, handler name) -/
  site : Nat
  deriving DecidableEq, Repr

/-- Where a value of type `aghhttp.RegisterFunc` comes from. -/
inductive FlowSrc
  | httpRegister   -- the function `home.httpRegister`
  | passthrough    -- an expression that is itself of the callback type (field, parameter, variable)
  | nilValue       -- `nil`
  | other          -- any other function or function literal
  deriving DecidableEq, Repr

structure Flow where
  src : FlowSrc
  site : Nat
  deriving DecidableEq, Repr

def lookupRoute (routes : List Route) (pat : Bytes) : Option Route :=
  routes.find? (fun r => r.pattern == pat)

/-- How `net/http.ServeMux` dispatched the request (observed on the real mux,
an input of the model). -/
inductive Served
  | muxRedirect            -- the mux answered with its own canonicalising redirect
  | muxNotFound            -- no pattern matched: the mux's 404/405
  | route (r : Route)      -- the handler registered for `r.pattern` was called
  deriving Repr

/-- What the model predicts and what the harness observes. -/
inductive Obs
  | mux (notFound : Bool)  -- answered by the mux itself, no registered handler called
  | resp (r : Resp)
  deriving DecidableEq, Repr

/-- The model of serving one request: the registered handler chain around a
handler that just reports it was entered. -/
def serve (s : Served) (req : Req) : Obs :=
  match s with
  | .muxRedirect => .mux false
  | .muxNotFound => .mux true
  | .route r => .resp (run r.chain (fun _ => .ran) req)

end AGH.C11
