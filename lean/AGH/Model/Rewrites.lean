/-
C06 model: legacy DNS rewrites.
Transcribes internal/filtering/rewrites.go (normalize, matchesQType,
isWildcard, matchDomainWildcard, Compare, findRewrites, setRewriteResult),
internal/filtering/filtering.go (processRewrites, the rewrite part of
CheckHost) and the dispatch on the rewrite result in
internal/dnsforward/filter.go (filterDNSRequest / isRewrittenCNAME).

`slices.SortFunc` is unstable above 12 elements, so the sort is a PARAMETER:
a `Sorter` is any function returning a sorted permutation (the proofs are
part of the structure).  Every theorem in Props/C06 quantifies over all
sorters, and over a possibly different sorter for every name looked up
(`Bytes → Sorter`).  The executable default is the stable insertion sort, which
is what Go runs for ≤ 12 elements.

Core Lean only.
-/
import AGH.Model.Bytes
namespace AGH.C06
open AGH AGH.Bytes

/-- `LegacyRewrite.Type`: dns.TypeA (1), dns.TypeAAAA (28), dns.TypeCNAME (5). -/
inductive RType where
  | A | AAAA | CNAME
  deriving DecidableEq, Repr

def RType.code : RType → Nat
  | .A => 1
  | .AAAA => 28
  | .CNAME => 5

def qA : Nat := 1
def qAAAA : Nat := 28

/-- A normalized `LegacyRewrite`.  `ip` is the `netip.Addr` rendered by
`String()`; `none` is the zero `netip.Addr{}`. -/
structure Entry where
  domain : Bytes
  answer : Bytes
  typ : RType
  ip : Option Bytes
  deriving DecidableEq, Repr

/-- A configured entry before `normalize`.  `parsed` is the oracle value of
`netip.ParseAddr(Answer)`: `none` = error, `some (is4, s)` = address with
`Is4() = is4` and `String() = s`. -/
structure Raw where
  domain : Bytes
  answer : Bytes
  parsed : Option (Bool × Bytes)

def strA : Bytes := [65]
def strAAAA : Bytes := [65, 65, 65, 65]

/-- `(*LegacyRewrite).normalize` on a fresh entry (ASCII names).  Since the
repair 3bb3ec2 the CNAME branch lower-cases the answer as well. -/
def normalize (r : Raw) : Entry :=
  let d := lower r.domain
  if r.answer = strAAAA then ⟨d, r.answer, .AAAA, none⟩
  else if r.answer = strA then ⟨d, r.answer, .A, none⟩
  else match r.parsed with
    | none => ⟨d, lower r.answer, .CNAME, none⟩
    | some (is4, ip) => ⟨d, r.answer, if is4 then .A else .AAAA, some ip⟩

/-- `prepareRewrites` -/
def prepare (rs : List Raw) : List Entry := rs.map normalize

/-- `(*LegacyRewrite).matchesQType` -/
def matchesQType (e : Entry) (qt : Nat) : Bool :=
  if e.typ = .CNAME then true
  else if qt ≠ qA ∧ qt ≠ qAAAA then false
  else e.typ.code == qt || e.ip == none

/-- `isWildcard`: `len(pat) > 1 && pat[0] == '*' && pat[1] == '.'` -/
def isWildcard : Bytes → Bool
  | 42 :: 46 :: _ => true
  | _ => false

/-- `matchDomainWildcard` -/
def matchDomainWildcard (host wildcard : Bytes) : Bool :=
  isWildcard wildcard && hasSuffix host (wildcard.drop 1)

/-- The negation of the `continue` condition in `findRewrites`. -/
def matchesHost (e : Entry) (host : Bytes) : Bool :=
  e.domain == host || matchDomainWildcard host e.domain

/-- `(*LegacyRewrite).Compare` -/
def cmp (a b : Entry) : Int :=
  if a.typ = .CNAME ∧ b.typ ≠ .CNAME then -1
  else if a.typ ≠ .CNAME ∧ b.typ = .CNAME then 1
  else if isWildcard a.domain = isWildcard b.domain then
    (b.domain.length : Int) - (a.domain.length : Int)
  else if isWildcard a.domain then 1
  else -1

/-- What `slices.SortFunc(rewrites, Compare)` is assumed to guarantee. -/
structure Sorter where
  sort : List Entry → List Entry
  perm : ∀ l, (sort l).Perm l
  sorted : ∀ l, (sort l).Pairwise (fun a b => cmp a b ≤ 0)

/-! ### The stable instance (Go's insertion sort, used for n ≤ 12) -/

/-- Insert `x`, which stood before every element of the (sorted) list, keeping
it before the elements it ties with. -/
def insertBy (x : Entry) : List Entry → List Entry
  | [] => [x]
  | y :: ys => if cmp y x < 0 then y :: insertBy x ys else x :: y :: ys

def stableSort : List Entry → List Entry
  | [] => []
  | x :: xs => insertBy x (stableSort xs)

theorem insertBy_perm (x : Entry) (l : List Entry) : (insertBy x l).Perm (x :: l) := by
  induction l with
  | nil => exact List.Perm.refl _
  | cons y ys ih =>
    unfold insertBy
    split
    · exact (List.Perm.cons y ih).trans (List.Perm.swap x y ys)
    · exact List.Perm.refl _

theorem stableSort_perm (l : List Entry) : (stableSort l).Perm l := by
  induction l with
  | nil => exact List.Perm.refl _
  | cons x xs ih =>
    unfold stableSort
    exact (insertBy_perm x _).trans (List.Perm.cons x ih)

/-- The sort key behind `cmp`: (CNAME first, exact before wildcard, longer first). -/
def key (e : Entry) : Nat × Nat :=
  (if e.typ = .CNAME then 0 else 1, if isWildcard e.domain then 1 else 0)

theorem cmp_le_iff (a b : Entry) :
    cmp a b ≤ 0 ↔
      ((key a).1 < (key b).1 ∨ ((key a).1 = (key b).1 ∧
        ((key a).2 < (key b).2 ∨ ((key a).2 = (key b).2 ∧ b.domain.length ≤ a.domain.length)))) := by
  unfold cmp key
  by_cases ha : a.typ = .CNAME <;> by_cases hb : b.typ = .CNAME <;>
    cases hwa : isWildcard a.domain <;> cases hwb : isWildcard b.domain <;>
    simp [ha, hb] <;> omega

theorem cmp_lt_iff (a b : Entry) :
    cmp a b < 0 ↔
      ((key a).1 < (key b).1 ∨ ((key a).1 = (key b).1 ∧
        ((key a).2 < (key b).2 ∨ ((key a).2 = (key b).2 ∧ b.domain.length < a.domain.length)))) := by
  unfold cmp key
  by_cases ha : a.typ = .CNAME <;> by_cases hb : b.typ = .CNAME <;>
    cases hwa : isWildcard a.domain <;> cases hwb : isWildcard b.domain <;>
    simp [ha, hb] <;> omega

theorem cmp_trans {a b c : Entry} (h1 : cmp a b ≤ 0) (h2 : cmp b c ≤ 0) : cmp a c ≤ 0 := by
  rw [cmp_le_iff] at *
  omega

theorem cmp_total (a b : Entry) : cmp a b ≤ 0 ∨ cmp b a < 0 := by
  rw [cmp_le_iff, cmp_lt_iff]
  omega

theorem cmp_le_of_lt {a b : Entry} (h : cmp a b < 0) : cmp a b ≤ 0 := by omega

theorem insertBy_sorted (x : Entry) (l : List Entry)
    (h : l.Pairwise (fun a b => cmp a b ≤ 0)) :
    (insertBy x l).Pairwise (fun a b => cmp a b ≤ 0) := by
  induction l with
  | nil => simp [insertBy]
  | cons y ys ih =>
    unfold insertBy
    have hy := List.pairwise_cons.mp h
    split
    · next hlt =>
      refine List.pairwise_cons.mpr ⟨?_, ih hy.2⟩
      intro z hz
      have hz' := (insertBy_perm x ys).subset hz
      rcases List.mem_cons.mp hz' with rfl | hz''
      · exact cmp_le_of_lt hlt
      · exact hy.1 z hz''
    · next hge =>
      have hxy : cmp x y ≤ 0 := by
        rcases cmp_total x y with h' | h'
        · exact h'
        · exact absurd h' hge
      refine List.pairwise_cons.mpr ⟨?_, h⟩
      intro z hz
      rcases List.mem_cons.mp hz with rfl | hz'
      · exact hxy
      · exact cmp_trans hxy (hy.1 z hz')

theorem stableSort_sorted (l : List Entry) :
    (stableSort l).Pairwise (fun a b => cmp a b ≤ 0) := by
  induction l with
  | nil => simp [stableSort]
  | cons x xs ih =>
    unfold stableSort
    exact insertBy_sorted x _ ih

def stable : Sorter := ⟨stableSort, stableSort_perm, stableSort_sorted⟩

/-- A sorter that breaks ties in favour of `c`: stable sort after moving `c`
to the front.  Used by the driver to exhibit the tie-break the runtime chose
when Go's sort is unstable (n > 12). -/
def preferSort (c : Entry) (l : List Entry) : List Entry :=
  if c ∈ l then stableSort (c :: l.erase c) else stableSort l

theorem preferSort_perm (c : Entry) (l : List Entry) : (preferSort c l).Perm l := by
  unfold preferSort
  split
  · next h => exact (stableSort_perm _).trans (List.perm_cons_erase h).symm
  · exact stableSort_perm l

theorem preferSort_sorted (c : Entry) (l : List Entry) :
    (preferSort c l).Pairwise (fun a b => cmp a b ≤ 0) := by
  unfold preferSort
  split <;> exact stableSort_sorted _

def prefer (c : Entry) : Sorter := ⟨preferSort c, preferSort_perm c, preferSort_sorted c⟩

/-! ### findRewrites -/

/-- The cut in `findRewrites`: with `i` the index of the first wildcard entry,
`rewrites[:max(1, i)]`; everything when there is no wildcard entry. -/
def cut : List Entry → List Entry
  | [] => []
  | e :: rest =>
    if isWildcard e.domain then [e]
    else e :: rest.takeWhile (fun r => !isWildcard r.domain)

/-- The entries `findRewrites` appends to `rewrites` before sorting. -/
def candidates (tbl : List Entry) (host : Bytes) (qt : Nat) : List Entry :=
  (tbl.filter (matchesHost · host)).filter (matchesQType · qt)

/-- `findRewrites(entries, host, qtype)` = `(rewrites, matched)`. -/
def findRewritesWith (srt : Sorter) (tbl : List Entry) (host : Bytes) (qt : Nat) :
    List Entry × Bool :=
  let matched := tbl.any (matchesHost · host)
  let rw := candidates tbl host qt
  if rw.isEmpty then ([], matched) else (cut (srt.sort rw), matched)

/-! ### processRewrites -/

/-- The observable part of `filtering.Result` after `processRewrites`:
`Reason == Rewritten`, `CanonName`, `IPList`. -/
structure Out where
  rewritten : Bool
  canon : Bytes
  ips : List Bytes
  deriving DecidableEq, Repr

/-- `Result{}` -/
def Out.empty : Out := ⟨false, [], []⟩

/-- `setRewriteResult` -/
def setRewriteResult (res : Out) (rws : List Entry) (qt : Nat) : Out :=
  match rws with
  | [] => res
  | rw :: rest =>
    if rw.typ.code = qt ∧ (qt = qA ∨ qt = qAAAA) then
      match rw.ip with
      | none => { res with rewritten := false }
      | some ip => setRewriteResult { res with ips := res.ips ++ [ip] } rest qt
    else setRewriteResult res rest qt

/-- Result of a run plus ghost state: the value of the loop variable `host`
on exit (the finally resolved name) and the `cnames` set in insertion order
(newest first). -/
structure Run where
  out : Out
  final : Bytes
  visited : List Bytes
  deriving DecidableEq, Repr

theorem cut_subset (s : List Entry) : ∀ e ∈ cut s, e ∈ s := by
  intro e he
  cases s with
  | nil => simp [cut] at he
  | cons a rest =>
    simp only [cut] at he
    by_cases hw : isWildcard a.domain = true
    · rw [if_pos hw] at he
      simp at he; subst he; simp
    · rw [if_neg hw] at he
      rcases List.mem_cons.mp he with rfl | h
      · simp
      · exact List.mem_cons_of_mem _ ((List.takeWhile_sublist _).subset h)

theorem candidates_subset (tbl : List Entry) (host : Bytes) (qt : Nat) :
    ∀ e ∈ candidates tbl host qt, e ∈ tbl := by
  intro e he
  unfold candidates at he
  exact (List.mem_filter.mp (List.mem_filter.mp he).1).1

theorem findRewritesWith_subset (srt : Sorter) (tbl : List Entry) (host : Bytes) (qt : Nat) :
    ∀ e ∈ (findRewritesWith srt tbl host qt).1, e ∈ tbl := by
  intro e he
  unfold findRewritesWith at he
  simp only at he
  split at he
  · simp at he
  · exact candidates_subset tbl host qt e ((srt.perm _).subset (cut_subset _ e he))

/-- Termination measure of the CNAME loop: table entries whose answer has not
been visited. -/
def unvisited (tbl : List Entry) (visited : List Bytes) : Nat :=
  (tbl.filter (fun e => !visited.contains e.answer)).length

theorem filter_length_le {α : Type} (p q : α → Bool) (l : List α)
    (himp : ∀ x, q x = true → p x = true) : (l.filter q).length ≤ (l.filter p).length := by
  induction l with
  | nil => simp
  | cons x xs ih =>
    cases hq : q x <;> cases hp : p x <;> simp [List.filter_cons, hq, hp]
    · exact ih
    · omega
    · have := himp x hq; rw [hp] at this; cases this
    · exact ih

theorem filter_length_lt {α : Type} (p q : α → Bool) (l : List α)
    (himp : ∀ x, q x = true → p x = true) (e : α) (he : e ∈ l)
    (hp : p e = true) (hq : q e = false) : (l.filter q).length < (l.filter p).length := by
  induction l with
  | nil => cases he
  | cons x xs ih =>
    rcases List.mem_cons.mp he with rfl | hmem
    · have := filter_length_le p q xs himp
      simp [List.filter_cons, hq, hp]
      omega
    · have ih' := ih hmem
      cases hqx : q x <;> cases hpx : p x <;> simp [List.filter_cons, hqx, hpx]
      · exact ih'
      · omega
      · have := himp x hqx; rw [hpx] at this; cases this
      · exact ih'

theorem unvisited_lt (tbl : List Entry) (visited : List Bytes) (e : Entry)
    (he : e ∈ tbl) (hv : visited.contains e.answer = false) :
    unvisited tbl (e.answer :: visited) < unvisited tbl visited := by
  unfold unvisited
  apply filter_length_lt _ _ tbl _ e he
  · simpa using hv
  · simp
  · intro x hx
    simp at hx ⊢
    exact hx.2

/-- The `for` loop of `processRewrites` from the loop head, with
`rewrites, matched = findRewrites(host)`; `srt host` is the sorted permutation
the runtime produces for this lookup. -/
def chase (srt : Bytes → Sorter) (tbl : List Entry) (qt : Nat) (orig : Bytes)
    (host : Bytes) (visited : List Bytes) (canon : Bytes) : Run :=
  let fr := findRewritesWith (srt host) tbl host qt
  match hfr : fr.1 with
  | [] => ⟨setRewriteResult ⟨true, canon, []⟩ [] qt, host, visited⟩
  | rw :: _ =>
    if fr.2 = true ∧ rw.typ = .CNAME then
      if orig = rw.answer ∨ rw.domain = rw.answer then
        -- a request for the hostname itself or a pattern onto itself
        ⟨Out.empty, host, visited⟩
      else if host = rw.answer ∧ isWildcard rw.domain = true then
        -- "*.example.com → sub.example.com" matching in a loop (issue 4016)
        ⟨setRewriteResult ⟨true, host, []⟩ fr.1 qt, host, visited⟩
      else if hv : visited.contains rw.answer = true then
        -- cname loop
        ⟨⟨true, canon, []⟩, rw.answer, visited⟩
      else
        chase srt tbl qt orig rw.answer (rw.answer :: visited) rw.answer
    else ⟨setRewriteResult ⟨true, canon, []⟩ fr.1 qt, host, visited⟩
termination_by unvisited tbl visited
decreasing_by
  apply unvisited_lt
  · apply findRewritesWith_subset (srt host) tbl host qt
    rw [hfr]; simp
  · simpa using hv

/-- `(*DNSFilter).processRewrites` with ghost state. -/
def processRun (srt : Bytes → Sorter) (tbl : List Entry) (host : Bytes) (qt : Nat) : Run :=
  if (findRewritesWith (srt host) tbl host qt).2 = false then ⟨Out.empty, host, []⟩
  else chase srt tbl qt host host [] []

/-- `(*DNSFilter).processRewrites`, any sort. -/
def processRewritesWith (srt : Bytes → Sorter) (tbl : List Entry) (host : Bytes) (qt : Nat) : Out :=
  (processRun srt tbl host qt).out

/-- `(*DNSFilter).processRewrites` with the stable sort. -/
def processRewrites (tbl : List Entry) (host : Bytes) (qt : Nat) : Out :=
  processRewritesWith (fun _ => stable) tbl host qt

/-- The rewrite part of `(*DNSFilter).CheckHost` (filtering enabled, no other
host checker matches): empty host → `Result{}`; lower-case; keep the result only
when `Reason == Rewritten`. -/
def checkHostWith (srt : Bytes → Sorter) (tbl : List Entry) (host : Bytes) (qt : Nat) : Out :=
  if host = [] then Out.empty
  else
    let res := processRewritesWith srt tbl (lower host) qt
    if res.rewritten then res else Out.empty

def checkHost (tbl : List Entry) (host : Bytes) (qt : Nat) : Out :=
  checkHostWith (fun _ => stable) tbl host qt

/-! ### What dnsforward does with the result (filter.go filterDNSRequest) -/

inductive Action where
  /-- not rewritten: the request goes on unchanged (other filters, upstream) -/
  | pass
  /-- `isRewrittenCNAME`: the question is renamed to the canonical name and
  sent upstream; `processFilteringAfterResponse` restores the original
  question and prepends `CNAME canon` to the upstream's answer -/
  | upstream (canon : Bytes)
  /-- `getCNAMEWithIPs`: answered locally with NOERROR: an optional CNAME record
  followed by the addresses of the requested family -/
  | answer (cname : Bytes) (ips : List Bytes)
  deriving DecidableEq, Repr

def dispatch (o : Out) : Action :=
  if o.rewritten then
    if o.canon ≠ [] ∧ o.ips = [] then .upstream o.canon else .answer o.canon o.ips
  else .pass

/-! ### The live table under configuration operations

`d.conf.Rewrites` over the life of one `DNSFilter`: `WriteDiskConfig` (home
passes the SAME `*Config` it gave to `filtering.New`, so the "copy" it makes with
`cloneRewrites` replaces the live table) and the HTTP handlers
`handleRewriteAdd` / `handleRewriteDelete` / `handleRewriteUpdate`
(rewritehttp.go). -/

inductive TableOp where
  /-- `d.WriteDiskConfig(c)`, `c` the live config or another object -/
  | write
  /-- POST /control/rewrite/add -/
  | add (r : Raw)
  /-- POST /control/rewrite/delete `{domain, answer}` -/
  | del (domain answer : Bytes)
  /-- PUT /control/rewrite/update `{target, update}` -/
  | upd (tdomain tanswer : Bytes) (u : Raw)
  /-- persistence round trip: `WriteDiskConfig` into a fresh `Config`, the
  rewrites serialised as YAML (`domain`, `answer` only; `IP`/`Type` are
  `yaml:"-"`), parsed back and a new filter created from them with `New` -/
  | reload
  /-- a request with a malformed JSON body to one of the three handlers -/
  | bad

/-- `(*LegacyRewrite).equal` against the (not normalized) entry built from the
request: `Domain` and `Answer` compared byte for byte with the stored forms. -/
def sameKey (domain answer : Bytes) (e : Entry) : Bool := e.domain == domain && e.answer == answer

/-- `slices.IndexFunc` + `slices.Replace` of one element. -/
def replaceFirst (p : Entry → Bool) (n : Entry) : List Entry → Option (List Entry)
  | [] => none
  | e :: es => if p e then some (n :: es) else (replaceFirst p n es).map (e :: ·)

/-- What is read back from the saved configuration for one entry.  The parse
oracle is reconstructed from the entry: an address entry parses to the same
address again (same answer text); a CNAME answer, now in lower case, still is
no address (`netip.ParseAddr` reads hex digits in either case — assumption,
checked on every `C06.reload` of the sequence harness). -/
def reraw (e : Entry) : Raw :=
  ⟨e.domain, e.answer, match e.ip with
    | some ip => some (e.typ == .A, ip)
    | none => none⟩

/-- New table and whether the handler answered 200. -/
def stepTable (tbl : List Entry) : TableOp → List Entry × Bool
  | .write => (tbl, true)                      -- `cloneRewrites` is a faithful deep copy
  | .add r => (tbl ++ [normalize r], true)
  | .del d a => (tbl.filter (fun e => !sameKey d a e), true)
  | .upd td ta u =>
    match replaceFirst (sameKey td ta) (normalize u) tbl with
    | some t => (t, true)
    | none => (tbl, false)                     -- 400 "target rule not found"
  | .reload => (prepare (tbl.map reraw), true)
  | .bad => (tbl, false)                       -- 400 "json.Decode", nothing touched

/-- An evaluation that runs while the table goes through `states` (the handlers
take `confMu` for writing, `processRewrites` holds it for reading during the WHOLE
call, CNAME chain included): it reads the table of one instant `i`. -/
def evalDuring (srt : Bytes → Sorter) (states : List (List Entry)) (i : Nat) (h : Bytes) (q : Nat) :
    Option Out :=
  (states[i]?).map (fun t => processRewritesWith srt t h q)

/-- `GET /control/rewrite/list`: the stored `domain`/`answer` pairs in table order. -/
def listTable (tbl : List Entry) : List (Bytes × Bytes) := tbl.map (fun e => (e.domain, e.answer))

/-! ### CheckHost with the rule engines behind the rewrites

`CheckHost` runs `processRewrites` first and returns at once when the result is
`Rewritten`; otherwise the host checkers run.  The harness loads blocking rules
`||name^`; such a rule blocks `name` and every name under it (urlfilter,
taken as given). -/

def blockedBy (rules : List Bytes) (host : Bytes) : Bool :=
  rules.any (fun n => host == n || hasSuffix host (46 :: n))

inductive Verdict where
  | rewritten (o : Out)
  | blocked
  | notFound
  deriving DecidableEq, Repr

def checkHostFull (srt : Bytes → Sorter) (tbl : List Entry) (rules : List Bytes) (host : Bytes)
    (qt : Nat) : Verdict :=
  let o := checkHostWith srt tbl host qt
  if o.rewritten then .rewritten o
  else if host ≠ [] ∧ blockedBy rules (lower host) = true then .blocked
  else .notFound

/-- The table after a history of operations. -/
def runTable (tbl : List Entry) (ops : List TableOp) : List Entry :=
  ops.foldl (fun t op => (stepTable t op).1) tbl

/-! ### DNS level: what the client and the upstream see

`handleDNSRequest` with an upstream that answers every A question with one
address `ups4`, every AAAA question with `ups6` and everything else with an empty
NOERROR (the harness's recording upstream). -/

structure RR where
  typ : Nat
  owner : Bytes
  data : Bytes
  deriving DecidableEq, Repr

structure DnsObs where
  /-- names the upstream was asked for, in order -/
  asked : List Bytes
  rcode : Nat
  /-- name in the question section of the reply -/
  question : Bytes
  answer : List RR
  deriving DecidableEq, Repr

def ups4 : Bytes := [57, 46, 57, 46, 57, 46, 57]   -- "9.9.9.9"
def ups6 : Bytes := [57, 58, 58, 57]               -- "9::9"

/-- The recording upstream: with `rc = 0` one address record for A/AAAA
questions (nothing for other types); with `rc ≠ 0` (NXDOMAIN, SERVFAIL,
REFUSED) an empty reply with that rcode. -/
def upstreamAnswer (name : Bytes) (qt : Nat) (rc : Nat) : List RR :=
  if rc ≠ 0 then []
  else if qt = qA then [⟨1, name, ups4⟩] else if qt = qAAAA then [⟨28, name, ups6⟩] else []

/-- filterDNSRequest + processUpstream + processFilteringAfterResponse +
getCNAMEWithIPs, given the result of `CheckHost` and the upstream's rcode. -/
def render (o : Out) (host : Bytes) (qt : Nat) (rc : Nat) : DnsObs :=
  match dispatch o with
  | .pass => ⟨[host], rc, host, upstreamAnswer host qt rc⟩
  | .upstream c => ⟨[c], rc, host, ⟨5, host, c⟩ :: upstreamAnswer c qt rc⟩
  | .answer c ips =>
    let owner := if c = [] then host else c
    let addrs := if qt = qA ∨ qt = qAAAA then ips.map (fun ip => (⟨qt, owner, ip⟩ : RR)) else []
    ⟨[], 0, host, (if c = [] then [] else [⟨5, host, c⟩]) ++ addrs⟩

def respondWith (srt : Bytes → Sorter) (tbl : List Entry) (host : Bytes) (qt : Nat) (rc : Nat) : DnsObs :=
  render (checkHostWith srt tbl host qt) host qt rc

def respond (tbl : List Entry) (host : Bytes) (qt : Nat) (rc : Nat) : DnsObs :=
  respondWith (fun _ => stable) tbl host qt rc

/-- True when some lookup the run can reach sorts more than 12 candidates, so
that Go's `pdqsort` leaves insertion sort and tie order is unspecified. -/
def unstableRegime (tbl : List Entry) (host : Bytes) (qt : Nat) : Bool :=
  (host :: tbl.map (·.answer)).any (fun n => decide ((candidates tbl n qt).length > 12))

end AGH.C06
