/-
C01 configuration-sequence model: the rule-list configuration of
internal/filtering as changed through the admin API (http.go
handleFilteringAddURL / RemoveURL / SetURL / Refresh / SetRules / Config,
filter.go filterSetProperties / update / refreshFiltersArray,
rulelist/parser.go), and which rule lines are IN FORCE for a query.

The model tracks the CONFIGURED state: for every list its source, whether it is
enabled, the content stored at its last download (the file `<id>.txt`) and the
checksum kept for it.  WHAT MUST BE IN FORCE for a query is, by the property,
the custom rules followed by the STORED FILES of the ENABLED block lists (allow
lists likewise), whatever the downloads returned: a download whose checksum
equals the kept one (in particular an empty download after `unload`, checksum 0)
stores nothing, so the file of the previous download stays and is what an
enabled list contributes.  The model has no separate "engine" state, so an
implementation whose engines lag behind the configuration disagrees with it.
This follows the code since c5ab9db (`filterSetProperties` reloads the filters
on every change of URL or enabled flag, even when the download is "not
updated"); before that commit the engines could lag.

Sources are local files under a safe pattern; they always exist but may be
empty or consist of comments only.
-/
import AGH.Model.FilterRules
namespace AGH.Filter.Cfg
open AGH AGH.Bytes AGH.Filter

/-- the rule lines `rulelist.Parser` keeps: trimmed, non-empty, not starting with `#` or `!` -/
def ruleLines (content : List Bytes) : List Bytes :=
  (content.map trimSpace).filter (fun l => !l.isEmpty && l.head? != some 35 && l.head? != some 33)

structure Entry where
  /-- index of the source (the list's URL) -/
  src : Nat
  enabled : Bool
  /-- content of `<id>.txt` (the last download that was stored) -/
  file : List Bytes
  /-- the rule lines the kept checksum stands for (`[]` = checksum 0, after `unload`) -/
  known : List Bytes
  /-- `RulesCount` as the API reports it -/
  count : Nat
  deriving Repr

structure State where
  sources : List (List Bytes)
  block : List Entry := []
  allow : List Entry := []
  userRules : List Bytes := []
  filtering : Bool := true
  /-- `protection_enabled` as stored (`Config.ProtectionEnabled`) -/
  protFlag : Bool := true
  /-- `protection_disabled_until`, on the model's clock (ms) -/
  protUntil : Option Nat := none
  /-- the model's clock: advanced only by explicit waits (the harness uses pauses
  of an hour, or short ones that are always waited out before the next step) -/
  now : Nat := 0
  /-- While a rebuild of the engines cannot complete (a list file that cannot be
  opened, or a rebuild still in progress), the rules of the last completed
  rebuild stay in force: `(block lines, allow lines)` at that moment. -/
  held : Option (List Bytes × List Bytes) := none
  /-- the unfinished rebuild is one stalled on a pipe (any further configuration call
  in the harness first lets it finish) -/
  stalled : Bool := false
  deriving Repr

def State.source (s : State) (i : Nat) : List Bytes := ruleLines (s.sources.getD i [])

def State.exists (s : State) (i : Nat) : Bool :=
  s.block.any (·.src == i) || s.allow.any (·.src == i)

/-- `(*DNSFilter).update` on an entry: download, keep the file only when the checksum differs -/
def download (s : State) (en : Entry) : Entry × Bool :=
  let new := s.source en.src
  if new != en.known then ({ en with file := new, known := new, count := new.length }, true)
  else (en, false)

/-- `handleFilteringAddURL`: HTTP status and new state -/
def addURL (s : State) (i : Nat) (white : Bool) : Nat × State :=
  if s.exists i then (400, s)
  else
    let new := s.source i
    if new.isEmpty then (400, s)     -- "invalid (maybe it points to blank page?)"
    else
      let en : Entry := { src := i, enabled := true, file := new, known := new, count := new.length }
      (200, if white then { s with allow := s.allow ++ [en] } else { s with block := s.block ++ [en] })

/-- `filterSetProperties` on the entry found -/
def setProps (s : State) (en : Entry) (newSrc : Nat) (newEnabled : Bool) : Entry :=
  let (en1, r1) : Entry × Bool :=
    if en.src != newSrc then ({ en with src := newSrc, known := [], count := 0 }, true) else (en, false)
  let (en2, r2) : Entry × Bool :=
    if en1.enabled != newEnabled then ({ en1 with enabled := newEnabled }, true) else (en1, r1)
  if en2.enabled then
    if r2 then (download s en2).1 else en2
  else { en2 with known := [], count := 0 }      -- unload

def setIn (s : State) (l : List Entry) (i newSrc : Nat) (newEnabled : Bool) : Option (List Entry) :=
  match l.findIdx? (·.src == i) with
  | none => none
  | some k =>
    match l[k]? with
    | none => none
    | some en => some (l.set k (setProps s en newSrc newEnabled))

/-- `handleFilteringSetURL` -/
def setURL (s : State) (i : Nat) (white : Bool) (newSrc : Nat) (newEnabled : Bool) : Nat × State :=
  let l := if white then s.allow else s.block
  if !(l.any (·.src == i)) then (400, s)                 -- errFilterNotExist
  else if i != newSrc && s.exists newSrc then (400, s)    -- errFilterExists
  else match setIn s l i newSrc newEnabled with
    | none => (400, s)
    | some l' => (200, if white then { s with allow := l' } else { s with block := l' })

/-- `handleFilteringRemoveURL` (always 200) -/
def removeURL (s : State) (i : Nat) (white : Bool) : Nat × State :=
  let del (l : List Entry) : List Entry :=
    match l.findIdx? (·.src == i) with
    | none => l
    | some k => l.eraseIdx k
  (200, if white then { s with allow := del s.allow } else { s with block := del s.block })

/-- `handleFilteringRefresh` (forced): every enabled list of the kind is downloaded again -/
def refresh (s : State) (white : Bool) : Nat × State :=
  let upd (l : List Entry) : List Entry := l.map (fun en => if en.enabled then (download s en).1 else en)
  (200, if white then { s with allow := upd s.allow } else { s with block := upd s.block })

/-- the lines in force -/
def State.blockLines (s : State) : List Bytes :=
  s.userRules ++ (s.block.filter (·.enabled)).flatMap (·.file)

def State.allowLines (s : State) : List Bytes :=
  (s.allow.filter (·.enabled)).flatMap (·.file)

/-- the lines the engines must be working with: a failed or unfinished rebuild
leaves the previous rules in force -/
def State.engBlock (s : State) : List Bytes :=
  match s.held with | some (b, _) => b | none => s.blockLines

def State.engAllow (s : State) : List Bytes :=
  match s.held with | some (_, a) => a | none => s.allowLines

/-- a lifecycle step on the stored file of the list with source `i` (made
unopenable, or turned into a pipe that stalls the rebuild): applicable when that
list exists and is enabled; from then on the rules in force are frozen -/
def freeze (s : State) (i : Nat) : Bool × State :=
  if (s.block ++ s.allow).any (fun en => en.src == i && en.enabled) && s.held.isNone then
    (true, { s with held := some (s.blockLines, s.allowLines) })
  else (false, s)

/-- the file is restored and a rebuild completes -/
def thaw (s : State) : State := { s with held := none, stalled := false }

/-- the deadline as `UpdatedProtectionStatus` sees it now -/
def State.pause (s : State) : Pause :=
  match s.protUntil with
  | none => .none
  | some t => if s.now < t then .future else .past

/-- `handleSetProtection` (POST /control/protection): a duration is only accepted
with `enabled = false`; otherwise `SetProtectionStatus(enabled, deadline)` — the
flag AND the deadline are replaced, so an accepted request without duration
cancels any pending pause. -/
def setProtection (s : State) (enabled : Bool) (duration : Nat) : Nat × State :=
  if duration > 0 ∧ enabled then (400, s)
  else (200, { s with protFlag := enabled,
                      protUntil := if duration > 0 then some (s.now + duration) else none })

/-- the legacy path, POST /control/dns_config {"protection_enabled": b}:
`SetProtectionEnabled` writes the flag only.  QUIRK: a pending pause stays. -/
def setProtectionLegacy (s : State) (enabled : Bool) : State := { s with protFlag := enabled }

/-- time passes -/
def wait (s : State) (ms : Nat) : State := { s with now := s.now + ms }

/-- a request that finds the pause expired makes `enableProtectionAfterPause` store (true, no deadline) -/
def afterQuery (s : State) : State :=
  if s.pause = .past then { s with protFlag := true, protUntil := none } else s

/-- the `Conf` a query of the sequence runs under (fixed apart from the two switches) -/
def State.conf (s : State) : Conf :=
  { mode := .default, bip4 := none, bip6 := none, ttl := 10, protEnabled := s.protFlag, pause := s.pause,
    filtering := s.filtering, aaaaDisabled := false, schedNow := false, services := [], client := none,
    clientIP := { v6 := false, val := 167772161 } }

end AGH.Filter.Cfg
