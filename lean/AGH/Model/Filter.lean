/-
C01 / C02 model, Layer A: the DNS filtering pipeline of
internal/dnsforward (process.go handleDNSRequest stage list, filter.go,
msg.go) and internal/filtering (filtering.go CheckHost / matchHost /
matchBlockedServicesRules, filter.go ApplyAdditionalFiltering, blocked.go,
internal/client/storage.go ApplyClientFiltering).

The two urlfilter DNS engines and the blocked-service rule matcher are
PARAMETERS here (`Engines`); Layer B (`AGH/Model/FilterRules.lean`) instantiates
them from rule text.  Everything the pipeline itself does is transcribed,
including quirks (see comments marked QUIRK).

The checker chain of `CheckHost` is complete up to safe search: legacy
rewrites (the C06 model `AGH/Model/Rewrites.lean`, composed here), the hosts
container, the rule engines, blocked services, safe browsing, parental.  The
verdicts of the safe-browsing / parental checkers (`Checker.Check`, C19's
business) and `netutil.IPFromReversedAddr` are oracle parameters like the rule
engines.

Not modelled (the harness keeps them switched off and the theorems say so):
safe search, `$dnsrewrite`, DHCP hosts, DDR, DNSSEC flags, ipset.  Names are
ASCII (Go lower-cases with `strings.ToLower`).
-/
import AGH.Model.NetIP
import AGH.Model.Rewrites
namespace AGH.Filter
open AGH AGH.Bytes

/-! ## Basic data -/

inductive Mode where
  | default | nullIP | customIP | nxdomain | refused
  deriving DecidableEq, Repr

/-- `protection_disabled_until`: unset, in the past, in the future (w.r.t. `time.Now()`). -/
inductive Pause where
  | none | past | future
  deriving DecidableEq, Repr

/-- One blocked service as applied to a request: its id and its rule texts. -/
structure Service where
  name : Bytes
  rules : List Bytes
  deriving Repr

/-- The persistent client found for the request (by IP), if any. -/
structure ClientConf where
  name : Bytes
  useOwnSettings : Bool
  filtering : Bool
  useOwnBlockedServices : Bool
  /-- the client's own blocked-services schedule contains now -/
  schedNow : Bool
  services : List Service
  /-- own `safebrowsing_enabled` / `parental_enabled` (read when `useOwnSettings`) -/
  safeBrowsing : Bool := false
  parental : Bool := false
  deriving Repr

/-- one record of the hosts container (`hostsfile.DefaultStorage.Add`) -/
structure HostsRec where
  addr : IP
  names : List Bytes
  deriving Repr

/-- `safebrowsing_block_host` / `parental_block_host`: empty, an address, or a host name -/
inductive BlockHost where
  | empty
  | ip (a : IP)
  | name (n : Bytes)
  deriving Repr

structure Conf where
  mode : Mode
  /-- `BlockingIPv4` / `BlockingIPv6`; `none` is the zero `netip.Addr` -/
  bip4 : Option IP
  bip6 : Option IP
  /-- `BlockedResponseTTL` -/
  ttl : Nat
  protEnabled : Bool
  pause : Pause
  /-- global `filtering_enabled` -/
  filtering : Bool
  aaaaDisabled : Bool
  /-- the global blocked-services schedule contains now -/
  schedNow : Bool
  services : List Service
  client : Option ClientConf
  clientIP : IP
  /-- the legacy rewrite table after `prepareRewrites` -/
  rewrites : List C06.Entry := []
  /-- the hosts container, in insertion order -/
  hosts : List HostsRec := []
  /-- global `safebrowsing_enabled` / `parental_enabled` -/
  sbEnabled : Bool := false
  parentalEnabled : Bool := false
  sbHost : BlockHost := .empty
  parentalHost : BlockHost := .empty
  /-- the built-in DHCP server provides client information (`dhcpServer.Enabled()`) -/
  dhcpEnabled : Bool := false
  /-- its leases: host name (lower case) and address; the local domain is `lan` -/
  dhcpLeases : List (Bytes × IP) := []
  deriving Repr

/-- `filtering.Settings` as far as the checkers read it. -/
structure Setts where
  protection : Bool
  filtering : Bool
  clientName : Bytes
  clientIP : IP
  services : List Service
  safeBrowsing : Bool := false
  parental : Bool := false
  deriving Repr

/-- `urlfilter.DNSRequest` -/
structure DNSReq where
  host : Bytes
  qtype : Nat
  clientName : Bytes
  clientIP : IP
  deriving Repr

/-- `urlfilter.DNSResult` when `MatchRequest` says `ok`: either the selected
network rule (only its allow/block polarity matters to the pipeline) or the
matched hosts-style rules, IPv4 ones and the others, each with its IP. -/
inductive EngRes where
  | net (whitelist : Bool)
  | hosts (v4 v6 : List IP)
  deriving Repr

/-- Everything external the checker chain consults. -/
structure Engines where
  allow : DNSReq → Option EngRes
  block : DNSReq → Option EngRes
  /-- some rule of the service matches the host (`rule.Match(NewRequestForHostname host)`) -/
  svc : Service → Bytes → Bool
  /-- `safeBrowsingChecker.Check(host)` / `parentalControlChecker.Check(host)` (hash-prefix lookups, C19) -/
  sb : Bytes → Bool := fun _ => false
  parental : Bytes → Bool := fun _ => false
  /-- `netutil.IPFromReversedAddr(host)`, `none` = error -/
  arpa : Bytes → Option IP := fun _ => none
  /-- the sorted permutation `slices.SortFunc` produces in `findRewrites` for a looked-up name -/
  srt : Bytes → C06.Sorter := fun _ => C06.stable

inductive Reason where
  | notFound | allowList | blockList | safeBrowsing | parental | blockedService | rewritten | autoHosts
  deriving DecidableEq, Repr

/-- Go's numeric `filtering.Reason`. -/
def Reason.code : Reason → Nat
  | .notFound => 0 | .allowList => 1 | .blockList => 3 | .safeBrowsing => 4 | .parental => 5
  | .blockedService => 8 | .rewritten => 9 | .autoHosts => 10

/-- a value of a hosts-container answer -/
inductive HostVal where
  | addr (ip : IP)
  | name (n : Bytes)
  deriving Repr

structure Result where
  reason : Reason := .notFound
  isFiltered : Bool := false
  /-- the non-zero `ResultRule.IP`s, in order -/
  ips : List IP := []
  svcName : Bytes := []
  /-- `CanonName` and `IPList` of a legacy rewrite -/
  canon : Bytes := []
  ipList : List IP := []
  /-- `DNSRewriteResult.Response[qtype]` of a hosts-container hit -/
  hostVals : List HostVal := []
  deriving Repr

def Result.empty : Result := {}

inductive Fault where
  /-- "invalid dns result: rules are empty" -/
  | emptyAllowResult
  deriving DecidableEq, Repr

/-! ## DNS messages -/

def tA : Nat := 1
def tCNAME : Nat := 5
def tSOA : Nat := 6
def tAAAA : Nat := 28
def tHTTPS : Nat := 65
def tPTR : Nat := 12

inductive SvcParam where
  | hint4 (ips : List IP)
  | hint6 (ips : List IP)
  | other (key : Nat)
  deriving Repr, DecidableEq

inductive RData where
  | a (ip : Option IP)
  | aaaa (ip : Option IP)
  | cname (target : Bytes)
  | https (prio : Nat) (target : Bytes) (params : List SvcParam)
  | soa (mbox : Bytes)
  | ptr (target : Bytes)
  | other (typ : Nat) (data : Bytes)
  deriving Repr, DecidableEq

structure RR where
  name : Bytes
  ttl : Nat
  data : RData
  deriving Repr, DecidableEq

structure Msg where
  rcode : Nat
  qname : Bytes
  qtype : Nat
  answer : List RR := []
  ns : List RR := []
  deriving Repr, DecidableEq

structure Query where
  /-- as sent by the client: FQDN, any letter case -/
  name : Bytes
  qtype : Nat
  deriving Repr, DecidableEq

def rcSuccess : Nat := 0
def rcNXDomain : Nat := 3
def rcRefused : Nat := 5
def rcServFail : Nat := 2

/-! ## Settings (processInitial → clientRequestFilteringSettings) -/

/-- `(*Server).UpdatedProtectionStatus`.  QUIRK: an expired pause yields `true`
whatever the stored flag says. -/
def protectionEnabled (c : Conf) : Bool :=
  match c.pause with
  | .none => c.protEnabled
  | .future => false
  | .past => true

/-- `DNSFilter.Settings` + `ApplyAdditionalFiltering` with
`client.Storage.ApplyClientFiltering`. -/
def settings (c : Conf) : Setts :=
  -- ApplyBlockedServices: global list unless the global schedule contains now
  let svc0 : List Service := if c.schedNow then [] else c.services
  match c.client with
  | none =>
    { protection := protectionEnabled c, filtering := c.filtering, clientName := [],
      clientIP := c.clientIP, services := svc0, safeBrowsing := c.sbEnabled, parental := c.parentalEnabled }
  | some cl =>
    let filt := if cl.useOwnSettings then cl.filtering else c.filtering
    -- `setts.BlockedServices != nil` replaces the global services
    let svc := if cl.useOwnBlockedServices then (if cl.schedNow then [] else cl.services) else svc0
    { protection := protectionEnabled c, filtering := filt, clientName := cl.name,
      clientIP := c.clientIP, services := svc,
      safeBrowsing := if cl.useOwnSettings then cl.safeBrowsing else c.sbEnabled,
      parental := if cl.useOwnSettings then cl.parental else c.parentalEnabled }

/-! ## filtering.matchHost and friends -/

/-- `matchHostProcessAllowList` -/
def processAllowList (r : EngRes) : Except Fault Result :=
  match r with
  | .net _ => .ok { reason := .allowList }
  | .hosts v4 v6 =>
    if v4.isEmpty && v6.isEmpty then .error .emptyAllowResult
    else .ok { reason := .allowList }

/-- `hostResultForOtherQType` -/
def hostResultForOtherQType (v4 v6 : List IP) : Result :=
  if !v4.isEmpty then { reason := .blockList, isFiltered := true }
  else if !v6.isEmpty then { reason := .blockList, isFiltered := true }
  else {}

/-- `matchHostProcessDNSResult` -/
def processDNSResult (qtype : Nat) (r : EngRes) : Result :=
  match r with
  | .net wl =>
    if wl then { reason := .allowList } else { reason := .blockList, isFiltered := true }
  | .hosts v4 v6 =>
    if qtype = tA ∧ !v4.isEmpty then { reason := .blockList, isFiltered := true, ips := v4 }
    else if qtype = tAAAA ∧ !v6.isEmpty then { reason := .blockList, isFiltered := true, ips := v6 }
    else hostResultForOtherQType v4 v6

/-- `(*DNSFilter).matchHost` (host already lower-cased by the caller). -/
def matchHost (e : Engines) (host : Bytes) (rrtype : Nat) (s : Setts) : Except Fault Result :=
  if !s.filtering then .ok {}
  else
    let req : DNSReq := { host := host, qtype := rrtype, clientName := s.clientName, clientIP := s.clientIP }
    match (if s.protection then e.allow req else none) with
    | some r => processAllowList r
    | none =>
      match e.block req with
      | none => .ok {}
      | some r => if !s.protection then .ok {} else .ok (processDNSResult rrtype r)

/-- `matchBlockedServicesRules` -/
def matchBlockedServices (e : Engines) (host : Bytes) (s : Setts) : Result :=
  if !s.protection then {}
  else match s.services.find? (fun sv => e.svc sv host) with
    | some sv => { reason := .blockedService, isFiltered := true, svcName := sv.name }
    | none => {}

/-- `ipsFromRules`: unique addresses, first occurrence kept. -/
def dedupIPs : List IP → List IP → List IP
  | [], acc => acc.reverse
  | ip :: rest, acc => if acc.any (IP.same ip) then dedupIPs rest acc else dedupIPs rest (ip :: acc)

/-- `processRewrites` (the C06 model) as a `filtering.Result`; addresses come
back as Go's `String()` text and are re-read with the `netip.ParseAddr` model -/
def rewriteResult (e : Engines) (c : Conf) (host : Bytes) (qtype : Nat) : Result :=
  let o := C06.processRewritesWith e.srt c.rewrites host qtype
  if o.rewritten then { reason := .rewritten, canon := o.canon, ipList := o.ips.filterMap parseAddr } else {}

/-- `DefaultStorage.ByName`: the addresses of the records naming `host`, first occurrence kept -/
def hostsByName (recs : List HostsRec) (host : Bytes) : List IP :=
  dedupIPs ((recs.filter (fun r => r.names.any (fun n => lower n == host))).map (·.addr)) []

def dedupNames : List Bytes → List Bytes → List Bytes
  | [], acc => acc.reverse
  | n :: rest, acc => if acc.any (fun m => lower m == lower n) then dedupNames rest acc else dedupNames rest (n :: acc)

/-- `DefaultStorage.ByAddr`: the names recorded for the address (as written), one per lower-cased form -/
def hostsByAddr (recs : List HostsRec) (a : IP) : List Bytes :=
  dedupNames ((recs.filter (fun r => r.addr.same a)).flatMap (·.names)) []

/-- `matchSysHosts` / `hostsRewrites`.  QUIRK: not gated by protection. -/
def matchSysHosts (e : Engines) (c : Conf) (host : Bytes) (qtype : Nat) (s : Setts) : Result :=
  if !s.filtering then {}
  else if qtype = tA ∨ qtype = tAAAA then
    let addrs := hostsByName c.hosts host
    if addrs.isEmpty then {}
    else { reason := .autoHosts,
           hostVals := (addrs.filter (fun ip => ip.v6 == (qtype == tAAAA))).map HostVal.addr }
  else if qtype = tPTR then
    match e.arpa host with
    | none => {}
    | some a =>
      let names := hostsByAddr c.hosts a
      if names.isEmpty then {} else { reason := .autoHosts, hostVals := names.map HostVal.name }
  else {}

/-- `checkSafeBrowsing` -/
def checkSafeBrowsing (e : Engines) (host : Bytes) (s : Setts) : Result :=
  if s.protection && s.safeBrowsing && e.sb host then { reason := .safeBrowsing, isFiltered := true } else {}

/-- `checkParental` -/
def checkParental (e : Engines) (host : Bytes) (s : Setts) : Result :=
  if s.protection && s.parental && e.parental host then { reason := .parental, isFiltered := true } else {}

/-- The host checkers after the rule engines: blocked services, safe browsing,
parental — first match wins (safe search is off). -/
def checkAfterRules (e : Engines) (h : Bytes) (s : Setts) : Result :=
  let r2 := matchBlockedServices e h s
  if r2.reason ≠ .notFound then r2
  else
    let r3 := checkSafeBrowsing e h s
    if r3.reason ≠ .notFound then r3
    else
      let r4 := checkParental e h s
      if r4.reason ≠ .notFound then r4 else {}

/-- `(*DNSFilter).CheckHost`: legacy rewrites first (only when filtering is on
for the client, and only a result that is still `Rewritten` counts), then the
host checkers in their order, first match wins. -/
def checkHost (e : Engines) (c : Conf) (host : Bytes) (qtype : Nat) (s : Setts) : Except Fault Result :=
  if host = [] then .ok {}
  else
    let h := lower host
    let rw : Result := if s.filtering then rewriteResult e c h qtype else {}
    if rw.reason = .rewritten then .ok rw
    else
      let r0 := matchSysHosts e c h qtype s
      if r0.reason ≠ .notFound then .ok r0
      else
        match matchHost e h qtype s with
        | .error f => .error f
        | .ok r => if r.reason ≠ .notFound then .ok r else .ok (checkAfterRules e h s)

/-! ## msg.go -/

/-- `strings.TrimSuffix(name, ".")` -/
def trimDot (n : Bytes) : Bytes :=
  match n.getLast? with
  | some 46 => n.dropLast
  | _ => n

def hostmaster : Bytes := [104, 111, 115, 116, 109, 97, 115, 116, 101, 114, 46]  -- "hostmaster."

def reply (q : Query) (code : Nat) : Msg := { rcode := code, qname := q.name, qtype := q.qtype }

/-- `genSOA`.  QUIRK: the SOA TTL falls back to 3600 when the configured TTL
is 0, the address records do not. -/
def genSOA (c : Conf) (q : Query) : List RR :=
  [{ name := q.name, ttl := if c.ttl = 0 then 3600 else c.ttl,
     data := .soa (hostmaster ++ (if q.name = [46] then [] else q.name)) }]

def msgNXDOMAIN (c : Conf) (q : Query) : Msg := { reply q rcNXDomain with ns := genSOA c q }
def msgNODATA (c : Conf) (q : Query) : Msg := { reply q rcSuccess with ns := genSOA c q }

def ansA (c : Conf) (q : Query) (ip : Option IP) : RR := { name := q.name, ttl := c.ttl, data := .a ip }
def ansAAAA (c : Conf) (q : Query) (ip : Option IP) : RR := { name := q.name, ttl := c.ttl, data := .aaaa ip }

/-- `genAnswersWithIPv4s`: nil as soon as one address is not IPv4. -/
def answersV4 (c : Conf) (q : Query) (ips : List IP) : List RR :=
  if ips.all (fun ip => !ip.v6) then ips.map (fun ip => ansA c q (some ip)) else []

/-- `genResponseWithIPs` -/
def responseWithIPs (c : Conf) (q : Query) (ips : List IP) : Msg :=
  let ans : List RR :=
    if q.qtype = tA then answersV4 c q ips
    else if q.qtype = tAAAA then (ips.filter (·.v6)).map (fun ip => ansAAAA c q (some ip))
    else []
  { reply q rcSuccess with answer := ans }

/-- `makeResponseNullIP` -/
def responseNullIP (c : Conf) (q : Query) : Msg :=
  if q.qtype = tA then responseWithIPs c q [ip4Zero]
  else if q.qtype = tAAAA then responseWithIPs c q [ip6Zero]
  else reply q rcSuccess

/-- `makeResponseCustomIP`.  QUIRK: an unset custom address gives a record with a nil address. -/
def responseCustomIP (c : Conf) (q : Query) : Msg :=
  if q.qtype = tA then { reply q rcSuccess with answer := [ansA c q c.bip4] }
  else if q.qtype = tAAAA then { reply q rcSuccess with answer := [ansAAAA c q c.bip6] }
  else reply q rcSuccess

/-- `genForBlockingMode` -/
def genForBlockingMode (c : Conf) (q : Query) (ips : List IP) : Msg :=
  match c.mode with
  | .customIP => responseCustomIP c q
  | .default => if !ips.isEmpty then responseWithIPs c q ips else responseNullIP c q
  | .nullIP => responseNullIP c q
  | .nxdomain => msgNXDOMAIN c q
  | .refused => reply q rcRefused

/-- `genDNSFilterMessage` for the reasons the modelled checkers produce. -/
def genDNSFilterMessage (c : Conf) (q : Query) (res : Result) : Msg :=
  if q.qtype ≠ tA ∧ q.qtype ≠ tAAAA ∧ q.qtype ≠ tHTTPS then
    if c.mode = .nullIP then reply q rcSuccess else msgNODATA c q
  else genForBlockingMode c q (dedupIPs res.ips [])

/-! ## Response filtering (filter.go filterDNSResponse) -/

/-- `removeIPv6Hints` -/
def removeIPv6Hints (ps : List SvcParam) : List SvcParam :=
  ps.filter (fun p => match p with | .hint6 _ => false | _ => true)

/-- `filterSVCBHint`: first address whose rule check is filtered. -/
def filterSVCBHint (e : Engines) (s : Setts) : List IP → Except Fault (Option Result)
  | [] => .ok none
  | ip :: rest =>
    match matchHost e (lower ip.str) tHTTPS s with
    | .error f => .error f
    | .ok r => if r.isFiltered then .ok (some r) else filterSVCBHint e s rest

/-- the addresses of an `ipv4hint` / `ipv6hint` parameter -/
def SvcParam.ips : SvcParam → List IP
  | .hint4 l => l
  | .hint6 l => l
  | .other _ => []

/-- the loop of `filterHTTPSRecords` over the (already stripped) parameters -/
def filterHTTPSParams (e : Engines) (s : Setts) : List SvcParam → Except Fault (Option Result)
  | [] => .ok none
  | p :: rest =>
    match filterSVCBHint e s p.ips with
    | .error f => .error f
    | .ok (some r) => .ok (some r)
    | .ok none => filterHTTPSParams e s rest

/-- One answer record: the record as left behind (HTTPS hints may have been
stripped in place) and the rule result, if the record kind is checked. -/
def checkRR (e : Engines) (c : Conf) (s : Setts) (rr : RR) : Except Fault (RR × Option Result) :=
  match rr.data with
  | .cname t =>
    (matchHost e (lower (trimDot t)) tCNAME s).map (fun r => (rr, some r))
  | .a ip =>
    (matchHost e (lower (match ip with | some i => i.str | none => [])) tA s).map (fun r => (rr, some r))
  | .aaaa ip =>
    (matchHost e (lower (match ip with | some i => i.str | none => [])) tAAAA s).map (fun r => (rr, some r))
  | .https prio t ps =>
    let ps' := if c.aaaaDisabled then removeIPv6Hints ps else ps
    (filterHTTPSParams e s ps').map (fun r => ({ rr with data := .https prio t ps' }, r))
  | _ => .ok (rr, none)

/-- The loop of `filterDNSResponse`: the answer section as left behind, and the
first filtered result. -/
def filterAnswers (e : Engines) (c : Conf) (s : Setts) : List RR → Except Fault (List RR × Option Result)
  | [] => .ok ([], none)
  | rr :: rest =>
    match checkRR e c s rr with
    | .error f => .error f
    | .ok (rr', some r) =>
      if r.isFiltered then .ok (rr' :: rest, some r)
      else (filterAnswers e c s rest).map (fun (l, x) => (rr' :: l, x))
    | .ok (rr', none) => (filterAnswers e c s rest).map (fun (l, x) => (rr' :: l, x))

/-! ## handleDNSRequest -/

/-- What is recorded in the query log entry. -/
structure QLog where
  reason : Reason
  isFiltered : Bool
  svcName : Bytes
  /-- `origResp` (the upstream response that was replaced), if any -/
  origAnswer : Option (List RR)
  deriving Repr

inductive Outcome where
  /-- `resultCodeError` -/
  | err
  /-- response (delivered to the client), the upstream call log, the query-log record -/
  | done (res : Msg) (log : List Query) (qlog : Option QLog)
  deriving Repr

/-- "use-application-dns.net." -/
def mozillaFQDN : Bytes :=
  [117, 115, 101, 45, 97, 112, 112, 108, 105, 99, 97, 116, 105, 111, 110, 45, 100, 110, 115, 46, 110, 101, 116, 46]
/-- "healthcheck.adguardhome.test." -/
def healthcheckFQDN : Bytes :=
  [104, 101, 97, 108, 116, 104, 99, 104, 101, 99, 107, 46, 97, 100, 103, 117, 97, 114, 100, 104, 111, 109, 101, 46, 116, 101, 115, 116, 46]

/-- The mock upstream: scripted rcode and answer section for whatever is asked. -/
structure Upstream where
  rcode : Nat
  answer : List RR
  /-- the authority section (never looked at by the response filter) -/
  ns : List RR := []
  deriving Repr

def Upstream.exchange (u : Upstream) (q : Query) : Msg :=
  { rcode := u.rcode, qname := q.name, qtype := q.qtype, answer := u.answer, ns := u.ns }

/-- `processInitial`: the queries the server answers itself before any filtering. -/
def shortCircuit (c : Conf) (q : Query) : Option Outcome :=
  if c.aaaaDisabled ∧ q.qtype = tAAAA then some (.done (msgNODATA c q) [] none)
  else if (q.qtype = tA ∨ q.qtype = tAAAA) ∧ q.name = mozillaFQDN then some (.done (msgNXDOMAIN c q) [] none)
  else if q.name = healthcheckFQDN then some (.done (reply q rcSuccess) [] none)
  else none

/-- `dns.Fqdn` (no escaped dots) -/
def fqdn (n : Bytes) : Bytes := if n.getLast? = some 46 then n else n ++ [46]

/-- `getCNAMEWithIPs`: an optional CNAME owned by the queried name, then the
addresses of the requested family owned by the canonical name. -/
def cnameWithIPs (c : Conf) (q : Query) (ips : List IP) (cname : Bytes) : Msg :=
  let q' : Query := if cname = [] then q else { q with name := fqdn cname }
  let cn : List RR :=
    if cname = [] then [] else [{ name := q.name, ttl := c.ttl, data := .cname (fqdn cname) }]
  let addrs : List RR :=
    if q.qtype = tA then answersV4 c q' ips
    else if q.qtype = tAAAA then (ips.filter (·.v6)).map (fun ip => ansAAAA c q' (some ip))
    else []
  { reply q rcSuccess with answer := cn ++ addrs }

/-- `filterDNSRewrite` for a hosts-container hit -/
def hostsResponse (c : Conf) (q : Query) (vals : List HostVal) : Msg :=
  { reply q rcSuccess with
    answer := vals.map (fun v => match v with
      | .addr ip => if q.qtype = tA then ansA c q (some ip) else ansAAAA c q (some ip)
      | .name n => { name := q.name, ttl := c.ttl, data := .ptr (fqdn n) }) }

/-- `genBlockedHost`: SERVFAIL without a block host, the block address, or the
records the upstream returns for the block host name, re-owned by the queried name -/
def genBlockedHost (c : Conf) (u : Upstream) (q : Query) (bh : BlockHost) : Msg × List Query :=
  match bh with
  | .empty => (reply q rcServFail, [])
  | .ip a => (responseWithIPs c q [a], [])
  | .name n =>
    let q2 : Query := { name := fqdn n, qtype := q.qtype }
    ({ reply q rcSuccess with answer := (u.exchange q2).answer.map (fun rr => { rr with name := q.name }) }, [q2])

/-- `genDNSFilterMessage` including the safe-browsing / parental branches; the
second component is what it asks the upstream -/
def blockedMessage (c : Conf) (u : Upstream) (q : Query) (res : Result) : Msg × List Query :=
  if (q.qtype = tA ∨ q.qtype = tAAAA ∨ q.qtype = tHTTPS) ∧ res.reason = .safeBrowsing then
    genBlockedHost c u q c.sbHost
  else if (q.qtype = tA ∨ q.qtype = tAAAA ∨ q.qtype = tHTTPS) ∧ res.reason = .parental then
    genBlockedHost c u q c.parentalHost
  else (genDNSFilterMessage c q res, [])

/-- processUpstream + processFilteringAfterResponse for a request that was
neither answered nor rewritten at the request stage. -/
def forwardStage (e : Engines) (c : Conf) (u : Upstream) (q : Query) (res : Result) : Outcome :=
  let s := settings c
  let resp := u.exchange q
  if res.reason = .allowList ∨ !s.protection ∨ !s.filtering then
    .done resp [q] (some { reason := res.reason, isFiltered := false, svcName := res.svcName, origAnswer := none })
  else
    match filterAnswers e c s resp.answer with
    | .error _ => .err
    | .ok (ans', some r) =>
      .done (genDNSFilterMessage c q r) [q]
        (some { reason := r.reason, isFiltered := true, svcName := r.svcName, origAnswer := some ans' })
    | .ok (ans', none) =>
      .done { resp with answer := ans' } [q]
        (some { reason := res.reason, isFiltered := false, svcName := res.svcName, origAnswer := none })

/-- processFilteringBeforeRequest (filterDNSRequest's dispatch on the result),
processUpstream, processFilteringAfterResponse, processQueryLogsAndStats. -/
def handleMain (e : Engines) (c : Conf) (u : Upstream) (q : Query) : Outcome :=
  match checkHost e c (trimDot q.name) q.qtype (settings c) with
  | .error _ => .err
  | .ok res =>
    if res.reason = .rewritten ∧ res.canon ≠ [] ∧ res.ipList = [] then
      -- isRewrittenCNAME: the canonical name is resolved instead; afterwards the original
      -- question is restored and the CNAME record prepended; no response filtering
      let q' : Query := { q with name := fqdn res.canon }
      let resp := u.exchange q'
      .done { resp with qname := q.name,
                        answer := { name := q.name, ttl := c.ttl, data := .cname (fqdn res.canon) } :: resp.answer }
        [q'] (some { reason := .rewritten, isFiltered := false, svcName := [], origAnswer := none })
    else if res.isFiltered then
      -- the response is set; processUpstream does nothing; the after-response
      -- stage does nothing because the response is not from the upstream
      let (m, log) := blockedMessage c u q res
      .done m log
        (some { reason := res.reason, isFiltered := true, svcName := res.svcName, origAnswer := none })
    else if res.reason = .rewritten then
      .done (cnameWithIPs c q res.ipList res.canon) []
        (some { reason := .rewritten, isFiltered := false, svcName := [], origAnswer := none })
    else if res.reason = .autoHosts then
      .done (hostsResponse c q res.hostVals) []
        (some { reason := .autoHosts, isFiltered := false, svcName := [], origAnswer := none })
    else forwardStage e c u q res

/-- "lan", the default local domain suffix -/
def localDomain : Bytes := [108, 97, 110]

/-- `dhcpHostFromRequest`: for A / AAAA questions while DHCP is enabled, the host
part of a name that is an immediate sub-domain of the local domain (compared in
lower case ON A COPY: the question itself keeps the client's spelling). -/
def dhcpHost (c : Conf) (q : Query) : Option Bytes :=
  if c.dhcpEnabled && (q.qtype == tA || q.qtype == tAAAA) then
    let h := lower q.name.dropLast
    let suffix := dot :: localDomain
    if h.length > suffix.length && suffix.isSuffixOf h && !(h.take (h.length - suffix.length)).contains dot
    then some (h.take (h.length - suffix.length)) else none
  else none

/-- was the response set before the upstream stage (blocked, rewritten locally,
hosts container)?  Read off the outcome of the filtering stages. -/
def setEarly (log : List Query) (ql : Option QLog) : Bool :=
  match ql with
  | some l => (l.isFiltered && l.origAnswer.isNone) ||
              ((l.reason == .rewritten || l.reason == .autoHosts) && log.isEmpty)
  | none => false

/-- `processDHCPHosts` … `processUpstream` for a name under the local domain (the
client is private): a lease is answered locally (A only; no DNS64); without a
lease the name goes through the filters, and whatever would have been sent
upstream is answered NXDOMAIN instead (never forwarded, not logged).  QUIRK: the
NXDOMAIN is built for the question as it stands at the upstream stage, which
after a legacy CNAME rewrite is the canonical name (the stage that restores the
question is skipped). -/
def dhcpStage (e : Engines) (c : Conf) (u : Upstream) (q : Query) : Option Outcome :=
  match dhcpHost c q with
  | none => none
  | some h =>
    match c.dhcpLeases.find? (fun l => l.1 == h) with
    | some l =>
      some (.done { reply q rcSuccess with answer := if q.qtype = tA then [ansA c q (some l.2)] else [] } []
        (some { reason := .notFound, isFiltered := false, svcName := [], origAnswer := none }))
    | none =>
      match handleMain e c u q with
      | .done m log ql =>
        if setEarly log ql then some (.done m log ql) else some (.done (msgNXDOMAIN c (log.head?.getD q)) [] none)
      | .err => some .err

/-- `handleDNSRequest` -/
def handle (e : Engines) (c : Conf) (u : Upstream) (q : Query) : Outcome :=
  match shortCircuit c q with
  | some o => o
  | none =>
    match dhcpStage e c u q with
    | some o => o
    | none => handleMain e c u q

/-! ## The dnsproxy response cache in front of the upstream (sequence mode)

`proxy.Resolve` with `cache_size > 0`: the key is (lower-cased name, type); a
cacheable upstream response is stored RAW (before AdGuard Home filters it); a
hit answers from the stored message with every TTL set to the remaining
lifetime, without contacting the upstream, and the response then goes through
the same after-response stage.  Expiry and SERVFAIL / negative caching are
outside the model (the scripted upstream has no authority section). -/

structure CacheEntry where
  name : Bytes
  qtype : Nat
  msg : Upstream
  deriving Repr

abbrev Cache := List CacheEntry

def minTTL : List RR → Option Nat
  | [] => none
  | rr :: rest => match minTTL rest with
    | none => some rr.ttl
    | some t => some (min rr.ttl t)

def rcServFailCacheTTL : Nat := 30

/-- `cacheTTL` for the responses the scripted upstream can give (no authority
section): `none` = not cached.  NOERROR is cached for the lowest record TTL when
it has records and, for A / AAAA questions, an address record; SERVFAIL is
cached for at most 30 s — even without any record; NXDOMAIN (no SOA here),
REFUSED and the rest are not cached. -/
def cacheTTL (u : Upstream) (q : Query) : Option Nat :=
  if u.rcode = rcSuccess then
    match minTTL u.answer with
    | none => none
    | some t =>
      if t != 0 &&
         ((q.qtype != tA && q.qtype != tAAAA) ||
          u.answer.any (fun rr => match rr.data with | .a _ => true | .aaaa _ => true | _ => false))
      then some t else none
  else if u.rcode = rcServFail then
    match minTTL u.answer with
    | none => some rcServFailCacheTTL
    | some t => if t = 0 then none else some (min t rcServFailCacheTTL)
  else none

def cacheable (u : Upstream) (q : Query) : Bool := (cacheTTL u q).isSome

/-- the stored message as a hit returns it: all TTLs equal (the remaining lifetime) -/
def agedCopy (u : Upstream) (q : Query) : Upstream :=
  match cacheTTL u q with
  | none => u
  | some t => { u with answer := u.answer.map (fun rr => { rr with ttl := t }) }

def Cache.lookup (c : Cache) (q : Query) : Option Upstream :=
  (c.find? (fun en => en.name == lower q.name && en.qtype == q.qtype)).map (·.msg)

/-- a hit does not contact the upstream -/
def dropLog : Outcome → Outcome
  | .done m _ ql => .done m [] ql
  | .err => .err

def contacted : Outcome → Bool
  | .done _ log _ => !log.isEmpty
  | .err => false

/-- One request against the proxy with the cache on: the outcome and the new cache. -/
def handleCached (e : Engines) (c : Conf) (cache : Cache) (u : Upstream) (q : Query) : Outcome × Cache :=
  match cache.lookup q with
  | some stored =>
    let o := handle e c stored q
    (if contacted o then dropLog o else o, cache)
  | none =>
    let o := handle e c u q
    (o, if contacted o && cacheable u q then
          { name := lower q.name, qtype := q.qtype, msg := agedCopy u q } :: cache
        else cache)

/-- the upstream message the step actually works on -/
def usedUpstream (cache : Cache) (u : Upstream) (q : Query) : Upstream :=
  match cache.lookup q with | some stored => stored | none => u

end AGH.Filter
