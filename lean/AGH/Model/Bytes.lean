/-
Byte-string helpers shared by the models.  A Go `string`/`[]byte` is a
`List Nat` (each element a byte value; theorems quantify over all `Nat`
lists, a superset).  Core Lean only.
-/
namespace AGH

abbrev Bytes := List Nat

namespace Bytes

def ofString (s : String) : Bytes := s.toUTF8.toList.map (·.toNat)

def slash : Nat := 47
def dot : Nat := 46
def dash : Nat := 45
def nl : Nat := 10

def isLowerB (b : Nat) : Bool := decide (97 ≤ b) && decide (b ≤ 122)
def isUpperB (b : Nat) : Bool := decide (65 ≤ b) && decide (b ≤ 90)
def isDigitB (b : Nat) : Bool := decide (48 ≤ b) && decide (b ≤ 57)
def isAlnumB (b : Nat) : Bool := isLowerB b || isUpperB b || isDigitB b

/-- ASCII lower-casing of one byte (`strings.ToLower` on ASCII input). -/
def lowerB (b : Nat) : Nat := if isUpperB b then b + 32 else b
def lower (s : Bytes) : Bytes := s.map lowerB

/-- `strings.Split(s, sep)` for a one-byte separator: always non-empty. -/
def splitOn (sep : Nat) : Bytes → List Bytes
  | [] => [[]]
  | b :: rest =>
    if b = sep then [] :: splitOn sep rest
    else match splitOn sep rest with
      | [] => [[b]]            -- unreachable, splitOn is never empty
      | p :: ps => (b :: p) :: ps

/-- `strings.Join(parts, sep)` for a one-byte separator. -/
def joinWith (sep : Nat) : List Bytes → Bytes
  | [] => []
  | [p] => p
  | p :: ps => p ++ sep :: joinWith sep ps

def hasSuffix (s suf : Bytes) : Bool := suf.isSuffixOf s
def hasPrefix (s pre : Bytes) : Bool := pre.isPrefixOf s

theorem splitOn_ne_nil (sep : Nat) (s : Bytes) : splitOn sep s ≠ [] := by
  induction s with
  | nil => simp [splitOn]
  | cons b rest ih =>
    unfold splitOn
    split
    · simp
    · split <;> simp

theorem joinWith_splitOn (sep : Nat) (s : Bytes) : joinWith sep (splitOn sep s) = s := by
  induction s with
  | nil => simp [splitOn, joinWith]
  | cons b rest ih =>
    unfold splitOn
    split
    · next h =>
      subst h
      have := splitOn_ne_nil b rest
      cases hs : splitOn b rest with
      | nil => exact absurd hs this
      | cons p ps =>
        rw [hs] at ih
        simp [joinWith, ih]
    · cases hs : splitOn sep rest with
      | nil => exact absurd hs (splitOn_ne_nil sep rest)
      | cons p ps =>
        rw [hs] at ih
        cases ps with
        | nil => simp [joinWith] at ih ⊢; exact ih
        | cons q qs => simp [joinWith] at ih ⊢; exact ih

theorem splitOn_no_sep (sep : Nat) (s : Bytes) : ∀ p ∈ splitOn sep s, sep ∉ p := by
  induction s with
  | nil => simp [splitOn]
  | cons b rest ih =>
    unfold splitOn
    split
    · intro p hp
      simp at hp
      rcases hp with rfl | hp
      · simp
      · exact ih p hp
    · next hne =>
      cases hs : splitOn sep rest with
      | nil => exact absurd hs (splitOn_ne_nil sep rest)
      | cons q qs =>
        rw [hs] at ih
        intro p hp
        simp at hp
        rcases hp with rfl | hp
        · have := ih q (by simp)
          simp; exact ⟨fun h => hne h.symm, this⟩
        · exact ih p (by simp [hp])

theorem lower_idem (s : Bytes) : lower (lower s) = lower s := by
  unfold lower
  rw [List.map_map]
  apply List.map_congr_left
  intro b _
  simp only [Function.comp, lowerB, isUpperB]
  by_cases h : (decide (65 ≤ b) && decide (b ≤ 90)) = true
  · simp only [h, if_true]
    have h' : (decide (65 ≤ b + 32) && decide (b + 32 ≤ 90)) = false := by
      simp at h ⊢; omega
    rw [h']; simp
  · simp [h]

end Bytes
end AGH
