/-
A small statement language for straight-line Go bodies, the target of the
translator `extract/cmd/c12` (DESIGN §9, extension round).  Values are integers
(`time.Time` instants and `time.Duration`s in nanoseconds, counters, booleans as
0 / 1); unsigned wrap-around and `int64` overflow are not modelled.
-/
namespace AGH.MiniGo

inductive E where
  | var (x : String)
  | lit (n : Int)
  | add (a b : E)
  | sub (a b : E)
  | lt (a b : E)
  | le (a b : E)
  | gt (a b : E)
  | ge (a b : E)
  | eq (a b : E)
  | not (a : E)
deriving Repr

inductive S where
  /-- `x := e`, `x = e`, `var x T = e` -/
  | assign (x : String) (e : E)
  /-- `a, ok := m[key]`: binds `a.until`, `a.num` (zero values when absent) and `ok` -/
  | lookup
  /-- one assignment of an `if c { … }` body (`c` does not read what the body assigns) -/
  | ifAssign (c : E) (x : String) (e : E)
  /-- `if c { return e }` -/
  | ifRet (c : E) (e : E)
  | ret (e : E)
  /-- `m[key] = T{until: u, num: n}` -/
  | store (untl num : E)
deriving Repr

abbrev Env := String → Int

def Env.set (env : Env) (x : String) (v : Int) : Env := fun y => if y = x then v else env y

def b2i (b : Bool) : Int := if b then 1 else 0

def E.eval (env : Env) : E → Int
  | .var x => env x
  | .lit n => n
  | .add a b => a.eval env + b.eval env
  | .sub a b => a.eval env - b.eval env
  | .lt a b => b2i (decide (a.eval env < b.eval env))
  | .le a b => b2i (decide (a.eval env ≤ b.eval env))
  | .gt a b => b2i (decide (a.eval env > b.eval env))
  | .ge a b => b2i (decide (a.eval env ≥ b.eval env))
  | .eq a b => b2i (decide (a.eval env = b.eval env))
  | .not a => b2i (decide (a.eval env = 0))

inductive Outcome where
  | ret (v : Int)
  | stored (untl num : Int)
  | fellOff (env : Env)

/-- The record the map holds for the key, if any: `(until, num)`. -/
abbrev Slot := Option (Int × Int)

def run (slot : Slot) : List S → Env → Outcome
  | [], env => .fellOff env
  | .assign x e :: rest, env => run slot rest (env.set x (e.eval env))
  | .lookup :: rest, env =>
    let env' := match slot with
      | some (u, n) => ((env.set "a.until" u).set "a.num" n).set "ok" 1
      | none => ((env.set "a.until" 0).set "a.num" 0).set "ok" 0
    run slot rest env'
  | .ifAssign c x e :: rest, env =>
    run slot rest (if c.eval env ≠ 0 then env.set x (e.eval env) else env)
  | .ifRet c e :: rest, env => if c.eval env ≠ 0 then .ret (e.eval env) else run slot rest env
  | .ret e :: _, env => .ret (e.eval env)
  | .store u n :: _, env => .stored (u.eval env) (n.eval env)

end AGH.MiniGo
