/-
C10 — executable model of the DHCPv4 lease table of AdGuard Home
(`internal/dhcpd/v4_unix.go`, `db.go`, `iprange.go`, `bitset.go`,
`dhcpd.go onNotify`).  Core Lean only.

The Go functions are transcribed as written.  Go's `[]*Lease` and the two
`map[...]*Lease` indexes share lease OBJECTS that are mutated in place; the
model gives every object an `id`, keeps the objects of `s.leases` by value in
list order, keeps removed objects (still reachable from a stale index entry)
in `dead`, and lets the indexes map a key to an id.  `deref` follows an id.

* addresses are `Nat` (the 32-bit value), hardware addresses and hostnames are
  byte lists, time is `Nat` seconds (`0` is Go's zero `time.Time`);
* `normalizeHostname` / `netutil.ValidateHostname` are an `Oracle` parameter;
* ICMP probing is off (`ICMPTimeout = 0`), so `addrAvailable` is `true`;
* `writeDB` sorts with `slices.SortFunc`, which is a stable insertion sort for
  at most 12 elements; the model sorts stably;
* the code modelled is the tree after the repairs 11eb866 (F5), 6deb704 (F6),
  9985548 (F7), 429fb4b (hostname index in `rmDynamicLease`) and 5958d07
  (`AddStaticLease` stores on error).  Still in the code, hence in the model:
  `releaseLoop` ranging over the slice header it is shrinking.  Also followed:
  a691f53 (R5, a recycled lease gets a clone of the new hardware address), 410da26
  (R3) and 2820039 (R4) as the default of the switches `Conf.fixR3/fixR4`.
-/
import AGH.Model.Bytes
namespace AGH.C10
open AGH

structure Lease where
  id : Nat
  mac : Bytes
  ip : Nat
  host : Bytes
  static : Bool
  exp : Nat
deriving DecidableEq, Repr, Inhabited

/-- One record of `leases.json` (`dbLease`). -/
structure DLease where
  mac : Bytes
  ip : Nat
  host : Bytes
  static : Bool
  exp : Nat
deriving DecidableEq, Repr, Inhabited

/-- `V4ServerConf` after `Validate`: gateway, prefix length, pool, lease time,
the server identifier (`dnsIPAddrs[0]`). -/
structure Conf where
  gw : Nat
  maskLen : Nat
  start : Nat
  stop : Nat
  leaseTime : Nat
  sid : Nat
  /-- Code version switches (not configuration).  `true` (the default) is the tree
  as it is: 410da26 (R3) — `commitLease` does not fall back to a generated hostname
  that the index already holds for another lease (the lease stays unnamed); 2820039
  (R4) — `ResetLeases` leaves an unnamed dynamic lease unnamed.  `false` is the code
  before that repair (kept for the `*_before_fix` counterexamples and so that a
  scratch tree without the repair can be followed).  The harness reports the level
  of the tree under test with every reset line; the driver runs that variant. -/
  fixR3 : Bool := true
  fixR4 : Bool := true
deriving Repr, Inhabited

/-- `normalizeHostname` (`none` = error) and `netutil.ValidateHostname h == nil`. -/
structure Oracle where
  norm : Bytes → Option Bytes
  valid : Bytes → Bool

structure State where
  leases : List Lease
  dead : List Lease
  hosts : Bytes → Option Nat
  hostKeys : List Bytes
  ips : Nat → Option Nat
  ipKeys : List Nat
  bits : Nat → Bool
  /-- ids left in the backing array behind `len(s.leases)` by the removals of
  the current operation (`append(s[:i], s[i+1:]...)` does not clear the last
  slot); only `handleRelease`, which ranges over the old slice header, reads it. -/
  stale : List Nat
  nextId : Nat
  now : Nat
  disk : Option (List DLease)

def State.init : State :=
  { leases := [], dead := [], hosts := fun _ => none, hostKeys := [], ips := fun _ => none, ipKeys := [],
    bits := fun _ => false, stale := [], nextId := 0, now := 1000, disk := none }

/-! ### small helpers -/

def shiftOf (c : Conf) : Nat := 2 ^ (32 - c.maskLen)

/-- `conf.subnet.Contains(ip)` for the prefix (gateway, maskLen). -/
def inSubnet (c : Conf) (ip : Nat) : Bool := ip / shiftOf c == c.gw / shiftOf c

/-- `ipRange.offset`. -/
def offset (c : Conf) (ip : Nat) : Option Nat :=
  if c.start ≤ ip ∧ ip ≤ c.stop then some (ip - c.start) else none

/-- `V4ServerConf.Validate` as the code decides today (accept = `true`):
`newIPRange` wants start < end; the gateway must not lie in the INCLUSIVE range
start … end; range start and range end must lie in the gateway's subnet.  (The
addresses themselves are valid IPv4 addresses by construction of `Conf`.) -/
def validate (c : Conf) : Bool :=
  decide (c.start < c.stop) && !(decide (c.start ≤ c.gw) && decide (c.gw ≤ c.stop)) &&
  inSubnet c c.start && inSubnet c c.stop

def setFn {α β : Type} [DecidableEq α] (f : α → β) (k : α) (v : β) : α → β :=
  fun x => if x = k then v else f x

def State.setHost (s : State) (h : Bytes) (id : Nat) : State :=
  { s with hosts := setFn s.hosts h (some id), hostKeys := h :: s.hostKeys }
def State.delHost (s : State) (h : Bytes) : State := { s with hosts := setFn s.hosts h none }
def State.setIP (s : State) (ip id : Nat) : State :=
  { s with ips := setFn s.ips ip (some id), ipKeys := ip :: s.ipKeys }
def State.delIP (s : State) (ip : Nat) : State := { s with ips := setFn s.ips ip none }

/-- Follow a `*Lease`. -/
def State.deref (s : State) (id : Nat) : Option Lease := (s.leases ++ s.dead).find? (fun l => l.id == id)

def natDigits (n : Nat) : Bytes := (Nat.repr n).toList.map Char.toNat

/-- `aghnet.GenerateHostname` for an IPv4 address: `a-b-c-d`. -/
def genHost (ip : Nat) : Bytes :=
  natDigits (ip / 16777216 % 256) ++ 45 :: natDigits (ip / 65536 % 256) ++ 45 ::
  natDigits (ip / 256 % 256) ++ 45 :: natDigits (ip % 256)

/-- `validHostnameForClient`. -/
def validHost (O : Oracle) (cli : Bytes) (ip : Nat) : Bytes :=
  let h := (O.norm cli).getD []
  let h := if h = [] then genHost ip else h
  if O.valid h then h else []

def Lease.toDisk (l : Lease) : DLease :=
  { mac := l.mac, ip := l.ip, host := l.host, static := l.static, exp := if l.static then 0 else l.exp }

/-- `strings.Compare(a, b) < 0`. -/
def bytesLt : Bytes → Bytes → Bool
  | [], [] => false
  | [], _ :: _ => true
  | _ :: _, [] => false
  | a :: as, b :: bs => if a < b then true else if b < a then false else bytesLt as bs

/-- Insert behind every element that is not greater (stable insertion sort step). -/
def insertByHost (x : DLease) : List DLease → List DLease
  | [] => [x]
  | y :: ys => if bytesLt x.host y.host then x :: y :: ys else y :: insertByHost x ys

def sortByHost (l : List DLease) : List DLease := l.foldl (fun acc x => insertByHost x acc) []

/-- `dbStore` + `writeDB`. -/
def State.store (s : State) : State := { s with disk := some (sortByHost (s.leases.map Lease.toDisk)) }

/-! ### table primitives -/

def lastId (ls : List Lease) : List Nat := match ls.getLast? with | some l => [l.id] | none => []

/-- Everything `rmLeaseByIndex` does except shrinking the slice: the removed
object becomes unreachable from the list, its bit, hostname and address entries
are dropped (by KEY, whatever they point to). -/
def rmSide (c : Conf) (l : Lease) (before : List Lease) (s : State) : State :=
  let s := { s with dead := l :: s.dead, stale := lastId before ++ s.stale,
                    bits := match offset c l.ip with
                      | some o => setFn s.bits o false
                      | none => s.bits }
  (s.delHost l.host).delIP l.ip

/-- `rmLeaseByIndex(i)`. -/
def rmAt (c : Conf) (i : Nat) (s : State) : State :=
  match s.leases[i]? with
  | none => s
  | some l => { rmSide c l s.leases s with leases := s.leases.eraseIdx i }

/-- The loop of `rmDynamicLease`: `pre = s.leases[:i]`, `todo = s.leases[i:]`.
The flag is `true` for "static lease already exists"; the removals made before
the error stay.  A dynamic lease of another client that carries the hostname of
the new lease loses it, together with its index entry. -/
def rmDynLoop (c : Conf) (mac : Bytes) (ip : Nat) (host : Bytes) :
    List Lease → List Lease → State → State × Bool
  | pre, [], s => ({ s with leases := pre }, false)
  | pre, l :: rest, s =>
    if l.mac == mac || l.ip == ip then
      if l.static then ({ s with leases := pre ++ l :: rest }, true)
      else rmDynLoop c mac ip host pre rest (rmSide c l (pre ++ l :: rest) s)
    else if !l.static && l.host == host then
      -- the hostname goes to the new lease; the index entry goes with it if it is this lease's
      let s := if l.host ≠ [] ∧ s.hosts l.host = some l.id then s.delHost l.host else s
      rmDynLoop c mac ip host (pre ++ [{ l with host := [] }]) rest s
    else rmDynLoop c mac ip host (pre ++ [l]) rest s

def rmDynamicLease (c : Conf) (mac : Bytes) (ip : Nat) (host : Bytes) (s : State) : State × Bool :=
  rmDynLoop c mac ip host [] s.leases s

inductive AddErr | subnet | range | dupHost
deriving DecidableEq, Repr

/-- The effect of a successful `addLease`: hostname entry (if named), address
entry, append, bit (only for an address inside the pool). -/
def addLeaseOK (c : Conf) (l : Lease) (s : State) : State :=
  { s with
    leases := s.leases ++ [l]
    hosts := if l.host ≠ [] then setFn s.hosts l.host (some l.id) else s.hosts
    hostKeys := if l.host ≠ [] then l.host :: s.hostKeys else s.hostKeys
    ips := setFn s.ips l.ip (some l.id)
    ipKeys := l.ip :: s.ipKeys
    bits := match offset c l.ip with
      | some o => setFn s.bits o true
      | none => s.bits }

/-- `addLease`; an error leaves the state unchanged. -/
def addLease (c : Conf) (l : Lease) (s : State) : Except AddErr State :=
  if l.static && !inSubnet c l.ip then .error .subnet
  else if !l.static && (offset c l.ip).isNone then .error .range
  else if l.host ≠ [] ∧ (s.hosts l.host).isSome then .error .dupHost
  else .ok (addLeaseOK c l s)

inductive RmErr | different | notFound
deriving DecidableEq, Repr

def findIdxIP (ip : Nat) : List Lease → Nat → Option (Nat × Lease)
  | [], _ => none
  | l :: rest, i => if l.ip == ip then some (i, l) else findIdxIP ip rest (i + 1)

/-- `rmLease`. -/
def rmLease (c : Conf) (mac : Bytes) (ip : Nat) (host : Bytes) (s : State) : Except RmErr State :=
  if s.leases.isEmpty then .ok s
  else match findIdxIP ip s.leases 0 with
    | none => .error .notFound
    | some (i, l) => if l.mac != mac || l.host != host then .error .different else .ok (rmAt c i s)

/-- `findLease`. -/
def findLease (mac : Bytes) (s : State) : Option Lease := s.leases.find? (fun l => l.mac == mac)

/-- First clear bit among the offsets `o, o+1, …, o+n-1` (`ipRange.find` in `nextIP`). -/
def firstClear (bits : Nat → Bool) : Nat → Nat → Option Nat
  | 0, _ => none
  | n + 1, o => if bits o then firstClear bits n (o + 1) else some o

def nextIP (c : Conf) (s : State) : Option Nat :=
  (firstClear s.bits (c.stop + 1 - c.start) 0).map (c.start + ·)

/-- `findExpiredLease`. -/
def findExpired (now : Nat) : List Lease → Option Lease
  | [] => none
  | l :: rest => if !l.static && l.exp < now then some l else findExpired now rest

def mapId (id : Nat) (f : Lease → Lease) (ls : List Lease) : List Lease :=
  ls.map (fun l => if l.id = id then f l else l)

/-- Mutate the object `id` of the list in place. -/
def State.update (s : State) (id : Nat) (f : Lease → Lease) : State := { s with leases := mapId id f s.leases }

def State.fresh (s : State) : Nat × State := (s.nextId, { s with nextId := s.nextId + 1 })

/-- `allocateLease` with `addrAvailable = true`, i.e. `reserveLease`.  The
lease is returned as it is right after the call (the caller reads its address
and hostname before changing it).  `none`: error; `some none`: no address left. -/
def allocateLease (c : Conf) (mac : Bytes) (s : State) : State × Option (Option Lease) :=
  match nextIP c s with
  | none =>
    match findExpired s.now s.leases with
    | none => (s, some none)
    | some l =>
      -- `s.leases[i].HWAddr = slices.Clone(mac)`
      (s.update l.id (fun x => { x with mac := mac }), some (some { l with mac := mac }))
  | some ip =>
    let l : Lease := { id := s.nextId, mac := mac, ip := ip, host := [], static := false, exp := 0 }
    match addLease c l s.fresh.2 with
    | .error _ => (s.fresh.2, none)
    | .ok s' => (s', some (some l))

/-! ### replies -/

structure Reply where
  /-- result of `handle`: 1 reply, 0 NAK, -1 drop (as `Int`). -/
  rc : Int
  /-- message type of the reply after `packetHandler`: 0 none, 2 OFFER, 5 ACK, 6 NAK. -/
  typ : Nat
  yi : Nat
  /-- error class of the static-lease API. -/
  err : String
deriving DecidableEq, Repr

def Reply.drop : Reply := { rc := -1, typ := 0, yi := 0, err := "ok" }
def Reply.nak : Reply := { rc := 0, typ := 6, yi := 0, err := "ok" }
def Reply.api (e : String) : Reply := { rc := 1, typ := 0, yi := 0, err := e }

inductive Op
  | discover (mac : Bytes)
  | request (mac : Bytes) (sid : Nat) (reqPresent : Bool) (reqIP : Nat) (ciaddr : Nat) (host : Bytes)
  | decline (mac : Bytes) (reqPresent : Bool) (reqIP : Nat) (ciaddr : Nat)
  | release (mac : Bytes) (reqPresent : Bool) (reqIP : Nat) (ciaddr : Nat)
  | addStatic (mac : Bytes) (ip : Nat) (host : Bytes)
  | updStatic (mac : Bytes) (ip : Nat) (host : Bytes)
  | rmStatic (mac : Bytes) (ip : Nat) (host : Bytes)
  | sleep (d : Nat)
  | restart
  /-- `POST /control/dhcp/reset_leases`: `server.resetLeases` on the RUNNING server. -/
  | resetLeases
  /-- Not an operation of the server: `writeDB` sorts the records by hostname with
  `slices.SortFunc`, which is not stable (beyond 12 records): the file may hold ANY
  permutation of the table that is sorted by hostname.  `reorder d` replaces the
  order of the file by such a `d`; histories may contain it anywhere. -/
  | reorder (d : List DLease)
deriving DecidableEq, Repr

/-- `netutil.ValidateMAC`. -/
def validMAC (mac : Bytes) : Bool := mac.length == 6 || mac.length == 8 || mac.length == 20

/-! ### DHCP messages -/

/-- `handleDiscover`; the database is stored on every path (deferred notify). -/
def handleDiscover (c : Conf) (mac : Bytes) (s : State) : State × Reply :=
  match findLease mac s with
  | some l => (s.store, { rc := 1, typ := 2, yi := l.ip, err := "ok" })
  | none =>
    match allocateLease c mac s with
    | (s, none) => (s.store, Reply.nak)
    | (s, some none) => (s.store, Reply.nak)
    | (s, some (some l)) => (s.store, { rc := 1, typ := 2, yi := l.ip, err := "ok" })

/-- `checkLease`: the first lease of the MAC; `(none, true)` is the mismatch. -/
def checkLease (mac : Bytes) (ip : Nat) (s : State) : Option Lease × Bool :=
  match findLease mac s with
  | none => (none, false)
  | some l => if l.ip == ip then (some l, false) else (none, true)

/-- `handleByRequestType` (selecting / init-reboot / renew): lease and `needsReply`. -/
def handleByRequestType (c : Conf) (mac : Bytes) (sid : Nat) (reqPresent : Bool) (reqIP ciaddr : Nat) (s : State) :
    Option Lease × Bool :=
  if sid ≠ 0 then
    -- handleSelecting
    if sid ≠ c.sid then (none, false)
    else if ciaddr ≠ 0 then (none, false)
    else if !reqPresent then (none, false)
    else match checkLease mac reqIP s with
      | (_, true) => (none, true)
      | (l, false) => (l, true)
  else if reqPresent && reqIP ≠ 0 then
    -- handleInitReboot
    if ciaddr ≠ 0 then (none, false)
    else if !inSubnet c reqIP then (none, true)
    else match checkLease mac reqIP s with
      | (_, true) => (none, true)
      | (none, false) => (none, false)
      | (some l, false) => (some l, true)
  else
    -- handleRenew
    if ciaddr = 0 then (none, false)
    else match checkLease mac ciaddr s with
      | (_, true) => (none, true)
      | (none, false) => (none, false)
      | (some l, false) => (some l, true)

/-- The hostname `commitLease` settles on: the client's (normalised, or the
generated one), unless the index already has it — then the generated name for a
fresh lease (NOT checked against the index), the previous name otherwise. -/
def commitName (O : Oracle) (c : Conf) (l : Lease) (hostname : Bytes) (s : State) : Bytes :=
  let hn := validHost O hostname l.ip
  if (s.hosts hn).isSome then
    if l.host = [] then
      -- with the repair of R3: a generated name another lease holds is not taken
      if c.fixR3 && (match s.hosts (genHost l.ip) with | some id => id != l.id | none => false) then []
      else genHost l.ip
    else l.host
  else hn

/-- Give the table lease `l` the hostname `hn` and the expiry `exp`: drop the
index entry of the previous name if it differs, enter the new name (both by
key).  The tail of `commitLease`, and of `handleDecline` for the replacement
lease (there the deletion is written before the assignment; they commute). -/
def renameLease (l : Lease) (hn : Bytes) (exp : Nat) (s : State) : State :=
  let s := s.update l.id (fun x => { x with host := hn, exp := exp })
  let s := if l.host ≠ [] ∧ l.host ≠ hn then s.delHost l.host else s
  if hn ≠ [] then s.setHost hn l.id else s

/-- `commitLease`. -/
def commitLease (O : Oracle) (c : Conf) (l : Lease) (hostname : Bytes) (s : State) : State :=
  (renameLease l (commitName O c l hostname s) (s.now + c.leaseTime) s).setIP l.ip l.id

/-- `handleRequest`. -/
def handleRequest (O : Oracle) (c : Conf) (mac : Bytes) (sid : Nat) (reqPresent : Bool) (reqIP ciaddr : Nat)
    (hostname : Bytes) (s : State) : State × Reply :=
  match handleByRequestType c mac sid reqPresent reqIP ciaddr s with
  | (none, true) => (s, Reply.nak)
  | (none, false) => (s, Reply.drop)
  | (some l, _) =>
    if l.static then (s.store, { rc := 1, typ := 5, yi := l.ip, err := "ok" })
    else ((commitLease O c l hostname s).store, { rc := 1, typ := 5, yi := l.ip, err := "ok" })

def msgIP (reqPresent : Bool) (reqIP ciaddr : Nat) : Nat := if reqPresent then reqIP else ciaddr

/-- `handleDecline` (after the repair of F7: one `addLease`, store after the change). -/
def handleDecline (c : Conf) (mac : Bytes) (reqPresent : Bool) (reqIP ciaddr : Nat) (s : State) : State × Reply :=
  let ip := msgIP reqPresent reqIP ciaddr
  match s.leases.find? (fun l => l.mac == mac && l.ip == ip) with
  | none => (s.store, { rc := 1, typ := 0, yi := 0, err := "ok" })
  | some old =>
    match rmDynamicLease c old.mac old.ip old.host s with
    | (s, true) => (s.store, Reply.nak)
    | (s, false) =>
      match allocateLease c mac s with
      | (s, none) => (s.store, Reply.nak)
      | (s, some none) => (s.store, { rc := 1, typ := 5, yi := 0, err := "ok" })
      | (s, some (some nl)) =>
        ((renameLease nl old.host (s.now + c.leaseTime) s).store, { rc := 1, typ := 5, yi := nl.ip, err := "ok" })

/-- The `for _, l := range s.leases` of `handleRelease`: the slice header is
evaluated once, so slot `k` of the backing array (`leases ++ stale`) is read
after the removals of the earlier iterations.  `n` slots remain, `k` is next. -/
def releaseLoop (c : Conf) (mac : Bytes) (ip : Nat) : Nat → Nat → State → State × Bool
  | 0, _, s => (s, false)
  | n + 1, k, s =>
    match (s.leases.map (·.id) ++ s.stale)[k]? with
    | none => releaseLoop c mac ip n (k + 1) s
    | some id =>
      match s.deref id with
      | none => releaseLoop c mac ip n (k + 1) s
      | some l =>
        if l.mac != mac || l.ip != ip then releaseLoop c mac ip n (k + 1) s
        else match rmDynamicLease c l.mac l.ip l.host s with
          | (s, true) => (s, true)
          | (s, false) => releaseLoop c mac ip n (k + 1) s

/-- `handleRelease`. -/
def handleRelease (c : Conf) (mac : Bytes) (reqPresent : Bool) (reqIP ciaddr : Nat) (s : State) : State × Reply :=
  let ip := msgIP reqPresent reqIP ciaddr
  match releaseLoop c mac ip s.leases.length 0 { s with stale := [] } with
  | (s, true) => (s.store, Reply.nak)
  | (s, false) => (s.store, { rc := 1, typ := 5, yi := 0, err := "ok" })

/-! ### static-lease API -/

def addErrName : AddErr → String
  | .subnet => "subnet" | .range => "range" | .dupHost => "dupHost"

/-- The hostname check of `AddStaticLease`: empty stays empty, otherwise it
must normalise to a valid name (`none` = error). -/
def staticHost (O : Oracle) (rawHost : Bytes) : Option Bytes :=
  if rawHost = [] then some []
  else match O.norm rawHost with
    | none => none
    | some h => if O.valid h then some h else none

/-- `updateStaticLease` (`rmDynamicLease`, `addLease`) with the notifications of
`AddStaticLease`: an error of `updateStaticLease` (possibly after
`rmDynamicLease` has changed the table) stores the database too. -/
def addStaticCore (c : Conf) (mac : Bytes) (ip : Nat) (host : Bytes) (s : State) : State × Reply :=
  match rmDynamicLease c mac ip host s with
  | (s, true) => (s.store, Reply.api "staticExists")
  | (s, false) =>
    match addLease c { id := s.nextId, mac := mac, ip := ip, host := host, static := true, exp := 0 } s.fresh.2 with
    | .error e => (s.fresh.2.store, Reply.api (addErrName e))
    | .ok s => (s.store, Reply.api "ok")

/-- `AddStaticLease`. -/
def addStatic (O : Oracle) (c : Conf) (mac : Bytes) (ip : Nat) (rawHost : Bytes) (s : State) : State × Reply :=
  if ip = c.gw then (s, Reply.api "gateway")
  else if !validMAC mac then (s, Reply.api "badMAC")
  else match staticHost O rawHost with
    | none => (s, Reply.api "hostname")
    | some host => addStaticCore c mac ip host s

def macOfId (s : State) (id : Option Nat) : Option Bytes := (id.bind s.deref).map (·.mac)

/-- `dup, ok := index[key]; ok && !bytes.Equal(dup.HWAddr, mac)`. -/
def heldByOther (s : State) (id : Option Nat) (mac : Bytes) : Bool :=
  match macOfId s id with
  | some m => m != mac
  | none => false

/-- `validateStaticLease` after the hostname has been normalised (`none` = passes). -/
def updStaticCheck (O : Oracle) (c : Conf) (mac : Bytes) (ip : Nat) (host : Bytes) (s : State) : Option String :=
  if !O.valid host then some "hostname"
  else if heldByOther s (s.hosts host) mac then some "dupHost"
  else if heldByOther s (s.ips ip) mac then some "dupIP"
  else if ip = c.gw then some "gateway"
  else if !inSubnet c ip then some "subnet"
  else none

/-- The tail of `UpdateStaticLease`: `rmLease(found)`, `addLease(l)`; only
success stores the database. -/
def updStaticCore (c : Conf) (found : Lease) (mac : Bytes) (ip : Nat) (host : Bytes) (s : State) : State × Reply :=
  match rmLease c found.mac found.ip found.host s with
  | .error .different => (s, Reply.api "different")
  | .error .notFound => (s, Reply.api "notFound")
  | .ok s =>
    match addLease c { id := s.nextId, mac := mac, ip := ip, host := host, static := true, exp := 0 } s.fresh.2 with
    | .error e => (s.fresh.2, Reply.api (addErrName e))
    | .ok s => (s.store, Reply.api "ok")

/-- `UpdateStaticLease` (`findLease`, `validateStaticLease`, `rmLease`, `addLease`). -/
def updStatic (O : Oracle) (c : Conf) (mac : Bytes) (ip : Nat) (rawHost : Bytes) (s : State) : State × Reply :=
  match findLease mac s with
  | none => (s, Reply.api "notFound")
  | some found =>
    match O.norm rawHost with
    | none => (s, Reply.api "hostname")
    | some host =>
      match updStaticCheck O c mac ip host s with
      | some e => (s, Reply.api e)
      | none => updStaticCore c found mac ip host s

/-- `RemoveStaticLease`. -/
def rmStatic (c : Conf) (mac : Bytes) (ip : Nat) (rawHost : Bytes) (s : State) : State × Reply :=
  if !validMAC mac then (s, Reply.api "badMAC")
  else match rmLease c mac ip rawHost s with
    | .error .different => (s, Reply.api "different")
    | .error .notFound => (s, Reply.api "notFound")
    | .ok s => (s.store, Reply.api "ok")

/-! ### restart -/

/-- The hostname a record of the file gets in `ResetLeases`: a static lease
keeps it; a dynamic lease is re-validated (an empty name becomes the generated
one — R4 — unless the repair is in). -/
def loadHost (O : Oracle) (c : Conf) (d : DLease) : Bytes :=
  if d.static || (c.fixR4 && d.host == []) then d.host else validHost O d.host d.ip

/-- `toLease` + the hostname of `ResetLeases`, as a fresh object. -/
def loadLease (O : Oracle) (c : Conf) (d : DLease) (id : Nat) : Lease :=
  { id := id, mac := d.mac, ip := d.ip, host := loadHost O c d, static := d.static, exp := d.exp }

/-- `ResetLeases` over the records of the file, in file order; a record that
`addLease` rejects is skipped. -/
def resetLoop (O : Oracle) (c : Conf) : List DLease → State → State
  | [], s => s
  | d :: rest, s =>
    match addLease c (loadLease O c d s.nextId) s.fresh.2 with
    | .error _ => resetLoop O c rest s.fresh.2
    | .ok s' => resetLoop O c rest s'

/-- A new process: `v4Create` + `dbLoad` of what is on disk. -/
def restart (O : Oracle) (c : Conf) (s : State) : State :=
  let s0 : State := { State.init with nextId := s.nextId, now := s.now, disk := s.disk }
  match s.disk with
  | none => s0
  | some d => resetLoop O c d s0

/-! ### one step -/

/-- Non-decreasing hostnames (`strings.Compare`). -/
def sortedByHost : List DLease → Bool
  | [] => true
  | [_] => true
  | a :: b :: r => !bytesLt b.host a.host && sortedByHost (b :: r)

/-- Another order `writeDB` may have produced for the same records. -/
def reorderDisk (d : List DLease) (s : State) : State :=
  match s.disk with
  | some d0 => if d.isPerm d0 && sortedByHost d then { s with disk := some d } else s
  | none => s

/-- `server.resetLeases`: `ResetLeases(nil)` on the live server — empty table,
fresh indexes, fresh bitset — then `dbStore`. -/
def resetAll (s : State) : State :=
  ({ State.init with nextId := s.nextId, now := s.now, disk := s.disk }).store

def step (O : Oracle) (c : Conf) (s : State) (op : Op) : State × Reply :=
  let s := { s with stale := [] }
  match op with
  | .discover mac => if !validMAC mac then (s, Reply.drop) else handleDiscover c mac s
  | .request mac sid rp rip ci h => if !validMAC mac then (s, Reply.drop) else handleRequest O c mac sid rp rip ci h s
  | .decline mac rp rip ci => if !validMAC mac then (s, Reply.drop) else handleDecline c mac rp rip ci s
  | .release mac rp rip ci => if !validMAC mac then (s, Reply.drop) else handleRelease c mac rp rip ci s
  | .addStatic mac ip h => addStatic O c mac ip h s
  | .updStatic mac ip h => updStatic O c mac ip h s
  | .rmStatic mac ip h => rmStatic c mac ip h s
  | .sleep d => ({ s with now := s.now + d }, Reply.api "ok")
  | .restart => (restart O c s, Reply.api "ok")
  | .resetLeases => (resetAll s, Reply.api "ok")
  | .reorder d => (reorderDisk d s, Reply.api "ok")

def run (O : Oracle) (c : Conf) : State → List Op → State
  | s, [] => s
  | s, op :: rest => run O c (step O c s op).1 rest

end AGH.C10
