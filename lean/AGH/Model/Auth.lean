/-
C12 model: login throttling (internal/home/authratelimiter.go,
authhttp.go handleLogin/newCookie) and web sessions (auth.go addSession,
checkSession, removeSession, loadSessions; home.go initUsers).

Go maps are total functions `Nat → Option β` (addresses and session tokens
are numbered; a fresh token is a fresh number — collisions of crypto/rand
tokens are not modelled).  Time is Unix time in nanoseconds; sessions use
`uint32(now.Unix())`, kept as naturals modulo 2^32.  `evals` is a ghost
counter of password evaluations (`findUser` calls).  Core Lean only.
-/
namespace AGH.C12

abbrev FMap (β : Type) := Nat → Option β

def FMap.empty {β} : FMap β := fun _ => none
def FMap.set {β} (m : FMap β) (k : Nat) (v : β) : FMap β := fun k' => if k' = k then some v else m k'
def FMap.erase {β} (m : FMap β) (k : Nat) : FMap β := fun k' => if k' = k then none else m k'

def nsPerSec : Nat := 1000000000
/-- failedAuthTTL = 1 minute -/
def failedAuthTTL : Nat := 60 * nsPerSec
def u32 : Nat := 4294967296
def daySec : Nat := 86400

/-! ### authRateLimiter -/

/-- failedAuth -/
structure Rec where
  untl : Nat
  num : Nat
  deriving DecidableEq, Repr

structure Limiter where
  recs : FMap Rec
  blockDur : Nat
  max : Nat

/-- cleanupLocked: delete every record with `now.After(v.until)` -/
def cleanup (now : Nat) (recs : FMap Rec) : FMap Rec :=
  fun k => (recs k).filter (fun r => !decide (now > r.untl))

/-- checkLocked: time left until unblocking (0 = not blocked; the Go value is
never negative after the cleanup, and only `left > 0` matters) -/
def checkLocked (l : Limiter) (addr now : Nat) : Nat :=
  match l.recs addr with
  | none => 0
  | some a => if a.num < l.max then 0 else a.untl - now

/-- check = cleanupLocked; checkLocked -/
def Limiter.check (l : Limiter) (addr now : Nat) : Nat × Limiter :=
  let l' := { l with recs := cleanup now l.recs }
  (checkLocked l' addr now, l')

/-- incLocked -/
def Limiter.inc (l : Limiter) (addr now : Nat) : Limiter :=
  let (unt, attNum) := match l.recs addr with
    | some a => (a.untl, a.num + 1)
    | none => (now + failedAuthTTL, 1)
  let unt := if attNum ≥ l.max then now + l.blockDur else unt
  { l with recs := l.recs.set addr ⟨unt, attNum⟩ }

/-- remove -/
def Limiter.remove (l : Limiter) (addr : Nat) : Limiter := { l with recs := l.recs.erase addr }

/-! ### sessions -/

structure Sess where
  user : Nat
  /-- uint32 -/
  expire : Nat
  deriving DecidableEq, Repr

structure St where
  /-- `nil` when auth_attempts or block_auth_min is 0 -/
  rl : Option Limiter
  /-- Auth.sessions -/
  mem : FMap Sess
  /-- bucket "sessions-2" of sessions.db -/
  db : FMap Sess
  /-- sessionTTL (uint32 seconds) -/
  ttl : Nat
  /-- number of tokens issued so far = the next fresh token -/
  nextTok : Nat
  /-- ghost: number of password evaluations -/
  evals : Nat

/-- initUsers with an empty sessions.db -/
def St.init (maxAttempts blockMin ttl : Nat) : St :=
  { rl := if maxAttempts > 0 ∧ blockMin > 0 then some ⟨FMap.empty, blockMin * 60 * nsPerSec, maxAttempts⟩ else none,
    mem := FMap.empty, db := FMap.empty, ttl := ttl % u32, nextTok := 0, evals := 0 }

inductive LoginRes where
  /-- 429, Retry-After seconds -/
  | tooMany (retryAfter : Nat)
  /-- 403 -/
  | forbidden
  /-- 200 with a session cookie for the token -/
  | ok (tok : Nat)
  /-- HTTP Basic credentials accepted: the request is let through, no session -/
  | passed
  deriving DecidableEq, Repr

def now32 (now : Nat) : Nat := (now / nsPerSec) % u32

/-- newCookie after the rate-limiter gate: the password IS evaluated here. -/
def evalLogin (st : St) (rl : Option Limiter) (now addr : Nat) (good : Bool) (user : Nat) : LoginRes × St :=
  if good then
    let tok := st.nextTok
    let s : Sess := ⟨user, (now32 now + st.ttl) % u32⟩
    (.ok tok, { st with rl := rl.map (·.remove addr), mem := st.mem.set tok s, db := st.db.set tok s,
                        nextTok := tok + 1, evals := st.evals + 1 })
  else
    (.forbidden, { st with rl := rl.map (·.inc addr now), evals := st.evals + 1 })

/-- What handleLogin can see of where a login request comes from.  Addresses
are numbered (an address = one host string). -/
structure Req where
  /-- `netutil.SplitHost(r.RemoteAddr)`: the TCP peer -/
  peer : Nat
  /-- `realIP(r)`: the address named by CF-Connecting-IP / True-Client-IP /
  X-Real-IP / the leftmost X-Forwarded-For entry, in that order (oracle);
  `none` when no header yields an address (realIP then falls back to the peer) -/
  hdr : Option Nat
  /-- `auth.trustedProxies.Contains(realIP(r).Unmap())` (oracle) -/
  hdrTrusted : Bool
  deriving DecidableEq, Repr

/-- The key of `rateLimiter.check(remoteIP)` in handleLogin: the TCP peer.
("realIP cannot be used here without taking TrustedProxies into account",
issue 2799: the headers only choose the address written to the log.) -/
def checkAddr (r : Req) : Nat := r.peer

/-- The key of `newCookie(req, remoteIP)`, i.e. of `inc` on a failure and of
`remove` on a success: the TCP peer as well. -/
def countAddr (r : Req) : Nat := r.peer

/-- handleLogin: check → (evaluate) → inc / remove, with the key of the
gate (`chk`) and the key of the count (`cnt`) kept apart. -/
def loginAt (st : St) (now chk cnt : Nat) (good : Bool) (user : Nat) : LoginRes × St :=
  match st.rl with
  | none => evalLogin st none now cnt good user
  | some l =>
    let (left, l') := l.check chk now
    if left > 0 then (.tooMany (left / nsPerSec), { st with rl := some l' })
    else evalLogin st (some l') now cnt good user

/-- handleLogin on a request -/
def handleLogin (st : St) (now : Nat) (r : Req) (good : Bool) (user : Nat) : LoginRes × St :=
  loginAt st now (checkAddr r) (countAddr r) good user

/-- handleLogin when gate and count use one address -/
def login (st : St) (now addr : Nat) (good : Bool) (user : Nat) : LoginRes × St :=
  match st.rl with
  | none => evalLogin st none now addr good user
  | some l =>
    let (left, l') := l.check addr now
    if left > 0 then (.tooMany (left / nsPerSec), { st with rl := some l' })
    else evalLogin st (some l') now addr good user

inductive CheckRes where
  | ok | notFound | expired
  deriving DecidableEq, Repr

/-- checkSession -/
def checkSession (st : St) (now tok : Nat) : CheckRes × St :=
  match st.mem tok with
  | none => (.notFound, st)
  | some s =>
    if s.expire ≤ now32 now then
      (.expired, { st with mem := st.mem.erase tok, db := st.db.erase tok })
    else
      let newExpire := (now32 now + st.ttl) % u32
      if s.expire / daySec ≠ newExpire / daySec then
        let s' : Sess := { s with expire := newExpire }
        (.ok, { st with mem := st.mem.set tok s', db := st.db.set tok s' })
      else (.ok, st)

/-- removeSession (handleLogout) -/
def logout (st : St) (tok : Nat) : St :=
  { st with mem := st.mem.erase tok, db := st.db.erase tok }

/-- Close + initUsers on the same sessions.db: a new rate limiter, sessions
reloaded from the file, expired ones deleted from it. -/
def restart (st : St) (now : Nat) : St :=
  let live : FMap Sess := fun k => (st.db k).filter (fun s => !decide (s.expire ≤ now32 now))
  { st with rl := st.rl.map (fun l => { l with recs := FMap.empty }), mem := live, db := live }


/-- `n` failed logins at one instant from `n` addresses never seen before
(`base ≤ k < base + n`), as far as the limiter is concerned: each is asked
about (cleanup; not blocked, being fresh) and counted once.  The table is an
unbounded finite map: nothing is ever evicted to make room. -/
def Limiter.flood (l : Limiter) (now base n : Nat) : Limiter :=
  let unt := if 1 ≥ l.max then now + l.blockDur else now + failedAuthTTL
  { l with recs := fun k =>
      if base ≤ k ∧ k < base + n then some ⟨unt, 1⟩ else cleanup now l.recs k }

def flood (st : St) (now base n : Nat) : St := { st with rl := st.rl.map (fun l => if n = 0 then l else l.flood now base n) }

/-! ### handleLogin is two steps; N logins at once

A login request first asks the limiter (`check`), then evaluates the password
and counts the failure / clears the count (`newCookie`).  Every handler of a
modifying method, POST /control/login included, runs under
`globalContext.controlLock` (control.go `ensure`), taken before the first and
released after the second step. -/

/-- step 1: `rateLimiter.check`; `some` = answered 429 right away -/
def login1 (st : St) (now : Nat) (r : Req) : Option LoginRes × St :=
  match st.rl with
  | none => (none, st)
  | some l =>
    let (left, l') := l.check (checkAddr r) now
    if left > 0 then (some (.tooMany (left / nsPerSec)), { st with rl := some l' })
    else (none, { st with rl := some l' })

/-- step 2: `newCookie` -/
def login2 (st : St) (now : Nat) (r : Req) (good : Bool) (user : Nat) : LoginRes × St :=
  evalLogin st st.rl now (countAddr r) good user

structure Job where
  req : Req
  good : Bool
  user : Nat
  deriving Repr

/-- N login requests in flight at one instant. -/
structure Conc where
  st : St
  /-- who holds controlLock -/
  holder : Option Nat
  /-- per request: 0 not started, 1 between the two steps, 2 answered -/
  pc : Nat → Nat
  res : Nat → Option LoginRes
  /-- ghost: the requests in the order in which their handlers started -/
  order : List Nat

def Conc.init (st : St) : Conc := ⟨st, none, fun _ => 0, fun _ => none, []⟩

/-- request `i` makes its next step if it can (`lock`: handlers run under
controlLock) -/
def stepT (lock : Bool) (now : Nat) (job : Nat → Job) (c : Conc) (i : Nat) : Conc :=
  if c.pc i = 0 then
    if lock && c.holder.isSome then c
    else
      match login1 c.st now (job i).req with
      | (some r, st') =>
        { c with st := st', pc := fun k => if k = i then 2 else c.pc k,
                 res := fun k => if k = i then some r else c.res k, order := c.order ++ [i] }
      | (none, st') =>
        { c with st := st', holder := if lock then some i else c.holder,
                 pc := fun k => if k = i then 1 else c.pc k, order := c.order ++ [i] }
  else if c.pc i = 1 then
    let r := login2 c.st now (job i).req (job i).good (job i).user
    { c with st := r.2, holder := if lock then none else c.holder,
             pc := fun k => if k = i then 2 else c.pc k,
             res := fun k => if k = i then some r.1 else c.res k }
  else c

/-- the same requests one after the other -/
def seqLogins (now : Nat) (job : Nat → Job) (st : St) (order : List Nat) : St × (Nat → Option LoginRes) :=
  order.foldl (fun acc i =>
    let r := handleLogin acc.1 now (job i).req (job i).good (job i).user
    (r.2, fun k => if k = i then some r.1 else acc.2 k)) (st, fun _ => none)

/-! ### removeSession is two steps

`removeSession` first deletes the map entry under `a.lock`, releases the lock,
and then deletes the entry from sessions.db.  Other goroutines (each
`checkSession` is atomic: it holds `a.lock` throughout, file write included)
can run between the two steps. -/

def logoutMem (st : St) (tok : Nat) : St := { st with mem := st.mem.erase tok }
def logoutFile (st : St) (tok : Nat) : St := { st with db := st.db.erase tok }

inductive LogoutOrder where
  /-- the order of the source: map entry first, file entry second -/
  | memFirst
  | fileFirst
  deriving DecidableEq, Repr

def logoutStep1 : LogoutOrder → St → Nat → St
  | .memFirst, st, tok => logoutMem st tok
  | .fileFirst, st, tok => logoutFile st tok

def logoutStep2 : LogoutOrder → St → Nat → St
  | .memFirst, st, tok => logoutFile st tok
  | .fileFirst, st, tok => logoutMem st tok

/-- A logout racing with ONE request carrying the same cookie that runs
between its two steps: the request's verdict and the state afterwards. -/
def logoutRace (o : LogoutOrder) (st : St) (now tok : Nat) : Bool × St :=
  let r := checkSession (logoutStep1 o st tok) now tok
  (r.1 == .ok, logoutStep2 o r.2 tok)

/-! ### fallible writes to sessions.db

`dbOK = false`: the write transaction cannot be made (`db.Begin(true)` or
`Commit` fails: I/O error, full disk, read-only file system).  storeSession
then returns false and removeSessionFromFile returns after logging — the
in-memory map has already been changed.  `dbOK = true` is the model above. -/

def evalLoginF (st : St) (rl : Option Limiter) (now addr : Nat) (good : Bool) (user : Nat) (dbOK : Bool) :
    LoginRes × St :=
  if good then
    let tok := st.nextTok
    let s : Sess := ⟨user, (now32 now + st.ttl) % u32⟩
    (.ok tok, { st with rl := rl.map (·.remove addr), mem := st.mem.set tok s,
                        db := if dbOK then st.db.set tok s else st.db,
                        nextTok := tok + 1, evals := st.evals + 1 })
  else
    (.forbidden, { st with rl := rl.map (·.inc addr now), evals := st.evals + 1 })

def handleLoginF (st : St) (now : Nat) (r : Req) (good : Bool) (user : Nat) (dbOK : Bool) : LoginRes × St :=
  match st.rl with
  | none => evalLoginF st none now (countAddr r) good user dbOK
  | some l =>
    let (left, l') := l.check (checkAddr r) now
    if left > 0 then (.tooMany (left / nsPerSec), { st with rl := some l' })
    else evalLoginF st (some l') now (countAddr r) good user dbOK

def checkSessionF (st : St) (now tok : Nat) (dbOK : Bool) : CheckRes × St :=
  match st.mem tok with
  | none => (.notFound, st)
  | some s =>
    if s.expire ≤ now32 now then
      (.expired, { st with mem := st.mem.erase tok, db := if dbOK then st.db.erase tok else st.db })
    else
      let newExpire := (now32 now + st.ttl) % u32
      if s.expire / daySec ≠ newExpire / daySec then
        let s' : Sess := { s with expire := newExpire }
        (.ok, { st with mem := st.mem.set tok s', db := if dbOK then st.db.set tok s' else st.db })
      else (.ok, st)

def logoutF (st : St) (tok : Nat) (dbOK : Bool) : St :=
  { st with mem := st.mem.erase tok, db := if dbOK then st.db.erase tok else st.db }


/-- optionalAuthThird without a session cookie: HTTP Basic credentials.
`fixB = false` (tree without /verif/fixes/c12/basic_auth_throttle.patch):
`findUser` directly — evaluated, not gated by the limiter, a failure is not
counted.  `fixB = true` (checkBasicAuth of the patch): the same gate and
bookkeeping as handleLogin/newCookie, keyed by the TCP peer, no session. -/
def basicAuthX (fixB : Bool) (st : St) (now : Nat) (r : Req) (good : Bool) : LoginRes × St :=
  if !fixB then ((if good then .passed else .forbidden), { st with evals := st.evals + 1 })
  else
    match st.rl with
    | none => ((if good then .passed else .forbidden), { st with evals := st.evals + 1 })
    | some l =>
      let (left, l') := l.check (checkAddr r) now
      if left > 0 then (.tooMany (left / nsPerSec), { st with rl := some l' })
      else if good then (.passed, { st with rl := some (l'.remove (countAddr r)), evals := st.evals + 1 })
      else (.forbidden, { st with rl := some (l'.inc (countAddr r) now), evals := st.evals + 1 })

/-! ### code level switch: the proposed repair of the uint32 horizon

/verif/fixes/c12/session_expiry_serial_compare.patch replaces `s.expire <= now`
in checkSession and loadSessions by the serial-number comparison
`left := expire - now (mod 2^32); left == 0 || left > ttl`.  `fix = false` is the
code of the unchanged tree (the functions above). -/

/-- `sessionExpired(expire, now, ttl)` of the patch / `expire <= now` of the tree -/
def expiredAt (fix : Bool) (expire now32 ttl : Nat) : Bool :=
  if fix then
    let left := (expire + u32 - now32) % u32
    left == 0 || decide (left > ttl)
  else decide (expire ≤ now32)

def checkSessionFX (fix : Bool) (st : St) (now tok : Nat) (dbOK : Bool) : CheckRes × St :=
  match st.mem tok with
  | none => (.notFound, st)
  | some s =>
    if expiredAt fix s.expire (now32 now) st.ttl then
      (.expired, { st with mem := st.mem.erase tok, db := if dbOK then st.db.erase tok else st.db })
    else
      let newExpire := (now32 now + st.ttl) % u32
      if s.expire / daySec ≠ newExpire / daySec then
        let s' : Sess := { s with expire := newExpire }
        (.ok, { st with mem := st.mem.set tok s', db := if dbOK then st.db.set tok s' else st.db })
      else (.ok, st)

def restartX (fix : Bool) (st : St) (now : Nat) : St :=
  let live : FMap Sess := fun k => (st.db k).filter (fun s => !expiredAt fix s.expire (now32 now) st.ttl)
  { st with rl := st.rl.map (fun l => { l with recs := FMap.empty }), mem := live, db := live }

/-! ### the sessions.db record (session.serialize / deserialize) -/

def be (n : Nat) : Nat → List Nat
  | 0 => []
  | k + 1 => (n / 256 ^ k) % 256 :: be n k

def unbe : List Nat → Nat
  | [] => 0
  | b :: rest => b * 256 ^ rest.length + unbe rest

/-- serialize: expire (4 bytes BE), len(userName) (2 bytes BE), userName -/
def encodeSess (name : List Nat) (expire : Nat) : List Nat :=
  be expire 4 ++ be name.length 2 ++ name

/-- deserialize: at least 6 bytes, at least nameLen bytes of name; the name
is EVERYTHING after the sixth byte (quirk: trailing bytes become part of it) -/
def decodeSess (data : List Nat) : Option (List Nat × Nat) :=
  if data.length < 6 then none
  else
    let expire := unbe (data.take 4)
    let nameLen := unbe ((data.drop 4).take 2)
    let rest := data.drop 6
    if rest.length < nameLen then none else some (rest, expire)

end AGH.C12
