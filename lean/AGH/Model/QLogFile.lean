/-
C20 — executable model of `internal/querylog/qlogfile.go` and `qlogreader.go`
(reverse line reader + timestamp binary search + multi-file reader).

Transcription conventions
* A file is `File = (size, byte : Nat → Nat)`; `File.ofBytes b` is the file with
  content `b` (theorems), the driver backs `byte` by a `ByteArray`.  The file is
  immutable while a reader is open; `os.File.Read` on a regular file fills the
  buffer up to EOF and returns `(0, io.EOF)` at/after EOF; `Stat`/`Seek` do not
  fail.  I/O errors other than `io.EOF` are not modelled.
* The Go constants `maxEntrySize` (16 KiB) and `bufferSize` (100·maxEntrySize)
  are the parameters `P.maxEntry`, `P.bufSize` (the harness reports the real
  values on every `reset`).  The literal `100` of the depth guard is `maxDepth`.
* `q.buffer` is represented by `hasBuf` (`q.buffer != nil`), `bufStart`,
  `bufLen`: cell `i` of the Go buffer holds `file[bufStart+i]` for `i < bufLen`
  and `0` above (the buffer is zeroed by `make` after every `SeekStart`/`seekTS`
  and, because positions only decrease between those, a later `initBuffer`
  never reads fewer bytes than an earlier one — so no stale byte survives).
* A returned line is the pair `(lineIdx, stop)`: the Go string is
  `file[lineIdx, stop)`; `File.slice` materialises it.
* Go panics (index / slice bounds) are the explicit error `Err.panic`.
Core Lean only.
-/
import AGH.Model.Bytes
namespace AGH.C20
open AGH

structure File where
  size : Nat
  byte : Nat → Nat

def File.ofBytes (b : Bytes) : File := ⟨b.length, fun i => b.getD i 0⟩

/-- `string(file[a:b])`. -/
def File.slice (f : File) (a b : Nat) : Bytes := (List.range (b - a)).map (fun i => f.byte (a + i))

structure Params where
  maxEntry : Nat
  bufSize : Nat
deriving Repr, DecidableEq

/-- The Go constants of the unchanged tree. -/
def goParams : Params := ⟨16 * 1024, 100 * (16 * 1024)⟩

/-- The literal of `if depth >= 100`. -/
def maxDepth : Nat := 100

inductive Err
  | eof        -- io.EOF
  | tooEarly   -- errTSTooEarly
  | tooLate    -- errTSTooLate
  | notFound   -- errTSNotFound: the same line probed twice
  | depth      -- errTSNotFound wrapped by the `depth >= 100` guard
  | emptyTS    -- "record … has empty timestamp"
  | panic      -- Go runtime panic (index/slice out of range)
  | fuel       -- model artefact, unreachable (see `seekLoop`)
  | other      -- any other error class of the implementation (never produced by the model)
deriving Repr, DecidableEq

/-- State of one `qLogFile`. -/
structure QState where
  hasBuf : Bool := false
  position : Nat := 0
  bufStart : Nat := 0
  bufLen : Nat := 0
deriving Repr, DecidableEq

/-- Backward newline scan `for i := rel-1; i >= 0; i-- { if buf[i]=='\n' {start=i+1; break} }`
with `start := 0` when none is found. -/
def scanBack (g : Nat → Nat) : Nat → Nat
  | 0 => 0
  | i + 1 => if g i = 10 then i + 1 else scanBack g i

/-- Forward newline scan over `[i, i+n)`. -/
def scanFwd (g : Nat → Nat) (i : Nat) : Nat → Option Nat
  | 0 => none
  | n + 1 => if g i = 10 then some i else scanFwd g (i + 1) n

/-- `SeekStart`: `position = max(size-1, 0)`, buffer dropped. -/
def seekStart (f : File) (s : QState) : QState :=
  { s with hasBuf := false, position := f.size - 1 }

/-- `initBuffer`; the Bool is `err == nil` (false: `Read` returned `io.EOF`). -/
def initBuffer (P : Params) (f : File) (s : QState) (position : Nat) : QState × Bool :=
  let bs := if position > P.bufSize then position - P.bufSize else 0
  let n := min P.bufSize (f.size - bs)
  ({ s with hasBuf := true, bufStart := bs, bufLen := n }, n != 0)

/-- Cell `i` of `q.buffer`. -/
def bufByte (f : File) (s : QState) (i : Nat) : Nat :=
  if i < s.bufLen then f.byte (s.bufStart + i) else 0

/-- `readNextLine(position)` → `(lineIdx, position)`. -/
def readNextLine (P : Params) (f : File) (s : QState) (position : Nat) :
    QState × Except Err (Nat × Nat) :=
  -- relativePos := position - bufferStart (int64, may be negative);
  -- `relativePos < maxEntrySize`  ⇔  position < bufferStart + maxEntrySize
  let needInit := !s.hasBuf || (decide (position < s.bufStart + P.maxEntry) && s.bufStart != 0)
  let (s1, ok) := if needInit then initBuffer P f s position else (s, true)
  if !ok then (s1, .error .eof) else
  let rel := position - s1.bufStart
  -- q.buffer[i] with i ≥ len(q.buffer), q.buffer[startLine:relativePos] with relativePos > cap
  if rel > P.bufSize then (s1, .error .panic) else
  let startLine := scanBack (bufByte f s1) rel
  (s1, .ok (s1.bufStart + startLine, s1.bufStart + rel))

/-- `ReadNext`. -/
def readNext (P : Params) (f : File) (s : QState) : QState × Except Err (Nat × Nat) :=
  if s.position = 0 then (s, .error .eof) else
  match readNextLine P f s s.position with
  | (s1, .error e) => (s1, .error e)
  | (s1, .ok (lineIdx, stop)) =>
    ({ s1 with position := if lineIdx = 0 then 0 else lineIdx - 1 }, .ok (lineIdx, stop))

/-- The two scans of `readProbeLine` over the freshly read buffer `g` (cell `i` is
`g i`): `(lineIdx, stop, lineEndIdx)`. -/
def probeScan (g : Nat → Nat) (seekPos rel bufLen : Nat) : Except Err (Nat × Nat × Nat) :=
  let startLine := scanBack g rel
  let (endLine, lineEndIdx) :=
    match scanFwd g rel (bufLen - rel) with
    | some i => (i, i + seekPos + 1)
    | none => (bufLen, bufLen + seekPos)
  -- string(buffer[startLine:endLine])
  if startLine > endLine then .error .panic else
  .ok (startLine + seekPos, endLine + seekPos, lineEndIdx)

/-- The buffer of `readProbeLine`: `make([]byte, 2*maxEntrySize)` filled by one `Read`. -/
def probeWindow (f : File) (seekPos bufLen : Nat) : Nat → Nat :=
  fun i => if i < bufLen then f.byte (seekPos + i) else 0

/-- `readProbeLine(position)` → `(lineIdx, stop, lineEndIdx)`, the line is `file[lineIdx, stop)`. -/
def readProbeLine (P : Params) (f : File) (position : Nat) : Except Err (Nat × Nat × Nat) :=
  let seekPos := if position > P.maxEntry then position - P.maxEntry else 0
  let rel := if position > P.maxEntry then P.maxEntry else position
  let bufLen := min (2 * P.maxEntry) (f.size - seekPos)
  if bufLen = 0 then .error .eof else       -- Read: (0, io.EOF)
  probeScan (probeWindow f seekPos bufLen) seekPos rel bufLen

/-- `validateQLogLineIdx`; `last = none` is `lastProbeLineIdx = -1`. -/
def validateIdx (lineIdx : Nat) (last : Option Nat) (fSize : Nat) : Option Err :=
  if last = some lineIdx then
    (if lineIdx = 0 then some .tooEarly else some .notFound)
  else if lineIdx = fSize then some .tooLate
  else none

/-- `start + (end-start)/2` as Go computes it in `int64` (division truncates toward
zero), for non-negative operands: on arbitrary content `end` may drop below
`start` (a probe line that begins before `start`), and then the probe moves
left of `start`. -/
def midpoint (start «end» : Nat) : Nat :=
  if start ≤ «end» then start + («end» - start) / 2 else start - (start - «end») / 2

/-- The `for` loop of `seekTS`.  `tsOf` is `readQLogTimestamp`.  The loop runs at
most `maxDepth` times because of its own guard, so `fuel = maxDepth` is never
exhausted (`seekLoop_ne_fuel`).  Result `(lineIdx, stop, depth)`. -/
def seekLoop (P : Params) (f : File) (tsOf : Bytes → Int) (target : Int) :
    Nat → Nat → Nat → Nat → Option Nat → Nat → Except Err (Nat × Nat × Nat)
  | 0, _, _, _, _, _ => .error .fuel
  | fuel + 1, start, «end», probe, last, depth =>
    match readProbeLine P f probe with
    | .error e => .error e
    | .ok (lineIdx, stop, lineEndIdx) =>
      match validateIdx lineIdx last f.size with
      | some e => .error e
      | none =>
        let ts := tsOf (f.slice lineIdx stop)
        if ts = 0 then .error .emptyTS
        else if ts = target then .ok (lineIdx, stop, depth)
        else
          let start' := if ts > target then start else lineEndIdx
          let end' := if ts > target then lineIdx else «end»
          let probe' := midpoint start' end'
          let depth' := depth + 1
          if depth' ≥ maxDepth then .error .depth
          else seekLoop P f tsOf target fuel start' end' probe' (some lineIdx) depth'

/-- `qLogFile.seekTS` → `(pos, depth)`. -/
def seekTS (P : Params) (f : File) (tsOf : Bytes → Int) (s : QState) (target : Int) :
    QState × Except Err (Nat × Nat) :=
  let s0 := { s with hasBuf := false }
  -- `if fileInfo.Size() == 0 { return 0, 0, errTSTooEarly }` (repair daf1642)
  if f.size = 0 then (s0, .error .tooEarly) else
  match seekLoop P f tsOf target maxDepth 0 f.size ((f.size - 0) / 2) none 0 with
  | .error e => (s0, .error e)
  | .ok (_, stop, depth) => ({ s0 with position := stop }, .ok (stop, depth))

/-! ### `readQLogTimestamp` -/

/-- `strings.Index(s, pat)`. -/
def indexOf (pat : Bytes) : Bytes → Option Nat
  | [] => if pat = [] then some 0 else none
  | b :: rest =>
    if pat.isPrefixOf (b :: rest) then some 0 else (indexOf pat rest).map (· + 1)

/-- `readJSONValue(s, prefix)`. -/
def readJSONValue (s pre : Bytes) : Bytes :=
  match indexOf pre s with
  | none => []
  | some i =>
    let tail := s.drop (i + pre.length)
    match indexOf [34] tail with
    | none => []
    | some j => tail.take j

def keyT : Bytes := [34, 84, 34, 58, 34]                 -- `"T":"`
def keyTime : Bytes := [34, 84, 105, 109, 101, 34, 58, 34] -- `"Time":"`

/-- `readQLogTimestamp`; `parseTime` stands for `time.Parse(time.RFC3339Nano, ·)`
followed by `UnixNano` (`none` = parse error). -/
def readTimestamp (parseTime : Bytes → Option Int) (line : Bytes) : Int :=
  let v := readJSONValue line keyT
  let v := if v.length = 0 then readJSONValue line keyTime else v
  if v.length = 0 then 0 else
  match parseTime v with
  | none => 0
  | some t => t

/-! ### `qLogReader` -/

/-- `currentFile` is kept as `curN = currentFile + 1` (`0` is Go's `-1`). -/
structure RState where
  files : List QState      -- oldest … newest, parallel to the `List File`
  curN : Nat
deriving Repr, DecidableEq

def rInit (n : Nat) : RState := ⟨List.replicate n {}, n⟩

/-- `qLogReader.SeekStart`. -/
def rSeekStart (fs : List File) (r : RState) : RState :=
  match fs.length with
  | 0 => r
  | n + 1 =>
    { files := r.files.set n (seekStart (fs.getD n ⟨0, fun _ => 0⟩) (r.files.getD n {})), curN := n + 1 }

def noFile : File := ⟨0, fun _ => 0⟩

/-- The `for r.currentFile >= 0` loop of `qLogReader.ReadNext`; result
`(fileIndex, lineIdx, stop)`. -/
def rReadLoop (P : Params) (fs : List File) (files : List QState) :
    Nat → RState × Except Err (Nat × Nat × Nat)
  | 0 => (⟨files, 0⟩, .error .eof)
  | c + 1 =>
    match readNext P (fs.getD c noFile) (files.getD c {}) with
    | (q, .ok (a, b)) => (⟨files.set c q, c + 1⟩, .ok (c, a, b))
    | (q, .error _) =>
      let files := files.set c q
      match c with
      | 0 => (⟨files, 0⟩, .error .eof)
      | c' + 1 =>
        let files := files.set c' (seekStart (fs.getD c' noFile) (files.getD c' {}))
        rReadLoop P fs files (c' + 1)

/-- `qLogReader.ReadNext`. -/
def rReadNext (P : Params) (fs : List File) (r : RState) : RState × Except Err (Nat × Nat × Nat) :=
  if fs.length = 0 then (r, .error .eof) else rReadLoop P fs r.files r.curN

/-- The loop of `qLogReader.seekTS` over `i = n-1 … 0`; `n` is the number of
files still to try. -/
def rSeekLoop (P : Params) (fs : List File) (tsOf : Bytes → Int) (target : Int) :
    Nat → RState → RState × Except Err Unit
  | 0, r => (r, if fs.length = 0 then .ok () else .error .notFound)   -- "seekts: ts not found"
  | i + 1, r =>
    match seekTS P (fs.getD i noFile) tsOf (r.files.getD i {}) target with
    | (q, .ok _) => ({ files := r.files.set i q, curN := i + 1 }, .ok ())
    | (q, .error e) =>
      let r := { r with files := r.files.set i q }
      match e with
      | .tooEarly => rSeekLoop P fs tsOf target i r
      | .tooLate => (rSeekStart fs r, .ok ())
      | e => (r, .error e)

/-- `qLogReader.seekTS`. -/
def rSeekTS (P : Params) (fs : List File) (tsOf : Bytes → Int) (r : RState) (target : Int) :
    RState × Except Err Unit :=
  rSeekLoop P fs tsOf target fs.length r

/-! ### Operations of a block (what the harness drives) -/

inductive Op
  | start | next (n : Nat) | seek (ts : Int)
  | fstart (k : Nat) | fnext (k n : Nat) | fseek (k : Nat) (ts : Int)
deriving Repr, DecidableEq

/-- `n` successive `qLogFile.ReadNext` calls, stopping at the first error; the
lines `(lineIdx, stop)` in the order returned. -/
def fReadMany (P : Params) (f : File) :
    Nat → QState → List (Nat × Nat) → QState × List (Nat × Nat) × Option Err
  | 0, q, acc => (q, acc.reverse, none)
  | n + 1, q, acc =>
    match readNext P f q with
    | (q', .ok r) => fReadMany P f n q' (r :: acc)
    | (q', .error e) => (q', acc.reverse, some e)

/-- `n` successive `qLogReader.ReadNext` calls; lines `(file, lineIdx, stop)`. -/
def rReadMany (P : Params) (fs : List File) :
    Nat → RState → List (Nat × Nat × Nat) → RState × List (Nat × Nat × Nat) × Option Err
  | 0, r, acc => (r, acc.reverse, none)
  | n + 1, r, acc =>
    match rReadNext P fs r with
    | (r', .ok x) => rReadMany P fs n r' (x :: acc)
    | (r', .error e) => (r', acc.reverse, some e)

/-- Result of one operation of the model. -/
inductive Out
  | start (pos : Option Nat)                                   -- file level: the new position
  | next (lines : List (Nat × Nat × Nat)) (endc : Option Err)  -- `(file, lineIdx, stop)`
  | seek (res : Except Err (Option (Nat × Nat)))               -- file level: `(pos, depth)`
deriving Repr

def modelStep (P : Params) (fs : List File) (tsOf : Bytes → Int) (r : RState) : Op → RState × Out
  | .start => (rSeekStart fs r, .start none)
  | .next n =>
    match rReadMany P fs n r [] with
    | (r', ls, e) => (r', .next ls e)
  | .seek ts =>
    match rSeekTS P fs tsOf r ts with
    | (r', .ok _) => (r', .seek (.ok none))
    | (r', .error e) => (r', .seek (.error e))
  | .fstart k =>
    let q := seekStart (fs.getD k noFile) (r.files.getD k {})
    ({ r with files := r.files.set k q }, .start (some q.position))
  | .fnext k n =>
    match fReadMany P (fs.getD k noFile) n (r.files.getD k {}) [] with
    | (q, ls, e) => ({ r with files := r.files.set k q }, .next (ls.map (fun x => (k, x.1, x.2))) e)
  | .fseek k ts =>
    match seekTS P (fs.getD k noFile) tsOf (r.files.getD k {}) ts with
    | (q, .ok pd) => ({ r with files := r.files.set k q }, .seek (.ok (some pd)))
    | (q, .error e) => ({ r with files := r.files.set k q }, .seek (.error e))

end AGH.C20
