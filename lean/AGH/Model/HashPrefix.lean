/-
C19 model: hash-prefix lookups (internal/filtering/hashprefix/hashprefix.go,
cache.go) together with the LRU byte cache they sit on
(github.com/AdguardTeam/golibs/cache, data.go `Set`/`Get`).

Oracles (parameters, never computed here): SHA-256 (`H : Bytes → Hash`) and
`publicsuffix.PublicSuffix` (`ps`, `icann`).  The order in which Go iterates
the `hashToStore` map in `storeInCache` is an explicit argument (`gs`).
Time is in nanoseconds; cache items keep their expiry in whole seconds exactly
as `fromCacheItem`/`toCacheItem` do (`time.Time.Unix()` truncation).
Core Lean only.
-/
import AGH.Model.Bytes
namespace AGH.C19
open AGH AGH.Bytes

abbrev Hash := Bytes      -- hostnameHash: 32 bytes
abbrev Prefix := Bytes    -- prefix: 2 bytes

/-- `hash[:prefixLen]` -/
def prefix2 (h : Hash) : Prefix := h.take 2

/-! ### hostnameToHashes -/

/-- Scan of the REVERSED host by `strings.LastIndexFunc` with the dot counter:
keeps everything after the `k`-th dot counted from the end. -/
def takeLabelsRev : Nat → Bytes → Bytes
  | _, [] => []
  | k, b :: rest =>
    if b = dot then
      (if k ≤ 1 then [] else b :: takeLabelsRev (k - 1) rest)
    else b :: takeLabelsRev k rest

/-- `host[i+1:]` for the 4th dot from the end (`subDomainNum = 4`), or `host`. -/
def lastLabels (host : Bytes) : Bytes := (takeLabelsRev 4 host.reverse).reverse

/-- tail of `netutil.Subdomains`: every string that follows a dot. -/
def subTail : Bytes → List Bytes
  | [] => []
  | b :: rest => if b = dot then rest :: subTail rest else subTail rest

/-- `netutil.Subdomains` -/
def subdomains (d : Bytes) : List Bytes :=
  match d with
  | [] => []
  | _ => d :: subTail d

/-- The strings that `hostnameToHashes` hashes, in order. -/
def hashedNames (ps : Bytes) (icann : Bool) (host : Bytes) : List Bytes :=
  let pubSuf := if icann then ps else []
  (subdomains (lastLabels host)).takeWhile (fun s => s ≠ pubSuf)

/-- `hostnameToHashes` -/
def hostnameToHashes (H : Bytes → Hash) (ps : Bytes) (icann : Bool) (host : Bytes) : List Hash :=
  (hashedNames ps icann host).map H

/-! ### getQuestion -/

def hexNib (n : Nat) : Nat := if n < 10 then 48 + n else 87 + n
/-- `hex.EncodeToString` -/
def hexBytes : Bytes → Bytes
  | [] => []
  | b :: rest => hexNib ((b / 16) % 16) :: hexNib (b % 16) :: hexBytes rest

/-- `getQuestion` on a list of prefixes. -/
def questionOfPrefixes (suffix : Bytes) : List Prefix → Bytes
  | [] => suffix
  | p :: ps => hexBytes p ++ dot :: questionOfPrefixes suffix ps

def getQuestion (suffix : Bytes) (hashes : List Hash) : Bytes :=
  questionOfPrefixes suffix (hashes.map prefix2)

/-! ### processAnswer / appendHashesFromTXT -/

def unhexNib (c : Nat) : Option Nat :=
  if 48 ≤ c ∧ c ≤ 57 then some (c - 48)
  else if 97 ≤ c ∧ c ≤ 102 then some (c - 87)
  else if 65 ≤ c ∧ c ≤ 70 then some (c - 55)
  else none

/-- `hex.DecodeString` (even length assumed by the caller's length test) -/
def unhex : Bytes → Option Bytes
  | [] => some []
  | [_] => none
  | a :: b :: rest =>
    match unhexNib a, unhexNib b, unhex rest with
    | some x, some y, some r => some ((x * 16 + y) :: r)
    | _, _, _ => none

/-- One TXT string: 64 bytes of hex, else skipped. -/
def parseTXT (t : Bytes) : Option Hash :=
  if t.length ≠ 64 then none else unhex t

/-- A resource record of the answer section: `some strings` for `*dns.TXT`,
`none` for any other type. -/
abbrev RR := Option (List Bytes)

/-- receivedHashes of `processAnswer` -/
def receivedHashes (answer : List RR) : List Hash :=
  answer.flatMap (fun rr => match rr with
    | some txts => txts.filterMap parseTXT
    | none => [])

/-- `findMatch` -/
def findMatch (a b : List Hash) : Bool := a.any (fun h => b.contains h)

/-! ### golibs/cache (LRU, byte-sized) -/

structure Item where
  key : Prefix
  /-- expiry in Unix seconds (relative to the block's base second) -/
  exp : Nat
  hs : List Hash
  deriving DecidableEq, Repr

/-- `len(key)+len(val)`: 2 + 8 + 32·n -/
def Item.size (it : Item) : Nat := it.key.length + 8 + 32 * it.hs.length

structure Cache where
  /-- usage list, least recently used first -/
  lru : List Item
  /-- `conf.MaxSize` after `newCache` (0 was replaced by maxUint) -/
  max : Nat
  deriving DecidableEq, Repr

def maxUint : Nat := 2 ^ 64 - 1
def Cache.new (cacheSize : Nat) : Cache := ⟨[], if cacheSize = 0 then maxUint else cacheSize⟩

def totalSize (l : List Item) : Nat := (l.map Item.size).sum

def lookup (k : Prefix) (l : List Item) : Option Item := l.find? (fun it => it.key == k)

/-- `Get`: on a hit the item moves to the end of the usage list. -/
def Cache.get (c : Cache) (k : Prefix) : Option Item × Cache :=
  match lookup k c.lru with
  | none => (none, c)
  | some it => (some it, { c with lru := c.lru.filter (fun x => !(x.key == k)) ++ [it] })

/-- the eviction loop of `Set`: drop from the front while `size+add > MaxSize` -/
def evict (add max : Nat) : List Item → List Item
  | [] => []
  | x :: rest => if totalSize (x :: rest) + add > max then evict add max rest else x :: rest

/-- `Set` (EnableLRU, MaxElementSize = MaxSize, MaxCount unlimited) -/
def Cache.set (c : Cache) (it : Item) : Cache :=
  if it.size > c.max then c   -- "too large data": silently not stored
  else
    let l1 := evict it.size c.max c.lru
    { c with lru := l1.filter (fun x => !(x.key == it.key)) ++ [it] }

/-! ### findInCache -/

def nsPerSec : Nat := 1000000000

/-- `now.After(item.expiry)` with `item.expiry = time.Unix(exp, 0)` -/
def expired (now : Nat) (it : Item) : Bool := decide (now > it.exp * nsPerSec)

inductive Found where
  /-- `found = true`, with `blocked` -/
  | cached (blocked : Bool)
  /-- `found = false`, `hashesToRequest = hashes[:i]` -/
  | ask (toRequest : List Hash)
  deriving DecidableEq, Repr

/-- `hashes[i] = hash` where the array is `pre ++ [hash]` (indices `≤ k`) -/
def writeAt (pre : List Hash) (hash : Hash) (i : Nat) : List Hash := (pre ++ [hash]).set i hash

/-- The loop of `findInCache`.  The caller's slice is `pre ++ rest`: `pre` are the
indices already visited (possibly overwritten by the in-place compaction),
`rest` the ones still to visit; `i` is the write index. -/
def findLoop (now : Nat) : List Hash → List Hash → Nat → Cache → Found × Cache
  | pre, [], i, c => (if i = 0 then .cached false else .ask (pre.take i), c)
  | pre, hash :: rest, i, c =>
    match c.get (prefix2 hash) with
    | (none, c1) => findLoop now (writeAt pre hash i) rest (i + 1) c1
    | (some it, c1) =>
      if expired now it then findLoop now (writeAt pre hash i) rest (i + 1) c1
      else if findMatch (pre ++ hash :: rest) it.hs then (.cached true, c1)
      else findLoop now (pre ++ [hash]) rest i c1

def findInCache (now : Nat) (hashes : List Hash) (c : Cache) : Found × Cache :=
  findLoop now [] hashes 0 c

/-! ### storeInCache -/

/-- setCache -/
def setCache (now ttl : Nat) (c : Cache) (p : Prefix) (hs : List Hash) : Cache :=
  c.set ⟨p, (now + ttl) / nsPerSec, hs⟩

/-- The `hashToStore` map in first-appearance order of its keys. -/
def groupKeys : List Hash → List Prefix
  | [] => []
  | h :: rest => prefix2 h :: (groupKeys rest).filter (fun p => !(p == prefix2 h))

def groupOf (resp : List Hash) (p : Prefix) : List Hash := resp.filter (fun h => prefix2 h == p)

def canonGroups (resp : List Hash) : List (Prefix × List Hash) :=
  (groupKeys resp).map (fun p => (p, groupOf resp p))

/-- `gs` is one possible iteration sequence of the Go map built from `resp`. -/
def validGroups (resp : List Hash) (gs : List (Prefix × List Hash)) : Bool :=
  gs.all (fun g => g.2 == groupOf resp g.1 && !g.2.isEmpty) &&
  resp.all (fun h => gs.any (fun g => g.1 == prefix2 h)) &&
  decide (gs.map (·.1)).Nodup

/-- second loop of `storeInCache`: a negative entry for every requested prefix
that is absent from the cache (`Get` first: it also refreshes the usage order)
and for which the response carried no hash (`hashToStore[pref]` missing). -/
def storeNeg (now ttl : Nat) (keys : List Prefix) : List Hash → Cache → Cache
  | [], c => c
  | h :: rest, c =>
    match c.get (prefix2 h) with
    | (some _, c1) => storeNeg now ttl keys rest c1
    | (none, c1) =>
      if keys.contains (prefix2 h) then storeNeg now ttl keys rest c1
      else storeNeg now ttl keys rest (setCache now ttl c1 (prefix2 h) [])

def storeInCache (now ttl : Nat) (toRequest : List Hash) (gs : List (Prefix × List Hash)) (c : Cache) : Cache :=
  let c1 := gs.foldl (fun c g => setCache now ttl c g.1 g.2) c
  storeNeg now ttl (gs.map (·.1)) toRequest c1

/-! ### Check -/

structure Conf where
  suffix : Bytes     -- txtSuffix
  ttl : Nat          -- cacheTime in ns
  deriving Repr

inductive Verdict where
  | blocked (b : Bool)
  | upstreamErr
  deriving DecidableEq, Repr

/-- What one `Check` did: the verdict and the question sent upstream, if any. -/
structure Outcome where
  verdict : Verdict
  question : Option Bytes
  deriving DecidableEq, Repr

/-- `Checker.Check`.  `exchange q` is the upstream's reply to the TXT question
`q` (`none` = `Exchange` returned an error); `ord` chooses the map iteration
order for the hashes received. -/
def check (cf : Conf) (now : Nat) (hashes : List Hash)
    (exchange : Bytes → Option (List RR))
    (ord : List Hash → List (Prefix × List Hash)) (c : Cache) : Outcome × Cache :=
  match findInCache now hashes c with
  | (.cached b, c1) => (⟨.blocked b, none⟩, c1)
  | (.ask toReq, c1) =>
    let q := getQuestion cf.suffix toReq
    match exchange q with
    | none => (⟨.upstreamErr, some q⟩, c1)
    | some answer =>
      let recv := receivedHashes answer
      let matched := findMatch toReq recv
      (⟨.blocked matched, some q⟩, storeInCache now cf.ttl toReq (ord recv) c1)


/-! ### overlapping lookups on one Checker

`Check` shares nothing with other `Check` calls but the cache (golibs/cache
serialises its own operations) and the upstream: the request message is built
from locals.  A lookup is two steps as far as other lookups can see: the cache
scan (`findInCache`) and, if something has to be asked, the exchange followed
by `storeInCache`. -/

/-- second half of `Check`: ask about `toReq`, match, store -/
def checkAnswer (cf : Conf) (now : Nat) (toReq : List Hash)
    (exchange : Bytes → Option (List RR)) (ord : List Hash → List (Prefix × List Hash)) (c : Cache) :
    Outcome × Cache :=
  let q := getQuestion cf.suffix toReq
  match exchange q with
  | none => (⟨.upstreamErr, some q⟩, c)
  | some answer =>
    let recv := receivedHashes answer
    (⟨.blocked (findMatch toReq recv), some q⟩, storeInCache now cf.ttl toReq (ord recv) c)

/-- N lookups in flight on one cache -/
structure ConcC where
  cache : Cache
  /-- per lookup: 0 not started, 1 scanned the cache and has to ask, 2 finished -/
  pc : Nat → Nat
  /-- what lookup `i` has to ask about (pc = 1) -/
  pend : Nat → List Hash
  res : Nat → Option Outcome

def ConcC.init (c : Cache) : ConcC := ⟨c, fun _ => 0, fun _ => [], fun _ => none⟩

/-- lookup `i` (hashes `hs i`) makes its next step -/
def stepC (cf : Conf) (now : Nat) (hs : Nat → List Hash) (exchange : Bytes → Option (List RR))
    (ord : List Hash → List (Prefix × List Hash)) (s : ConcC) (i : Nat) : ConcC :=
  if s.pc i = 0 then
    match findInCache now (hs i) s.cache with
    | (.cached b, c1) =>
      { s with cache := c1, pc := fun k => if k = i then 2 else s.pc k,
               res := fun k => if k = i then some ⟨.blocked b, none⟩ else s.res k }
    | (.ask toReq, c1) =>
      { s with cache := c1, pc := fun k => if k = i then 1 else s.pc k,
               pend := fun k => if k = i then toReq else s.pend k }
  else if s.pc i = 1 then
    let r := checkAnswer cf now (s.pend i) exchange ord s.cache
    { s with cache := r.2, pc := fun k => if k = i then 2 else s.pc k,
             res := fun k => if k = i then some r.1 else s.res k }
  else s

/-! ### constants of hashprefix.go (tied to the source by the fact line C19.consts) -/

def prefixLen : Nat := 2       -- prefixLen
def hashSize : Nat := 32       -- sha256.Size
def hexSize : Nat := 64        -- hashSize * 2
def subDomainNum : Nat := 4    -- const in hostnameToHashes
def expirySize : Nat := 8      -- cache.go

/-! ### the cache item on the wire of golibs/cache (fromCacheItem / toCacheItem) -/

def be64 (n : Nat) : Nat → List Nat
  | 0 => []
  | k + 1 => (n / 256 ^ k) % 256 :: be64 n k

def unbe64 : List Nat → Nat
  | [] => 0
  | b :: rest => b * 256 ^ rest.length + unbe64 rest

def chunk32 : Nat → List Nat → List Hash
  | 0, _ => []
  | fuel + 1, l => if l.isEmpty then [] else l.take 32 :: chunk32 fuel (l.drop 32)

/-- fromCacheItem: expiry (8 bytes BE, absolute Unix seconds), then the hashes -/
def encodeItem (base : Nat) (it : Item) : List Nat := be64 (base + it.exp) 8 ++ it.hs.flatten

/-- toCacheItem (data at least 8 bytes): the absolute expiry and the hashes -/
def decodeItem (data : List Nat) : Nat × List Hash :=
  (unbe64 (data.take 8), chunk32 data.length (data.drop 8))

/-! ### filtering.DNSFilter.CheckHost in front of the two checkers

`CheckHost` lower-cases the query name (dnsforward passes it as it came off
the wire, e.g. with 0x20 case randomisation), then runs the host checkers;
with no rewrites, hosts files, rules or blocked services configured the
outcome is decided by `checkSafeBrowsing` and then `checkParental`, each a
`hashprefix.Checker.Check` of the lower-cased name.  Names are ASCII
(miekg/dns presentation format). -/

structure HostSetts where
  filtering : Bool    -- setts.FilteringEnabled (rule lists; irrelevant to the hash-prefix checks)
  safeBrowsing : Bool
  parental : Bool
  protection : Bool
  deriving DecidableEq, Repr

inductive HostReason where
  | notFiltered | safeBrowsing | parental | failed
  deriving DecidableEq, Repr

structure HostOut where
  reason : HostReason
  /-- question sent to the safe-browsing service, if any -/
  sbQuestion : Option Bytes
  /-- question sent to the parental-control service, if any -/
  pcQuestion : Option Bytes
  deriving DecidableEq, Repr

/-- one checker with an empty cache on an already lower-cased name -/
def checkFresh (suffix : Bytes) (H : Bytes → Hash) (psOf : Bytes → Bytes × Bool)
    (exchange : Bytes → Option (List RR)) (name : Bytes) : Outcome :=
  (check ⟨suffix, 0⟩ 0 (hostnameToHashes H (psOf name).1 (psOf name).2 name) exchange canonGroups (Cache.new 0)).1

/-- CheckHost restricted to the hash-prefix checkers (fresh caches). -/
def checkHostSB (st : HostSetts) (sufS sufP : Bytes) (H : Bytes → Hash) (psOf : Bytes → Bytes × Bool)
    (exS exP : Bytes → Option (List RR)) (host : Bytes) : HostOut :=
  if host = [] then ⟨.notFiltered, none, none⟩ else
  let name := lower host
  let oS : Option Outcome :=
    if st.protection && st.safeBrowsing then some (checkFresh sufS H psOf exS name) else none
  match oS with
  | some ⟨.blocked true, q⟩ => ⟨.safeBrowsing, q, none⟩
  | some ⟨.upstreamErr, q⟩ => ⟨.failed, q, none⟩
  | _ =>
    let sq := oS.bind (·.question)
    let oP : Option Outcome :=
      if st.protection && st.parental then some (checkFresh sufP H psOf exP name) else none
    match oP with
    | some ⟨.blocked true, q⟩ => ⟨.parental, sq, q⟩
    | some ⟨.upstreamErr, q⟩ => ⟨.failed, sq, q⟩
    | some ⟨_, q⟩ => ⟨.notFiltered, sq, q⟩
    | none => ⟨.notFiltered, sq, none⟩

end AGH.C19
