/-
`netip.Addr` as the C01 / C02 models see it, and a model of `netip.ParseAddr`
(zone-less).  Shared by the pipeline model (legacy-rewrite addresses arrive as
Go's `String()` text) and by the rule-semantics model (hosts-style lines,
`$client`, `$denyallow`).
-/
import AGH.Model.Bytes
namespace AGH.Filter
open AGH AGH.Bytes

/-- A valid `netip.Addr` without zone.  `str` is Go's `String()` of the address
when it came from an upstream record (an oracle, used only as the host name
handed to the rule engines); it never takes part in comparisons or output. -/
structure IP where
  v6 : Bool
  val : Nat
  str : Bytes := []
  deriving Repr, DecidableEq

/-- `netip.Addr` equality (no zones; an IPv4-mapped IPv6 address differs from the IPv4 one). -/
def IP.same (a b : IP) : Bool := a.v6 == b.v6 && a.val == b.val

def ip4Zero : IP := { v6 := false, val := 0 }
def ip6Zero : IP := { v6 := true, val := 0 }

/-! ## netip.ParseAddr (no zones) -/

def isDigit (b : Nat) : Bool := decide (48 ≤ b) && decide (b ≤ 57)

def hexVal (b : Nat) : Option Nat :=
  if 48 ≤ b ∧ b ≤ 57 then some (b - 48)
  else if 97 ≤ b ∧ b ≤ 102 then some (b - 87)
  else if 65 ≤ b ∧ b ≤ 70 then some (b - 55)
  else none

/-- one decimal field of `parseIPv4Fields`: 1–3 digits, ≤ 255, no leading zero -/
def parseV4Field (f : Bytes) : Option Nat :=
  if f.isEmpty ∨ f.length > 3 ∨ !f.all isDigit then none
  else
    let v := f.foldl (fun acc b => acc * 10 + (b - 48)) 0
    if v > 255 then none
    else if f.length > 1 ∧ f.head? = some 48 then none
    else some v

def parseIPv4 (s : Bytes) : Option Nat :=
  match (splitOn dot s).mapM parseV4Field with
  | some [a, b, c, d] => some (((a * 256 + b) * 256 + c) * 256 + d)
  | _ => none

/-- the leading hex digits of `s` (value, count, rest) -/
def takeHex : Bytes → Nat → Nat → Nat × Nat × Bytes
  | [], acc, n => (acc, n, [])
  | b :: rest, acc, n =>
    match hexVal b with
    | some v => takeHex rest (acc * 16 + v) (n + 1)
    | none => (acc, n, b :: rest)

/-- The group loop of `netip.parseIPv6`.  `i` = bytes written so far, `groups`
= the 16-bit groups written (most recent first), `ell` = byte position of the
`::`.  Result: groups (in order, with embedded IPv4 as two groups), ellipsis. -/
def parseV6Loop : Nat → Bytes → Nat → List Nat → Option Nat → Option (List Nat × Option Nat × Nat)
  | 0, _, _, _, _ => none
  | fuel + 1, s, i, groups, ell =>
    if i ≥ 16 then (if s.isEmpty then some (groups.reverse, ell, i) else none)
    else
      let (acc, n, rest) := takeHex s 0 0
      if n = 0 ∨ n > 4 then none
      else match rest with
        | 46 :: _ =>
          -- embedded IPv4 replaces the final two groups
          if ell.isNone ∧ i ≠ 12 then none
          else if i + 4 > 16 then none
          else match parseIPv4 s with
            | some v => some ((v % 65536 :: v / 65536 :: groups).reverse, ell, i + 4)
            | none => none
        | [] => some ((acc :: groups).reverse, ell, i + 2)
        | 58 :: rest1 =>
          match rest1 with
          | [] => none                         -- colon must be followed by more characters
          | 58 :: rest2 =>
            if ell.isSome then none
            else if rest2.isEmpty then some ((acc :: groups).reverse, some (i + 2), i + 2)
            else parseV6Loop fuel rest2 (i + 2) (acc :: groups) (some (i + 2))
          | _ => parseV6Loop fuel rest1 (i + 2) (acc :: groups) ell
        | _ => none

def groupsToNat (gs : List Nat) : Nat := gs.foldl (fun acc g => acc * 65536 + g) 0

def parseIPv6 (s : Bytes) : Option Nat :=
  if s.contains 37 then none else   -- zones are out of the model
  let (s1, ell0) : Bytes × Option Nat :=
    match s with
    | 58 :: 58 :: rest => (rest, some 0)
    | _ => (s, none)
  if ell0.isSome ∧ s1.isEmpty then some 0
  else match parseV6Loop (s.length + 2) s1 0 [] ell0 with
    | none => none
    | some (gs, ell, i) =>
      if i < 16 then
        match ell with
        | none => none
        | some e =>
          let before := gs.take (e / 2)
          let after := gs.drop (e / 2)
          some (groupsToNat (before ++ List.replicate ((16 - i) / 2) 0 ++ after))
      else if ell.isSome then none
      else some (groupsToNat gs)

/-- `netip.ParseAddr` -/
def parseAddr (s : Bytes) : Option IP :=
  match s.find? (fun b => b == dot || b == 58 || b == 37) with
  | some 46 => (parseIPv4 s).map (fun v => { v6 := false, val := v })
  | some 58 => (parseIPv6 s).map (fun v => { v6 := true, val := v })
  | _ => none


end AGH.Filter
