/-
C09 model of the flush loop (stats.go `Start`/`periodicFlush`):

    for cont, sleepFor := true, time.Duration(0); cont; time.Sleep(sleepFor) {
        cont, sleepFor = s.flush()
    }

`flush` returns `period` (one second in the current tree; the constant is
re-extracted on every run, AGH/Gen/C09Locks.lean `pollPeriodMs`) while the unit
is the current one, and 0 right after a rotation (the next iteration then finds
the unit current and sleeps `period`).  Time is in milliseconds; the UnitID
generator shows the wall-clock hour plus `skew` hours (a stepped clock, a
resume from suspend, or a generator advanced by hand).
-/
import AGH.Model.Stats
namespace AGH.C09

structure Loop where
  s : State
  /-- now, ms since the epoch -/
  t : Nat
  /-- hours the generator is ahead of `t` -/
  skew : Nat
  /-- when `periodicFlush` wakes up next -/
  next : Nat

/-- What `unitIDGen()` returns at time `t`. -/
def hourAt (t skew : Nat) : Nat := t / msPerHour + skew

/-- One wake-up of the loop at time `L.next`: `flush()` sees the hour of that
moment, then the loop sleeps `period` (after a rotation: 0, a second `flush`
that finds nothing to do, then `period`). -/
def Loop.poll (period : Nat) (L : Loop) : Loop :=
  { L with s := tick L.s (hourAt L.next L.skew), next := L.next + period }

def Loop.polls (period : Nat) (L : Loop) : Nat → Loop
  | 0 => L
  | n + 1 => Loop.polls period (L.poll period) n

/-- `d` ms pass: every wake-up due by then happens. -/
def Loop.wait (period : Nat) (L : Loop) (d : Nat) : Loop :=
  let t' := L.t + d
  let n := if L.next ≤ t' then (t' - L.next) / period + 1 else 0
  { L.polls period n with t := t' }

/-- The generator jumps `gap` hours ahead; no time passes. -/
def Loop.step (L : Loop) (gap : Nat) : Loop := { L with skew := L.skew + gap }

/-- `New` at time `t0`, then `Start`: the first `flush` runs at once. -/
def Loop.start (period t0 skew limitMs : Nat) (enabled : Bool) : Option Loop :=
  match new [] (hourAt t0 skew) limitMs enabled with
  | none => none
  | some s => some (Loop.poll period { s := s, t := t0, skew := skew, next := t0 })

end AGH.C09
