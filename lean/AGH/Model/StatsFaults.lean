/-
C09 model, fault and race variants of operations (used for findings, not part
of the histories of `C09_model_meets_spec`).
-/
import AGH.Model.Stats
namespace AGH.C09

/-- `flush()`/`flushDB` when `flushUnitToDB` or the commit fails (disk full,
I/O error): `s.curr = newUnit(id)` has already happened, the transaction is
rolled back (nothing stored, bucket `id - limit` not deleted), the error is
only logged.  The swapped-out unit `ptr` is dropped. -/
def tickFail (s : State) (id : Nat) : State :=
  if s.limitHours = 0 ∨ s.curr.id = id then { s with clock := id }
  else { s with clock := id, curr := newUnit id }

/-- `handleStatsReset` (no `confMu`) racing with the hourly flush at the new
hour `id`: `clear()` has replaced the file, the flush runs completely — it
still sees the old current unit and stores it into the new file — then `clear()`
swaps the current unit. -/
def resetRace (s : State) (id : Nat) : State :=
  let s1 := tick { s with db := [] } id
  { s1 with curr := newUnit s1.clock }

end AGH.C09
