/-
C14 model: a file system with a volatile and a durable layer, the syscall
alphabet the three savers of AdGuard Home use, and the writers themselves.

Transcribes
  * `github.com/google/renameio/v2`  (`tempfile.go`, `writefile.go`):
    `tempDir` (the mount probe: create a file in `os.TempDir()`, create one next
    to the destination, rename the first onto the second, remove it),
    `openTempFile` (`O_RDWR|O_CREATE|O_EXCL`), `WriteFile` (one `Write`),
    `PendingFile.CloseAtomicallyReplace` (`Sync`, `Close`, `Rename`),
    `PendingFile.Cleanup` (`Close`, `Remove`),
  * `renameio/v2/maybe.WriteFile` (= `renameio.WriteFile` on unix) as called from
    `home/config.go:652,818` and `dhcpd/db.go:189`,
  * `aghrenameio.NewPendingFile/CloseReplace/Cleanup` as used by
    `filtering/filter.go updateIntl/finalizeUpdate` (one `Write` per rule line,
    then `CloseReplace` when the list changed, `Cleanup` otherwise),
  * `os.WriteFile` (`O_WRONLY|O_CREATE|O_TRUNC`, write, close) — the writer the
    property forbids; it is here for the negative theorems and because the
    correspondence harness must be able to express what a mutated tree does.

Contents are `List Nat`.  The theorems quantify over all such lists (bytes are
a special case); the driver uses one element per observed `write(2)` chunk.

Crash semantics (an ASSUMPTION about the kernel, stated in the evidence):
directory operations are durable and atomic when they complete; an inode that
has not been modified since its last `fsync` survives exactly; a modified one
may come back as its last synced content or as any prefix of its current
content.
-/
import AGH.Model.Bytes
namespace AGH.C14
open AGH

abbrev Path := Bytes
abbrev Content := List Nat

/-- Function update. -/
def upd {α : Type} [DecidableEq α] {β : Type} (f : α → β) (a : α) (b : β) : α → β :=
  fun x => if x = a then b else f x

/-- The syscalls (successful ones carry the value the kernel returned). -/
inductive Sys where
  /-- `openat(p, O_RDWR|O_CREAT|O_EXCL) = fd` -/
  | creat (p : Path) (fd : Nat)
  /-- `openat(p, O_WRONLY|O_CREAT[|O_TRUNC]) = fd` — in-place open for writing -/
  | openWr (p : Path) (fd : Nat) (trunc : Bool)
  /-- `write(fd, d)` at the descriptor's offset, all of `d` written -/
  | write (fd : Nat) (d : Content)
  | fsync (fd : Nat)
  | close (fd : Nat)
  | rename (a b : Path)
  | unlink (a : Path)
  /-- `fsync` of the directory: every directory operation completed so far becomes
  durable.  No effect on what a running system sees; it only moves the point
  from which the crash models of `AGH/Spec/Crash.lean` may lose operations.
  (renameio never issues it; it is here so that the alphabet can say it.) -/
  | fsyncDir
  deriving DecidableEq, Repr

inductive Errno where
  | eexist | enoent | ebadf
  deriving DecidableEq, Repr

structure FS where
  /-- the directory (one flat name space; paths are opaque) -/
  names : Path → Option Nat
  /-- page cache: what a reader of the inode sees -/
  cache : Nat → Content
  /-- content as of the last `fsync` of the inode -/
  disk : Nat → Content
  /-- modified since the last `fsync` -/
  dirty : Nat → Bool
  /-- descriptors open for writing: inode and file offset -/
  fds : Nat → Option (Nat × Nat)
  /-- next unused inode number -/
  next : Nat

/-- `pwrite`-like update of a content at an offset (holes read as zero). -/
def writeAt (c : Content) (off : Nat) (d : Content) : Content :=
  c.take off ++ List.replicate (off - c.length) 0 ++ d ++ c.drop (off + d.length)

def FS.empty : FS :=
  { names := fun _ => none, cache := fun _ => [], disk := fun _ => [], dirty := fun _ => false,
    fds := fun _ => none, next := 0 }

/-- A new empty inode bound to `p` and opened as `fd`. -/
def FS.mkFile (s : FS) (p : Path) (fd : Nat) : FS :=
  { names := upd s.names p (some s.next),
    cache := upd s.cache s.next [],
    disk := upd s.disk s.next [],
    dirty := upd s.dirty s.next false,
    fds := upd s.fds fd (some (s.next, 0)),
    next := s.next + 1 }

/-- One syscall.  `.error` is the errno the kernel would return; the state is
then unchanged. -/
def step (s : FS) : Sys → Except Errno FS
  | .creat p fd =>
    if (s.names p).isSome then .error .eexist
    else if (s.fds fd).isSome then .error .ebadf
    else .ok (s.mkFile p fd)
  | .openWr p fd trunc =>
    if (s.fds fd).isSome then .error .ebadf
    else match s.names p with
      | none => .ok (s.mkFile p fd)
      | some i =>
        if trunc && !(s.cache i).isEmpty then
          .ok { s with cache := upd s.cache i [], dirty := upd s.dirty i true,
                       fds := upd s.fds fd (some (i, 0)) }
        else .ok { s with fds := upd s.fds fd (some (i, 0)) }
  | .write fd d =>
    match s.fds fd with
    | none => .error .ebadf
    | some (i, off) =>
      if d.isEmpty then .ok s
      else .ok { s with cache := upd s.cache i (writeAt (s.cache i) off d),
                        dirty := upd s.dirty i true,
                        fds := upd s.fds fd (some (i, off + d.length)) }
  | .fsync fd =>
    match s.fds fd with
    | none => .error .ebadf
    | some (i, _) => .ok { s with disk := upd s.disk i (s.cache i), dirty := upd s.dirty i false }
  | .close fd =>
    match s.fds fd with
    | none => .error .ebadf
    | some _ => .ok { s with fds := upd s.fds fd none }
  | .rename a b =>
    match s.names a with
    | none => .error .enoent
    | some i => if a = b then .ok s else .ok { s with names := upd (upd s.names b (some i)) a none }
  | .unlink a =>
    match s.names a with
    | none => .error .enoent
    | some _ => .ok { s with names := upd s.names a none }
  | .fsyncDir => .ok s

/-- A program is a list of syscalls; the Go code returns at the first error, so
a run stops at the first failing syscall.  `(state, completed)`. -/
def runAbort (s : FS) : List Sys → FS × Bool
  | [] => (s, true)
  | e :: es =>
    match step s e with
    | .ok s' => runAbort s' es
    | .error _ => (s, false)

/-- Replaying an observed trace: every syscall in it succeeded in the kernel;
one the model rejects leaves the state unchanged (and is reported). -/
def exec (s : FS) (e : Sys) : FS :=
  match step s e with
  | .ok s' => s'
  | .error _ => s

def run (s : FS) (es : List Sys) : FS := es.foldl exec s

/-- Content a reader sees at `p` (`none`: no such file). -/
def visible (s : FS) (p : Path) : Option Content := (s.names p).map s.cache

/-- Contents inode `i` may hold after a crash. -/
def Survives (s : FS) (i : Nat) (c : Content) : Prop :=
  if s.dirty i then c = s.disk i ∨ c <+: s.cache i else c = s.cache i

/-- What may be found at `p` after a crash in state `s`. -/
def AfterCrash (s : FS) (p : Path) : Option Content → Prop
  | none => s.names p = none
  | some c => ∃ i, s.names p = some i ∧ Survives s i c

/-! ## The writers -/

/-- How `renameio.tempDir` ended. -/
inductive ProbeOutcome where
  /-- the rename succeeded: same mount, temporary files go to `os.TempDir()` -/
  | sameMount
  /-- the rename failed (EXDEV): temporary files go next to the destination -/
  | otherMount
  /-- no test file could be created in `os.TempDir()`: no successful syscall at
  all, temporary files go next to the destination -/
  | noTmp
  deriving DecidableEq, Repr

/-- `renameio.tempDir`: oracle values of one mount probe. -/
structure Probe where
  src : Path      -- test file in `os.TempDir()`
  dst : Path      -- test file next to the destination
  fd1 : Nat
  fd2 : Nat
  outcome : ProbeOutcome
  deriving DecidableEq, Repr

/-- Successful syscalls of `tempDir`.  (When the rename fails with EXDEV the
deferred removals run: destination-side file first, then the source.) -/
def probeOps (pr : Probe) : List Sys :=
  match pr.outcome with
  | .sameMount =>
    [.creat pr.src pr.fd1, .close pr.fd1, .creat pr.dst pr.fd2, .close pr.fd2,
     .rename pr.src pr.dst, .unlink pr.dst]
  | .otherMount =>
    [.creat pr.src pr.fd1, .close pr.fd1, .creat pr.dst pr.fd2, .close pr.fd2,
     .unlink pr.dst, .unlink pr.src]
  | .noTmp => []

/-- A save that cannot even create a file next to the destination (directory not
writable): the probe's second file fails, its first is removed, and so does
`openTempFile`; `NewPendingFile` returns the error. -/
def startFail (pr : Probe) : List Sys :=
  [.creat pr.src pr.fd1, .close pr.fd1, .unlink pr.src]

/-- Everything up to (not including) the final rename of an atomic save. -/
def stageOps (pr : Probe) (tmp : Path) (fd : Nat) (chunks : List Content) : List Sys :=
  probeOps pr ++ [.creat tmp fd] ++ chunks.map (.write fd) ++ [.fsync fd, .close fd]

/-- `renameio.WriteFile` / `NewPendingFile … CloseAtomicallyReplace`. -/
def atomicWrite (pr : Probe) (dest tmp : Path) (fd : Nat) (chunks : List Content) : List Sys :=
  stageOps pr tmp fd chunks ++ [.rename tmp dest]

/-- `NewPendingFile … Cleanup`: the update is abandoned. -/
def pendingAbort (pr : Probe) (tmp : Path) (fd : Nat) (chunks : List Content) : List Sys :=
  probeOps pr ++ [.creat tmp fd] ++ chunks.map (.write fd) ++ [.close fd, .unlink tmp]

/-- The atomic writer with the `Sync` call dropped (negative witness). -/
def atomicNoSync (pr : Probe) (dest tmp : Path) (fd : Nat) (chunks : List Content) : List Sys :=
  probeOps pr ++ [.creat tmp fd] ++ chunks.map (.write fd) ++ [.close fd, .rename tmp dest]

/-- `os.WriteFile`: truncate in place and write (negative witness). -/
def truncWrite (dest : Path) (fd : Nat) (chunks : List Content) : List Sys :=
  [.openWr dest fd true] ++ chunks.map (.write fd) ++ [.close fd]

/-- One save as the application issues it. -/
structure Save where
  pr : Probe
  tmp : Path
  fd : Nat
  chunks : List Content
  /-- `CloseReplace` (true) or `Cleanup` (false; filter update without change or with an error) -/
  commit : Bool
  /-- the temporary file could be created (false: `startFail`) -/
  started : Bool := true
  deriving DecidableEq, Repr

def Save.new (sv : Save) : Content := sv.chunks.flatten

def Save.prog (sv : Save) (dest : Path) : List Sys :=
  if !sv.started then startFail sv.pr
  else if sv.commit then atomicWrite sv.pr dest sv.tmp sv.fd sv.chunks
  else pendingAbort sv.pr sv.tmp sv.fd sv.chunks

/-- Successive saves; each one runs until it completes or its first error. -/
def runSaves (s : FS) (dest : Path) (svs : List Save) : FS :=
  svs.foldl (fun s sv => (runAbort s (sv.prog dest)).1) s

/-- The state a save kind starts from in the harness and in the examples:
only `dest` exists (when `old` is some content), synced. -/
def FS.init (dest : Path) (old : Option Content) : FS :=
  match old with
  | none => FS.empty
  | some c =>
    { FS.empty with names := upd (fun _ => none) dest (some 0), cache := upd (fun _ => []) 0 c,
                    disk := upd (fun _ => []) 0 c, next := 1 }

end AGH.C14
