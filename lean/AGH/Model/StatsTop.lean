/-
C09 model of the per-name counters of a statistics unit (unit.go `add`,
`convertMapToSlice`, `serialize`, `convertSliceToMap`/`deserialize`): the
`domains`, `blockedDomains` and `clients` maps next to `nTotal`/`nResult`.
Names are abstract ids; a Go `map[string]uint64` is an association list with
distinct keys (iteration order never matters: only sums, sizes and sorted
prefixes are observed).
-/
namespace AGH.C09

abbrev CountMap := List (Nat × Nat)

/-- `m[k]++` -/
def CountMap.inc : CountMap → Nat → CountMap
  | [], k => [(k, 1)]
  | (k', c) :: r, k => if k' = k then (k', c + 1) :: r else (k', c) :: CountMap.inc r k

def CountMap.total (m : CountMap) : Nat := (m.map (·.2)).sum

structure TopUnit where
  domains : CountMap
  blocked : CountMap
  clients : CountMap
  nTotal : Nat
  nResult : Nat → Nat

def TopUnit.new : TopUnit := ⟨[], [], [], 0, fun _ => 0⟩

/-- A counted entry: result category 1 … 5, domain, client. -/
structure TopEntry where
  result : Nat
  domain : Nat
  client : Nat

/-- `(*unit).add(e)` for an entry `Update` has accepted. -/
def TopUnit.add (u : TopUnit) (e : TopEntry) : TopUnit :=
  { u with
    nResult := fun i => if i = e.result then u.nResult i + 1 else u.nResult i
    domains := if e.result = 1 then u.domains.inc e.domain else u.domains
    blocked := if e.result = 1 then u.blocked else u.blocked.inc e.domain
    clients := u.clients.inc e.client
    nTotal := u.nTotal + 1 }

/-- Insert keeping counts in descending order. -/
def insDesc (x : Nat × Nat) : List (Nat × Nat) → List (Nat × Nat)
  | [] => [x]
  | y :: r => if y.2 ≥ x.2 then y :: insDesc x r else x :: y :: r

/-- One sorted order of the map's pairs (Go's `slices.SortFunc` is unstable:
any order with descending counts can come out; the theorems quantify over all
of them, the driver uses this one — sums, lengths and the smallest kept count
do not depend on the choice). -/
def sortDesc : CountMap → List (Nat × Nat)
  | [] => []
  | x :: r => insDesc x (sortDesc r)

/-- `convertMapToSlice(m, max)` -/
def topOf (m : CountMap) (max : Nat) : List (Nat × Nat) := (sortDesc m).take max

/-- `m[k] += c` -/
def CountMap.addN : CountMap → Nat → Nat → CountMap
  | [], k, c => [(k, c)]
  | (k', c') :: r, k, c => if k' = k then (k', c' + c) :: r else (k', c') :: CountMap.addN r k c

/-- `topsCollector` before its final cut: `for u in units { for cp in pg(u) { m[cp.Name] += cp.Count } }`
(no name ignored). -/
def collectTops (lists : List (List (Nat × Nat))) : CountMap :=
  lists.foldl (fun m ps => ps.foldl (fun m p => m.addN p.1 p.2) m) []

/-- `maxDomains = maxClients = 100` -/
def maxTop : Nat := 100

end AGH.C09
