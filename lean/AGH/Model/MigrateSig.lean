/-
C13 — the access signature the model (`AGH/Model/Migrate.lean`) was written
against: for every function of `internal/configmigrate`, the `fieldVal` /
`moveVal` / `moveSameVal` calls it makes (type argument and keys, in source
order), its `delete` calls and the `[]string` key lists it iterates over, in
the model's own key vocabulary.  Hand-maintained together with the model:
`Props/C13.lean` proves that the table regenerated from the Go source on every
run (`AGH/Gen/C13Facts.lean`) is equal to this one, so a step that starts to
read, move or delete another key, or with another type, breaks the check even
when the key is outside the vocabulary of the harness' generator.

Function ids: `migrateTo<N>` is N; Migrate 100, moveVal 111, moveSameVal 112,
replaceDot 122.  T: 0 int, 1 string, 2 bool, 3 yobj, 4 yarr, 5 any,
7 the helper's own type parameter.  Kind: 0 fieldVal, 1 moveVal, 2 moveSameVal.
An empty key stands for a key held in a variable.
-/
import AGH.Model.Migrate
namespace AGH.C13
open AGH

def accessSig : List (Nat × Nat × Nat × List Nat × List Nat) := [
  -- migrateTo2
  (2, 1, 5, kCoredns, kDns),
  -- migrateTo3
  (3, 0, 3, kDns, []),
  (3, 0, 5, kBootstrapDns, []),
  -- migrateTo4
  (4, 0, 4, kClients, []),
  -- migrateTo5
  (5, 1, 1, kAuthName, kName),
  (5, 0, 1, kAuthPass, []),
  -- migrateTo6
  (6, 0, 4, kClients, []),
  (6, 0, 1, [], []),
  -- migrateTo7
  (7, 0, 3, kDhcp, []),
  (7, 2, 1, kGatewayIp, []),
  (7, 2, 1, kSubnetMask, []),
  (7, 2, 1, kRangeStart, []),
  (7, 2, 1, kRangeEnd, []),
  (7, 2, 0, kLeaseDuration, []),
  (7, 2, 0, kIcmpTimeoutMsec, []),
  -- migrateTo8
  (8, 0, 3, kDns, []),
  (8, 0, 1, kBindHost, []),
  -- migrateTo9
  (9, 0, 3, kDns, []),
  (9, 1, 1, kAutohostTld, kLocalDomainName),
  -- migrateTo10
  (10, 0, 3, kDns, []),
  (10, 0, 4, kUpstreamDns, []),
  (10, 0, 4, kLocalPtrUpstreams, []),
  -- migrateTo11
  (11, 0, 0, kRlimitNofile, []),
  -- migrateTo12
  (12, 0, 3, kDns, []),
  (12, 0, 0, kQuerylogInterval, []),
  -- migrateTo13
  (13, 0, 3, kDns, []),
  (13, 0, 3, kDhcp, []),
  (13, 2, 1, kLocalDomainName, []),
  -- migrateTo14
  (14, 0, 4, kClients, []),
  (14, 0, 3, kDns, []),
  (14, 1, 2, kResolveClients, kRdns),
  -- migrateTo15
  (15, 0, 3, kDns, []),
  (15, 1, 2, kQuerylogEnabled, kEnabled),
  (15, 1, 2, kQuerylogFileEnabled, kFileEnabled),
  (15, 1, 5, kQuerylogInterval, kInterval),
  (15, 1, 0, kQuerylogSizeMemory, kSizeMemory),
  -- migrateTo16
  (16, 0, 3, kDns, []),
  (16, 0, 0, kStatisticsInterval, []),
  -- migrateTo17
  (17, 0, 3, kDns, []),
  (17, 0, 2, kEdnsClientSubnet, []),
  -- migrateTo18
  (18, 0, 3, kDns, []),
  (18, 1, 2, kSafesearchEnabled, kEnabled),
  -- migrateTo19
  (19, 0, 3, kClients, []),
  (19, 0, 4, kPersistent, []),
  (19, 1, 2, kSafesearchEnabled, kEnabled),
  -- migrateTo20
  (20, 0, 3, kStatistics, []),
  (20, 0, 0, kInterval, []),
  -- migrateTo21
  (21, 0, 3, kDns, []),
  (21, 1, 4, kBlockedServices, kIds),
  -- migrateTo22
  (22, 0, 3, kClients, []),
  (22, 0, 4, kPersistent, []),
  (22, 0, 4, kBlockedServices, []),
  -- migrateTo23
  (23, 0, 1, kBindHost, []),
  (23, 0, 0, kBindPort, []),
  (23, 0, 0, kWebSessionTtl, []),
  -- migrateTo24
  (24, 1, 1, kLogFile, kFile),
  (24, 1, 0, kLogMaxBackups, kMaxBackups),
  (24, 1, 0, kLogMaxSize, kMaxSize),
  (24, 1, 0, kLogMaxAge, kMaxAge),
  (24, 1, 2, kLogCompress, kCompress),
  (24, 1, 2, kLogLocaltime, kLocalTime),
  (24, 1, 2, kVerbose, kVerbose),
  -- migrateTo25
  (25, 0, 3, kHttp, []),
  (25, 1, 2, kDebugPprof, kEnabled),
  -- migrateTo26
  (26, 0, 3, kDns, []),
  (26, 2, 2, kFilteringEnabled, []),
  (26, 2, 0, kFiltersUpdateInterval, []),
  (26, 2, 2, kParentalEnabled, []),
  (26, 2, 2, kSafebrowsingEnabled, []),
  (26, 2, 0, kSafebrowsingCacheSize, []),
  (26, 2, 0, kSafesearchCacheSize, []),
  (26, 2, 0, kParentalCacheSize, []),
  (26, 2, 3, kSafeSearch, []),
  (26, 2, 4, kRewrites, []),
  (26, 2, 3, kBlockedServices, []),
  (26, 2, 2, kProtectionEnabled, []),
  (26, 2, 1, kBlockingMode, []),
  (26, 2, 1, kBlockingIpv4, []),
  (26, 2, 1, kBlockingIpv6, []),
  (26, 2, 0, kBlockedResponseTtl, []),
  (26, 2, 5, kProtectionDisabledUntil, []),
  (26, 2, 1, kParentalBlockHost, []),
  (26, 2, 1, kSafebrowsingBlockHost, []),
  -- migrateTo28
  (28, 0, 3, kDns, []),
  (28, 0, 2, kAllServers, []),
  (28, 0, 2, kFastestAddr, []),
  -- migrateTo29
  (29, 0, 4, kFilters, []),
  (29, 0, 1, kUrl, []),
  (29, 0, 3, kFiltering, []),
  -- Migrate
  (100, 0, 0, kSchemaVersion, []),
  -- moveVal
  (111, 0, 7, [], []),
  -- moveSameVal
  (112, 1, 7, [], []),
  -- replaceDot
  (122, 0, 3, [], []),
  (122, 0, 4, kIgnored, [])
]

def deleteSig : List (Nat × List Nat) := [
  (5, kAuthPass),
  (8, kBindHost),
  (11, kRlimitNofile),
  (16, kStatisticsInterval),
  (23, kBindHost),
  (23, kBindPort),
  (23, kWebSessionTtl),
  (28, kAllServers),
  (28, kFastestAddr),
  (111, [])
]

def strListSig : List (Nat × List (List Nat)) := [
  (6, [kIp, kMac]),
  (27, [kQuerylog, kStatistics]),
  (29, [[]]),
  (121, [[], []])
]

end AGH.C13
