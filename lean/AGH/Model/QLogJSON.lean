/-
C07 model of the string level of the entry codec: how `encoding/json`
(HTML-escaping encoder, as `json.NewEncoder` in `flushLogBuffer` and
`json.Marshal`) writes a string value, and how the decoder reads it back.
Byte level; bytes ≥ 0x80 are parts of valid UTF-8 other than U+2028/U+2029
(written raw).  Used to justify treating a file line as the entry it encodes
for the string fields (QH, CID, Upstream, rule texts, …) and the
`jsonEscaped` test of `quickMatch`.  Core Lean only.
-/
import AGH.Model.QLog
namespace AGH.C07
open AGH

def hexLower (n : Nat) : Nat := if n < 10 then 48 + n else 87 + n

/-- `appendString` of encoding/json for one byte (escapeHTML = true). -/
def escapeByte (b : Nat) : Bytes :=
  if b = 34 then [92, 34]
  else if b = 92 then [92, 92]
  else if b = 8 then [92, 98]
  else if b = 12 then [92, 102]
  else if b = 10 then [92, 110]
  else if b = 13 then [92, 114]
  else if b = 9 then [92, 116]
  else if b < 32 ∨ b = 60 ∨ b = 62 ∨ b = 38 then [92, 117, 48, 48, hexLower (b / 16), hexLower (b % 16)]
  else [b]

/-- The bytes between the quotes of the JSON string for `s`. -/
def escape (s : Bytes) : Bytes := s.flatMap escapeByte

def hexVal (c : Nat) : Option Nat :=
  if 48 ≤ c ∧ c ≤ 57 then some (c - 48)
  else if 97 ≤ c ∧ c ≤ 102 then some (c - 87)
  else if 65 ≤ c ∧ c ≤ 70 then some (c - 55)
  else none

/-- One-letter escapes of the decoder (`unquoteBytes`). -/
def simpleEsc (c : Nat) : Option Nat :=
  if c = 34 ∨ c = 92 ∨ c = 47 ∨ c = 39 then some c
  else if c = 98 then some 8
  else if c = 102 then some 12
  else if c = 110 then some 10
  else if c = 114 then some 13
  else if c = 116 then some 9
  else none

/-- `\uXXXX` for code points below 0x80 (all the encoder writes for ASCII). -/
def uEsc (h1 h2 h3 h4 : Nat) : Option Nat :=
  match hexVal h1, hexVal h2, hexVal h3, hexVal h4 with
  | some a, some b, some c, some d =>
    let v := ((a * 16 + b) * 16 + c) * 16 + d
    if v < 128 then some v else none
  | _, _, _, _ => none

/-- The decoder on the bytes between the quotes; `none` = not a string body the
model covers (raw quote or control byte, bad escape, `\u` ≥ 0x80). -/
def unescape : Bytes → Option Bytes
  | [] => some []
  | [92] => none
  | 92 :: 117 :: h1 :: h2 :: h3 :: h4 :: r =>
    match uEsc h1 h2 h3 h4, unescape r with
    | some v, some t => some (v :: t)
    | _, _ => none
  | 92 :: c :: r =>
    match simpleEsc c, unescape r with
    | some v, some t => some (v :: t)
    | _, _ => none
  | b :: r =>
    if b = 34 ∨ b < 32 then none
    else match unescape r with
      | some t => some (b :: t)
      | none => none

/-- `readJSONValue` after the key: everything up to the next quote. -/
def rawValue (afterKey : Bytes) : Bytes := afterKey.takeWhile (· ≠ 34)

end AGH.C07
