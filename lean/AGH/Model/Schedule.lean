/-
C18 model: the weekly pause schedule of blocked services
(internal/schedule/schedule.go; aghhttp.JSONDuration in internal/aghhttp/json.go;
golibs timeutil.Duration; the two consultation sites in internal/filtering).

What is transcribed here is the code of AdGuard Home.  What is NOT computed here
(oracles, shipped with every case by the harness and named as parameters):
  * the time-zone database: a zone is a function `off : Int → Int` from UTC
    seconds to the UTC offset in seconds (`time.Location.lookup`); the model
    only ever needs its value at the queried instant;
  * `time.LoadLocation` succeeding or not (`tzOK`);
  * `encoding/json` / `yaml.v3` turning a document into the configuration
    structs (`Conf` below is what they deliver);
  * float64 arithmetic in `JSONDuration` outside the range where it is exact on
    integers (`jsonDurDecode` answers `none` = "not modelled" there).
Durations are nanoseconds (`time.Duration`), as unbounded `Int`s (no operation
of the code on them can overflow int64: comparisons, `d - d%m`).
Core Lean only.
-/
import AGH.Model.Bytes
namespace AGH.C18
open AGH

/-! ### Constants (package time) -/

def nsPerSec : Int := 1000000000
def nsPerMinute : Int := 60000000000
def nsPerHour : Int := 3600000000000
/-- `maxDayRange = 24 * time.Hour` -/
def maxDayRange : Int := 86400000000000
def secondsPerDay : Int := 86400

/-! ### dayRange -/

/-- `dayRange{start, end}` (nanoseconds from the beginning of the day). -/
structure DayRange where
  start : Int
  stop : Int
deriving DecidableEq, Repr, Inhabited

def DayRange.zero : DayRange := ⟨0, 0⟩

/-- `dayRange.contains`: `r.start <= offset && offset < r.end`. -/
def DayRange.contains (r : DayRange) (offset : Int) : Bool :=
  decide (r.start ≤ offset) && decide (offset < r.stop)

/-- Seven values indexed by `time.Weekday` (0 = Sunday … 6 = Saturday): Go's `[7]T`. -/
structure Week (α : Type) where
  sun : α
  mon : α
  tue : α
  wed : α
  thu : α
  fri : α
  sat : α
deriving DecidableEq, Repr

/-- `a[wd]` for `wd : time.Weekday`.  The only index ever used is
`t.Weekday()`, which `weekdayOf` below shows to be `< 7`; for completeness
indices `≥ 6` read the last element (no Go execution reaches `> 6`). -/
def Week.get {α} (w : Week α) : Nat → α
  | 0 => w.sun | 1 => w.mon | 2 => w.tue | 3 => w.wed | 4 => w.thu | 5 => w.fri | _ => w.sat

def Week.map {α β} (f : α → β) (w : Week α) : Week β :=
  ⟨f w.sun, f w.mon, f w.tue, f w.wed, f w.thu, f w.fri, f w.sat⟩

def Week.toList {α} (w : Week α) : List α := [w.sun, w.mon, w.tue, w.wed, w.thu, w.fri, w.sat]

def Week.const {α} (a : α) : Week α := ⟨a, a, a, a, a, a, a⟩

/-- `for i, d := range days { … if err != nil { return … } }`: left to right,
stops at the first failure. -/
def Week.mapM {α β ε} (f : Nat → α → Except ε β) (w : Week α) : Except ε (Week β) := do
  let a0 ← f 0 w.sun
  let a1 ← f 1 w.mon
  let a2 ← f 2 w.tue
  let a3 ← f 3 w.wed
  let a4 ← f 4 w.thu
  let a5 ← f 5 w.fri
  let a6 ← f 6 w.sat
  pure ⟨a0, a1, a2, a3, a4, a5, a6⟩

/-- `schedule.Weekly`: `location` is represented by its name
(`w.location.String()`), the zone data behind it is the oracle `off`. -/
structure Weekly where
  loc : Bytes
  days : Week DayRange
deriving DecidableEq, Repr

/-! ### Contains (schedule.go:69-88, repaired form: wall-clock time of day) -/

/-- An instant: `time.Time` as Unix seconds + nanoseconds within the second. -/
structure Instant where
  sec : Int
  nsec : Nat
deriving DecidableEq, Repr

/-- `t.absSec()` up to Go's constant epoch shift.  Go adds
`unixToInternal + internalToAbsolute` (a whole number of 400-year cycles, hence
of weeks and days) so that the value is a non-negative `uint64`; unsigned `/`
and `%` on the shifted value are floor division and Euclidean remainder on the
unshifted one, which is what `Int./` and `Int.%` are. -/
def absSec (offset : Int) (t : Instant) : Int := t.sec + offset

/-- `absSeconds.days().weekday()`; 1970-01-01 was a Thursday (= 4). -/
def weekdayOf (abs : Int) : Nat := ((abs / secondsPerDay + 4) % 7).toNat

/-- `absSeconds.clock()`: hour, minute, second. -/
def clockOf (abs : Int) : Int × Int × Int :=
  let sec := abs % secondsPerDay
  let hour := sec / 3600
  let sec := sec - hour * 3600
  let min := sec / 60
  let sec := sec - min * 60
  (hour, min, sec)

/-- The `offset` computed in `Weekly.Contains` from `t.Clock()` and `t.Nanosecond()`. -/
def clockOffset (abs : Int) (nsec : Nat) : Int :=
  let (hour, min, sec) := clockOf abs
  hour * nsPerHour + min * nsPerMinute + sec * nsPerSec + (nsec : Int)

/-- `(*Weekly).Contains(t)`: `off` is the zone of `w.location`. -/
def contains (off : Int → Int) (w : Weekly) (t : Instant) : Bool :=
  let abs := absSec (off t.sec) t          -- t = t.In(w.location)
  let wd := weekdayOf abs                  -- wd := t.Weekday()
  let dr := w.days.get wd                  -- dr := w.days[wd]
  dr.contains (clockOffset abs t.nsec)

/-- The pre-repair form of `Contains` (finding F8, commit before ed3c78d), kept
only so that `Props/C18.lean` can show why it was wrong: the offset was the time
ELAPSED since the instant `mid` of local midnight (`t.Sub(time.Date(y,m,d,0,0,0,0,loc))`). -/
def containsElapsed (off : Int → Int) (w : Weekly) (mid : Int) (t : Instant) : Bool :=
  let abs := absSec (off t.sec) t
  (w.days.get (weekdayOf abs)).contains ((t.sec - mid) * nsPerSec + (t.nsec : Int))

/-! ### Consultation sites (filtering/blocked.go:89-101, filter.go:636-649)

`if !bsvc.Schedule.Contains(time.Now()) { d.ApplyBlockedServicesList(setts, bsvc.IDs) }` -/

/-- Are the rules of the configured blocked services applied to a request
handled at instant `now`? -/
def servicesApplied (off : Int → Int) (w : Weekly) (now : Instant) : Bool :=
  !contains off w now

/-! ### Validation (schedule.go: dayRange.validate, Weekly.validate) -/

inductive VErr
  | startNeg | endNeg | startGeEnd | startGeMax | endGtMax | startNotMinutes | endNotMinutes
deriving DecidableEq, Repr

/-- `dayRange.validate` -/
def DayRange.validate (r : DayRange) : Except VErr Unit :=
  if r = DayRange.zero then .ok ()
  else if r.start < 0 then .error .startNeg
  else if r.stop < 0 then .error .endNeg
  else if r.start ≥ r.stop then .error .startGeEnd
  else if r.start ≥ maxDayRange then .error .startGeMax
  else if r.stop > maxDayRange then .error .endGtMax
  else .ok ()

/-- `time.Duration.Truncate`: `d - d%m` with Go's truncated `%`. -/
def truncate (d m : Int) : Int := if m ≤ 0 then d else d - Int.tmod d m

/-- `(*Weekly).validate` -/
def validate (r : DayRange) : Except VErr Unit :=
  match r.validate with
  | .error e => .error e
  | .ok () =>
    let start := truncate r.start nsPerMinute
    let stop := truncate r.stop nsPerMinute
    if start ≠ r.start then .error .startNotMinutes
    else if stop ≠ r.stop then .error .endNotMinutes
    else .ok ()

/-! ### Configuration structs and (un)marshalling, after the library parse -/

/-- `weeklyConfigJSON` / `weeklyConfigYAML` as delivered by `json.Unmarshal` /
`yaml.Node.Decode`: the time-zone name and, per day, the two durations in
nanoseconds (`none` = JSON `nil` pointer; YAML days are never `none`). -/
structure Conf where
  tz : Bytes
  days : Week (Option DayRange)
deriving DecidableEq, Repr

inductive DErr
  | tz                          -- time.LoadLocation failed
  | day (i : Nat) (e : VErr)    -- "weekday %s: bad day range: …"
deriving DecidableEq, Repr

/-- "UTC" -/
def utcName : Bytes := [85, 84, 67]
/-- "Local" -/
def localName : Bytes := [76, 111, 99, 97, 108]

/-- `time.LoadLocation(name).String()`: `""` loads UTC, whose name is `"UTC"`. -/
def locName (tz : Bytes) : Bytes := if tz = [] then utcName else tz

/-- `UnmarshalJSON` / `UnmarshalYAML` after the library parse. -/
def decodeConf (tzOK : Bytes → Bool) (c : Conf) : Except DErr Weekly :=
  if !tzOK c.tz then .error .tz
  else
    match c.days.mapM (fun i d =>
        let r := d.getD DayRange.zero      -- var r dayRange; if d != nil { r = … }
        match validate r with
        | .ok () => .ok r
        | .error e => .error (DErr.day i e)) with
    | .error e => .error e
    | .ok days => .ok ⟨locName c.tz, days⟩

/-- `toDayConfigJSON`: nil for the zero range. -/
def toDayConfJSON (r : DayRange) : Option DayRange := if r = DayRange.zero then none else some r

/-- `MarshalJSON`: the struct handed to `json.Marshal`. -/
def encodeConfJSON (w : Weekly) : Conf := ⟨w.loc, w.days.map toDayConfJSON⟩

/-- `MarshalYAML`: the struct handed to yaml.v3.  `omitempty` drops a day whose
two fields are zero and the decoder leaves an absent day zero, which is the
same `Conf`; `renderYAML` below omits them. -/
def encodeConfYAML (w : Weekly) : Conf := ⟨w.loc, w.days.map some⟩

/-- `EmptyWeekly()` (`time.Local` has the name "Local"). -/
def emptyWeekly : Weekly := ⟨localName, Week.const DayRange.zero⟩
/-- `FullWeekly()` -/
def fullWeekly : Weekly := ⟨localName, Week.const ⟨0, maxDayRange⟩⟩

/-! ### Number and duration tokens -/

def isDigit (c : Nat) : Bool := decide (48 ≤ c) && decide (c ≤ 57)

/-- Decimal digits of a natural number (`strconv` for integers), ASCII codes. -/
def renderNat (n : Nat) : Bytes :=
  if n < 10 then [48 + n] else renderNat (n / 10) ++ [48 + n % 10]
termination_by n
decreasing_by omega

/-- `leadingInt` of package time / digit loop of `strconv`: consumes the longest
run of digits, returns the value and the rest. -/
def leadingInt : Nat → Bytes → Nat × Bytes
  | acc, [] => (acc, [])
  | acc, c :: cs => if isDigit c then leadingInt (acc * 10 + (c - 48)) cs else (acc, c :: cs)

def renderInt (i : Int) : Bytes :=
  if i < 0 then 45 :: renderNat i.natAbs else renderNat i.natAbs

/-- `JSONDuration.MarshalJSON`: `float64(d)/1e6` printed with
`strconv.AppendFloat(…, 'f', -1, 64)`.  Modelled where the quotient is an
integer below 2^53 (then the float is exact and prints as its decimal digits);
`none` = not modelled.  Every duration of a valid schedule is in this domain. -/
def jsonDurEncode (ns : Int) : Option Bytes :=
  if ns % 1000000 = 0 ∧ ns.natAbs ≤ 9007199254000000 then some (renderInt (ns / 1000000)) else none

/-- A leading '-' (JSON numbers have no '+'). -/
def stripMinus : Bytes → Bool × Bytes
  | 45 :: r => (true, r)
  | r => (false, r)

/-- The optional sign of `time.ParseDuration`. -/
def stripSign : Bytes → Bool × Bytes
  | 45 :: r => (true, r)
  | 43 :: r => (false, r)
  | r => (false, r)

/-- `JSONDuration.UnmarshalJSON`: `int64(ParseFloat(tok) * 1e6)`.  Modelled for
integer literals `-?[0-9]+` with `|ms| * 1e6 < 2^53` (conversion, product and
truncation are then exact); `none` = not modelled (fractions, exponents, huge
values: float64 behaviour is an oracle there). -/
def jsonDurDecode (tok : Bytes) : Option Int :=
  let p := stripMinus tok
  if p.2 = [] then none
  else
    let q := leadingInt 0 p.2
    if q.2 = [] then
      (if q.1 ≤ 9007199254 then some (if p.1 then -((q.1 : Int) * 1000000) else (q.1 : Int) * 1000000) else none)
    else none

/-- `timeutil.Duration.String` (= `MarshalText`) on the durations a valid
schedule holds: non-negative whole minutes.  `time.Duration.String` gives
"XhYm0s" / "Ym0s" / "0s"; timeutil cuts the trailing "0s" when the minutes are
non-zero and "0m0s" when they are zero.  `none` = not modelled. -/
def yamlDurEncode (ns : Int) : Option Bytes :=
  if ns < 0 ∨ ns % nsPerMinute ≠ 0 then none
  else
    let mins := (ns / nsPerMinute).toNat
    let h := mins / 60
    let m := mins % 60
    if mins = 0 then some [48, 115]                                   -- "0s"
    else if m = 0 then some (renderNat h ++ [104])                      -- "Xh"
    else if h = 0 then some (renderNat m ++ [109])                      -- "Ym"
    else some (renderNat h ++ [104] ++ renderNat m ++ [109])            -- "XhYm"

/-- Result of parsing a duration token. -/
inductive PRes
  | ok (ns : Int)
  | err              -- time.ParseDuration returns an error
  | unmodelled       -- fractions, values near the int64 range
  | fuel             -- never produced (`Props`: `C18_parseDur_total`)
deriving DecidableEq, Repr

/-- `unitMap` of package time. -/
def unitNs (u : Bytes) : Option Int :=
  if u = [110, 115] then some 1                       -- ns
  else if u = [117, 115] then some 1000               -- us
  else if u = [194, 181, 115] then some 1000          -- µs (U+00B5)
  else if u = [206, 188, 115] then some 1000          -- μs (U+03BC)
  else if u = [109, 115] then some 1000000            -- ms
  else if u = [115] then some 1000000000              -- s
  else if u = [109] then some 60000000000             -- m
  else if u = [104] then some 3600000000000           -- h
  else none

/-- The unit scan: up to the next '.' or digit. -/
def spanUnit : Bytes → Bytes × Bytes
  | [] => ([], [])
  | c :: cs =>
    if c = 46 ∨ isDigit c then ([], c :: cs)
    else let (u, r) := spanUnit cs; (c :: u, r)

/-- Values at or above this are left to the oracle (Go's overflow checks sit at 2^63). -/
def durModelLimit : Int := 4611686018427387904   -- 2^62

/-- The loop `for s != ""` of `time.ParseDuration` for integer coefficients. -/
def parseDurLoop : Nat → Int → Bytes → PRes
  | 0, _, _ => .fuel
  | fuel + 1, d, s =>
    match s with
    | [] => .ok d
    | c :: _ =>
      if !(c = 46 ∨ isDigit c) then .err              -- "invalid duration"
      else
        let (v, s1) := leadingInt 0 s
        match s1 with
        | 46 :: _ => .unmodelled                        -- fraction
        | _ =>
          -- (`!pre && !post` cannot happen here: `c` is a digit, so `leadingInt` consumed it)
          let (u, s2) := spanUnit s1
          if u = [] then .err                         -- "missing unit"
          else match unitNs u with
            | none => .err                            -- "unknown unit"
            | some unit =>
              let d' := d + (v : Int) * unit
              if d' ≥ durModelLimit then .unmodelled
              else parseDurLoop fuel d' s2

/-- `time.ParseDuration` = `timeutil.Duration.UnmarshalText`. -/
def parseDur (tok : Bytes) : PRes :=
  let p := stripSign tok
  if p.2 = [48] then .ok 0
  else if p.2 = [] then .err
  else match parseDurLoop (p.2.length + 1) 0 p.2 with
    | .ok d => .ok (if p.1 then -d else d)
    | r => r

/-! ### Documents (token level) and their byte rendering -/

/-- A serialised schedule after the library has split it into tokens: the
time-zone name and per day the two duration tokens. -/
structure Doc where
  tz : Bytes
  days : Week (Option (Bytes × Bytes))
deriving DecidableEq, Repr

def encodeDay (enc : Int → Option Bytes) (d : Option DayRange) : Option (Option (Bytes × Bytes)) :=
  match d with
  | none => some none
  | some r => match enc r.start, enc r.stop with
    | some a, some b => some (some (a, b))
    | _, _ => none

def Week.mapO {α β} (f : α → Option β) (w : Week α) : Option (Week β) :=
  match f w.sun, f w.mon, f w.tue, f w.wed, f w.thu, f w.fri, f w.sat with
  | some a0, some a1, some a2, some a3, some a4, some a5, some a6 => some ⟨a0, a1, a2, a3, a4, a5, a6⟩
  | _, _, _, _, _, _, _ => none

/-- Conf → tokens (`none`: some duration is outside the modelled domain). -/
def docOfConf (enc : Int → Option Bytes) (c : Conf) : Option Doc :=
  match c.days.mapO (encodeDay enc) with
  | some days => some ⟨c.tz, days⟩
  | none => none

def decodeDay (dec : Bytes → Option Int) (d : Option (Bytes × Bytes)) : Option (Option DayRange) :=
  match d with
  | none => some none
  | some (a, b) => match dec a, dec b with
    | some s, some e => some (some ⟨s, e⟩)
    | _, _ => none

/-- tokens → Conf (`none`: some token is an error or outside the modelled domain). -/
def confOfDoc (dec : Bytes → Option Int) (d : Doc) : Option Conf :=
  match d.days.mapO (decodeDay dec) with
  | some days => some ⟨d.tz, days⟩
  | none => none

def yamlDurDecode (tok : Bytes) : Option Int :=
  match parseDur tok with
  | .ok d => some d
  | _ => none

/-- A YAML document never has a JSON-nil day: an omitted day decodes to the
zero struct. -/
def yamlAbsentAsZero (c : Conf) : Conf := ⟨c.tz, c.days.map (fun d => some (d.getD DayRange.zero))⟩

/-- `MarshalJSON` down to tokens. -/
def encodeJSON (w : Weekly) : Option Doc := docOfConf jsonDurEncode (encodeConfJSON w)
/-- `UnmarshalJSON` from tokens (`none` = outside the modelled token domain). -/
def decodeJSON (tzOK : Bytes → Bool) (d : Doc) : Option (Except DErr Weekly) :=
  (confOfDoc jsonDurDecode d).map (decodeConf tzOK)

/-- `omitempty`: the zero day is left out of the YAML document. -/
def yamlOmitEmpty (d : Option DayRange) : Option DayRange :=
  match d with
  | some r => if r = DayRange.zero then none else some r
  | none => none

/-- `MarshalYAML` down to tokens. -/
def encodeYAML (w : Weekly) : Option Doc :=
  docOfConf yamlDurEncode ⟨w.loc, (encodeConfYAML w).days.map yamlOmitEmpty⟩
/-- `UnmarshalYAML` from tokens. -/
def decodeYAML (tzOK : Bytes → Bool) (d : Doc) : Option (Except DErr Weekly) :=
  (confOfDoc yamlDurDecode d).map (fun c => decodeConf tzOK (yamlAbsentAsZero c))

/-- Characters of a location name that both encoders emit verbatim (no JSON
escape, YAML plain scalar): letters, digits, `_ - + /`.  -/
def plainNameChar (c : Nat) : Bool :=
  Bytes.isAlnumB c || c = 95 || c = 45 || c = 43 || c = 47

def dayNames : List Bytes :=
  ["sun", "mon", "tue", "wed", "thu", "fri", "sat"].map Bytes.ofString

/-- `json.Marshal(weeklyConfigJSON)`: days first (omitempty), `time_zone` last.
`none`: the name needs escaping (not modelled). -/
def renderJSON (d : Doc) : Option Bytes :=
  if d.tz.all plainNameChar then
    let days := (dayNames.zip d.days.toList).flatMap (fun (nm, x) =>
      match x with
      | none => []
      | some (a, b) =>
        Bytes.ofString "\"" ++ nm ++ Bytes.ofString "\":{\"start\":" ++ a ++ Bytes.ofString ",\"end\":" ++ b
          ++ Bytes.ofString "},")
    some (Bytes.ofString "{" ++ days ++ Bytes.ofString "\"time_zone\":\"" ++ d.tz ++ Bytes.ofString "\"}")
  else none

/-- `yaml.Marshal(weeklyConfigYAML)`: `time_zone` first, 4-space indentation. -/
def renderYAML (d : Doc) : Option Bytes :=
  if d.tz.all plainNameChar && d.tz ≠ [] then
    let days := (dayNames.zip d.days.toList).flatMap (fun (nm, x) =>
      match x with
      | none => []
      | some (a, b) =>
        nm ++ Bytes.ofString ":\n    start: " ++ a ++ Bytes.ofString "\n    end: " ++ b ++ Bytes.ofString "\n")
    some (Bytes.ofString "time_zone: " ++ d.tz ++ Bytes.ofString "\n" ++ days)
  else none

/-! ### Request path on a long-lived filter with configuration updates

`filtering/blocked.go`: `handleBlockedServicesUpdate` replaces
`d.conf.BlockedServices`, `handleBlockedServicesSet` replaces its `IDs`;
`ApplyBlockedServices` / `ApplyAdditionalFiltering` read the configuration and
the clock on every request.  Nothing else is remembered between requests. -/

/-- A blocked-services configuration: the pause schedule and how many service
IDs the list holds. -/
structure SvcConf where
  sched : Weekly
  nIDs : Nat
deriving DecidableEq, Repr

/-- What the filter holds between requests. -/
structure ReqState where
  global : SvcConf
  client : Option SvcConf      -- the requesting client's own blocked services, if any
deriving DecidableEq, Repr

inductive ReqOp
  | update (g : SvcConf)            -- PUT /control/blocked_services/update
  | setIDs (n : Nat)                -- POST /control/blocked_services/set (deprecated)
  | client (c : Option SvcConf)     -- the client's settings are changed

def ReqState.init : ReqState := ⟨⟨emptyWeekly, 0⟩, none⟩

def ReqState.step (s : ReqState) : ReqOp → ReqState
  | .update g => { s with global := g }
  | .setIDs n => { s with global := { s.global with nIDs := n } }
  | .client c => { s with client := c }

/-- One request at instant `now`: how many of the global and of the client's
service IDs end up in `setts.ServicesRules`.  `clientSite = false`:
`ApplyBlockedServices`; `true`: `ApplyAdditionalFiltering`. -/
def requestApplied (offG offC : Int → Int) (s : ReqState) (clientSite : Bool) (now : Instant) : Nat × Nat :=
  -- ApplyBlockedServices: setts.ServicesRules = []; if !Schedule.Contains(now) { append IDs }
  let g := if !contains offG s.global.sched now then s.global.nIDs else 0
  if !clientSite then (g, 0)
  else match s.client with
    | none => (g, 0)                                     -- setts.BlockedServices == nil
    | some c =>                                          -- setts.ServicesRules = nil
      (0, if !contains offC c.sched now then c.nIDs else 0)

/-! ### Several schedule values at once (no sharing)

Go hands schedules around as `*Weekly`; the decoders write through the receiver
(`*w = weekly`) and `encoding/json` / `yaml.v3` reuse a non-nil pointer found in
the target.  In the model a value is a value: decoding INTO slot `i` replaces
slot `i` and nothing else, and `EmptyWeekly()` is the constant `emptyWeekly`. -/

inductive AliasOp
  | newEmpty                         -- slots = append(slots, EmptyWeekly())
  | newFull                          -- FullWeekly()
  | clone (k : Nat)                  -- slots[k].Clone()
  | decodeInto (i : Nat) (res : Except DErr Weekly)   -- Unmarshal into a target whose field is slots[i]

def aliasStep (slots : List Weekly) : AliasOp → List Weekly
  | .newEmpty => slots ++ [emptyWeekly]
  | .newFull => slots ++ [fullWeekly]
  | .clone k => match slots[k]? with
    | some w => slots ++ [w]
    | none => slots
  | .decodeInto i (.ok w) => slots.set i w
  | .decodeInto _ (.error _) => slots              -- `*w = weekly` is reached only on success

/-- The slot an operation may change (`none`: it only appends). -/
def AliasOp.target : AliasOp → Option Nat
  | .decodeInto i _ => some i
  | _ => none

/-! ### What one decode case shows (driver output, spec monitor input) -/

/-- Observation of one `Unmarshal…` call followed (on success) by
`Marshal…`/`Unmarshal…` again. -/
inductive DecodeObs
  | rejected
  | accepted (loc : Bytes) (days : Week DayRange) (roundTripSame : Bool)

/-- Encode `w`, decode the tokens again, compare. -/
def roundTripSame (yaml : Bool) (tzOK : Bytes → Bool) (w : Weekly) : Bool :=
  match (if yaml then encodeYAML w else encodeJSON w) with
  | some d =>
    (match (if yaml then decodeYAML tzOK d else decodeJSON tzOK d) with
     | some (.ok w') => w' == w
     | _ => false)
  | none => false

/-- The model's answer to one decode case (`parseOK` = the library accepted the text). -/
def modelDecode (yaml : Bool) (parseOK : Bool) (tzOK : Bytes → Bool) (c : Conf) : DecodeObs :=
  if !parseOK then .rejected
  else match decodeConf tzOK (if yaml then yamlAbsentAsZero c else c) with
    | .error _ => .rejected
    | .ok w => .accepted w.loc w.days (roundTripSame yaml tzOK w)

end AGH.C18
