/-
C17 model: local files as filter-list sources.

Transcribes
  * `path/filepath.Match` (Go 1.26, Unix): `Match`, `scanChunk`, `matchChunk`,
    `getEsc`, and `unicode/utf8.DecodeRuneInString`,
  * `internal/filtering/path.go pathMatchesAny` (including its two panics),
  * `internal/filtering/filtering.go New` (pattern validation by
    `filepath.Match(p, "test")`),
  * `internal/filtering/http.go validateFilterURL`,
  * `internal/filtering/filter.go reader`,
  * the three entry points that reach `reader`: `handleFilteringAddURL`,
    `handleFilteringSetURL` and the refresh (`tryRefreshFilters`).

Loops whose Go variant is "the rest of a string gets shorter" take a fuel
argument (initialised with length + 1); running out of fuel is the explicit
result `MErr.fuel`, never a default value.
-/
import AGH.Model.Bytes
import AGH.Model.PathClean
namespace AGH.C17
open AGH AGH.Bytes

/-! ## unicode/utf8.DecodeRuneInString -/

def runeError : Nat := 0xFFFD

def isCont (b : Nat) : Bool := decide (0x80 ≤ b) && decide (b ≤ 0xBF)

/-- `utf8.DecodeRuneInString s = (rune, size)`. -/
def decodeRune (s : Bytes) : Nat × Nat :=
  match s with
  | [] => (runeError, 0)
  | b0 :: t =>
    if b0 < 0x80 then (b0, 1)
    else if b0 < 0xC2 then (runeError, 1)
    else if b0 < 0xE0 then
      match t with
      | b1 :: _ => if isCont b1 then ((b0 % 32) * 64 + b1 % 64, 2) else (runeError, 1)
      | _ => (runeError, 1)
    else if b0 < 0xF0 then
      let lo := if b0 = 0xE0 then 0xA0 else 0x80
      let hi := if b0 = 0xED then 0x9F else 0xBF
      match t with
      | b1 :: b2 :: _ =>
        if decide (lo ≤ b1) && decide (b1 ≤ hi) && isCont b2
        then ((b0 % 16) * 4096 + (b1 % 64) * 64 + b2 % 64, 3) else (runeError, 1)
      | _ => (runeError, 1)
    else if b0 < 0xF5 then
      let lo := if b0 = 0xF0 then 0x90 else 0x80
      let hi := if b0 = 0xF4 then 0x8F else 0xBF
      match t with
      | b1 :: b2 :: b3 :: _ =>
        if decide (lo ≤ b1) && decide (b1 ≤ hi) && isCont b2 && isCont b3
        then ((b0 % 8) * 262144 + (b1 % 64) * 4096 + (b2 % 64) * 64 + b3 % 64, 4)
        else (runeError, 1)
      | _ => (runeError, 1)
    else (runeError, 1)

/-! ## path/filepath.Match -/

inductive MErr where
  | badPattern   -- filepath.ErrBadPattern
  | fuel         -- model artefact: never produced when fuel = length + 1
  deriving DecidableEq, Repr

instance {ε α : Type} [DecidableEq ε] [DecidableEq α] : DecidableEq (Except ε α) := fun a b =>
  match a, b with
  | .ok x, .ok y => if h : x = y then isTrue (by rw [h]) else isFalse (by intro hh; cases hh; exact h rfl)
  | .error x, .error y => if h : x = y then isTrue (by rw [h]) else isFalse (by intro hh; cases hh; exact h rfl)
  | .ok _, .error _ => isFalse (by intro hh; cases hh)
  | .error _, .ok _ => isFalse (by intro hh; cases hh)

def cStar : Nat := 42      -- '*'
def cQuest : Nat := 63     -- '?'
def cLBr : Nat := 91       -- '['
def cRBr : Nat := 93       -- ']'
def cBsl : Nat := 92       -- '\\'
def cCaret : Nat := 94     -- '^'

/-- `getEsc`: a possibly escaped character of a character class.  Go returns
`(r, nchunk, err)`; every caller returns on `err`, so `Except` loses nothing. -/
def getEsc (chunk : Bytes) : Except MErr (Nat × Bytes) :=
  match chunk with
  | [] => .error .badPattern
  | c :: cs =>
    if c = dash ∨ c = cRBr then .error .badPattern
    else
      let chunk1 := if c = cBsl then cs else c :: cs
      if chunk1 = [] then .error .badPattern
      else
        let (r, n) := decodeRune chunk1
        if r = runeError ∧ n = 1 then .error .badPattern
        else
          let nchunk := chunk1.drop n
          if nchunk = [] then .error .badPattern else .ok (r, nchunk)

/-- The `for { … }` loop of `matchChunk` that parses the ranges of one class.
`r` is the rune of the name under test; result = (`match`, rest of chunk). -/
def classLoop : Nat → Bytes → Nat → Nat → Bool → Except MErr (Bool × Bytes)
  | 0, _, _, _, _ => .error .fuel
  | f + 1, chunk, r, nrange, m =>
    if chunk.head? = some cRBr ∧ nrange > 0 then .ok (m, chunk.tail)
    else
      match getEsc chunk with
      | .error e => .error e
      | .ok (lo, chunk1) =>
        -- chunk1 is non-empty here, `chunk[0]` cannot panic
        if chunk1.head? = some dash then
          match getEsc chunk1.tail with
          | .error e => .error e
          | .ok (hi, chunk2) =>
            classLoop f chunk2 r (nrange + 1) (m || (decide (lo ≤ r) && decide (r ≤ hi)))
        else
          classLoop f chunk1 r (nrange + 1) (m || (decide (lo ≤ r) && decide (r ≤ lo)))

/-- `matchChunk chunk s`: `ok (some rest)` on a match, `ok none` when the match
failed (Go keeps scanning the chunk for syntax errors, so does this). -/
def matchChunkF : Nat → Bytes → Bytes → Bool → Except MErr (Option Bytes)
  | 0, _, _, _ => .error .fuel
  | _ + 1, [], s, failed => .ok (if failed then none else some s)
  | f + 1, c :: cs, s, failed0 =>
    let failed := failed0 || s.isEmpty
    if c = cLBr then
      let r := if failed then 0 else (decodeRune s).1
      let s1 := if failed then s else s.drop (decodeRune s).2
      let negated := cs.head? == some cCaret
      let chunk1 := if negated then cs.tail else cs
      match classLoop f chunk1 r 0 false with
      | .error e => .error e
      | .ok (m, chunk2) => matchChunkF f chunk2 s1 (failed || (m == negated))
    else if c = cQuest then
      if failed then matchChunkF f cs s true
      else matchChunkF f cs (s.drop (decodeRune s).2) (s.head? == some slash)
    else if c = cBsl then
      match cs with
      | [] => .error .badPattern
      | d :: ds =>
        if failed then matchChunkF f ds s true
        else matchChunkF f ds s.tail (s.head? != some d)
    else
      if failed then matchChunkF f cs s true
      else matchChunkF f cs s.tail (s.head? != some c)

def matchChunk (chunk s : Bytes) : Except MErr (Option Bytes) :=
  matchChunkF (chunk.length + 1) chunk s false

/-- Leading stars of `scanChunk`. -/
def dropStars : Bytes → Bool × Bytes
  | [] => (false, [])
  | c :: cs => if c = cStar then (true, (dropStars cs).2) else (false, c :: cs)

/-- The scanning loop of `scanChunk` (with its `inrange` heuristic): splits
before the first `*` that is not "in range". -/
def scanSplit : Bytes → Bool → Bytes × Bytes
  | [], _ => ([], [])
  | c :: rest, inr =>
    if c = cBsl then
      match rest with
      | [] => ([c], [])
      | d :: rest' => let r := scanSplit rest' inr; (c :: d :: r.1, r.2)
    else if c = cLBr then let r := scanSplit rest true; (c :: r.1, r.2)
    else if c = cRBr then let r := scanSplit rest false; (c :: r.1, r.2)
    else if c = cStar ∧ inr = false then ([], c :: rest)
    else let r := scanSplit rest inr; (c :: r.1, r.2)

/-- The `for i := 0; i < len(name) && name[i] != Separator; i++` loop: try the
chunk after skipping `i+1` bytes.  `last` = this is the last chunk. -/
def starLoop (chunk : Bytes) (last : Bool) : Bytes → Except MErr (Option Bytes)
  | [] => .ok none
  | c :: tl =>
    if c = slash then .ok none
    else
      match matchChunk chunk tl with
      | .error e => .error e
      | .ok (some t) => if last ∧ t ≠ [] then starLoop chunk last tl else .ok (some t)
      | .ok none => starLoop chunk last tl

/-- The `Pattern:` loop of `Match`. -/
def matchLoop : Nat → Bytes → Bytes → Except MErr Bool
  | 0, _, _ => .error .fuel
  | f + 1, pattern, name =>
    if pattern = [] then .ok name.isEmpty
    else
      let ds := dropStars pattern
      let star := ds.1
      let sc := scanSplit ds.2 false
      let chunk := sc.1
      let rest := sc.2
      if star ∧ chunk = [] then .ok (!name.contains slash)
      else
        match matchChunk chunk name with
        | .error e => .error e
        | .ok r =>
          let direct : Option Bytes :=
            match r with
            | some t => if t = [] ∨ rest ≠ [] then some t else none
            | none => none
          match direct with
          | some t => matchLoop f rest t
          | none =>
            if star then
              match starLoop chunk (rest = []) name with
              | .error e => .error e
              | .ok (some t) => matchLoop f rest t
              | .ok none => .ok false
            else .ok false

/-- `filepath.Match pattern name`. -/
def goMatch (pattern name : Bytes) : Except MErr Bool :=
  matchLoop (pattern.length + 1) pattern name

/-! ## internal/filtering -/

inductive Panic where
  | notAbs        -- "pathMatchesAny: filepath %q is not absolute" (or Abs failed)
  | badPattern    -- "pathMatchesAny: bad pattern"
  deriving DecidableEq, Repr

def matchAny : List Bytes → Bytes → Except Panic Bool
  | [], _ => .ok false
  | g :: gs, p =>
    match goMatch g p with
    | .error _ => .error .badPattern
    | .ok true => .ok true
    | .ok false => matchAny gs p

/-- `pathMatchesAny globs filePath`.  `filepath.Abs p` is `Clean p` for an
absolute `p` and `Join(cwd, p)` (which starts with `/`, so differs from `p`)
otherwise. -/
def pathMatchesAny (globs : List Bytes) (p : Bytes) : Except Panic Bool :=
  if globs = [] then .ok false
  else if !isAbs p || pathClean p != p then .error .notAbs
  else matchAny globs p

def testName : Bytes := [116, 101, 115, 116]   -- "test"

/-- `filtering.New`: index of the first pattern rejected by
`filepath.Match(p, "test")`, if any. -/
def confError : List Bytes → Nat → Option Nat
  | [], _ => none
  | g :: gs, i =>
    match goMatch g testName with
    | .error _ => some i
    | .ok _ => confError gs (i + 1)

/-- What the file system has at a (cleaned) path: oracle. -/
inductive Kind where
  | file | dir | missing
  deriving DecidableEq, Repr

inductive VRes where
  | ok | errStat | errNoMatch | errURL | panic (p : Panic)
  deriving DecidableEq, Repr

/-- `validateFilterURL`.  `kind` = `os.Stat (Clean loc)`; `urlOK` =
`url.ParseRequestURI` and `urlutil.ValidateHTTPURL` both succeed (oracle). -/
def validateFilterURL (pats : List Bytes) (loc : Bytes) (kind : Kind) (urlOK : Bool) : VRes :=
  if isAbs loc then
    let p := pathClean loc
    if kind = .missing then .errStat
    else match pathMatchesAny pats p with
      | .error e => .panic e
      | .ok false => .errNoMatch
      | .ok true => .ok
  else if urlOK then .ok else .errURL

inductive RRes where
  | http                  -- handed to the HTTP client
  | noMatch               -- "path %q does not match safe patterns"
  | opened (p : Bytes)    -- `os.Open p` is called
  | panic (p : Panic)
  deriving DecidableEq, Repr

/-- `(*DNSFilter).reader`. -/
def reader (pats : List Bytes) (loc : Bytes) : RRes :=
  if !isAbs loc then .http
  else
    let p := pathClean loc
    match pathMatchesAny pats p with
    | .error e => .panic e
    | .ok false => .noMatch
    | .ok true => .opened p

/-- The path handed to `os.Open`, if any. -/
def opens (pats : List Bytes) (loc : Bytes) : Option Bytes :=
  match reader pats loc with
  | .opened p => some p
  | _ => none

/-! ## Entry points -/

inductive Op where
  | add | setURL | refresh
  deriving DecidableEq, Repr

/-- One case: configuration, request and the oracles. -/
structure Env where
  pats : List Bytes
  loc : Bytes
  /-- what the file system has at `Clean loc` (absolute `loc` only) -/
  kind : Kind
  urlOK : Bool
  /-- the HTTP client gets status 200 and a non-empty list for `loc` -/
  fetchOK : Bool
  /-- `data.enabled` of set_url -/
  enabled : Bool

/-- Whose content is in the list's file under `data/filters` afterwards. -/
inductive Src where
  | none                 -- no file / empty
  | old                  -- the content stored before the operation
  | http                 -- what the HTTP server served
  | file (p : Bytes)     -- the content of the local file `p`
  | unknown              -- anything else (never produced by the model)
  deriving DecidableEq, Repr

inductive Cls where
  | ok | stat | noMatch | url | fetch
  deriving DecidableEq, Repr

inductive Obs where
  | confErr (i : Nat)                       -- filtering.New failed
  | panic (p : Panic)
  | done (status : Nat) (cls : Cls) (src : Src) (urlChanged : Bool)
  deriving DecidableEq, Repr

/-- `update` → `updateIntl` → `reader` + parse + `finalizeUpdate`:
`some src` = the list's file was replaced with that content. -/
def download (e : Env) : Except Panic (Option Src) :=
  match reader e.pats e.loc with
  | .panic p => .error p
  | .http => .ok (if e.fetchOK then some .http else none)
  | .noMatch => .ok none
  | .opened p => .ok (if e.kind = .file then some (.file p) else none)

def vcls : VRes → Cls
  | .errStat => .stat | .errNoMatch => .noMatch | .errURL => .url | _ => .ok

def runOp (op : Op) (e : Env) : Obs :=
  match confError e.pats 0 with
  | some i => .confErr i
  | none =>
    match op with
    | .add =>
      (match validateFilterURL e.pats e.loc e.kind e.urlOK with
       | .panic p => .panic p
       | .ok =>
         (match download e with
          | .error p => .panic p
          | .ok (some s) => .done 200 .ok s true
          | .ok none => .done 400 .fetch .none false)
       | v => .done 400 (vcls v) .none false)
    | .setURL =>
      (match validateFilterURL e.pats e.loc e.kind e.urlOK with
       | .panic p => .panic p
       | .ok =>
         if e.enabled then
           (match download e with
            | .error p => .panic p
            | .ok (some s) => .done 200 .ok s true
            | .ok none => .done 400 .fetch .old false)
         else .done 200 .ok .old true
       | v => .done 400 (vcls v) .old false)
    | .refresh =>
      (match download e with
       | .error p => .panic p
       | .ok (some s) => .done 200 .ok s false
       | .ok none => .done 400 .fetch .old false)

end AGH.C17
